// querytables.go: the tables of the filter language and of the index that the Coq models transcribe by hand,
// regenerated from the Go AST on every run (coq/Gen/QueryTables.v) and compared with the models in
// coq/Proofs/GenTablesOk.v: token type numbering (iota order), the keyword table (lookupIdentifier), the set of
// comparison operators (isComparisonOperator), the white-space bytes (skipWhitespace), the letter/digit ranges,
// and the constants of the LSH forest (leaf threshold, number of trees, search budget).
package main

import (
	"fmt"
	"go/ast"
	"go/token"
	"path/filepath"
	"strconv"
	"strings"
)

func init() { extraGenerators["QueryTables.v"] = genQueryTables }

func coqBytes(s string) string {
	parts := make([]string, 0, len(s))
	for _, b := range []byte(s) {
		parts = append(parts, strconv.Itoa(int(b)))
	}
	return "[" + strings.Join(parts, "; ") + "]"
}

func coqStrings(v []string) string {
	q := make([]string, len(v))
	for i, s := range v {
		q[i] = "\"" + s + "\""
	}
	return "[" + strings.Join(q, "; ") + "]"
}

// the TokenType const block, in iota order
func tokenTypes(f *ast.File) []string {
	for _, d := range f.Decls {
		gd, ok := d.(*ast.GenDecl)
		if !ok || gd.Tok != token.CONST {
			continue
		}
		var names []string
		isTok := false
		for i, sp := range gd.Specs {
			vs := sp.(*ast.ValueSpec)
			if i == 0 {
				if id, ok := vs.Type.(*ast.Ident); ok && id.Name == "TokenType" && len(vs.Values) == 1 {
					if v, ok := vs.Values[0].(*ast.Ident); ok && v.Name == "iota" {
						isTok = true
					}
				}
			} else if vs.Type != nil || len(vs.Values) != 0 {
				isTok = false
			}
			if len(vs.Names) != 1 {
				isTok = false
			}
			names = append(names, vs.Names[0].Name)
		}
		if isTok {
			return names
		}
	}
	die("query/lexer.go: no `TokenType = iota` const block of the expected shape")
	return nil
}

// lookupIdentifier: switch ident { case "A", "B": return TokenX ... default: return TokenIdentifier }
func keywordTable(f *ast.File) (rows [][2]string, dflt string) {
	fd := findFunc(f, "", "lookupIdentifier")
	if fd == nil || len(fd.Body.List) != 1 {
		die("lookupIdentifier: not a single switch")
	}
	sw, ok := fd.Body.List[0].(*ast.SwitchStmt)
	if !ok || sw.Init != nil {
		die("lookupIdentifier: not a single switch")
	}
	if id, ok := sw.Tag.(*ast.Ident); !ok || id.Name != fd.Type.Params.List[0].Names[0].Name {
		die("lookupIdentifier: the switch is not on the parameter")
	}
	for _, c := range sw.Body.List {
		cc := c.(*ast.CaseClause)
		if len(cc.Body) != 1 {
			die("lookupIdentifier: a case is not a single return")
		}
		ret, ok := cc.Body[0].(*ast.ReturnStmt)
		if !ok || len(ret.Results) != 1 {
			die("lookupIdentifier: a case is not a single return")
		}
		rid, ok := ret.Results[0].(*ast.Ident)
		if !ok {
			die("lookupIdentifier: a case returns something other than a constant")
		}
		if cc.List == nil {
			dflt = rid.Name
			continue
		}
		for _, e := range cc.List {
			bl, ok := e.(*ast.BasicLit)
			if !ok || bl.Kind != token.STRING {
				die("lookupIdentifier: a case label is not a string literal")
			}
			s, err := strconv.Unquote(bl.Value)
			if err != nil {
				die("lookupIdentifier: %v", err)
			}
			rows = append(rows, [2]string{s, rid.Name})
		}
	}
	if dflt == "" {
		die("lookupIdentifier: no default")
	}
	return
}

// isComparisonOperator: return p == A || p == B || ...
func orChain(e ast.Expr, param string, out *[]string) {
	switch x := e.(type) {
	case *ast.ParenExpr:
		orChain(x.X, param, out)
	case *ast.BinaryExpr:
		if x.Op == token.LOR {
			orChain(x.X, param, out)
			orChain(x.Y, param, out)
			return
		}
		if x.Op == token.EQL {
			l, lok := x.X.(*ast.Ident)
			r, rok := x.Y.(*ast.Ident)
			if lok && rok && l.Name == param {
				*out = append(*out, r.Name)
				return
			}
		}
		die("an `==`/`||` chain has another shape")
	default:
		die("an `==`/`||` chain has another shape")
	}
}

func eqOrSet(fd *ast.FuncDecl, what string) []string {
	if fd == nil || len(fd.Body.List) != 1 {
		die("%s: not a single return", what)
	}
	ret, ok := fd.Body.List[0].(*ast.ReturnStmt)
	if !ok || len(ret.Results) != 1 {
		die("%s: not a single return", what)
	}
	var out []string
	orChain(ret.Results[0], fd.Type.Params.List[0].Names[0].Name, &out)
	return out
}

// skipWhitespace: for l.ch == ' ' || l.ch == '\t' ... { l.readChar() }
func spaceBytes(f *ast.File) []int {
	fd := findFunc(f, "Lexer", "skipWhitespace")
	if fd == nil || len(fd.Body.List) != 1 {
		die("skipWhitespace: not a single loop")
	}
	loop, ok := fd.Body.List[0].(*ast.ForStmt)
	if !ok || loop.Init != nil || loop.Post != nil || len(loop.Body.List) != 1 {
		die("skipWhitespace: not a single loop")
	}
	var out []int
	var walk func(e ast.Expr)
	walk = func(e ast.Expr) {
		switch x := e.(type) {
		case *ast.ParenExpr:
			walk(x.X)
		case *ast.BinaryExpr:
			if x.Op == token.LOR {
				walk(x.X)
				walk(x.Y)
				return
			}
			if x.Op == token.EQL {
				if sel, ok := x.X.(*ast.SelectorExpr); ok && sel.Sel.Name == "ch" {
					if bl, ok := x.Y.(*ast.BasicLit); ok && bl.Kind == token.CHAR {
						r, _, _, err := strconv.UnquoteChar(bl.Value[1:len(bl.Value)-1], '\'')
						if err == nil && r < 256 {
							out = append(out, int(r))
							return
						}
					}
				}
			}
			die("skipWhitespace: condition of another shape")
		default:
			die("skipWhitespace: condition of another shape")
		}
	}
	walk(loop.Cond)
	return out
}

// isLetter / isDigit / isHexDigit: disjunction of `'a' <= ch && ch <= 'z'`, `ch == '_'`, calls of one another
func charClass(f *ast.File, name string) string {
	fd := findFunc(f, "", name)
	if fd == nil || len(fd.Body.List) != 1 {
		die("%s: not a single return", name)
	}
	ret, ok := fd.Body.List[0].(*ast.ReturnStmt)
	if !ok || len(ret.Results) != 1 {
		die("%s: not a single return", name)
	}
	param := fd.Type.Params.List[0].Names[0].Name
	charOf := func(e ast.Expr) (int, bool) {
		bl, ok := e.(*ast.BasicLit)
		if !ok || bl.Kind != token.CHAR {
			return 0, false
		}
		r, _, _, err := strconv.UnquoteChar(bl.Value[1:len(bl.Value)-1], '\'')
		return int(r), err == nil && r < 256
	}
	var ranges []string
	var walk func(e ast.Expr)
	walk = func(e ast.Expr) {
		switch x := e.(type) {
		case *ast.ParenExpr:
			walk(x.X)
			return
		case *ast.CallExpr:
			if id, ok := x.Fun.(*ast.Ident); ok && len(x.Args) == 1 {
				if a, ok := x.Args[0].(*ast.Ident); ok && a.Name == param && (id.Name == "isDigit" || id.Name == "isLetter") {
					sub := charClass(f, id.Name)
					ranges = append(ranges, strings.TrimSuffix(strings.TrimPrefix(sub, "["), "]"))
					return
				}
			}
		case *ast.BinaryExpr:
			if x.Op == token.LOR {
				walk(x.X)
				walk(x.Y)
				return
			}
			if x.Op == token.LAND {
				l, lok := x.X.(*ast.BinaryExpr)
				r, rok := x.Y.(*ast.BinaryExpr)
				if lok && rok && l.Op == token.LEQ && r.Op == token.LEQ {
					lo, ok1 := charOf(l.X)
					li, ok2 := l.Y.(*ast.Ident)
					ri, ok3 := r.X.(*ast.Ident)
					hi, ok4 := charOf(r.Y)
					if ok1 && ok2 && ok3 && ok4 && li.Name == param && ri.Name == param {
						ranges = append(ranges, fmt.Sprintf("(%d, %d)", lo, hi))
						return
					}
				}
			}
			if x.Op == token.EQL {
				if id, ok := x.X.(*ast.Ident); ok && id.Name == param {
					if c, ok := charOf(x.Y); ok {
						ranges = append(ranges, fmt.Sprintf("(%d, %d)", c, c))
						return
					}
				}
			}
		}
		die("%s: condition of another shape", name)
	}
	walk(ret.Results[0])
	return "[" + strings.Join(ranges, "; ") + "]"
}

func genQueryTables(repo string) string {
	lex := parseFile(filepath.Join(repo, "query", "lexer.go"))
	par := parseFile(filepath.Join(repo, "query", "parser.go"))
	var b strings.Builder
	b.WriteString("(* GENERATED by translator/ from /repo/query and /repo/lshtree.go, /repo/collection.go — do not edit. *)\n")
	b.WriteString("From Coq Require Import NArith List String.\nImport ListNotations.\nOpen Scope N_scope.\nOpen Scope string_scope.\n")
	b.WriteString("Definition gen_token_types : list string := " + coqStrings(tokenTypes(lex)) + ".\n")
	rows, dflt := keywordTable(lex)
	var kr []string
	for _, r := range rows {
		kr = append(kr, "("+coqBytes(r[0])+", \""+r[1]+"\")")
	}
	b.WriteString("Definition gen_keywords : list (list N * string) := [" + strings.Join(kr, "; ") + "].\n")
	b.WriteString("Definition gen_keyword_default : string := \"" + dflt + "\".\n")
	b.WriteString("Definition gen_cmp_ops : list string := " + coqStrings(eqOrSet(findFunc(par, "Parser", "isComparisonOperator"), "isComparisonOperator")) + ".\n")
	var sp []string
	for _, c := range spaceBytes(lex) {
		sp = append(sp, strconv.Itoa(c))
	}
	b.WriteString("Definition gen_space : list N := [" + strings.Join(sp, "; ") + "].\n")
	b.WriteString("Definition gen_letter : list (N * N) := " + charClass(lex, "isLetter") + ".\n")
	b.WriteString("Definition gen_digit : list (N * N) := " + charClass(lex, "isDigit") + ".\n")
	b.WriteString("Definition gen_hex_digit : list (N * N) := " + charClass(lex, "isHexDigit") + ".\n")

	// the LSH forest: newLSHTree(c, <threshold>, <trees>) in collection.go, const search_k in lshTree.search
	col := parseFile(filepath.Join(repo, "collection.go"))
	var thr, trees uint64
	found := 0
	ast.Inspect(col, func(n ast.Node) bool {
		ce, ok := n.(*ast.CallExpr)
		if !ok {
			return true
		}
		if id, ok := ce.Fun.(*ast.Ident); ok && id.Name == "newLSHTree" && len(ce.Args) == 3 {
			a, ok1 := intLit(ce.Args[1])
			t, ok2 := intLit(ce.Args[2])
			if !ok1 || !ok2 {
				die("newLSHTree is not called with literal threshold and tree count")
			}
			if found > 0 && (a != thr || t != trees) {
				die("newLSHTree is called with different literals")
			}
			thr, trees = a, t
			found++
		}
		return true
	})
	if found == 0 {
		die("no call of newLSHTree in collection.go")
	}
	lsh := parseFile(filepath.Join(repo, "lshtree.go"))
	sfd := findFunc(lsh, "lshTree", "search")
	if sfd == nil {
		die("lshTree.search not found")
	}
	var searchK uint64
	gotK := false
	ast.Inspect(sfd, func(n ast.Node) bool {
		gd, ok := n.(*ast.GenDecl)
		if !ok || gd.Tok != token.CONST {
			return true
		}
		for _, sp := range gd.Specs {
			vs := sp.(*ast.ValueSpec)
			for i, nm := range vs.Names {
				if nm.Name == "search_k" && i < len(vs.Values) {
					if v, ok := intLit(vs.Values[i]); ok {
						searchK, gotK = v, true
					}
				}
			}
		}
		return true
	})
	if !gotK {
		die("const search_k not found in lshTree.search")
	}
	b.WriteString(fmt.Sprintf("Definition gen_lsh_threshold : N := %d.\nDefinition gen_lsh_trees : N := %d.\nDefinition gen_search_k : N := %d.\n", thr, trees, searchK))
	return b.String()
}
