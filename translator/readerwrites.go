// readerwrites.go: the premise of the linearizability theorem that a call holding Collection.mutex shared only reads.
// Syntactic and conservative in one direction only: a method "writes through its receiver" if it assigns to, increments,
// deletes from or appends into something reached from its receiver, or calls (on something reached from its receiver) a
// method of this package that does; methods are resolved by name. Every method of Collection that takes the mutex with
// RLock (and never with Lock) must not write through its receiver (coq/Gen/ReaderWrites.v, checked in GenTablesOk.v).
// Not seen: writes through aliases and through arguments, and writes inside other packages (sync/atomic, pools).
package main

import (
	"fmt"
	"go/ast"
	"go/token"
	"path/filepath"
	"sort"
	"strings"
)

func init() { extraGenerators["ReaderWrites.v"] = genReaderWrites }

type rwFn struct {
	name, recvType, recvName string
	direct                   string
	calls                    []string
	rlock, lock              bool
}

func rwRoot(e ast.Expr) string {
	for {
		switch x := e.(type) {
		case *ast.SelectorExpr:
			e = x.X
		case *ast.IndexExpr:
			e = x.X
		case *ast.StarExpr:
			e = x.X
		case *ast.ParenExpr:
			e = x.X
		case *ast.Ident:
			return x.Name
		default:
			return ""
		}
	}
}

func genReaderWrites(repo string) string {
	files, _ := filepath.Glob(filepath.Join(repo, "*.go"))
	sort.Strings(files)
	var fns []*rwFn
	for _, f := range files {
		if strings.HasSuffix(f, "_test.go") || strings.HasPrefix(filepath.Base(f), "verif") {
			continue
		}
		af := parseFile(f)
		for _, d := range af.Decls {
			fd, ok := d.(*ast.FuncDecl)
			if !ok || fd.Body == nil || fd.Recv == nil || len(fd.Recv.List) != 1 || len(fd.Recv.List[0].Names) != 1 {
				continue
			}
			rt := ""
			switch t := fd.Recv.List[0].Type.(type) {
			case *ast.StarExpr:
				if id, ok := t.X.(*ast.Ident); ok {
					rt = id.Name
				}
			case *ast.Ident:
				rt = t.Name
			}
			x := &rwFn{name: fd.Name.Name, recvType: rt, recvName: fd.Recv.List[0].Names[0].Name}
			// local names bound to something reached from the receiver (x := recv.field, x := &recv.field[i], x = alias.f)
			alias := map[string]bool{x.recvName: true}
			rootOf := func(e ast.Expr) string {
				if u, ok := e.(*ast.UnaryExpr); ok && u.Op == token.AND {
					e = u.X
				}
				switch e.(type) {
				case *ast.SelectorExpr, *ast.IndexExpr, *ast.StarExpr, *ast.ParenExpr, *ast.SliceExpr:
				default:
					return ""
				}
				if se, ok := e.(*ast.SliceExpr); ok {
					e = se.X
				}
				return rwRoot(e)
			}
			for pass := 0; pass < 3; pass++ {
				ast.Inspect(fd.Body, func(n ast.Node) bool {
					if s, ok := n.(*ast.AssignStmt); ok && len(s.Lhs) == len(s.Rhs) {
						for i, l := range s.Lhs {
							if id, ok := l.(*ast.Ident); ok && id.Name != "_" && alias[rootOf(s.Rhs[i])] {
								alias[id.Name] = true
							}
						}
					}
					return true
				})
			}
			note := func(pos token.Pos, what string) {
				if x.direct == "" {
					x.direct = fmt.Sprintf("%s.%s %s (%s:%d)", rt, x.name, what, filepath.Base(f), fset.Position(pos).Line)
				}
			}
			ast.Inspect(fd.Body, func(n ast.Node) bool {
				switch s := n.(type) {
				case *ast.AssignStmt:
					for _, l := range s.Lhs {
						if _, isId := l.(*ast.Ident); !isId && alias[rwRoot(l)] {
							note(l.Pos(), "assigns through its receiver")
						}
					}
				case *ast.IncDecStmt:
					if _, isId := s.X.(*ast.Ident); !isId && alias[rwRoot(s.X)] {
						note(s.Pos(), "increments through its receiver")
					}
				case *ast.CallExpr:
					if id, ok := s.Fun.(*ast.Ident); ok && id.Name == "delete" && len(s.Args) > 0 && alias[rwRoot(s.Args[0])] {
						note(s.Pos(), "deletes through its receiver")
					}
					if sel, ok := s.Fun.(*ast.SelectorExpr); ok && alias[rwRoot(sel.X)] {
						x.calls = append(x.calls, sel.Sel.Name)
						if inner, ok := sel.X.(*ast.SelectorExpr); ok && inner.Sel.Name == "mutex" {
							switch sel.Sel.Name {
							case "RLock":
								x.rlock = true
							case "Lock":
								x.lock = true
							}
						}
					}
				}
				return true
			})
			fns = append(fns, x)
		}
	}
	mut := map[string]string{}
	for _, x := range fns {
		if x.direct != "" {
			if _, ok := mut[x.name]; !ok {
				mut[x.name] = x.direct
			}
		}
	}
	for changed := true; changed; {
		changed = false
		for _, x := range fns {
			if _, ok := mut[x.name]; ok {
				continue
			}
			for _, c := range x.calls {
				if why, ok := mut[c]; ok {
					mut[x.name] = x.recvType + "." + x.name + " calls " + c + ": " + why
					changed = true
					break
				}
			}
		}
	}
	var readers, bad []string
	for _, x := range fns {
		if x.recvType != "Collection" || !x.rlock || x.lock {
			continue
		}
		readers = append(readers, "\""+x.name+"\"")
		if why, ok := mut[x.name]; ok {
			bad = append(bad, "(\""+x.name+"\", \""+strings.ReplaceAll(why, "\"", "'")+"\")")
		}
	}
	sort.Strings(readers)
	sort.Strings(bad)
	if len(readers) == 0 {
		die("no method of Collection takes the mutex shared: the reader table cannot be built")
	}
	var b strings.Builder
	b.WriteString("(* GENERATED by translator/ from /repo — do not edit. *)\nFrom Coq Require Import List String.\nImport ListNotations.\nOpen Scope string_scope.\n")
	b.WriteString("(* methods of Collection that take Collection.mutex with RLock only *)\n")
	b.WriteString("Definition gen_readers : list string := [" + strings.Join(readers, "; ") + "].\n")
	b.WriteString("(* those among them that write through their receiver, with the first reason found *)\n")
	b.WriteString("Definition gen_reader_writes : list (string * string) := [" + strings.Join(bad, "; ") + "].\n")
	return b.String()
}
