package main

// LockTable.v: for every function and method of the library, the ordered list of lock events it performs,
// the same-package calls it makes (so that the Coq side can inline them), and the goroutines it spawns.
// Purely syntactic: statements are visited in source order, branches are flattened (every path's events appear),
// which over-approximates what one execution holds — sound for "never acquires while holding".

import (
	"fmt"
	"go/ast"
	"go/token"
	"path/filepath"
	"sort"
	"strings"
)

var lockFiles = []string{"collection.go", "spanfile.go", "freemap.go", "lshtree.go", "rest.go", "dump.go", "main.go", "quantization.go", "settings.go", "embedding.go", "embedding_cache.go"}

// struct fields whose type is one of the library's own struct types
var fieldType = map[string]string{
	"Collection.spanfile": "SpanFile", "Collection.lshTree": "lshTree", "Collection.index": "lshTree",
	"lshTree.c": "Collection", "SpanFile.freeMap": "freeMap", "SpanReader.db": "SpanFile",
}

var mutexIds = map[string]int{"Server.mutex": 1, "Collection.mutex": 2, "SpanFile.fileMutex": 3, "lruCache.mutex": 4, "myRandomType.mu": 5, "global.cacheMutex": 6}

type lockEvent struct {
	kind string // Lock RLock Unlock RUnlock DLock(deferred unlock) DRUnlock Call Go
	arg  string
}

func recvOf(fd *ast.FuncDecl) (name, typ string) {
	if fd.Recv == nil || len(fd.Recv.List) != 1 {
		return "", ""
	}
	f := fd.Recv.List[0]
	if len(f.Names) == 1 {
		name = f.Names[0].Name
	}
	switch t := f.Type.(type) {
	case *ast.StarExpr:
		if id, ok := t.X.(*ast.Ident); ok {
			typ = id.Name
		}
	case *ast.Ident:
		typ = t.Name
	}
	return
}

func typeName(e ast.Expr) string {
	switch t := e.(type) {
	case *ast.StarExpr:
		return typeName(t.X)
	case *ast.Ident:
		return t.Name
	}
	return ""
}

// static type of an expression, as far as names tell: receiver / typed parameter / known field / well-known locals
func exprType(e ast.Expr, vars map[string]string) string {
	switch x := e.(type) {
	case *ast.Ident:
		return vars[x.Name]
	case *ast.SelectorExpr:
		bt := exprType(x.X, vars)
		if bt == "" {
			return ""
		}
		return fieldType[bt+"."+x.Sel.Name]
	case *ast.ParenExpr:
		return exprType(x.X, vars)
	}
	return ""
}

func collectEvents(fd *ast.FuncDecl, methods map[string]bool, funcs map[string]bool) []path {
	vars := map[string]string{}
	rn, rt := recvOf(fd)
	if rn != "" {
		vars[rn] = rt
	}
	if fd.Type.Params != nil {
		for _, p := range fd.Type.Params.List {
			tn := typeName(p.Type)
			for _, n := range p.Names {
				vars[n.Name] = tn
			}
		}
	}
	// locals assigned from something recognisable
	ast.Inspect(fd.Body, func(n ast.Node) bool {
		as, ok := n.(*ast.AssignStmt)
		if !ok || as.Tok != token.DEFINE {
			return true
		}
		for i, l := range as.Lhs {
			id, ok := l.(*ast.Ident)
			if !ok {
				continue
			}
			var rhs ast.Expr
			if len(as.Rhs) == len(as.Lhs) {
				rhs = as.Rhs[i]
			} else if len(as.Rhs) == 1 && i == 0 {
				rhs = as.Rhs[0]
			}
			switch r := rhs.(type) {
			case *ast.IndexExpr: // s.collections[name]
				if se, ok := r.X.(*ast.SelectorExpr); ok && se.Sel.Name == "collections" {
					vars[id.Name] = "Collection"
				}
			case *ast.CallExpr:
				if f, ok := r.Fun.(*ast.Ident); ok {
					switch f.Name {
					case "NewCollection":
						vars[id.Name] = "Collection"
					case "OpenFile":
						vars[id.Name] = "SpanFile"
					case "newLSHTree":
						vars[id.Name] = "lshTree"
					}
				}
			case *ast.UnaryExpr: // &Collection{...}
				if cl, ok := r.X.(*ast.CompositeLit); ok {
					vars[id.Name] = typeName(cl.Type)
				}
			}
		}
		return true
	})
	// range over collections: for _, collection := range collections / s.collections
	ast.Inspect(fd.Body, func(n ast.Node) bool {
		rs, ok := n.(*ast.RangeStmt)
		if !ok {
			return true
		}
		if v, ok := rs.Value.(*ast.Ident); ok {
			src := ""
			switch x := rs.X.(type) {
			case *ast.Ident:
				src = x.Name
			case *ast.SelectorExpr:
				src = x.Sel.Name
			}
			if src == "collections" {
				vars[v.Name] = "Collection"
			}
		}
		return true
	})
	// ---- expression-level events (flattened, evaluation order approximated by source order)
	var exprEvents func(n ast.Node, deferred bool) []lockEvent
	callEvent := func(ce *ast.CallExpr, deferred bool) (lockEvent, bool) {
		switch f := ce.Fun.(type) {
		case *ast.SelectorExpr:
			name := f.Sel.Name
			if name == "Lock" || name == "RLock" || name == "Unlock" || name == "RUnlock" {
				k := name
				if deferred {
					k = "D" + name
				}
				if mx, ok := f.X.(*ast.SelectorExpr); ok {
					owner := exprType(mx.X, vars)
					key := owner + "." + mx.Sel.Name
					if _, known := mutexIds[key]; !known {
						die("lock operation on an unknown mutex %s.%s in %s", owner, mx.Sel.Name, fd.Name.Name)
					}
					return lockEvent{k, key}, true
				}
				if gid, ok := f.X.(*ast.Ident); ok {
					key := "global." + gid.Name
					if _, known := mutexIds[key]; !known {
						die("lock operation on an unknown global mutex %s in %s", gid.Name, fd.Name.Name)
					}
					return lockEvent{k, key}, true
				}
				die("lock operation on an expression the translator cannot resolve in %s", fd.Name.Name)
			}
			if name == "Wait" || name == "Add" || name == "Done" {
				return lockEvent{}, false
			}
			t := exprType(f.X, vars)
			if t != "" && methods[t+"."+name] {
				return lockEvent{"Call", t + "." + name}, true
			}
		case *ast.Ident:
			if funcs[f.Name] {
				return lockEvent{"Call", "." + f.Name}, true
			}
		}
		return lockEvent{}, false
	}
	var stmtPaths func(st ast.Stmt) []path
	var blockPaths func(l []ast.Stmt) []path
	flatBody := func(b *ast.BlockStmt) []lockEvent {
		// all events of a nested function body, every branch, in source order (used for callbacks and goroutines)
		var out []lockEvent
		for _, p := range blockPaths(b.List) {
			out = append(out, p.evs...)
		}
		return out
	}
	exprEvents = func(n ast.Node, deferred bool) []lockEvent {
		var evs []lockEvent
		if n == nil {
			return nil
		}
		ast.Inspect(n, func(m ast.Node) bool {
			switch x := m.(type) {
			case *ast.CallExpr:
				for _, a := range x.Args {
					evs = append(evs, exprEvents(a, deferred)...)
				}
				if se, ok := x.Fun.(*ast.SelectorExpr); ok {
					evs = append(evs, exprEvents(se.X, deferred)...)
				}
				if ev, ok := callEvent(x, deferred); ok {
					evs = append(evs, ev)
				}
				if fl, ok := x.Fun.(*ast.FuncLit); ok {
					evs = append(evs, flatBody(fl.Body)...)
				}
				return false
			case *ast.FuncLit:
				// a callback handed to a callee: it runs while the callee runs; its events are inlined here
				evs = append(evs, flatBody(x.Body)...)
				return false
			}
			return true
		})
		return evs
	}
	seq := func(ps []path, next []path) []path {
		var out []path
		for _, p := range ps {
			if p.returned {
				out = append(out, p)
				continue
			}
			for _, q := range next {
				out = append(out, path{append(append([]lockEvent{}, p.evs...), q.evs...), q.returned})
			}
		}
		return dedupe(out)
	}
	one := func(evs []lockEvent) []path { return []path{{evs, false}} }
	blockPaths = func(l []ast.Stmt) []path {
		ps := one(nil)
		for _, st := range l {
			ps = seq(ps, stmtPaths(st))
			if len(ps) > 400 {
				die("too many paths in %s", fd.Name.Name)
			}
		}
		return ps
	}
	stmtPaths = func(st ast.Stmt) []path {
		switch x := st.(type) {
		case nil:
			return one(nil)
		case *ast.BlockStmt:
			return blockPaths(x.List)
		case *ast.ReturnStmt:
			var evs []lockEvent
			for _, r := range x.Results {
				evs = append(evs, exprEvents(r, false)...)
			}
			return []path{{evs, true}}
		case *ast.IfStmt:
			pre := seq(stmtPaths(x.Init), one(exprEvents(x.Cond, false)))
			alt := append([]path{}, blockPaths(x.Body.List)...)
			if x.Else != nil {
				alt = append(alt, stmtPaths(x.Else)...)
			} else {
				alt = append(alt, path{nil, false})
			}
			return seq(pre, dedupe(alt))
		case *ast.ForStmt:
			pre := seq(stmtPaths(x.Init), one(exprEvents(x.Cond, false)))
			body := append(blockPaths(x.Body.List), path{nil, false})
			return seq(pre, dedupe(body))
		case *ast.RangeStmt:
			pre := one(exprEvents(x.X, false))
			body := append(blockPaths(x.Body.List), path{nil, false})
			return seq(pre, dedupe(body))
		case *ast.SwitchStmt:
			pre := seq(stmtPaths(x.Init), one(exprEvents(x.Tag, false)))
			alt := []path{{nil, false}}
			for _, c := range x.Body.List {
				alt = append(alt, blockPaths(c.(*ast.CaseClause).Body)...)
			}
			return seq(pre, dedupe(alt))
		case *ast.TypeSwitchStmt:
			alt := []path{{nil, false}}
			for _, c := range x.Body.List {
				alt = append(alt, blockPaths(c.(*ast.CaseClause).Body)...)
			}
			return dedupe(alt)
		case *ast.SelectStmt:
			alt := []path{{nil, false}}
			for _, c := range x.Body.List {
				alt = append(alt, blockPaths(c.(*ast.CommClause).Body)...)
			}
			return dedupe(alt)
		case *ast.DeferStmt:
			var evs []lockEvent
			for _, a := range x.Call.Args {
				evs = append(evs, exprEvents(a, false)...)
			}
			if ev, ok := callEvent(x.Call, true); ok {
				evs = append(evs, ev)
			} else if fl, ok := x.Call.Fun.(*ast.FuncLit); ok {
				for _, e := range flatBody(fl.Body) {
					if e.kind == "Unlock" || e.kind == "RUnlock" {
						e.kind = "D" + e.kind
					}
					evs = append(evs, e)
				}
			}
			return one(evs)
		case *ast.GoStmt:
			evs := []lockEvent{{"GoBegin", ""}}
			if fl, ok := x.Call.Fun.(*ast.FuncLit); ok {
				evs = append(evs, flatBody(fl.Body)...)
			} else if ev, ok := callEvent(x.Call, false); ok {
				evs = append(evs, ev)
			}
			return one(append(evs, lockEvent{"GoEnd", ""}))
		case *ast.LabeledStmt:
			return stmtPaths(x.Stmt)
		default:
			return one(exprEvents(st, false))
		}
	}
	if fd.Body == nil {
		return one(nil)
	}
	return blockPaths(fd.Body.List)
}

type path struct {
	evs      []lockEvent
	returned bool
}

func dedupe(ps []path) []path {
	seen := map[string]bool{}
	var out []path
	for _, p := range ps {
		k := fmt.Sprint(p.returned)
		for _, e := range p.evs {
			k += "|" + e.kind + ":" + e.arg
		}
		if !seen[k] {
			seen[k] = true
			out = append(out, p)
		}
	}
	return out
}

func genLockTable(repo string) string {
	type fn struct {
		key string
		fd  *ast.FuncDecl
	}
	var fns []fn
	methods := map[string]bool{}
	funcs := map[string]bool{}
	for _, fnm := range lockFiles {
		f := parseFile(filepath.Join(repo, fnm))
		for _, d := range f.Decls {
			fd, ok := d.(*ast.FuncDecl)
			if !ok || fd.Body == nil {
				continue
			}
			_, rt := recvOf(fd)
			key := rt + "." + fd.Name.Name
			fns = append(fns, fn{key, fd})
			if rt == "" {
				funcs[fd.Name.Name] = true
			} else {
				methods[key] = true
			}
		}
	}
	sort.Slice(fns, func(i, j int) bool { return fns[i].key < fns[j].key })
	ids := map[string]int{}
	for i, f := range fns {
		ids[f.key] = i
	}
	var b strings.Builder
	b.WriteString("(* GENERATED by translator/ from /repo — do not edit. Lock events of every function, in source order. *)\n")
	b.WriteString("From Coq Require Import NArith List String.\nImport ListNotations.\nOpen Scope string_scope.\n")
	b.WriteString("Inductive ev := Lock (m : nat) | RLock (m : nat) | Unlock (m : nat) | RUnlock (m : nat) | DUnlock (m : nat) | DRUnlock (m : nat)\n  | Call (f : nat) | GoBegin | GoEnd.\n")
	b.WriteString("(* mutexes: 1 Server.mutex, 2 Collection.mutex, 3 SpanFile.fileMutex, 4 lruCache.mutex, 5 myRandomType.mu, 6 cacheMutex (global) *)\n")
	b.WriteString("(* every function: the event sequences of its control-flow paths (loops: zero or one iteration) *)\n")
	b.WriteString("Definition lock_table : list (nat * string * list (list ev)) := [\n")
	// functions that can perform a lock operation or start a goroutine, directly or through callees
	allPaths := make([][]path, len(fns))
	for i, f := range fns {
		allPaths[i] = dedupe(collectEvents(f.fd, methods, funcs))
	}
	relevant := map[int]bool{}
	for changed := true; changed; {
		changed = false
		for i := range fns {
			if relevant[i] {
				continue
			}
			for _, p := range allPaths[i] {
				for _, e := range p.evs {
					if e.kind != "Call" || relevant[ids[e.arg]] {
						if e.kind == "Call" {
							if _, ok := ids[e.arg]; !ok {
								continue
							}
						}
						relevant[i] = true
						changed = true
					}
				}
			}
		}
	}
	// call graph among relevant functions; an edge f -> g with g ->* f is a recursive call.  Recursion is cut:
	// the recursive call is dropped from the path, which is sound when the caller holds no lock of its own frame
	// at that point (then every unfolding is a concatenation of balanced segments that already occur in the cut
	// paths, run under the same locks as the outermost call).  Checked here; anything else is refused.
	succ := map[int]map[int]bool{}
	for i := range fns {
		succ[i] = map[int]bool{}
		for _, p := range allPaths[i] {
			for _, e := range p.evs {
				if e.kind == "Call" {
					if id, ok := ids[e.arg]; ok && relevant[id] {
						succ[i][id] = true
					}
				}
			}
		}
	}
	reaches := func(from, to int) bool {
		seen := map[int]bool{}
		stack := []int{from}
		for len(stack) > 0 {
			x := stack[len(stack)-1]
			stack = stack[:len(stack)-1]
			if x == to {
				return true
			}
			if seen[x] {
				continue
			}
			seen[x] = true
			for y := range succ[x] {
				stack = append(stack, y)
			}
		}
		return false
	}
	recursive := func(f, g int) bool { return reaches(g, f) }
	for i, f := range fns {
		uniq := map[string]bool{}
		var parts []string
		for _, p := range allPaths[i] {
			items := make([]string, 0, len(p.evs))
			heldOwn := 0
			for _, e := range p.evs {
				switch e.kind {
				case "Lock", "RLock":
					heldOwn++
				case "Unlock", "RUnlock":
					heldOwn--
				}
				switch e.kind {
				case "Call":
					id, ok := ids[e.arg]
					if !ok || !relevant[id] {
						continue
					}
					if recursive(i, id) {
						if heldOwn != 0 {
							die("%s makes the recursive call %s while holding a lock", f.key, e.arg)
						}
						continue
					}
					items = append(items, fmt.Sprintf("Call %d", id))
				case "GoBegin", "GoEnd":
					items = append(items, e.kind)
				default:
					items = append(items, fmt.Sprintf("%s %d", e.kind, mutexIds[e.arg]))
				}
			}
			ps := "[" + strings.Join(items, "; ") + "]"
			if !uniq[ps] {
				uniq[ps] = true
				parts = append(parts, ps)
			}
		}
		sep := ";"
		if i == len(fns)-1 {
			sep = ""
		}
		fmt.Fprintf(&b, "  (%d, \"%s\", [%s])%s\n", i, f.key, strings.Join(parts, "; "), sep)
	}
	b.WriteString("].\n")
	// the public API of Collection (exported methods) and which of them must be exclusive
	var pub []string
	for _, f := range fns {
		if strings.HasPrefix(f.key, "Collection.") && ast.IsExported(f.fd.Name.Name) {
			pub = append(pub, fmt.Sprintf("%d", ids[f.key]))
		}
	}
	if id, ok := ids["Collection.removeDocument"]; ok {
		pub = append(pub, fmt.Sprintf("%d", id))
	}
	fmt.Fprintf(&b, "Definition collection_api : list nat := [%s].\n", strings.Join(pub, "; "))
	var mut []string
	for _, n := range []string{"Collection.AddDocument", "Collection.UpdateDocument", "Collection.removeDocument", "Collection.Close"} {
		if id, ok := ids[n]; ok {
			mut = append(mut, fmt.Sprintf("%d", id))
		} else {
			die("mutating method %s not found", n)
		}
	}
	fmt.Fprintf(&b, "Definition collection_mutators : list nat := [%s].\n", strings.Join(mut, "; "))
	var hs []string
	for _, f := range fns {
		if strings.HasPrefix(f.key, "Server.handle") {
			hs = append(hs, fmt.Sprintf("%d", ids[f.key]))
		}
	}
	fmt.Fprintf(&b, "Definition server_handlers : list nat := [%s].\n", strings.Join(hs, "; "))
	return b.String()
}

func init() {
	extraGenerators["LockTable.v"] = genLockTable
}
