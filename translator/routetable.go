// routetable.go: every index into a path split by "/" in rest.go, with the lower bound on the number of segments that
// the surrounding guards establish at that point (coq/Gen/RouteTable.v). coq/Proofs/GenTablesOk.v checks that each index
// is below its bound: a handler that reads a segment the guards do not promise drops the connection (C18).
package main

import (
	"fmt"
	"go/ast"
	"go/token"
	"path/filepath"
	"strings"
)

func init() { extraGenerators["RouteTable.v"] = genRouteTable }

var routeFile *ast.File

// integer literal or a package-level constant with a literal value
func routeInt(e ast.Expr) (uint64, bool) {
	if v, ok := intLit(e); ok {
		return v, true
	}
	id, ok := e.(*ast.Ident)
	if !ok || routeFile == nil {
		return 0, false
	}
	for _, d := range routeFile.Decls {
		gd, ok := d.(*ast.GenDecl)
		if !ok || gd.Tok != token.CONST {
			continue
		}
		for _, s := range gd.Specs {
			vs := s.(*ast.ValueSpec)
			for i, n := range vs.Names {
				if n.Name == id.Name && i < len(vs.Values) {
					return intLit(vs.Values[i])
				}
			}
		}
	}
	return 0, false
}

type routeIdx struct {
	fn      string
	fromEnd bool
	k       uint64
	lb      uint64
	line    int
}

// is e the expression len(<v>) ?
func isLenOf(e ast.Expr, v string) bool {
	ce, ok := e.(*ast.CallExpr)
	if !ok || len(ce.Args) != 1 {
		return false
	}
	f, ok := ce.Fun.(*ast.Ident)
	a, ok2 := ce.Args[0].(*ast.Ident)
	return ok && ok2 && f.Name == "len" && a.Name == v
}

// lower bound on len(v) implied by cond being TRUE (0 = nothing)
func boundIfTrue(cond ast.Expr, v string) uint64 {
	switch x := cond.(type) {
	case *ast.ParenExpr:
		return boundIfTrue(x.X, v)
	case *ast.BinaryExpr:
		if x.Op == token.LAND {
			a, b := boundIfTrue(x.X, v), boundIfTrue(x.Y, v)
			if a > b {
				return a
			}
			return b
		}
		if isLenOf(x.X, v) {
			if n, ok := routeInt(x.Y); ok {
				switch x.Op {
				case token.EQL, token.GEQ:
					return n
				case token.GTR:
					return n + 1
				}
			}
		}
	}
	return 0
}

// lower bound on len(v) implied by cond being FALSE (for `if len(v) < N { return }`)
func boundIfFalse(cond ast.Expr, v string) uint64 {
	switch x := cond.(type) {
	case *ast.ParenExpr:
		return boundIfFalse(x.X, v)
	case *ast.BinaryExpr:
		if x.Op == token.LOR {
			a, b := boundIfFalse(x.X, v), boundIfFalse(x.Y, v)
			if a > b {
				return a
			}
			return b
		}
		if isLenOf(x.X, v) {
			if n, ok := routeInt(x.Y); ok {
				switch x.Op {
				case token.LSS:
					return n
				case token.LEQ:
					return n + 1
				}
			}
		}
	}
	return 0
}

func endsInReturn(b *ast.BlockStmt) bool {
	if len(b.List) == 0 {
		return false
	}
	_, ok := b.List[len(b.List)-1].(*ast.ReturnStmt)
	return ok
}

type routeWalker struct {
	fn  string
	v   string
	out *[]routeIdx
}

func maxu(a, b uint64) uint64 {
	if a > b {
		return a
	}
	return b
}

// every index expression on v inside e, under the bound lb; && passes the bound of its left operand to the right one
func (w *routeWalker) expr(e ast.Expr, lb uint64) {
	if e == nil {
		return
	}
	if be, ok := e.(*ast.BinaryExpr); ok && be.Op == token.LAND {
		w.expr(be.X, lb)
		w.expr(be.Y, maxu(lb, boundIfTrue(be.X, w.v)))
		return
	}
	ast.Inspect(e, func(n ast.Node) bool {
		switch x := n.(type) {
		case *ast.BinaryExpr:
			if x.Op == token.LAND && x != e {
				w.expr(x, lb)
				return false
			}
		case *ast.FuncLit:
			die("%s: a function literal uses the split path", w.fn)
		case *ast.SliceExpr:
			if id, ok := x.X.(*ast.Ident); ok && id.Name == w.v {
				die("%s: the split path is sliced (line %d)", w.fn, fset.Position(x.Pos()).Line)
			}
		case *ast.IndexExpr:
			id, ok := x.X.(*ast.Ident)
			if !ok || id.Name != w.v {
				return true
			}
			line := fset.Position(x.Pos()).Line
			if k, ok := routeInt(x.Index); ok {
				*w.out = append(*w.out, routeIdx{w.fn, false, k, lb, line})
				return false
			}
			if be, ok := x.Index.(*ast.BinaryExpr); ok && be.Op == token.SUB && isLenOf(be.X, w.v) {
				if c, ok := routeInt(be.Y); ok {
					*w.out = append(*w.out, routeIdx{w.fn, true, c, lb, line})
					return false
				}
			}
			die("%s: index into the split path of another shape (line %d)", w.fn, line)
		}
		return true
	})
}

func (w *routeWalker) block(b *ast.BlockStmt, lb uint64) {
	for _, st := range b.List {
		switch s := st.(type) {
		case *ast.IfStmt:
			if s.Init != nil {
				w.stmt(s.Init, lb)
			}
			w.expr(s.Cond, lb)
			w.block(s.Body, maxu(lb, boundIfTrue(s.Cond, w.v)))
			switch el := s.Else.(type) {
			case *ast.BlockStmt:
				w.block(el, maxu(lb, boundIfFalse(s.Cond, w.v)))
			case *ast.IfStmt:
				w.block(&ast.BlockStmt{List: []ast.Stmt{el}}, maxu(lb, boundIfFalse(s.Cond, w.v)))
			}
			if s.Else == nil && endsInReturn(s.Body) {
				lb = maxu(lb, boundIfFalse(s.Cond, w.v))
			}
		default:
			w.stmt(st, lb)
		}
	}
}

func (w *routeWalker) stmt(st ast.Stmt, lb uint64) {
	switch s := st.(type) {
	case *ast.BlockStmt:
		w.block(s, lb)
	case *ast.IfStmt:
		w.block(&ast.BlockStmt{List: []ast.Stmt{s}}, lb)
	case *ast.ForStmt:
		w.expr(s.Cond, lb)
		w.block(s.Body, lb)
	case *ast.RangeStmt:
		w.expr(s.X, lb)
		w.block(s.Body, lb)
	case *ast.SwitchStmt:
		w.expr(s.Tag, lb)
		for _, c := range s.Body.List {
			cc := c.(*ast.CaseClause)
			for _, e := range cc.List {
				w.expr(e, lb)
			}
			w.block(&ast.BlockStmt{List: cc.Body}, lb)
		}
	case *ast.AssignStmt:
		for _, l := range s.Lhs {
			if id, ok := l.(*ast.Ident); ok && id.Name == w.v && s.Tok != token.DEFINE {
				die("%s: the split path is assigned again", w.fn)
			}
		}
		for _, e := range s.Rhs {
			w.expr(e, lb)
		}
	case *ast.ExprStmt:
		w.expr(s.X, lb)
	case *ast.ReturnStmt:
		for _, e := range s.Results {
			w.expr(e, lb)
		}
	case *ast.DeclStmt, *ast.IncDecStmt, *ast.BranchStmt, *ast.EmptyStmt:
	case *ast.DeferStmt:
		w.expr(s.Call, lb)
	case *ast.GoStmt:
		w.expr(s.Call, lb)
	default:
		// any other statement: look for uses without a bound of its own
		ast.Inspect(st, func(n ast.Node) bool {
			if e, ok := n.(ast.Expr); ok {
				w.expr(e, lb)
				return false
			}
			return true
		})
	}
}

func genRouteTable(repo string) string {
	var rows []routeIdx
	for _, file := range []string{"rest.go", "main.go"} {
		f := parseFile(filepath.Join(repo, file))
		routeFile = f
		for _, d := range f.Decls {
			fd, ok := d.(*ast.FuncDecl)
			if !ok || fd.Body == nil {
				continue
			}
			// <v> := strings.Split(<anything>, "/") as a top-level statement of the function
			for i, st := range fd.Body.List {
				as, ok := st.(*ast.AssignStmt)
				if !ok || as.Tok != token.DEFINE || len(as.Lhs) != 1 || len(as.Rhs) != 1 {
					continue
				}
				ce, ok := as.Rhs[0].(*ast.CallExpr)
				if !ok {
					continue
				}
				sel, ok := ce.Fun.(*ast.SelectorExpr)
				if !ok || sel.Sel.Name != "Split" || len(ce.Args) != 2 {
					continue
				}
				if pk, ok := sel.X.(*ast.Ident); !ok || pk.Name != "strings" {
					continue
				}
				if bl, ok := ce.Args[1].(*ast.BasicLit); !ok || bl.Value != "\"/\"" {
					continue
				}
				v := as.Lhs[0].(*ast.Ident).Name
				w := &routeWalker{fn: fd.Name.Name, v: v, out: &rows}
				// strings.Split never returns an empty slice
				w.block(&ast.BlockStmt{List: fd.Body.List[i+1:]}, 1)
			}
			// a split path handed to or returned from another function is outside what this table can follow
			ast.Inspect(fd.Body, func(n ast.Node) bool {
				if ce, ok := n.(*ast.CallExpr); ok {
					if sel, ok := ce.Fun.(*ast.SelectorExpr); ok && sel.Sel.Name == "Split" {
						if pk, ok := sel.X.(*ast.Ident); ok && pk.Name == "strings" && len(ce.Args) == 2 {
							if bl, ok := ce.Args[1].(*ast.BasicLit); ok && bl.Value == "\"/\"" {
								found := false
								for _, st := range fd.Body.List {
									if as, ok := st.(*ast.AssignStmt); ok && len(as.Rhs) == 1 && as.Rhs[0] == ast.Expr(ce) && as.Tok == token.DEFINE {
										found = true
									}
								}
								if !found {
									die("%s: a path is split by \"/\" in a place the route table does not follow (line %d)", fd.Name.Name, fset.Position(ce.Pos()).Line)
								}
							}
						}
					}
				}
				return true
			})
		}
	}
	var b strings.Builder
	b.WriteString("(* GENERATED by translator/ from /repo/rest.go — do not edit. *)\nFrom Coq Require Import NArith List String.\nImport ListNotations.\nOpen Scope N_scope.\nOpen Scope string_scope.\n")
	b.WriteString("(* (handler, index counted from the end?, k, segments guaranteed at that point): parts[k] or parts[len(parts)-k] *)\n")
	var rs []string
	for _, r := range rows {
		fe := "false"
		if r.fromEnd {
			fe = "true"
		}
		rs = append(rs, fmt.Sprintf("(\"%s\", %s, %d, %d)", r.fn, fe, r.k, r.lb))
	}
	b.WriteString("Definition gen_route_indices : list (string * bool * N * N) := [" + strings.Join(rs, "; ") + "].\n")
	return b.String()
}
