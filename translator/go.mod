module vtranslate

go 1.21
