(* CorruptProofs.v — damaged bytes lose data, never alter it (C08). *)
From Coq Require Import ZArith Lia ZifyN ZifyBool ZifyNat List Bool.
From Syz Require Import Store Consts ConstsOk ListLemmas VarintProofs Crc CrcBound CrcBurst SpanProofs ScanProofs.
Import ListNotations.
Open Scope N_scope.
Ltac Zify.zify_post_hook ::= Z.div_mod_to_equations.

(* ---------- from bits to bytes ---------- *)
Definition bits8 (d : N) : list bool :=
  [N.testbit d 0; N.testbit d 1; N.testbit d 2; N.testbit d 3; N.testbit d 4; N.testbit d 5; N.testbit d 6; N.testbit d 7].
Definition bits_of (bs : bytes) : list bool := flat_map bits8 bs.

Lemma crc_byte_bits r d : crc_byte r d = crc_bits r (bits8 d).
Proof. reflexivity. Qed.

Lemma crc_update_bits : forall bs r, crc_update r bs = crc_bits r (bits_of bs).
Proof.
  induction bs as [|d bs IH]; intros r; [reflexivity|].
  unfold crc_update, bits_of in *. cbn [fold_left flat_map]. rewrite crc_bits_app, <- crc_byte_bits. apply IH.
Qed.

(* a' is a with an error pattern confined to a window of at most 32 consecutive bits
   (bit order: byte by byte, least significant bit first — the order of the CRC register) *)
Definition burst32 (a a' : bytes) : Prop :=
  exists pre w w' post, bits_of a = pre ++ w ++ post /\ bits_of a' = pre ++ w' ++ post /\
                        length w = length w' /\ (length w <= 32)%nat.

Lemma lxor_ff_inj a b : N.lxor a 4294967295 = N.lxor b 4294967295 -> a = b.
Proof.
  intros E. apply (f_equal (fun x => N.lxor x 4294967295)) in E.
  rewrite !N.lxor_assoc, !N.lxor_nilpotent, !N.lxor_0_r in E. exact E.
Qed.

Theorem crc32_burst a a' : burst32 a a' -> bits_of a <> bits_of a' -> crc32 a <> crc32 a'.
Proof.
  intros (pre & w & w' & post & Ha & Ha' & Hl & H32) Hne E.
  unfold crc32 in E. apply lxor_ff_inj in E. rewrite !crc_update_bits, Ha, Ha' in E.
  revert E. apply burst_bits; [reflexivity | exact Hl | exact H32 |].
  intro Hw. apply Hne. rewrite Ha, Ha', Hw. reflexivity.
Qed.

Lemma bits8_inj d d' : d < 256 -> d' < 256 -> bits8 d = bits8 d' -> d = d'.
Proof.
  intros Hd Hd' E. unfold bits8 in E. injection E as E0 E1 E2 E3 E4 E5 E6 E7.
  apply N.bits_inj. intro n.
  destruct (N.lt_ge_cases n 8) as [Hlt|Hge].
  - assert (Hn : n = 0 \/ n = 1 \/ n = 2 \/ n = 3 \/ n = 4 \/ n = 5 \/ n = 6 \/ n = 7) by lia.
    destruct Hn as [->|[->|[->|[->|[->|[->|[->| ->]]]]]]]; assumption.
  - assert (Hhi : forall x, x < 256 -> N.testbit x n = false).
    { intros x Hx. destruct (N.eq_dec x 0) as [->|Hnz]; [apply N.bits_0|].
      apply N.bits_above_log2. apply N.lt_le_trans with 8; [|exact Hge].
      apply N.log2_lt_pow2; [lia|]. change (2 ^ 8) with 256. exact Hx. }
    rewrite (Hhi d Hd), (Hhi d' Hd'). reflexivity.
Qed.

Lemma bits_of_inj : forall a a', Forall (fun d => d < 256) a -> Forall (fun d => d < 256) a' ->
  length a = length a' -> bits_of a = bits_of a' -> a = a'.
Proof.
  induction a as [|d a IH]; intros [|d' a'] Ha Ha' Hl E; try discriminate; [reflexivity|].
  inversion Ha; inversion Ha'; subst. unfold bits_of in E. cbn [flat_map] in E.
  assert (E8 : bits8 d = bits8 d' /\ flat_map bits8 a = flat_map bits8 a').
  { unfold bits8 in *. cbn [app] in E. injection E as E0 E1 E2 E3 E4 E5 E6 E7 Er.
    split; [rewrite E0, E1, E2, E3, E4, E5, E6, E7; reflexivity|exact Er]. }
  destruct E8 as [E1 E2]. f_equal; [apply bits8_inj; assumption|]. apply IH; try assumption. simpl in Hl. lia.
Qed.

(* ---------- the checksum of a span image ---------- *)
Lemma verify_checksum_split pre c : c < 4294967296 -> verify_checksum (pre ++ be32 c) = (crc32 pre =? c).
Proof.
  intros Hc. unfold verify_checksum. rewrite app_length, length_be32.
  destruct (Nat.ltb_spec (length pre + 4) 4) as [H|H]; [lia|].
  replace (length pre + 4 - 4)%nat with (length pre) by lia.
  rewrite skipn_app_exact, firstn_app_exact.
  rewrite <- (app_nil_r (be32 c)). rewrite rd32_be32 by exact Hc. reflexivity.
Qed.

(* damage inside the checksummed bytes: any burst of at most 32 bits is detected *)
Theorem burst_in_body_detected pre pre' : burst32 pre pre' -> bits_of pre <> bits_of pre' ->
  verify_checksum (pre' ++ be32 (crc32 pre)) = false.
Proof.
  intros Hb Hne. rewrite verify_checksum_split by apply crc32_bound.
  apply N.eqb_neq. intro E. apply (crc32_burst pre pre' Hb Hne). symmetry. exact E.
Qed.

(* damage confined to the four checksum bytes: always detected *)
Theorem damage_in_crc_detected pre c' : c' < 4294967296 -> c' <> crc32 pre ->
  verify_checksum (pre ++ be32 c') = false.
Proof.
  intros Hc Hne. rewrite verify_checksum_split by exact Hc. apply N.eqb_neq. intro E. apply Hne. symmetry. exact E.
Qed.
