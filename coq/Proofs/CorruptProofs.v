(* CorruptProofs.v — damaged bytes lose data, never alter it (C08). *)
From Coq Require Import ZArith Lia ZifyN ZifyBool ZifyNat List Bool.
From Syz Require Import Store Consts ConstsOk ListLemmas VarintProofs Crc CrcBound CrcBurst SpanProofs ScanProofs.
Import ListNotations.
Open Scope N_scope.
Ltac Zify.zify_post_hook ::= Z.div_mod_to_equations.

(* ---------- from bits to bytes ---------- *)
Definition bits8 (d : N) : list bool :=
  [N.testbit d 0; N.testbit d 1; N.testbit d 2; N.testbit d 3; N.testbit d 4; N.testbit d 5; N.testbit d 6; N.testbit d 7].
Definition bits_of (bs : bytes) : list bool := flat_map bits8 bs.

Lemma crc_byte_bits r d : crc_byte r d = crc_bits r (bits8 d).
Proof. reflexivity. Qed.

Lemma crc_update_bits : forall bs r, crc_update r bs = crc_bits r (bits_of bs).
Proof.
  induction bs as [|d bs IH]; intros r; [reflexivity|].
  unfold crc_update, bits_of in *. cbn [fold_left flat_map]. rewrite crc_bits_app, <- crc_byte_bits. apply IH.
Qed.

(* a' is a with an error pattern confined to a window of at most 32 consecutive bits
   (bit order: byte by byte, least significant bit first — the order of the CRC register) *)
Definition burst32 (a a' : bytes) : Prop :=
  exists pre w w' post, bits_of a = pre ++ w ++ post /\ bits_of a' = pre ++ w' ++ post /\
                        length w = length w' /\ (length w <= 32)%nat.

Lemma lxor_ff_inj a b : N.lxor a 4294967295 = N.lxor b 4294967295 -> a = b.
Proof.
  intros E. apply (f_equal (fun x => N.lxor x 4294967295)) in E.
  rewrite !N.lxor_assoc, !N.lxor_nilpotent, !N.lxor_0_r in E. exact E.
Qed.

Theorem crc32_burst a a' : burst32 a a' -> bits_of a <> bits_of a' -> crc32 a <> crc32 a'.
Proof.
  intros (pre & w & w' & post & Ha & Ha' & Hl & H32) Hne E.
  unfold crc32 in E. apply lxor_ff_inj in E. rewrite !crc_update_bits, Ha, Ha' in E.
  revert E. apply burst_bits; [reflexivity | exact Hl | exact H32 |].
  intro Hw. apply Hne. rewrite Ha, Ha', Hw. reflexivity.
Qed.

Lemma bits8_inj d d' : d < 256 -> d' < 256 -> bits8 d = bits8 d' -> d = d'.
Proof.
  intros Hd Hd' E. unfold bits8 in E. injection E as E0 E1 E2 E3 E4 E5 E6 E7.
  apply N.bits_inj. intro n.
  destruct (N.lt_ge_cases n 8) as [Hlt|Hge].
  - assert (Hn : n = 0 \/ n = 1 \/ n = 2 \/ n = 3 \/ n = 4 \/ n = 5 \/ n = 6 \/ n = 7) by lia.
    destruct Hn as [->|[->|[->|[->|[->|[->|[->| ->]]]]]]]; assumption.
  - assert (Hhi : forall x, x < 256 -> N.testbit x n = false).
    { intros x Hx. destruct (N.eq_dec x 0) as [->|Hnz]; [apply N.bits_0|].
      apply N.bits_above_log2. apply N.lt_le_trans with 8; [|exact Hge].
      apply N.log2_lt_pow2; [lia|]. change (2 ^ 8) with 256. exact Hx. }
    rewrite (Hhi d Hd), (Hhi d' Hd'). reflexivity.
Qed.

Lemma bits_of_inj : forall a a', Forall (fun d => d < 256) a -> Forall (fun d => d < 256) a' ->
  length a = length a' -> bits_of a = bits_of a' -> a = a'.
Proof.
  induction a as [|d a IH]; intros [|d' a'] Ha Ha' Hl E; try discriminate; [reflexivity|].
  inversion Ha; inversion Ha'; subst. unfold bits_of in E. cbn [flat_map] in E.
  assert (E8 : bits8 d = bits8 d' /\ flat_map bits8 a = flat_map bits8 a').
  { unfold bits8 in *. cbn [app] in E. injection E as E0 E1 E2 E3 E4 E5 E6 E7 Er.
    split; [rewrite E0, E1, E2, E3, E4, E5, E6, E7; reflexivity|exact Er]. }
  destruct E8 as [E1 E2]. f_equal; [apply bits8_inj; assumption|]. apply IH; try assumption. simpl in Hl. lia.
Qed.

(* ---------- the checksum of a span image ---------- *)
Lemma verify_checksum_split pre c : c < 4294967296 -> verify_checksum (pre ++ be32 c) = (crc32 pre =? c).
Proof.
  intros Hc. unfold verify_checksum. rewrite app_length, length_be32.
  destruct (Nat.ltb_spec (length pre + 4) 4) as [H|H]; [lia|].
  replace (length pre + 4 - 4)%nat with (length pre) by lia.
  rewrite skipn_app_exact, firstn_app_exact.
  rewrite <- (app_nil_r (be32 c)). rewrite rd32_be32 by exact Hc. reflexivity.
Qed.

(* damage inside the checksummed bytes: any burst of at most 32 bits is detected *)
Theorem burst_in_body_detected pre pre' : burst32 pre pre' -> bits_of pre <> bits_of pre' ->
  verify_checksum (pre' ++ be32 (crc32 pre)) = false.
Proof.
  intros Hb Hne. rewrite verify_checksum_split by apply crc32_bound.
  apply N.eqb_neq. intro E. apply (crc32_burst pre pre' Hb Hne). symmetry. exact E.
Qed.

(* damage confined to the four checksum bytes: always detected *)
Theorem damage_in_crc_detected pre c' : c' < 4294967296 -> c' <> crc32 pre ->
  verify_checksum (pre ++ be32 c') = false.
Proof.
  intros Hc Hne. rewrite verify_checksum_split by exact Hc. apply N.eqb_neq. intro E. apply Hne. symmetry. exact E.
Qed.

(* ---------- the scan over a damaged span ---------- *)
From Syz Require Import StoreProofs.

Lemma ta_img_head seq rid ss pad : wf_span seq rid ss pad ->
  firstn 8 (ta_img seq rid ss pad) = be32 activeMagic ++ be32 (img_len seq rid ss pad).
Proof.
  intros Hw. unfold ta_img. rewrite (ta_field _ _ _ _ Hw). rewrite <- !app_assoc.
  rewrite app_assoc. apply firstn_app_exact'. rewrite app_length, !length_be32. reflexivity.
Qed.

(* what damage to a span image is considered: same size, header words (magic, length) untouched, checksum now failing *)
Record damaged (img img' : bytes) : Prop := {
  dm_len : length img' = length img;
  dm_head : firstn 8 img' = firstn 8 img;
  dm_sum : verify_checksum img' = false }.

Lemma damaged_shape seq rid ss pad img' : wf_span seq rid ss pad -> damaged (ta_img seq rid ss pad) img' ->
  img' = be32 activeMagic ++ be32 (img_len seq rid ss pad) ++ skipn 8 img' /\ blen img' = img_len seq rid ss pad.
Proof.
  intros Hw [Hl Hh _]. split.
  - rewrite <- (firstn_skipn 8 img') at 1. rewrite Hh, (ta_img_head _ _ _ _ Hw), <- app_assoc. reflexivity.
  - unfold blen. rewrite Hl. fold (blen (ta_img seq rid ss pad)). apply blen_ta_img.
Qed.

Lemma parse_damaged seq rid ss pad img' : wf_span seq rid ss pad -> damaged (ta_img seq rid ss pad) img' ->
  parse_span img' = Err.
Proof.
  intros Hw Hd. destruct (damaged_shape _ _ _ _ _ Hw Hd) as [Hs HL]. destruct Hd as [_ _ Hsum].
  set (L := img_len seq rid ss pad) in *.
  assert (H15 : 15 <= L) by apply img_len_ge15.
  assert (HLlt : L < 4294967296) by (destruct Hw; assumption).
  unfold parse_span. rewrite HL, minSpanLength_ok.
  destruct (N.ltb_spec L 15) as [H|_]; [lia|].
  assert (H1 : rd32 img' = Some activeMagic).
  { rewrite Hs. apply rd32_be32. destruct magic_ok as [-> _]. lia. }
  assert (H2 : rd32 (skipn 4 img') = Some L).
  { rewrite Hs. rewrite (skipn_app_exact' (be32 activeMagic)) by reflexivity. apply rd32_be32. exact HLlt. }
  rewrite H1, H2, N.eqb_refl. cbn [negb].
  destruct (N.ltb_spec L L) as [H|_]; [lia|].
  assert (H3 : firstn_N L img' = img').
  { unfold firstn_N. rewrite <- HL, to_nat_blen. apply firstn_all. }
  rewrite H3, Hsum. reflexivity.
Qed.

Lemma scan_step_damaged seq rid ss pad img' rest f acc : wf_span seq rid ss pad ->
  damaged (ta_img seq rid ss pad) img' ->
  scan_fuel (S f) (img' ++ rest) acc = scan_fuel f rest (TX img' :: acc).
Proof.
  intros Hw Hd. destruct (damaged_shape _ _ _ _ _ Hw Hd) as [Hs HL].
  pose proof (parse_damaged _ _ _ _ _ Hw Hd) as Hp.
  set (L := img_len seq rid ss pad) in *.
  assert (H15 : 15 <= L) by apply img_len_ge15.
  assert (HLlt : L < 4294967296) by (destruct Hw; assumption).
  assert (Hc : exists b r, img' ++ rest = b :: r).
  { rewrite Hs. unfold be32 at 1. cbn [app]. eauto. }
  destruct Hc as (b & r & Hc).
  cbn [scan_fuel]. rewrite Hc. rewrite <- Hc.
  rewrite blen_app, HL, minSpanLength_ok.
  destruct (N.ltb_spec (L + blen rest) 15) as [H|_]; [lia|].
  assert (H1 : rd32 (img' ++ rest) = Some activeMagic).
  { rewrite Hs, <- !app_assoc. apply rd32_be32. destruct magic_ok as [-> _]. lia. }
  assert (H2 : rd32 (skipn 4 (img' ++ rest)) = Some L).
  { rewrite Hs, <- !app_assoc. rewrite (skipn_app_exact' (be32 activeMagic)) by reflexivity. apply rd32_be32. exact HLlt. }
  rewrite H1, H2.
  destruct magic_ok as [Ha Hf].
  destruct (N.eqb_spec activeMagic 0) as [H|_]; [rewrite Ha in H; lia|].
  destruct (N.ltb_spec (L + blen rest) L) as [H|_]; [lia|].
  destruct (N.eqb_spec L 0) as [H|_]; [lia|].
  rewrite N.eqb_refl.
  assert (Hf1 : firstn_N L (img' ++ rest) = img').
  { unfold firstn_N. rewrite <- HL, to_nat_blen. apply firstn_app_exact. }
  assert (Hs1 : skipn_N L (img' ++ rest) = rest).
  { unfold skipn_N. rewrite <- HL, to_nat_blen. apply skipn_app_exact. }
  rewrite Hf1, Hs1, Hp. reflexivity.
Qed.

Lemma damaged_len15 seq rid ss pad img' : wf_span seq rid ss pad -> damaged (ta_img seq rid ss pad) img' ->
  (15 <= length img')%nat.
Proof.
  intros Hw Hd. destruct (damaged_shape _ _ _ _ _ Hw Hd) as [_ HL]. pose proof (img_len_ge15 seq rid ss pad). unfold blen in HL. lia.
Qed.

(* a clean file in which one active span has been damaged: the scan returns every other tile
   unchanged and skips the damaged span by its (intact) length *)
Theorem scan_damaged a b seq rid ss pad img' : Forall wf_tile a -> Forall wf_tile b ->
  wf_span seq rid ss pad -> damaged (ta_img seq rid ss pad) img' ->
  scan (flatten a ++ img' ++ flatten b) = Ok (a ++ TX img' :: b).
Proof.
  intros Ha Hb Hw Hd. unfold scan.
  pose proof (length_tiles_le a Ha) as Hla. pose proof (length_tiles_le b Hb) as Hlb.
  pose proof (damaged_len15 _ _ _ _ _ Hw Hd) as H15.
  rewrite !app_length.
  set (n := (length (flatten a) + (length img' + length (flatten b)))%nat).
  replace (S n) with (length a + S (length b + S (n - length a - 1 - length b)))%nat by lia.
  rewrite scan_tiles by exact Ha.
  rewrite (scan_step_damaged seq rid ss pad) by assumption.
  rewrite <- (app_nil_r (flatten b)).
  rewrite scan_tiles by exact Hb. cbn [scan_fuel].
  rewrite !app_nil_r, rev_app_distr, rev_involutive. cbn [rev]. rewrite rev_involutive, <- app_assoc. reflexivity.
Qed.

(* what can still be read afterwards: every document of every other span, byte-identical; the damaged one is gone *)
Theorem contents_after_damage a b seq rid ss pad img' : wf_span seq rid ss pad ->
  damaged (ta_img seq rid ss pad) img' ->
  abs (a ++ TX img' :: b) = abs a ++ abs b /\
  abs (a ++ TA (ta_img seq rid ss pad) seq rid :: b) = abs a ++ (rid, ss) :: abs b.
Proof.
  intros Hw Hd. unfold abs. rewrite !flat_map_app. cbn [flat_map tile_entry app].
  rewrite <- (app_nil_r (ta_img seq rid ss pad)), (parse_span_img _ _ _ _ _ Hw). cbn [sp_streams app]. split; reflexivity.
Qed.

(* the two kinds of damage the burst theorem covers *)
Lemma firstn_app_le {A} n (a b : list A) : (n <= length a)%nat -> firstn n (a ++ b) = firstn n a.
Proof. intros H. rewrite firstn_app. replace (n - length a)%nat with O by lia. cbn. apply app_nil_r. Qed.

Theorem burst_damage pre pre' : (8 <= length pre)%nat -> length pre' = length pre -> firstn 8 pre' = firstn 8 pre ->
  burst32 pre pre' -> bits_of pre <> bits_of pre' ->
  damaged (pre ++ be32 (crc32 pre)) (pre' ++ be32 (crc32 pre)).
Proof.
  intros H8 Hl Hh Hb Hne. constructor.
  - rewrite !app_length, Hl. reflexivity.
  - rewrite !firstn_app_le by lia. exact Hh.
  - apply burst_in_body_detected; assumption.
Qed.

Theorem crc_damage pre c' : (8 <= length pre)%nat -> c' < 4294967296 -> c' <> crc32 pre ->
  damaged (pre ++ be32 (crc32 pre)) (pre ++ be32 c').
Proof.
  intros H8 Hc Hne. constructor.
  - rewrite !app_length, !length_be32. reflexivity.
  - rewrite !firstn_app_le by lia. reflexivity.
  - apply damage_in_crc_detected; assumption.
Qed.

(* ---------- the scan of ANY image whatsoever ---------- *)
Definition from_file (file img : bytes) : Prop := exists p q, file = p ++ img ++ q.

(* an active tile reported by the scan is a window of the file that parses as a span with these fields *)
Definition ta_ok (file : bytes) (t : tile) : Prop :=
  match t with
  | TA img seq rid => from_file file img /\ exists sp, parse_span img = Ok sp /\ sp_seq sp = seq /\ sp_rid sp = rid
  | _ => True
  end.

Lemma from_file_skip file l img : from_file (skipn_N l file) img -> from_file file img.
Proof.
  intros (p & q & H). exists (firstn_N l file ++ p), q.
  rewrite <- app_assoc, <- H. unfold firstn_N, skipn_N. symmetry. apply firstn_skipn.
Qed.

Lemma ta_ok_skip file l t : ta_ok (skipn_N l file) t -> ta_ok file t.
Proof. destruct t; cbn [ta_ok]; try tauto. intros [Hf Hs]. split; [eapply from_file_skip; eauto|exact Hs]. Qed.

Lemma scan_fuel_sound : forall f rest acc ts, scan_fuel f rest acc = Ok ts ->
  exists ts', ts = rev acc ++ ts' /\ Forall (ta_ok rest) ts'.
Proof.
  induction f as [|f IH]; intros rest acc ts H; [discriminate|].
  cbn [scan_fuel] in H. destruct rest as [|b0 r0] eqn:Er.
  - inversion H; subst. exists []. rewrite app_nil_r. split; [reflexivity|constructor].
  - rewrite <- Er in *. clear Er b0 r0.
    assert (Hz : forall bs, Ok (rev (TZ bs :: acc)) = Ok ts -> exists ts', ts = rev acc ++ ts' /\ Forall (ta_ok rest) ts').
    { intros bs E. inversion E; subst. exists [TZ bs]. cbn [rev]. split; [reflexivity|]. repeat constructor. }
    destruct (blen rest <? minSpanLength); [apply (Hz _ H)|].
    destruct (rd32 rest) as [m|]; [|apply (Hz _ H)].
    destruct (rd32 (skipn 4 rest)) as [l|]; [|apply (Hz _ H)].
    destruct (m =? 0); [apply (Hz _ H)|].
    destruct (blen rest <? l); [apply (Hz _ H)|].
    destruct (l =? 0); [discriminate|].
    assert (Hnext : forall t, ta_ok rest t -> scan_fuel f (skipn_N l rest) (t :: acc) = Ok ts ->
                     exists ts', ts = rev acc ++ ts' /\ Forall (ta_ok rest) ts').
    { intros t Ht E. destruct (IH _ _ _ E) as (ts' & -> & Hall). exists (t :: ts'). cbn [rev]. rewrite <- app_assoc. split; [reflexivity|].
      constructor; [exact Ht|]. eapply Forall_impl; [|exact Hall]. intros t'. apply ta_ok_skip. }
    destruct (m =? activeMagic).
    + destruct (parse_span (firstn_N l rest)) as [sp| |] eqn:Ep; [| |discriminate].
      * assert (Hok : ta_ok rest (TA (firstn_N l rest) (sp_seq sp) (sp_rid sp))).
        { cbn [ta_ok]. split; [|exists sp; auto].
          exists [], (skipn_N l rest). cbn [app]. unfold firstn_N, skipn_N. symmetry. apply firstn_skipn. }
        apply (Hnext _ Hok H).
      * apply (Hnext (TX (firstn_N l rest)) I H).
    + destruct (m =? freeMagic).
      * destruct (l <? 8); [apply (Hnext (TZ (firstn_N l rest)) I H) | apply (Hnext (TF l (skipn 8 (firstn_N l rest))) I H)].
      * apply (Hnext (TX (firstn_N l rest)) I H).
Qed.

Theorem scan_sound file ts : scan file = Ok ts -> Forall (ta_ok file) ts.
Proof. intros H. destruct (scan_fuel_sound _ _ _ _ H) as (ts' & -> & Hall). exact Hall. Qed.

(* the scan panics only over a window whose checksum is valid and which is still not a serialised span *)
Lemma scan_fuel_panic : forall f rest acc, scan_fuel f rest acc = Panic ->
  exists img, from_file rest img /\ parse_span img = Panic.
Proof.
  induction f as [|f IH]; intros rest acc H; [discriminate|].
  cbn [scan_fuel] in H. destruct rest as [|b0 r0] eqn:Er; [discriminate|].
  rewrite <- Er in *. clear Er b0 r0.
  destruct (blen rest <? minSpanLength); [discriminate|].
  destruct (rd32 rest) as [m|]; [|discriminate].
  destruct (rd32 (skipn 4 rest)) as [l|]; [|discriminate].
  destruct (m =? 0); [discriminate|].
  destruct (blen rest <? l); [discriminate|].
  destruct (l =? 0); [discriminate|].
  assert (Hnext : forall t, scan_fuel f (skipn_N l rest) (t :: acc) = Panic -> exists img, from_file rest img /\ parse_span img = Panic).
  { intros t E. destruct (IH _ _ E) as (img & Hf & Hp). exists img. split; [eapply from_file_skip; eauto|exact Hp]. }
  destruct (m =? activeMagic).
  - destruct (parse_span (firstn_N l rest)) as [sp| |] eqn:Ep; [apply (Hnext _ H)|apply (Hnext _ H)|].
    exists (firstn_N l rest). split; [|exact Ep].
    exists [], (skipn_N l rest). cbn [app]. unfold firstn_N, skipn_N. symmetry. apply firstn_skipn.
  - destruct (m =? freeMagic); [destruct (l <? 8)|]; apply (Hnext _ H).
Qed.

(* a parsed span always carries a valid checksum over the window its own length field delimits *)
Lemma parse_ok_checksum img sp : parse_span img = Ok sp ->
  exists l, rd32 img = Some activeMagic /\ rd32 (skipn 4 img) = Some l /\ verify_checksum (firstn_N l img) = true.
Proof.
  unfold parse_span. destruct (blen img <? minSpanLength); [discriminate|].
  destruct (rd32 img) as [m|]; [|discriminate]. destruct (rd32 (skipn 4 img)) as [l|]; [|discriminate].
  destruct (N.eqb_spec m activeMagic) as [->|]; [|discriminate]. cbn [negb].
  destruct (blen img <? l); [discriminate|].
  destruct (verify_checksum (firstn_N l img)) eqn:V; [|discriminate]. intros _. exists l. auto.
Qed.
