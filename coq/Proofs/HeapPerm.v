(* HeapPerm.v — the transcription of container/heap used by the LSH search (Lsh.v) only permutes its list:
   push adds exactly the pushed element, pop removes exactly the popped one. *)
From Coq Require Import List Arith Bool Lia Floats Sorting.Permutation FinFun.
Open Scope bool_scope.
From Syz Require Import Lsh.
Import ListNotations.

Section HP.
Variable A : Type.
Variable prio : A -> float.
Variable dflt : A.

Lemma set_nth_length : forall (h : list A) i x, length (set_nth A h i x) = length h.
Proof. induction h as [|y r IH]; intros [|k] x; cbn; auto. Qed.

Lemma nth_set_nth : forall (h : list A) i x k, i < length h ->
  nth k (set_nth A h i x) dflt = if Nat.eqb k i then x else nth k h dflt.
Proof.
  induction h as [|y r IH]; intros i x k Hi; [cbn in Hi; lia|].
  destruct i as [|i']; destruct k as [|k']; cbn; try reflexivity.
  apply IH. cbn in Hi. lia.
Qed.

Lemma hswap_length h i j : length (hswap A dflt h i j) = length h.
Proof. unfold hswap. rewrite !set_nth_length. reflexivity. Qed.

Lemma nth_hswap h i j k : i < length h -> j < length h ->
  nth k (hswap A dflt h i j) dflt = if Nat.eqb k j then nth i h dflt else if Nat.eqb k i then nth j h dflt else nth k h dflt.
Proof.
  intros Hi Hj. unfold hswap. rewrite nth_set_nth by (rewrite set_nth_length; exact Hj).
  destruct (Nat.eqb k j); [reflexivity|]. apply nth_set_nth. exact Hi.
Qed.

Definition transp (i j k : nat) : nat := if Nat.eqb k j then i else if Nat.eqb k i then j else k.

Lemma hswap_perm h i j : i < length h -> j < length h -> Permutation (hswap A dflt h i j) h.
Proof.
  intros Hi Hj. apply Permutation_sym. apply (Permutation_nth h (hswap A dflt h i j) dflt).
  rewrite hswap_length. split; [reflexivity|]. exists (transp i j). repeat split.
  - intros x Hx. unfold transp. destruct (Nat.eqb x j); [exact Hi|]. destruct (Nat.eqb x i); [exact Hj|exact Hx].
  - intros x y Hx Hy. unfold transp.
    destruct (Nat.eqb_spec x j), (Nat.eqb_spec y j), (Nat.eqb_spec x i), (Nat.eqb_spec y i); subst; intros; try lia; try reflexivity; try congruence.
  - intros x Hx. rewrite nth_hswap by assumption. unfold transp.
    destruct (Nat.eqb x j); [reflexivity|]. destruct (Nat.eqb x i); reflexivity.
Qed.

Lemma hup_perm : forall fuel h j, j < length h -> Permutation (hup A prio dflt fuel h j) h /\ length (hup A prio dflt fuel h j) = length h.
Proof.
  induction fuel as [|f IH]; intros h j Hj; cbn [hup]; [split; [apply Permutation_refl|reflexivity]|].
  set (i := Nat.div (j - 1) 2).
  assert (Hi : i <= j) by (unfold i; pose proof (Nat.div_le_upper_bound (j - 1) 2 j ltac:(lia)); lia).
  destruct (Nat.eqb i j || Nat.eqb j 0 || negb (hless A prio dflt h j i)); [split; [apply Permutation_refl|reflexivity]|].
  destruct (IH (hswap A dflt h i j) i ltac:(rewrite hswap_length; lia)) as [P L].
  split.
  - eapply Permutation_trans; [exact P|apply hswap_perm; lia].
  - rewrite L. apply hswap_length.
Qed.

Lemma hdown_perm : forall fuel h i n, n <= length h -> i < length h ->
  Permutation (hdown A prio dflt fuel h i n) h /\ length (hdown A prio dflt fuel h i n) = length h.
Proof.
  induction fuel as [|f IH]; intros h i n Hn Hi; cbn [hdown]; [split; [apply Permutation_refl|reflexivity]|].
  destruct (Nat.leb_spec n (2 * i + 1)); [split; [apply Permutation_refl|reflexivity]|].
  set (j := if Nat.ltb (S (2 * i + 1)) n && hless A prio dflt h (S (2 * i + 1)) (2 * i + 1) then S (2 * i + 1) else (2 * i + 1)).
  assert (Hj : j < n).
  { unfold j. destruct (Nat.ltb_spec (S (2 * i + 1)) n); cbn [andb]; [|lia].
    destruct (hless A prio dflt h (S (2 * i + 1)) (2 * i + 1)); lia. }
  destruct (negb (hless A prio dflt h j i)); [split; [apply Permutation_refl|reflexivity]|].
  destruct (IH (hswap A dflt h i j) j n ltac:(rewrite hswap_length; lia) ltac:(rewrite hswap_length; lia)) as [P L].
  split.
  - eapply Permutation_trans; [exact P|apply hswap_perm; lia].
  - rewrite L. apply hswap_length.
Qed.

Theorem hpush_perm h x : Permutation (hpush prio dflt h x) (x :: h).
Proof.
  unfold hpush. destruct (hup_perm (length (h ++ [x])) (h ++ [x]) (length (h ++ [x]) - 1)) as [P _].
  { rewrite app_length. cbn. lia. }
  eapply Permutation_trans; [exact P|]. apply Permutation_sym. apply Permutation_cons_append.
Qed.

Theorem hpop_perm h x h' : hpop prio dflt h = Some (x, h') -> Permutation h (x :: h').
Proof.
  unfold hpop. destruct h as [|a r] eqn:E; [discriminate|]. rewrite <- E. intros H.
  assert (Hlen : length h = S (length r)) by (rewrite E; reflexivity).
  set (n := length h - 1) in *.
  assert (Hn : n = length r) by (unfold n; lia).
  set (h1 := hswap _ dflt h 0 n) in *.
  assert (L1 : length h1 = length h) by apply hswap_length.
  assert (P1 : Permutation h1 h) by (apply hswap_perm; lia).
  destruct (hdown_perm (length h) h1 0 n ltac:(lia) ltac:(lia)) as [P2 L2].
  set (h2 := hdown _ prio dflt (length h) h1 0 n) in *.
  inversion H; subst x h'. clear H.
  assert (Hsplit : h2 = firstn n h2 ++ [nth n h2 dflt]).
  { rewrite <- (firstn_skipn n h2) at 1. f_equal.
    assert (Hs : length (skipn n h2) = 1) by (rewrite skipn_length; lia).
    destruct (skipn n h2) as [|y [|z t]] eqn:Es; cbn in Hs; try lia.
    f_equal. rewrite <- (firstn_skipn n h2) at 1. rewrite app_nth2 by (rewrite firstn_length; lia).
    rewrite firstn_length, Es. replace (n - Nat.min n (length h2)) with 0 by lia. reflexivity. }
  apply Permutation_sym. eapply Permutation_trans; [apply Permutation_cons_append|].
  rewrite <- Hsplit. eapply Permutation_trans; [exact P2|exact P1].
Qed.

Lemma hpop_none h : hpop prio dflt h = None -> h = [].
Proof. unfold hpop. destruct h; [reflexivity|discriminate]. Qed.
End HP.
