From Coq Require Import List Arith Bool Lia.
From Syz Require Import LockTable Conc.
Import ListNotations.

Definition tinv (th : thread) : Prop := wrb (t_held th) (t_rest th) = true.
Definition tdone (th : thread) : bool := match t_rest th with [] => true | _ => false end.
Definition target (th : thread) : nat := match t_rest th with Acq m _ :: _ => m | _ => 0 end.

(* ---------- local facts ---------- *)
Lemma wrb_nil_held h : wrb h [] = true -> h = [].
Proof. destruct h; [reflexivity|discriminate]. Qed.

Lemma step_thread_inv th : tinv th -> tinv (step_thread th).
Proof.
  unfold tinv, step_thread. destruct th as [h rest ann]. cbn [t_held t_rest t_announced].
  destruct rest as [|[m md|m md] r]; [auto| |].
  - destruct md; cbn [wrb]; intros H; apply andb_true_iff in H; destruct H as [H1 H2].
    + exact H2.
    + destruct ann; cbn [t_held t_rest wrb]; [exact H2|]. rewrite H1, H2. reflexivity.
  - cbn [wrb]. destruct (remove_held m md h); [auto|discriminate].
Qed.

Lemma holds_in m th : holds m th = true -> exists md, In (m, md) (t_held th).
Proof.
  unfold holds. intros H. apply existsb_exists in H. destruct H as [[m' md] [Hin He]]. cbn in He.
  apply Nat.eqb_eq in He. subst. eauto.
Qed.

Lemma holds_w_holds m th : holds_w m th = true -> holds m th = true.
Proof.
  unfold holds_w, holds. intros H. apply existsb_exists in H. destruct H as [x [Hin He]].
  apply andb_true_iff in He. apply existsb_exists. exists x. tauto.
Qed.

(* a thread that holds m and whose next action is an acquisition aims above m *)
Lemma holder_aims_higher th m : tinv th -> holds m th = true -> tdone th = false ->
  (exists m' md r, t_rest th = Acq m' md :: r /\ m < m') \/ (exists m' md r, t_rest th = Rel m' md :: r).
Proof.
  unfold tinv, tdone. intros Hi Hh Hd. destruct (t_rest th) as [|[m' md|m' md] r] eqn:E; [discriminate| |right; eauto].
  left. exists m', md, r. split; [reflexivity|]. cbn [wrb] in Hi. apply andb_true_iff in Hi. destruct Hi as [Hall _].
  destruct (holds_in _ _ Hh) as [md0 Hin]. rewrite forallb_forall in Hall. specialize (Hall _ Hin). cbn in Hall.
  apply Nat.ltb_lt in Hall. exact Hall.
Qed.

(* ---------- progress ---------- *)
Lemma step_at_some : forall s_all s th, In th s -> enabled s_all th = true -> exists i s', step_at s_all s i = Some s'.
Proof.
  induction s as [|a s IH]; intros th Hin He; [contradiction|]. destruct Hin as [->|Hin].
  - exists 0, (step_thread th :: s). cbn. rewrite He. reflexivity.
  - destruct (IH th Hin He) as (i & s' & Hs). exists (S i), (a :: s'). cbn. rewrite Hs. reflexivity.
Qed.

Lemma exists_max {A} (f : A -> nat) (l : list A) : l <> [] -> exists x, In x l /\ forall y, In y l -> f y <= f x.
Proof.
  induction l as [|a l IH]; intros Hne; [contradiction|].
  destruct l as [|b l'].
  - exists a. split; [left; reflexivity|]. intros y [->|[]]. lia.
  - destruct (IH ltac:(discriminate)) as (x & Hx & Hmax).
    destruct (le_lt_dec (f a) (f x)) as [Hle|Hgt].
    + exists x. split; [right; exact Hx|]. intros y [->|Hy]; [exact Hle|apply Hmax; exact Hy].
    + exists a. split; [left; reflexivity|]. intros y [->|Hy]; [lia|]. specialize (Hmax y Hy). lia.
Qed.

Definition blocked (s : sys) (th : thread) : bool := negb (tdone th) && negb (enabled s th).

(* if every thread that is not done is blocked, each blocked thread points at a blocked thread aiming strictly higher *)
Lemma blocked_points_higher s th : Forall tinv s -> (forall u, In u s -> tdone u = false -> enabled s u = false) ->
  In th s -> tdone th = false ->
  exists u, In u s /\ tdone u = false /\ target th < target u.
Proof.
  intros Hinv Hall Hin Hd.
  pose proof (Hall th Hin Hd) as Hne.
  assert (Hholder : forall m u, In u s -> holds m u = true -> exists v, In v s /\ tdone v = false /\ m < target v).
  { intros m u Hu Hh. rewrite Forall_forall in Hinv.
    assert (Hud : tdone u = false).
    { unfold tdone. destruct (t_rest u) eqn:E; [|reflexivity]. specialize (Hinv u Hu). unfold tinv in Hinv. rewrite E in Hinv.
      apply wrb_nil_held in Hinv. destruct (holds_in _ _ Hh) as [md Hi]. rewrite Hinv in Hi. contradiction. }
    destruct (holder_aims_higher u m (Hinv u Hu) Hh Hud) as [(m' & md & r & E & Hlt)|(m' & md & r & E)].
    - exists u. split; [exact Hu|]. split; [exact Hud|]. unfold target. rewrite E. exact Hlt.
    - specialize (Hall u Hu Hud). unfold enabled in Hall. rewrite E in Hall. discriminate. }
  unfold enabled in Hne. unfold tdone in Hd. destruct (t_rest th) as [|[m md|m md] r] eqn:E; [discriminate| |discriminate].
  assert (Ht : target th = m) by (unfold target; rewrite E; reflexivity). rewrite Ht.
  destruct md.
  - (* read lock blocked: a writer holds m, or a writer is pending on m *)
    apply andb_false_iff in Hne. destruct Hne as [H|H]; apply negb_false_iff in H; apply existsb_exists in H; destruct H as [u [Hu Hx]].
    + apply (Hholder m u Hu). apply holds_w_holds. exact Hx.
    + (* pending writer u: it is blocked too, so somebody holds m *)
      unfold pending_w in Hx. apply andb_true_iff in Hx. destruct Hx as [Hann Hnext].
      destruct (t_rest u) as [|[m' [|]|] r'] eqn:Eu; try discriminate. apply Nat.eqb_eq in Hnext. subst m'.
      assert (Hud : tdone u = false) by (unfold tdone; rewrite Eu; reflexivity).
      specialize (Hall u Hu Hud). unfold enabled in Hall. rewrite Eu, Hann in Hall.
      apply negb_false_iff in Hall. apply existsb_exists in Hall. destruct Hall as [v [Hv Hhv]].
      apply (Hholder m v Hv Hhv).
  - (* write lock: announced and somebody holds m *)
    destruct (t_announced th); [|discriminate].
    apply negb_false_iff in Hne. apply existsb_exists in Hne. destruct Hne as [u [Hu Hx]].
    apply (Hholder m u Hu Hx).
Qed.

Theorem progress s : Forall tinv s -> done s = false -> exists i s', step s i = Some s'.
Proof.
  intros Hinv Hnd.
  destruct (existsb (fun th => negb (tdone th) && enabled s th) s) eqn:Eex.
  - apply existsb_exists in Eex. destruct Eex as [th [Hin H]]. apply andb_true_iff in H. destruct H as [_ He].
    unfold step. eapply step_at_some; eauto.
  - exfalso.
    assert (Hall : forall u, In u s -> tdone u = false -> enabled s u = false).
    { intros u Hu Hud. destruct (enabled s u) eqn:E; [|reflexivity].
      assert (existsb (fun th => negb (tdone th) && enabled s th) s = true).
      { apply existsb_exists. exists u. split; [exact Hu|]. rewrite Hud, E. reflexivity. }
      congruence. }
    set (nd := filter (fun th => negb (tdone th)) s).
    assert (Hne : nd <> []).
    { unfold done in Hnd. intro E. assert (forallb (fun th => match t_rest th with [] => true | _ => false end) s = true).
      { apply forallb_forall. intros x Hx. destruct (t_rest x) eqn:Ex; [reflexivity|].
        assert (In x nd). { unfold nd. apply filter_In. split; [exact Hx|]. unfold tdone. rewrite Ex. reflexivity. }
        rewrite E in H. contradiction. }
      congruence. }
    destruct (exists_max target nd Hne) as (x & Hx & Hmax).
    unfold nd in Hx. apply filter_In in Hx. destruct Hx as [Hxs Hxd]. apply negb_true_iff in Hxd.
    destruct (blocked_points_higher s x Hinv Hall Hxs Hxd) as (u & Hu & Hud & Hlt).
    assert (In u nd) by (unfold nd; apply filter_In; split; [exact Hu|rewrite Hud; reflexivity]).
    specialize (Hmax u H). lia.
Qed.

(* ---------- invariant and termination ---------- *)
Lemma step_at_inv : forall s_all s i s', Forall tinv s -> step_at s_all s i = Some s' -> Forall tinv s'.
Proof.
  induction s as [|a s IH]; intros i s' Hinv H; [discriminate|]. inversion Hinv as [|? ? Ha Hs]; subst.
  destruct i; cbn in H.
  - destruct (enabled s_all a); [|discriminate]. inversion H; subst. constructor; [apply step_thread_inv; exact Ha|exact Hs].
  - destruct (step_at s_all s i) as [r'|] eqn:E; [|discriminate]. inversion H; subst. constructor; [exact Ha|eapply IH; eauto].
Qed.

Theorem step_inv s i s' : Forall tinv s -> step s i = Some s' -> Forall tinv s'.
Proof. apply step_at_inv. Qed.

Lemma thread_measure_dec th : t_rest th <> [] ->
  2 * length (t_rest (step_thread th)) - (if t_announced (step_thread th) then 1 else 0)
  < 2 * length (t_rest th) - (if t_announced th then 1 else 0).
Proof.
  destruct th as [h rest ann]. unfold step_thread. cbn [t_rest t_announced t_held].
  destruct rest as [|[m [|]|m md] r]; intros Hne; [contradiction| | |]; cbn [t_rest t_announced length]; try (destruct ann; lia).
  destruct ann; cbn [t_rest t_announced length]; lia.
Qed.

Lemma step_at_measure : forall s_all s i s', step_at s_all s i = Some s' -> measure s' < measure s.
Proof.
  induction s as [|a s IH]; intros i s' H; [discriminate|]. destruct i; cbn in H.
  - destruct (enabled s_all a) eqn:E; [|discriminate]. inversion H; subst. unfold measure. cbn [fold_right].
    assert (t_rest a <> []). { unfold enabled in E. destruct (t_rest a); [discriminate|discriminate]. }
    pose proof (thread_measure_dec a H0). lia.
  - destruct (step_at s_all s i) as [r'|] eqn:E; [|discriminate]. inversion H; subst. unfold measure in *. cbn [fold_right].
    specialize (IH i r' E). lia.
Qed.

Theorem step_measure s i s' : step s i = Some s' -> measure s' < measure s.
Proof. apply step_at_measure. Qed.

(* every call returns: from any state satisfying the invariant, whatever steps are taken, after at most
   [measure s] successful steps the system is done, and it is never stuck before *)
Theorem all_calls_return : forall n s, measure s <= n -> Forall tinv s ->
  exists sched, done (run_sched s sched) = true.
Proof.
  induction n as [|n IH]; intros s Hm Hinv.
  - destruct (done s) eqn:Ed; [exists []; exact Ed|].
    destruct (progress s Hinv Ed) as (i & s' & Hs). pose proof (step_measure _ _ _ Hs). lia.
  - destruct (done s) eqn:Ed; [exists []; exact Ed|].
    destruct (progress s Hinv Ed) as (i & s' & Hs). pose proof (step_measure _ _ _ Hs) as Hlt.
    destruct (IH s' ltac:(lia) (step_inv _ _ _ Hinv Hs)) as [sched Hd].
    exists (i :: sched). cbn [run_sched]. rewrite Hs. exact Hd.
Qed.

(* initial states built from well-ranked programs satisfy the invariant *)
Lemma start_inv ps : forallb (wrb []) ps = true -> Forall tinv (start ps).
Proof.
  intros H. rewrite forallb_forall in H. unfold start. apply Forall_forall. intros th Hin.
  apply in_map_iff in Hin. destruct Hin as [p [<- Hp]]. unfold tinv. cbn. apply H. exact Hp.
Qed.

(* reachable by any schedule *)
Lemma run_sched_inv : forall sched s, Forall tinv s -> Forall tinv (run_sched s sched).
Proof.
  induction sched as [|i r IH]; intros s Hinv; [exact Hinv|]. cbn [run_sched].
  destruct (step s i) as [s'|] eqn:E; [apply IH; eapply step_inv; eauto|apply IH; exact Hinv].
Qed.

Theorem deadlock_free ps sched : forallb (wrb []) ps = true ->
  done (run_sched (start ps) sched) = true \/ exists i s', step (run_sched (start ps) sched) i = Some s'.
Proof.
  intros H. destruct (done (run_sched (start ps) sched)) eqn:Ed; [left; reflexivity|right].
  apply progress; [apply run_sched_inv, start_inv; exact H|exact Ed].
Qed.

(* the static check gives exactly the premise of the theorems above, for every function of the library *)
Lemma table_programs_ok t f p : table_ok t = true -> In f (all_functions t) -> In p (progs_of t f) -> wrb [] p = true.
Proof.
  unfold table_ok. intros H Hf Hp. apply andb_true_iff in H. destruct H as [H _]. apply andb_true_iff in H. destruct H as [H _].
  rewrite forallb_forall in H. specialize (H f Hf). unfold progs_of in Hp.
  destruct (expand t fuel0 f) as [ps|]; [|discriminate]. rewrite forallb_forall in H. apply H. exact Hp.
Qed.
