(* QParseTree.v — the parser builds the documented tree for every token sequence of the documented grammar:
   AND binds tighter than OR, both associate to the left, NOT applies to a parenthesised expression, redundant
   parentheses change nothing (C13, the parser half; the evaluator half is QSemProofs.eval_sem). *)
From Coq Require Import ZArith Lia List Bool.
From Syz Require Import QEval QLexProofs QParseProofs QSemProofs QParseFuel.
Import ListNotations.
Close Scope N_scope.
Open Scope nat_scope.

Section Tree.
Variable pf : bytes -> option N.

(* ---------- "for all sufficiently large fuel" ---------- *)
Definition ev {A} (g : nat -> pres A) (r : pres A) : Prop := exists f0, forall f, f0 <= f -> g f = r.

Lemma ev_const {A} (r : pres A) : ev (fun _ => r) r.
Proof. exists 0. reflexivity. Qed.

Lemma ev_step {A} (g h : nat -> pres A) r : (forall f, g (S f) = h f) -> ev h r -> ev g r.
Proof. intros E [f0 H]. exists (S f0). intros f Hf. destruct f as [|f]; [lia|]. rewrite E. apply H. lia. Qed.

Lemma ev_bind {A B} (g : nat -> pres A) (k : nat -> A -> pres B) x r :
  ev g (POk x) -> ev (fun f => k f x) r -> ev (fun f => pbind (g f) (k f)) r.
Proof. intros [f1 H1] [f2 H2]. exists (max f1 f2). intros f Hf. rewrite H1 by lia. cbn [pbind]. apply H2. lia. Qed.

Lemma ev_ext {A} (g h : nat -> pres A) r : (forall f, h f = g f) -> ev g r -> ev h r.
Proof. intros E [f0 H]. exists f0. intros f Hf. rewrite E. apply H. exact Hf. Qed.

(* ---------- token specifications and the states that follow them ---------- *)
Definition tspec := token -> Prop.
Definition ty (t : ttype) : tspec := fun k => ttyp k = t.
Definition tident (name : bytes) : tspec := fun k => ttyp k = TIdent /\ tlit k = name.
Definition tnum (b : N) : tspec := fun k => ttyp k = TNumber /\ pf (tlit k) = Some b.
Definition tstr (s : bytes) : tspec := fun k => ttyp k = TString /\ tlit k = s.
Definition tbool (b : bool) : tspec := fun k => ttyp k = TBool /\ bytes_eqb (tlit k) s_true = b.

Fixpoint Follows (ts : list tspec) (s s' : pst) : Prop :=
  match ts with
  | [] => s' = s
  | P :: r => P (cur s) /\ Follows r (advance s) s'
  end.

Lemma Follows_app a b s s' : Follows (a ++ b) s s' <-> exists m, Follows a s m /\ Follows b m s'.
Proof.
  revert s. induction a as [|P a IH]; intros s; cbn [app Follows].
  - split; [intros H; exists s; split; [reflexivity|exact H]|intros (m & -> & H); exact H].
  - rewrite IH. split.
    + intros (Hp & m & H1 & H2). exists m. split; [split; assumption|assumption].
    + intros (m & (Hp & H1) & H2). split; [assumption|exists m; split; assumption].
Qed.

Lemma cur_is_ty s t u : ttyp (cur s) = t -> cur_is s u = ttype_eqb t u.
Proof. intros H. unfold cur_is. rewrite H. reflexivity. Qed.

(* ---------- lifting a result through the precedence levels ---------- *)
Lemma and_rest_stop n s1 : cur_is s1 TAnd = false -> ev (fun f => p_and_rest pf f n s1) (POk (n, s1)).
Proof. intros H. apply (ev_step _ (fun _ => POk (n, s1))); [|apply ev_const]. intros f. cbn [p_and_rest]. rewrite H. reflexivity. Qed.

Lemma or_rest_stop n s1 : cur_is s1 TOr = false -> ev (fun f => p_or_rest pf f n s1) (POk (n, s1)).
Proof. intros H. apply (ev_step _ (fun _ => POk (n, s1))); [|apply ev_const]. intros f. cbn [p_or_rest]. rewrite H. reflexivity. Qed.

Lemma lift_not s r : cur_is s TNot = false -> ev (fun f => p_primary pf f s) r -> ev (fun f => p_not pf f s) r.
Proof. intros H. apply ev_step. intros f. cbn [p_not]. rewrite H. reflexivity. Qed.

Ltac step1 fn := eapply ev_step; [intros ?f; cbn [fn]; reflexivity|].

Lemma lift_cmp s n s1 : ev (fun f => p_not pf f s) (POk (n, s1)) -> is_cmp_op (ttyp (cur s1)) = false ->
  ev (fun f => p_cmp pf f s) (POk (n, s1)).
Proof.
  intros H Hc. step1 p_cmp. eapply ev_bind; [exact H|]. cbn [fst snd]. rewrite Hc. apply ev_const.
Qed.

Lemma lift_and s n s1 r : ev (fun f => p_cmp pf f s) (POk (n, s1)) -> ev (fun f => p_and_rest pf f n s1) r ->
  ev (fun f => p_and pf f s) r.
Proof. intros H Hr. step1 p_and. eapply ev_bind; [exact H|]. cbn [fst snd]. exact Hr. Qed.

Lemma lift_or s n s1 r : ev (fun f => p_and pf f s) (POk (n, s1)) -> ev (fun f => p_or_rest pf f n s1) r ->
  ev (fun f => p_or pf f s) r.
Proof. intros H Hr. step1 p_or. eapply ev_bind; [exact H|]. cbn [fst snd]. exact Hr. Qed.

(* a primary that is followed by a token which continues nothing is a whole expression *)
Lemma primary_is_expr s n s1 :
  cur_is s TNot = false -> ev (fun f => p_primary pf f s) (POk (n, s1)) ->
  is_cmp_op (ttyp (cur s1)) = false -> cur_is s1 TAnd = false -> cur_is s1 TOr = false ->
  ev (fun f => p_or pf f s) (POk (n, s1)).
Proof.
  intros Hn Hp Hc Ha Ho.
  eapply lift_or; [|apply or_rest_stop; exact Ho].
  eapply lift_and; [|apply and_rest_stop; exact Ha].
  apply lift_cmp; [|exact Hc]. apply lift_not; assumption.
Qed.

(* ---------- literals ---------- *)
Definition tlit_spec (v : lit) : tspec :=
  match v with
  | LNull => ty TNull
  | LBool b => tbool b
  | LNum b => tnum b
  | LStr s => tstr s
  end.

Lemma primary_lit v s : tlit_spec v (cur s) -> ev (fun f => p_primary pf f s) (POk (NVal v, advance s)).
Proof.
  intros H. step1 p_primary. destruct v as [|b|b|str]; cbn [tlit_spec] in H.
  - unfold ty in H. rewrite H. apply ev_const.
  - destruct H as [Ht Hb]. rewrite Ht, Hb. apply ev_const.
  - destruct H as [Ht Hb]. rewrite Ht. unfold p_number. rewrite Hb. apply ev_const.
  - destruct H as [Ht Hb]. rewrite Ht, Hb. apply ev_const.
Qed.

Lemma lit_not_tnot v s : tlit_spec v (cur s) -> cur_is s TNot = false.
Proof.
  intros H. destruct v; cbn [tlit_spec] in H; [|destruct H as [H _]..]; rewrite (cur_is_ty _ _ _ H); reflexivity.
Qed.

(* ---------- field paths ---------- *)
Fixpoint head (p : path) : bytes :=
  match p with PField n => n | PDot q _ => head q | PIdx q _ => head q end.

Fixpoint tail_toks (p : path) : list tspec :=
  match p with
  | PField _ => []
  | PDot q n => tail_toks q ++ [ty TDot; tident n]
  | PIdx q b => tail_toks q ++ [ty TLBracket; tnum b; ty TRBracket]
  end.

Definition path_toks (p : path) : list tspec := tident (head p) :: tail_toks p.

Lemma path_loop : forall p s1 s', Follows (tail_toks p) s1 s' ->
  forall r, ev (fun f => p_path pf f (path_node p) s') r -> ev (fun f => p_path pf f (NIdent (head p)) s1) r.
Proof.
  induction p as [n|q IH n|q IH b]; intros s1 s' Hf r Hr; cbn [tail_toks head path_node] in *.
  - cbn [Follows] in Hf. subst s'. exact Hr.
  - apply Follows_app in Hf. destruct Hf as (m & Hq & Hd). cbn [Follows] in Hd.
    destruct Hd as (Hdot & (Hit & Hil) & ->). unfold ty in Hdot.
    apply (IH s1 m Hq). step1 p_path.
    rewrite (cur_is_ty _ _ TLBracket Hdot), (cur_is_ty _ _ TDot Hdot), (cur_is_ty _ _ TIdent Hit). cbn [ttype_eqb ttype_code N.eqb Pos.eqb].
    rewrite Hil. exact Hr.
  - apply Follows_app in Hf. destruct Hf as (m & Hq & Hd). cbn [Follows] in Hd.
    destruct Hd as (Hlb & Hnum & Hrb & ->). unfold ty in Hlb, Hrb.
    apply (IH s1 m Hq). step1 p_path.
    rewrite (cur_is_ty _ _ TLBracket Hlb). cbn [ttype_eqb ttype_code N.eqb Pos.eqb].
    eapply ev_bind.
    + apply primary_is_expr with (n := NVal (LNum b)) (s1 := advance (advance m)).
      * destruct Hnum as [Ht _]. rewrite (cur_is_ty _ _ _ Ht). reflexivity.
      * apply (primary_lit (LNum b)). exact Hnum.
      * rewrite Hrb. reflexivity.
      * rewrite (cur_is_ty _ _ _ Hrb). reflexivity.
      * rewrite (cur_is_ty _ _ _ Hrb). reflexivity.
    + cbn [fst snd]. rewrite (cur_is_ty _ _ TRBracket Hrb). cbn [ttype_eqb ttype_code N.eqb Pos.eqb]. exact Hr.
Qed.

Lemma path_stop e s : cur_is s TLBracket = false -> cur_is s TDot = false -> ev (fun f => p_path pf f e s) (POk (e, s)).
Proof. intros H1 H2. step1 p_path. rewrite H1, H2. apply ev_const. Qed.

(* ---------- identifier, path, then whatever p_ident_or_func does with the next token ---------- *)
Lemma ident_then s p s1 r :
  tident (head p) (cur s) -> Follows (tail_toks p) (advance s) s1 ->
  cur_is s1 TLBracket = false -> cur_is s1 TDot = false ->
  ev (fun f =>
        if cur_is s1 TIN || cur_is s1 TNot then p_in pf f (path_node p) s1
        else if cur_is s1 TLParen then
          match path_node p with
          | NIdent fname =>
              let s2 := advance s1 in
              pbind (if cur_is s2 TRParen then POk ([], s2)
                     else pbind (p_or pf f s2) (fun a => p_args pf f (snd a) [fst a]))
                    (fun a => if cur_is (snd a) TRParen then POk (NFunc fname (fst a), advance (snd a)) else PErr)
          | _ => PErr
          end
        else if cur_is s1 TEXISTS then POk (NFunc s_EXISTS [path_node p], advance s1)
        else if cur_is s1 TDNE then POk (NFunc s_DOES_NOT_EXIST [path_node p], advance s1)
        else POk (path_node p, s1)) r ->
  ev (fun f => p_not pf f s) r.
Proof.
  intros [Hit Hil] Hf Hb Hd Hr.
  apply lift_not; [rewrite (cur_is_ty _ _ _ Hit); reflexivity|].
  step1 p_primary. rewrite Hit. step1 p_ident_or_func. rewrite Hil.
  eapply ev_bind; [apply (path_loop p _ s1 Hf); apply path_stop; assumption|].
  cbn [fst snd]. exact Hr.
Qed.

Definition plain_after (t : ttype) : bool :=
  match t with TLBracket | TDot | TIN | TNot | TLParen | TEXISTS | TDNE => false | _ => true end.

Lemma ident_plain s p s1 :
  tident (head p) (cur s) -> Follows (tail_toks p) (advance s) s1 -> plain_after (ttyp (cur s1)) = true ->
  ev (fun f => p_not pf f s) (POk (path_node p, s1)).
Proof.
  intros Hi Hf Hp.
  assert (H : forall u, plain_after u = false -> cur_is s1 u = false).
  { intros u Hu. unfold cur_is. destruct (ttyp (cur s1)), u; try discriminate; reflexivity. }
  apply (ident_then s p s1); try assumption; try (apply H; reflexivity).
  rewrite !H by reflexivity. cbn [orb]. apply ev_const.
Qed.

(* ---------- conditions ---------- *)
Definition cmp_type (o : cmpop) : ttype :=
  match o with OEq => TEq | ONe => TNe | OLt => TLt | OLe => TLe | OGt => TGt | OGe => TGe end.
Definition strop_type (k : strop) : ttype :=
  match k with SContains => TCONTAINS | SStartsWith => TSW | SEndsWith => TEW | SMatches => TMATCHES end.
Definition top (t : ttype) (l : bytes) : tspec := fun k => ttyp k = t /\ tlit k = l.

Fixpoint items_toks (items : list lit) : list tspec :=
  match items with
  | [] => []
  | v :: r => tlit_spec v :: match r with [] => [] | _ => ty TComma :: items_toks r end
  end.

Definition elem_ok (v : lit) : Prop := match v with LNum _ | LStr _ => True | _ => False end.

Definition cond_toks (c : cond) : list tspec :=
  match c with
  | CCmp o p v => path_toks p ++ [top (cmp_type o) (cmp_bytes o); tlit_spec v]
  | CStr k p s => path_toks p ++ [top (strop_type k) (strop_bytes k); tstr s]
  | CIn neg p items =>
      path_toks p ++ (if neg then [ty TNot; ty TIN] else [ty TIN]) ++ ty TLBracket :: items_toks items ++ [ty TRBracket]
  | CExists neg p => path_toks p ++ [ty (if neg then TDNE else TEXISTS)]
  end.

Definition cond_wf (c : cond) : Prop :=
  match c with CIn _ _ items => Forall elem_ok items | _ => True end.

Lemma array_elem v s : elem_ok v -> tlit_spec v (cur s) -> p_array_elem pf s = POk (NVal v, advance s).
Proof.
  intros Hok H. unfold p_array_elem. destruct v as [|b|b|str]; cbn in Hok; try contradiction; destruct H as [Ht Hb]; rewrite Ht.
  - unfold p_number. rewrite Hb. reflexivity.
  - rewrite Hb. reflexivity.
Qed.

(* (',' elem)* up to the closing bracket *)
Lemma array_rest : forall items s s' acc, Forall elem_ok items ->
  Follows (match items with [] => [] | _ => ty TComma :: items_toks items end) s s' -> ttyp (cur s') = TRBracket ->
  ev (fun f => p_array_rest pf f s acc) (POk (rev acc ++ map NVal items, s')).
Proof.
  induction items as [|v r IH]; intros s s' acc Hok Hf Hrb.
  - cbn [Follows] in Hf. subst s'. step1 p_array_rest. rewrite (cur_is_ty _ _ _ Hrb). cbn. rewrite app_nil_r. apply ev_const.
  - cbn [Follows items_toks] in Hf. destruct Hf as (Hc & Hv & Hrest). unfold ty in Hc.
    inversion Hok as [|? ? Hv0 Hr0]; subst.
    step1 p_array_rest. rewrite (cur_is_ty _ _ _ Hc). cbn [ttype_eqb ttype_code N.eqb Pos.eqb].
    rewrite (array_elem v _ Hv0 Hv). cbn [pbind fst snd].
    replace (rev acc ++ map NVal (v :: r)) with (rev (NVal v :: acc) ++ map NVal r)
      by (cbn [rev map]; rewrite <- app_assoc; reflexivity).
    apply (IH (advance (advance s)) s' (NVal v :: acc) Hr0 Hrest Hrb).
Qed.

Lemma elem_type v s : elem_ok v -> tlit_spec v (cur s) -> ttyp (cur s) = TNumber \/ ttyp (cur s) = TString.
Proof. destruct v; cbn; try contradiction; intros _ [H _]; [left|right]; exact H. Qed.

Lemma array_lit items s s' : Forall elem_ok items -> ttyp (cur s) = TLBracket ->
  Follows (items_toks items ++ [ty TRBracket]) (advance s) s' ->
  ev (fun f => p_array_lit pf f s) (POk (NArr (map NVal items), s')).
Proof.
  intros Hok Hlb Hf. unfold p_array_lit. destruct items as [|v r].
  - cbn [items_toks app Follows] in Hf. destruct Hf as (Hrb & ->). unfold ty in Hrb.
    rewrite (cur_is_ty _ _ _ Hrb). cbn [ttype_eqb ttype_code N.eqb Pos.eqb pbind fst snd].
    rewrite (cur_is_ty _ _ _ Hrb). cbn [ttype_eqb ttype_code N.eqb Pos.eqb map]. apply ev_const.
  - inversion Hok as [|? ? Hv0 Hr0]; subst.
    cbn [items_toks] in Hf. rewrite <- app_comm_cons in Hf. cbn [Follows] in Hf. destruct Hf as (Hv & Hf).
    apply Follows_app in Hf. destruct Hf as (m & Hrest & Hend). cbn [Follows] in Hend. destruct Hend as (Hrb & ->). unfold ty in Hrb.
    assert (Hnrb : cur_is (advance s) TRBracket = false).
    { destruct (elem_type v _ Hv0 Hv) as [H|H]; rewrite (cur_is_ty _ _ _ H); reflexivity. }
    rewrite Hnrb. rewrite (array_elem v _ Hv0 Hv). cbn [pbind fst snd].
    eapply ev_bind; [apply (array_rest r _ m [NVal v] Hr0 Hrest Hrb)|].
    cbn [fst snd]. rewrite (cur_is_ty _ _ _ Hrb). cbn [ttype_eqb ttype_code N.eqb Pos.eqb rev app map]. apply ev_const.
Qed.

Lemma cond_parses c s s' : cond_wf c -> Follows (cond_toks c) s s' -> is_cmp_op (ttyp (cur s')) = false ->
  ev (fun f => p_cmp pf f s) (POk (cond_node c, s')).
Proof.
  intros Hwf Hf Hstop. destruct c as [o p v|k p str|neg p items|neg p]; cbn [cond_toks cond_node] in *;
    unfold path_toks in Hf; rewrite <- app_comm_cons in Hf; cbn [Follows] in Hf; destruct Hf as (Hid & Hf);
    apply Follows_app in Hf; destruct Hf as (s1 & Hpath & Hf).
  - (* path op literal *)
    cbn [Follows] in Hf. destruct Hf as ((Hot & Hol) & Hv & ->).
    step1 p_cmp. eapply ev_bind.
    + apply (ident_plain s p s1 Hid Hpath). rewrite Hot. destruct o; reflexivity.
    + cbn [fst snd]. rewrite Hot. replace (is_cmp_op (cmp_type o)) with true by (destruct o; reflexivity).
      eapply ev_bind.
      * apply lift_not; [exact (lit_not_tnot v _ Hv)|]. apply primary_lit. exact Hv.
      * cbn [fst snd]. rewrite Hol. apply ev_const.
  - (* path string-operator string *)
    cbn [Follows] in Hf. destruct Hf as ((Hot & Hol) & Hv & ->).
    step1 p_cmp. eapply ev_bind.
    + apply (ident_plain s p s1 Hid Hpath). rewrite Hot. destruct k; reflexivity.
    + cbn [fst snd]. rewrite Hot. replace (is_cmp_op (strop_type k)) with true by (destruct k; reflexivity).
      eapply ev_bind.
      * apply lift_not; [exact (lit_not_tnot (LStr str) _ Hv)|]. apply (primary_lit (LStr str)). exact Hv.
      * cbn [fst snd]. rewrite Hol. apply ev_const.
  - (* path [NOT] IN [ items ] *)
    cbn [cond_wf] in Hwf. apply lift_cmp; [|exact Hstop].
    destruct neg.
    + cbn [app Follows] in Hf. destruct Hf as (Hnot & Hin & Hlb & Hitems). unfold ty in Hnot, Hin, Hlb.
      apply (ident_then s p s1 _ Hid Hpath); try (rewrite (cur_is_ty _ _ _ Hnot); reflexivity).
      rewrite (cur_is_ty _ _ TIN Hnot), (cur_is_ty _ _ TNot Hnot). cbn [ttype_eqb ttype_code N.eqb Pos.eqb orb].
      unfold p_in. rewrite (cur_is_ty _ _ TNot Hnot), (cur_is_ty _ _ TIN Hin). cbn [ttype_eqb ttype_code N.eqb Pos.eqb andb].
      rewrite (cur_is_ty _ _ TLBracket Hlb). cbn [ttype_eqb ttype_code N.eqb Pos.eqb].
      eapply ev_bind; [apply (array_lit items _ s' Hwf Hlb Hitems)|]. cbn [fst snd]. apply ev_const.
    + cbn [app Follows] in Hf. destruct Hf as (Hin & Hlb & Hitems). unfold ty in Hin, Hlb.
      apply (ident_then s p s1 _ Hid Hpath); try (rewrite (cur_is_ty _ _ _ Hin); reflexivity).
      rewrite (cur_is_ty _ _ TIN Hin). cbn [ttype_eqb ttype_code N.eqb Pos.eqb orb].
      unfold p_in. rewrite (cur_is_ty _ _ TNot Hin). cbn [ttype_eqb ttype_code N.eqb Pos.eqb andb].
      rewrite (cur_is_ty _ _ TLBracket Hlb). cbn [ttype_eqb ttype_code N.eqb Pos.eqb].
      eapply ev_bind; [apply (array_lit items _ s' Hwf Hlb Hitems)|]. cbn [fst snd]. apply ev_const.
  - (* path EXISTS / DOES NOT EXIST *)
    cbn [Follows] in Hf. destruct Hf as (Ht & ->). unfold ty in Ht.
    apply lift_cmp; [|exact Hstop].
    apply (ident_then s p s1 _ Hid Hpath); try (rewrite (cur_is_ty _ _ _ Ht); destruct neg; reflexivity).
    rewrite !(cur_is_ty _ _ _ Ht). destruct neg; cbn [ttype_eqb ttype_code N.eqb Pos.eqb orb]; apply ev_const.
Qed.

(* ---------- the documented grammar as token sequences, with arbitrary redundant parentheses ---------- *)
Inductive level := LOr | LAnd | LCmp.

Inductive Renders : level -> wexpr -> list tspec -> Prop :=
| R_or a b ta tb : Renders LOr a ta -> Renders LAnd b tb -> Renders LOr (WOr a b) (ta ++ ty TOr :: tb)
| R_or_and e t : Renders LAnd e t -> Renders LOr e t
| R_and a b ta tb : Renders LAnd a ta -> Renders LCmp b tb -> Renders LAnd (WAnd a b) (ta ++ ty TAnd :: tb)
| R_and_cmp e t : Renders LCmp e t -> Renders LAnd e t
| R_cond c : cond_wf c -> Renders LCmp (WCond c) (cond_toks c)
| R_not a t : Renders LOr a t -> Renders LCmp (WNot a) (ty TNot :: ty TLParen :: t ++ [ty TRParen])
| R_paren e t : Renders LOr e t -> Renders LCmp e (ty TLParen :: t ++ [ty TRParen]).

Definition level_goal (l : level) (e : wexpr) (s s' : pst) : Prop :=
  match l with
  | LCmp => ev (fun f => p_cmp pf f s) (POk (to_node e, s'))
  | LAnd => forall r, ev (fun f => p_and_rest pf f (to_node e) s') r -> ev (fun f => p_and pf f s) r
  | LOr => cur_is s' TAnd = false ->
           forall r, ev (fun f => p_or_rest pf f (to_node e) s') r -> ev (fun f => p_or pf f s) r
  end.

Lemma paren_primary a t s s' :
  (forall s0 s1, Follows t s0 s1 -> is_cmp_op (ttyp (cur s1)) = false -> level_goal LOr a s0 s1) ->
  Follows (ty TLParen :: t ++ [ty TRParen]) s s' ->
  ev (fun f => p_primary pf f s) (POk (to_node a, s')).
Proof.
  intros IH Hf. cbn [Follows] in Hf. destruct Hf as (Hlp & Hf). unfold ty in Hlp.
  apply Follows_app in Hf. destruct Hf as (m & Ht & Hend). cbn [Follows] in Hend. destruct Hend as (Hrp & ->). unfold ty in Hrp.
  step1 p_primary. rewrite Hlp. eapply ev_bind.
  - apply (IH (advance s) m Ht); [rewrite Hrp; reflexivity|rewrite (cur_is_ty _ _ _ Hrp); reflexivity|].
    apply or_rest_stop. rewrite (cur_is_ty _ _ _ Hrp). reflexivity.
  - cbn [fst snd]. rewrite (cur_is_ty _ _ _ Hrp). cbn [ttype_eqb ttype_code N.eqb Pos.eqb]. apply ev_const.
Qed.

Lemma renders_parse : forall l e t, Renders l e t ->
  forall s s', Follows t s s' -> is_cmp_op (ttyp (cur s')) = false -> level_goal l e s s'.
Proof.
  induction 1 as [a b ta tb Ha IHa Hb IHb|e t He IHe|a b ta tb Ha IHa Hb IHb|e t He IHe|c Hwf|a t Ha IHa|e t He IHe];
    intros s s' Hf Hstop; cbn [level_goal].
  - (* a OR b *)
    intros Hand r Hr. apply Follows_app in Hf. destruct Hf as (m & Hfa & Hfb). cbn [Follows] in Hfb.
    destruct Hfb as (Hor & Hfb). unfold ty in Hor.
    apply (IHa s m Hfa); [rewrite Hor; reflexivity|rewrite (cur_is_ty _ _ _ Hor); reflexivity|].
    step1 p_or_rest. rewrite (cur_is_ty _ _ _ Hor). cbn [ttype_eqb ttype_code N.eqb Pos.eqb].
    eapply ev_bind.
    + apply (IHb (advance m) s' Hfb Hstop). apply and_rest_stop. exact Hand.
    + cbn [fst snd to_node] in *. exact Hr.
  - (* an AND-level expression where an OR-level one is expected *)
    intros Hand r Hr. eapply lift_or; [|exact Hr].
    apply (IHe s s' Hf Hstop). apply and_rest_stop. exact Hand.
  - (* a AND b *)
    intros r Hr. apply Follows_app in Hf. destruct Hf as (m & Hfa & Hfb). cbn [Follows] in Hfb.
    destruct Hfb as (Hand & Hfb). unfold ty in Hand.
    apply (IHa s m Hfa); [rewrite Hand; reflexivity|].
    step1 p_and_rest. rewrite (cur_is_ty _ _ _ Hand). cbn [ttype_eqb ttype_code N.eqb Pos.eqb].
    eapply ev_bind; [apply (IHb (advance m) s' Hfb Hstop)|]. cbn [fst snd to_node] in *. exact Hr.
  - (* a comparison where an AND-level expression is expected *)
    intros r Hr. eapply lift_and; [apply (IHe s s' Hf Hstop)|exact Hr].
  - (* a condition *)
    cbn [to_node]. apply cond_parses; assumption.
  - (* NOT ( a ) *)
    cbn [Follows] in Hf. destruct Hf as (Hnot & Hf). unfold ty in Hnot.
    apply lift_cmp; [|exact Hstop].
    step1 p_not. rewrite (cur_is_ty _ _ _ Hnot). cbn [ttype_eqb ttype_code N.eqb Pos.eqb].
    eapply ev_bind; [apply (paren_primary a t (advance s) s' IHa Hf)|]. cbn [fst snd to_node]. apply ev_const.
  - (* ( e ) *)
    assert (Hlp : ttyp (cur s) = TLParen) by (cbn [Follows] in Hf; destruct Hf as (H & _); exact H).
    apply lift_cmp; [|exact Hstop]. apply lift_not; [rewrite (cur_is_ty _ _ _ Hlp); reflexivity|].
    apply (paren_primary e t s s' IHe Hf).
Qed.

(* a whole filter: tokens of an OR-level expression, then the end of the input *)
Lemma renders_whole e t s s' : Renders LOr e t -> Follows t s s' -> ttyp (cur s') = TEOF ->
  ev (fun f => p_or pf f s) (POk (to_node e, s')).
Proof.
  intros Hr Hf He.
  apply (renders_parse LOr e t Hr s s' Hf); [rewrite He; reflexivity|rewrite (cur_is_ty _ _ _ He); reflexivity|].
  apply or_rest_stop. rewrite (cur_is_ty _ _ _ He). reflexivity.
Qed.

(* ---------- more fuel never changes an answer ---------- *)
Lemma pbind_mono {A B} (g g' : pres A) (k k' : A -> pres B) :
  (g <> PFuel -> g' = g) -> (forall x, k x <> PFuel -> k' x = k x) ->
  pbind g k <> PFuel -> pbind g' k' = pbind g k.
Proof.
  intros Hg Hk H. destruct g as [a| |]; cbn [pbind] in *.
  - rewrite Hg by discriminate. cbn [pbind]. apply Hk. exact H.
  - rewrite Hg by discriminate. reflexivity.
  - contradiction.
Qed.

Lemma array_rest_mono : forall f s acc f', f <= f' -> p_array_rest pf f s acc <> PFuel ->
  p_array_rest pf f' s acc = p_array_rest pf f s acc.
Proof.
  induction f as [|f IH]; intros s acc f' Hle H; [cbn in H; contradiction|].
  destruct f' as [|f']; [lia|]. cbn [p_array_rest] in *.
  destruct (cur_is s TComma); [|reflexivity].
  apply pbind_mono; [reflexivity| |exact H]. intros x Hx. apply IH; [lia|exact Hx].
Qed.

Lemma array_lit_mono f f' s : f <= f' -> p_array_lit pf f s <> PFuel -> p_array_lit pf f' s = p_array_lit pf f s.
Proof.
  intros Hle H. unfold p_array_lit in *.
  apply pbind_mono; [|reflexivity|exact H].
  destruct (cur_is (advance s) TRBracket); [reflexivity|].
  intros H1. apply pbind_mono; [reflexivity| |exact H1]. intros x Hx. apply array_rest_mono; assumption.
Qed.

Lemma p_in_mono f f' e s : f <= f' -> p_in pf f e s <> PFuel -> p_in pf f' e s = p_in pf f e s.
Proof.
  intros Hle H. unfold p_in in *.
  destruct (cur_is (if cur_is s TNot && cur_is (advance s) TIN then advance (advance s) else advance s) TLBracket); [|reflexivity].
  apply pbind_mono; [|reflexivity|exact H]. intros H1. apply array_lit_mono; assumption.
Qed.

Definition M (f : nat) : Prop :=
  (forall s f', f <= f' -> p_or pf f s <> PFuel -> p_or pf f' s = p_or pf f s) /\
  (forall l s f', f <= f' -> p_or_rest pf f l s <> PFuel -> p_or_rest pf f' l s = p_or_rest pf f l s) /\
  (forall s f', f <= f' -> p_and pf f s <> PFuel -> p_and pf f' s = p_and pf f s) /\
  (forall l s f', f <= f' -> p_and_rest pf f l s <> PFuel -> p_and_rest pf f' l s = p_and_rest pf f l s) /\
  (forall s f', f <= f' -> p_cmp pf f s <> PFuel -> p_cmp pf f' s = p_cmp pf f s) /\
  (forall s f', f <= f' -> p_not pf f s <> PFuel -> p_not pf f' s = p_not pf f s) /\
  (forall s f', f <= f' -> p_primary pf f s <> PFuel -> p_primary pf f' s = p_primary pf f s) /\
  (forall s f', f <= f' -> p_ident_or_func pf f s <> PFuel -> p_ident_or_func pf f' s = p_ident_or_func pf f s) /\
  (forall e s f', f <= f' -> p_path pf f e s <> PFuel -> p_path pf f' e s = p_path pf f e s) /\
  (forall s acc f', f <= f' -> p_args pf f s acc <> PFuel -> p_args pf f' s acc = p_args pf f s acc).

Lemma all_mono : forall f, M f.
Proof.
  induction f as [|f IH]; [unfold M; repeat split; intros; cbn in *; contradiction|].
  destruct IH as (Hor & Horr & Hand & Handr & Hcmp & Hnot & Hprim & Hiof & Hpath & Hargs).
  unfold M. repeat split.
  - intros s f' Hle H. destruct f' as [|f']; [lia|]. cbn [p_or] in *.
    apply pbind_mono; [intros; apply Hand; [lia|assumption]|intros; apply Horr; [lia|assumption]|exact H].
  - intros l s f' Hle H. destruct f' as [|f']; [lia|]. cbn [p_or_rest] in *. destruct (cur_is s TOr); [|reflexivity].
    apply pbind_mono; [intros; apply Hand; [lia|assumption]|intros; apply Horr; [lia|assumption]|exact H].
  - intros s f' Hle H. destruct f' as [|f']; [lia|]. cbn [p_and] in *.
    apply pbind_mono; [intros; apply Hcmp; [lia|assumption]|intros; apply Handr; [lia|assumption]|exact H].
  - intros l s f' Hle H. destruct f' as [|f']; [lia|]. cbn [p_and_rest] in *. destruct (cur_is s TAnd); [|reflexivity].
    apply pbind_mono; [intros; apply Hcmp; [lia|assumption]|intros; apply Handr; [lia|assumption]|exact H].
  - intros s f' Hle H. destruct f' as [|f']; [lia|]. cbn [p_cmp] in *.
    apply pbind_mono; [intros; apply Hnot; [lia|assumption]| |exact H].
    intros x Hx. cbn beta zeta in *. destruct (is_cmp_op (ttyp (cur (snd x)))); [|reflexivity].
    apply pbind_mono; [intros; apply Hnot; [lia|assumption]|reflexivity|exact Hx].
  - intros s f' Hle H. destruct f' as [|f']; [lia|]. cbn [p_not] in *. destruct (cur_is s TNot).
    + apply pbind_mono; [intros; apply Hprim; [lia|assumption]|reflexivity|exact H].
    + apply Hprim; [lia|exact H].
  - intros s f' Hle H. destruct f' as [|f']; [lia|]. cbn [p_primary] in *.
    destruct (ttyp (cur s)); try reflexivity.
    + apply Hiof; [lia|exact H].
    + apply pbind_mono; [intros; apply Hor; [lia|assumption]|reflexivity|exact H].
    + apply array_lit_mono; [lia|exact H].
  - intros s f' Hle H. destruct f' as [|f']; [lia|]. cbn [p_ident_or_func] in *.
    apply pbind_mono; [intros; apply Hpath; [lia|assumption]| |exact H].
    intros x Hx. cbn beta zeta in *.
    destruct (cur_is (snd x) TIN || cur_is (snd x) TNot); [apply p_in_mono; [lia|exact Hx]|].
    destruct (cur_is (snd x) TLParen).
    { destruct (fst x); try reflexivity.
      apply pbind_mono; [|reflexivity|exact Hx].
      destruct (cur_is (advance (snd x)) TRParen); [reflexivity|].
      intros H1. apply pbind_mono; [intros; apply Hor; [lia|assumption]|intros; apply Hargs; [lia|assumption]|exact H1]. }
    reflexivity.
  - intros e s f' Hle H. destruct f' as [|f']; [lia|]. cbn [p_path] in *.
    destruct (cur_is s TLBracket).
    { apply pbind_mono; [intros; apply Hor; [lia|assumption]| |exact H].
      intros x Hx. destruct (cur_is (snd x) TRBracket); [|reflexivity]. apply Hpath; [lia|exact Hx]. }
    destruct (cur_is s TDot); [|reflexivity].
    destruct (cur_is (advance s) TIdent); [|reflexivity]. apply Hpath; [lia|exact H].
  - intros s acc f' Hle H. destruct f' as [|f']; [lia|]. cbn [p_args] in *. destruct (cur_is s TComma); [|reflexivity].
    apply pbind_mono; [intros; apply Hor; [lia|assumption]|intros; apply Hargs; [lia|assumption]|exact H].
Qed.

(* ---------- the theorem: Parse builds the documented tree ---------- *)
Theorem parse_builds_tree text e t s' :
  Renders LOr e t -> Follows t (init_pst text) s' -> ttyp (cur s') = TEOF ->
  parse pf text = POk (to_node e).
Proof.
  intros Hr Hf He. destruct (renders_whole e t _ s' Hr Hf He) as [f0 H0].
  unfold parse, parse_with_fuel. set (F := 12 * length text + 40).
  destruct (all_ok pf F) as (Hok & _). pose proof (init_mu text) as Hm.
  specialize (Hok (init_pst text) ltac:(unfold F; lia)).
  assert (Hnf : p_or pf F (init_pst text) <> PFuel).
  { intros E. rewrite E in Hok. exact Hok. }
  destruct (all_mono F) as (Hmono & _).
  pose proof (Hmono (init_pst text) (max F f0) ltac:(lia) Hnf) as E.
  rewrite (H0 (max F f0) ltac:(lia)) in E. rewrite <- E. cbn [pbind fst snd].
  rewrite (cur_is_ty _ _ _ He). reflexivity.
Qed.
End Tree.

(* ---------- non-vacuity: a concrete text meets the premises of parse_builds_tree ---------- *)
Open Scope N_scope.
(* "a == 1 OR NOT (u.x EXISTS) AND (b IN [2, 'k'])" *)
Definition ex_text : bytes := [97; 32; 61; 61; 32; 49; 32; 79; 82; 32; 78; 79; 84; 32; 40; 117; 46; 120; 32; 69; 88; 73; 83; 84; 83; 41; 32; 65; 78; 68; 32; 40; 98; 32; 73; 78; 32; 91; 50; 44; 32; 39; 107; 39; 93; 41].
Definition ex_c1 : cond := CCmp OEq (PField [97]) (LNum 4607182418800017408).
Definition ex_c2 : cond := CExists false (PDot (PField [117]) [120]).
Definition ex_c3 : cond := CIn false (PField [98]) [LNum 4611686018427387904; LStr [107]].
Definition ex_expr : wexpr := WOr (WCond ex_c1) (WAnd (WNot (WCond ex_c2)) (WCond ex_c3)).
Definition ex_toks : list (tspec) :=
  cond_toks pf_small ex_c1 ++ ty TOr ::
    ((ty TNot :: ty TLParen :: cond_toks pf_small ex_c2 ++ [ty TRParen]) ++ ty TAnd ::
     (ty TLParen :: cond_toks pf_small ex_c3 ++ [ty TRParen])).

Example ex_renders : Renders pf_small LOr ex_expr ex_toks.
Proof.
  unfold ex_expr, ex_toks.
  apply R_or.
  - apply R_or_and, R_and_cmp, R_cond. exact I.
  - apply R_and.
    + apply R_and_cmp, R_not, R_or_and, R_and_cmp, R_cond. exact I.
    + apply R_paren, R_or_and, R_and_cmp, R_cond. cbn. repeat constructor.
Qed.

Example ex_follows : Follows ex_toks (init_pst ex_text) (Nat.iter 21%nat advance (init_pst ex_text))
  /\ ttyp (cur (Nat.iter 21%nat advance (init_pst ex_text))) = TEOF.
Proof.
  split; [|vm_compute; reflexivity].
  unfold ex_toks, ex_c1, ex_c2, ex_c3.
  cbn [cond_toks path_toks tail_toks head app items_toks tlit_spec Follows].
  unfold ty, tident, tnum, tstr, top.
  repeat split; vm_compute; reflexivity.
Qed.

Example ex_parse : parse pf_small ex_text = POk (to_node ex_expr).
Proof. destruct ex_follows as [Hf He]. exact (parse_builds_tree pf_small ex_text ex_expr ex_toks _ ex_renders Hf He). Qed.
