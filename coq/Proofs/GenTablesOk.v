(* GenTablesOk.v — the tables regenerated from query/lexer.go, query/parser.go, collection.go and lshtree.go
   (Gen/QueryTables.v) are the ones the hand-written models use.  A keyword, token type, comparison operator,
   white-space byte, character range or index constant edited in /repo changes Gen/QueryTables.v and one of these
   lemmas stops compiling; the property files of C04, C05, C13, C14, C15 depend on this file. *)
From Coq Require Import NArith ZArith List String Bool.
From Syz Require Import QueryTables QLex QParse Lsh.
Import ListNotations.
Open Scope N_scope.

(* Go constant name -> constructor of the model *)
Definition tt_of_name (s : string) : option ttype :=
  let t := [("TokenIdentifier", TIdent); ("TokenString", TString); ("TokenNumber", TNumber); ("TokenBoolean", TBool);
            ("TokenNull", TNull); ("TokenOperator", TOperator); ("TokenParenthesis", TParenthesis);
            ("TokenLeftParen", TLParen); ("TokenRightParen", TRParen); ("TokenComma", TComma); ("TokenEqual", TEq);
            ("TokenNotEqual", TNe); ("TokenGreater", TGt); ("TokenGreaterEqual", TGe); ("TokenLess", TLt);
            ("TokenLessEqual", TLe); ("TokenAnd", TAnd); ("TokenOr", TOr); ("TokenNot", TNot); ("TokenIN", TIN);
            ("TokenNOTIN", TNOTIN); ("TokenEXISTS", TEXISTS); ("TokenDOESNOTEXIST", TDNE); ("TokenCONTAINS", TCONTAINS);
            ("TokenSTARTSWITH", TSW); ("TokenENDSWITH", TEW); ("TokenMATCHES", TMATCHES); ("TokenLENGTH", TLENGTH);
            ("TokenANY", TANY); ("TokenALL", TALL); ("TokenEOF", TEOF); ("TokenLeftBracket", TLBracket);
            ("TokenRightBracket", TRBracket); ("TokenColon", TColon); ("TokenDot", TDot); ("TokenArrayStar", TArrayStar)]%string in
  (fix go (l : list (string * ttype)) := match l with [] => None | (n, x) :: r => if String.eqb n s then Some x else go r end) t.

Definition all_ttypes : list ttype :=
  [TIdent; TString; TNumber; TBool; TNull; TOperator; TParenthesis; TLParen; TRParen; TComma; TEq; TNe; TGt; TGe; TLt; TLe;
   TAnd; TOr; TNot; TIN; TNOTIN; TEXISTS; TDNE; TCONTAINS; TSW; TEW; TMATCHES; TLENGTH; TANY; TALL; TEOF; TLBracket;
   TRBracket; TColon; TDot; TArrayStar].

Fixpoint index_ok (i : N) (l : list string) : bool :=
  match l with
  | [] => true
  | n :: r => match tt_of_name n with Some t => (ttype_code t =? i) && index_ok (i + 1) r | None => false end
  end.

(* the numbering of the token types is the iota order of the Go constants (the harness prints these numbers) *)
Lemma token_numbering_ok : index_ok 0 gen_token_types = true /\ length gen_token_types = length all_ttypes.
Proof. split; vm_compute; reflexivity. Qed.

(* lookupIdentifier = the keyword table of the lexer model, entry for entry *)
Lemma keywords_ok :
  map (fun kv => (fst kv, tt_of_name (snd kv))) gen_keywords = map (fun kv => (fst kv, Some (snd kv))) keywords
  /\ tt_of_name gen_keyword_default = Some TIdent.
Proof. split; vm_compute; reflexivity. Qed.

(* isComparisonOperator = is_cmp_op, on every token type *)
Lemma cmp_ops_ok :
  forallb (fun t => Bool.eqb (is_cmp_op t)
                      (existsb (fun n => match tt_of_name n with Some u => ttype_eqb t u | None => false end) gen_cmp_ops))
          all_ttypes = true
  /\ forallb (fun n => match tt_of_name n with Some _ => true | None => false end) gen_cmp_ops = true.
Proof. split; vm_compute; reflexivity. Qed.

(* character classes, on every byte *)
Definition bytes256 : list N := map N.of_nat (seq 0 256).
Definition in_ranges (rs : list (N * N)) (c : N) : bool := existsb (fun r => (fst r <=? c) && (c <=? snd r)) rs.

Lemma char_classes_ok :
  forallb (fun c => Bool.eqb (is_space c) (existsb (N.eqb c) gen_space)
                    && Bool.eqb (is_letter c) (in_ranges gen_letter c)
                    && Bool.eqb (is_digit c) (in_ranges gen_digit c)
                    && Bool.eqb (is_hex_digit c) (in_ranges gen_hex_digit c)) bytes256 = true.
Proof. vm_compute. reflexivity. Qed.

(* the index: leaf threshold, number of trees, search budget *)
Lemma lsh_constants_ok :
  N.of_nat threshold = gen_lsh_threshold /\ Z.of_N gen_search_k = search_k /\ gen_lsh_trees = 5.
Proof. repeat split; vm_compute; reflexivity. Qed.
