(* PathProofs.v — the file of an accepted collection name lies directly inside the cleaned data folder. *)
From Coq Require Import ZArith Lia.
From Syz Require Import PathClean ListLemmas.
Open Scope N_scope.

Definition no_slash (b : bytes) : Prop := Forall (fun c => c <> slash) b.

Lemma split_no_slash : forall b acc, no_slash b -> split_slash b acc = [rev acc ++ b].
Proof.
  induction b as [|c b IH]; intros acc H; cbn [split_slash].
  - now rewrite app_nil_r.
  - inversion H as [|? ? Hc Hb]; subst. destruct (N.eqb_spec c slash) as [E|_]; [contradiction|].
    rewrite IH by exact Hb. cbn [rev]. rewrite <- app_assoc. reflexivity.
Qed.

Lemma split_app_slash : forall a cur b, no_slash b ->
  split_slash (a ++ slash :: b) cur = split_slash a cur ++ [b].
Proof.
  induction a as [|c a IH]; intros cur b Hb; cbn [app split_slash].
  - rewrite N.eqb_refl. rewrite split_no_slash by exact Hb. reflexivity.
  - destruct (c =? slash); cbn [app]; [f_equal|]; now apply IH.
Qed.

Lemma valid_name_spec name : valid_name name = true -> name <> [] /\ no_slash name.
Proof.
  unfold valid_name. destruct name as [|c r]; [discriminate|]. intros H. split; [discriminate|].
  rewrite forallb_forall in H. apply Forall_forall. intros x Hx. specialize (H x Hx).
  apply negb_true_iff in H. apply orb_false_iff in H. destruct H as [H _]. apply orb_false_iff in H. destruct H as [H _].
  unfold slash. now apply N.eqb_neq in H.
Qed.

(* the base name of the collection file: no separator, and neither "", "." nor ".." *)
Lemma base_facts name : valid_name name = true ->
  let base := name ++ dat in
  no_slash base /\ bytes_eqb base [] = false /\ bytes_eqb base dot = false /\ bytes_eqb base dotdot = false.
Proof.
  intros H. destruct (valid_name_spec name H) as [Hne Hns]. cbn zeta.
  split; [|split; [|split]].
  - apply Forall_app. split; [exact Hns|]. unfold dat, slash. repeat constructor; discriminate.
  - destruct name; [contradiction|reflexivity].
  - destruct name as [|c [|d r]]; [contradiction| |]; cbn; rewrite ?andb_false_r; reflexivity.
  - destruct name as [|c [|d [|e r]]]; [contradiction| | |]; cbn; rewrite ?andb_false_r; reflexivity.
Qed.

Lemma fold_left_app_one {A B} (f : A -> B -> A) l x a : fold_left f (l ++ [x]) a = f (fold_left f l a) x.
Proof. now rewrite fold_left_app. Qed.

(* Theorem: for every data folder and every accepted name, the collection file is the entry
   <name>.dat directly inside the cleaned data folder: its cleaned component stack is the stack
   of the folder plus exactly that one component. *)
Theorem collection_file_confined df name : valid_name name = true -> df <> [] ->
  collection_file df name = render (is_rooted df) ((name ++ dat) :: clean_stack df)
  /\ clean df = render (is_rooted df) (clean_stack df).
Proof.
  intros Hv Hdf. destruct (base_facts name Hv) as (Hns & H1 & H2 & H3). cbn zeta in *.
  set (base := name ++ dat) in *.
  assert (Hbne : base <> []) by (intros E; rewrite E in H1; discriminate).
  assert (Hj : join2 df base = clean (df ++ slash :: base)).
  { unfold join2. destruct df; [contradiction|]. destruct base; [contradiction|reflexivity]. }
  assert (Hc : forall x, x <> [] -> clean x = render (is_rooted x) (clean_stack x)).
  { intros x Hx. unfold clean. destruct x; [contradiction|reflexivity]. }
  assert (Hroot : is_rooted (df ++ slash :: base) = is_rooted df).
  { destruct df; [contradiction|reflexivity]. }
  split; [|now apply Hc].
  unfold collection_file. fold base. rewrite Hj.
  rewrite Hc by (destruct df; discriminate).
  rewrite Hroot. f_equal.
  unfold clean_stack. rewrite Hroot.
  rewrite split_app_slash by exact Hns. rewrite fold_left_app_one.
  unfold clean_step at 1. rewrite H1, H2, H3. cbn [orb]. reflexivity.
Qed.

(* with an empty data folder the file is the bare base name in the working directory *)
Theorem collection_file_empty_folder name : valid_name name = true ->
  collection_file [] name = name ++ dat.
Proof.
  intros Hv. destruct (base_facts name Hv) as (Hns & H1 & H2 & H3). cbn zeta in *.
  set (base := name ++ dat) in *.
  assert (Hbne : base <> []) by (intros E; rewrite E in H1; discriminate).
  assert (Hj : join2 [] base = clean base) by (unfold join2; destruct base; [contradiction|reflexivity]).
  assert (Hr : is_rooted base = false).
  { destruct base as [|c r]; [contradiction|]. cbn [is_rooted]. inversion Hns as [|? ? Hc _]; subst. now apply N.eqb_neq. }
  unfold collection_file. fold base. rewrite Hj. unfold clean. destruct base as [|c r] eqn:Eb; [contradiction|]. rewrite <- Eb in *.
  unfold clean_stack. rewrite Hr. rewrite split_no_slash by exact Hns. cbn [rev app fold_left].
  unfold clean_step. rewrite H1, H2, H3. cbn [orb render rev app join_slash]. reflexivity.
Qed.

(* rejected: names with a separator, a NUL byte, or nothing at all *)
Theorem invalid_names : valid_name [] = false
  /\ (forall a b, valid_name (a ++ 47 :: b) = false)
  /\ (forall a b, valid_name (a ++ 92 :: b) = false)
  /\ (forall a b, valid_name (a ++ 0 :: b) = false).
Proof.
  split; [reflexivity|].
  assert (G : forall c a b, (c =? 47) || (c =? 92) || (c =? 0) = true -> valid_name (a ++ c :: b) = false).
  { intros c a b Hc. unfold valid_name. destruct (a ++ c :: b) eqn:E; [reflexivity|]. rewrite <- E.
    apply not_true_is_false. intros H. rewrite forallb_forall in H.
    assert (Hin : In c (a ++ c :: b)) by (apply in_or_app; right; now left).
    specialize (H c Hin). rewrite Hc in H. discriminate. }
  repeat split; intros a b; apply G; reflexivity.
Qed.
