(* ScanProofs.v — scanning the image of a well-formed tile list gives the tile list back. *)
From Coq Require Import ZArith Lia ZifyN ZifyBool ZifyNat.
From Syz Require Import Store Consts ConstsOk ListLemmas VarintProofs CrcBound SpanProofs.
Open Scope N_scope.
Ltac Zify.zify_post_hook ::= Z.div_mod_to_equations.

(* tiles of a quiescent, cleanly operated file *)
Inductive wf_tile : tile -> Prop :=
| wf_TA : forall seq rid ss pad,
    wf_span seq rid ss pad -> pad < 15 -> wf_tile (TA (ta_img seq rid ss pad) seq rid)
| wf_TF : forall len junk,
    len = 8 + blen junk -> 15 <= len -> len < 4294967296 -> wf_tile (TF len junk).

Lemma blen_timg t : blen (timg t) = tlen t.
Proof.
  destruct t as [img seq rid|len junk|bs|bs]; cbn [timg tlen]; try reflexivity.
  rewrite !blen_app, !blen_be32. lia.
Qed.

Lemma blen_flatten ts : blen (flatten ts) = tiles_len ts.
Proof.
  induction ts as [|t ts IH]; [reflexivity|].
  unfold flatten in *. cbn [flat_map tiles_len fold_right]. rewrite blen_app, IH, blen_timg. reflexivity.
Qed.

Lemma img_len_ge15 seq rid ss pad : 15 <= img_len seq rid ss pad.
Proof.
  unfold img_len, span_size. rewrite blen_body.
  pose proof (lengthOf7w_pos seq). pose proof (lengthOf7w_pos (blen rid)). lia.
Qed.

Lemma wf_tile_len t : wf_tile t -> 15 <= tlen t /\ tlen t < 4294967296.
Proof.
  intros [seq rid ss pad Hw Hp|len junk Hl H15 Hlt]; cbn [tlen].
  - rewrite blen_ta_img. split; [apply img_len_ge15|]. destruct Hw. unfold img_len. assumption.
  - lia.
Qed.

Lemma ta_img_field seq rid ss pad rest : wf_span seq rid ss pad ->
  rd32 (skipn 4 (ta_img seq rid ss pad ++ rest)) = Some (img_len seq rid ss pad).
Proof.
  intros Hw. unfold ta_img. rewrite (ta_field _ _ _ _ Hw). rewrite <- !app_assoc.
  rewrite (skipn_app_exact' (be32 activeMagic)) by reflexivity.
  apply rd32_be32. destruct Hw. unfold img_len. assumption.
Qed.

Lemma ta_img_magic seq rid ss pad rest : rd32 (ta_img seq rid ss pad ++ rest) = Some activeMagic.
Proof.
  unfold ta_img. rewrite <- !app_assoc. apply rd32_be32. destruct magic_ok as [-> _]. lia.
Qed.

Lemma ta_img_cons seq rid ss pad rest : exists b r, ta_img seq rid ss pad ++ rest = b :: r.
Proof. unfold ta_img, be32. rewrite <- !app_assoc. cbn [app]. eauto. Qed.

(* one scan step over a well-formed tile *)
Lemma scan_tile t rest f acc : wf_tile t ->
  scan_fuel (S f) (timg t ++ rest) acc = scan_fuel f rest (t :: acc).
Proof.
  intros Hw. pose proof (wf_tile_len t Hw) as [H15 Hlt].
  destruct Hw as [seq rid ss pad Hs Hp|len junk Hl H15' Hlt'].
  - cbn [timg tlen] in *. rewrite blen_ta_img in *.
    set (L := img_len seq rid ss pad) in *.
    destruct (ta_img_cons seq rid ss pad rest) as (b & r & Hc).
    cbn [scan_fuel]. rewrite Hc. rewrite <- Hc.
    rewrite blen_app, blen_ta_img. fold L. rewrite minSpanLength_ok.
    destruct (N.ltb_spec (L + blen rest) 15) as [H|_]; [lia|].
    rewrite ta_img_magic, (ta_img_field _ _ _ _ _ Hs). fold L.
    destruct magic_ok as [Ha Hf].
    destruct (N.eqb_spec activeMagic 0) as [H|_]; [rewrite Ha in H; lia|].
    destruct (N.ltb_spec (L + blen rest) L) as [H|_]; [lia|].
    destruct (N.eqb_spec L 0) as [H|_]; [lia|].
    rewrite N.eqb_refl.
    assert (Hf1 : firstn_N L (ta_img seq rid ss pad ++ rest) = ta_img seq rid ss pad).
    { unfold firstn_N, L. rewrite <- blen_ta_img, to_nat_blen. apply firstn_app_exact. }
    assert (Hs1 : skipn_N L (ta_img seq rid ss pad ++ rest) = rest).
    { unfold skipn_N, L. rewrite <- blen_ta_img, to_nat_blen. apply skipn_app_exact. }
    rewrite Hf1, Hs1.
    rewrite <- (app_nil_r (ta_img seq rid ss pad)) at 1.
    rewrite (parse_span_img _ _ _ _ _ Hs). cbn [sp_seq sp_rid]. reflexivity.
  - cbn [timg tlen] in *. subst len.
    assert (Hc : exists b r, be32 freeMagic ++ be32 (8 + blen junk) ++ junk ++ rest = b :: r).
    { unfold be32 at 1. cbn [app]. eauto. }
    destruct Hc as (b & r & Hc).
    rewrite <- !app_assoc.
    cbn [scan_fuel]. rewrite Hc. rewrite <- Hc.
    rewrite !blen_app, !blen_be32, minSpanLength_ok.
    destruct (N.ltb_spec (4 + (4 + (blen junk + blen rest))) 15) as [H|_]; [lia|].
    destruct magic_ok as [Ha Hf].
    rewrite rd32_be32 by (rewrite Hf; lia).
    rewrite (skipn_app_exact' (be32 freeMagic)) by reflexivity.
    rewrite rd32_be32 by exact Hlt'.
    destruct (N.eqb_spec freeMagic 0) as [H|_]; [rewrite Hf in H; lia|].
    destruct (N.ltb_spec (4 + (4 + (blen junk + blen rest))) (8 + blen junk)) as [H|_]; [lia|].
    destruct (N.eqb_spec (8 + blen junk) 0) as [H|_]; [lia|].
    destruct (N.eqb_spec freeMagic activeMagic) as [H|_]; [rewrite Ha, Hf in H; lia|].
    rewrite N.eqb_refl.
    destruct (N.ltb_spec (8 + blen junk) 8) as [H|_]; [lia|].
    assert (Hcur : firstn_N (8 + blen junk) (be32 freeMagic ++ be32 (8 + blen junk) ++ junk ++ rest)
                   = be32 freeMagic ++ be32 (8 + blen junk) ++ junk).
    { unfold firstn_N. rewrite !app_assoc. rewrite <- (app_assoc (be32 freeMagic)).
      apply firstn_app_exact'. rewrite !app_length, !length_be32. unfold blen. lia. }
    assert (Hnext : skipn_N (8 + blen junk) (be32 freeMagic ++ be32 (8 + blen junk) ++ junk ++ rest) = rest).
    { unfold skipn_N. rewrite !app_assoc. rewrite <- (app_assoc (be32 freeMagic)).
      apply skipn_app_exact'. rewrite !app_length, !length_be32. unfold blen. lia. }
    rewrite Hcur, Hnext.
    rewrite app_assoc. rewrite (skipn_app_exact' (be32 freeMagic ++ be32 (8 + blen junk))) by reflexivity.
    reflexivity.
Qed.

Lemma scan_tiles : forall ts tail f acc, Forall wf_tile ts ->
  scan_fuel (length ts + f) (flatten ts ++ tail) acc = scan_fuel f tail (rev ts ++ acc).
Proof.
  induction ts as [|t ts IH]; intros tail f acc Hw; [reflexivity|].
  inversion Hw as [|? ? Ht Hts]; subst.
  unfold flatten. cbn [flat_map length Nat.add]. fold (flatten ts). rewrite <- app_assoc.
  rewrite scan_tile by exact Ht. rewrite IH by exact Hts.
  cbn [rev]. rewrite <- app_assoc. reflexivity.
Qed.

Lemma length_tiles_le ts : Forall wf_tile ts -> (length ts <= length (flatten ts))%nat.
Proof.
  intros Hw. induction Hw as [|t ts Ht _ IH]; [cbn; lia|].
  unfold flatten in *. cbn [flat_map length]. rewrite app_length.
  pose proof (wf_tile_len t Ht) as [H15 _]. rewrite <- blen_timg in H15. unfold blen in H15. lia.
Qed.

(* scanFile on the image of a clean file returns exactly its tiles *)
Theorem scan_flatten ts : Forall wf_tile ts -> scan (flatten ts) = Ok ts.
Proof.
  intros Hw. unfold scan.
  pose proof (length_tiles_le ts Hw) as Hle.
  replace (S (length (flatten ts))) with (length ts + S (length (flatten ts) - length ts))%nat by lia.
  rewrite <- (app_nil_r (flatten ts)) at 2.
  rewrite scan_tiles by exact Hw. cbn [scan_fuel]. rewrite app_nil_r, rev_involutive. reflexivity.
Qed.

(* ... and with the zero region an interrupted growth leaves behind *)
Theorem scan_flatten_zeros ts n : Forall wf_tile ts -> 0 < n ->
  scan (flatten ts ++ nzeros n) = Ok (ts ++ [TZ (nzeros n)]).
Proof.
  intros Hw Hn. unfold scan.
  pose proof (length_tiles_le ts Hw) as Hle.
  rewrite app_length.
  replace (S (length (flatten ts) + length (nzeros n)))
    with (length ts + S (length (flatten ts) + length (nzeros n) - length ts))%nat by lia.
  rewrite scan_tiles by exact Hw.
  assert (Hz : exists r, nzeros n = 0 :: r).
  { unfold nzeros. destruct (N.to_nat n) eqn:E; [lia|]. cbn [zeros]. eauto. }
  destruct Hz as (r & Hz).
  cbn [scan_fuel]. rewrite Hz. rewrite <- Hz.
  rewrite minSpanLength_ok.
  destruct (blen (nzeros n) <? 15) eqn:E15.
  - rewrite app_nil_r. cbn [rev]. rewrite rev_involutive. reflexivity.
  - assert (Hr : rd32 (nzeros n) = Some 0 /\ exists l, rd32 (skipn 4 (nzeros n)) = Some l).
    { rewrite blen_nzeros in E15. unfold nzeros.
      destruct (N.to_nat n) as [|[|[|[|[|[|[|[|k]]]]]]]] eqn:E; try lia.
      cbn [zeros rd32 skipn]. split; [reflexivity|eauto]. }
    destruct Hr as (Hr1 & l & Hr2). rewrite Hr1, Hr2. cbn [N.eqb].
    rewrite app_nil_r. cbn [rev]. rewrite rev_involutive. reflexivity.
Qed.
