(* QParseFuel.v — the fuel of the parser model is never exhausted: 8 units per remaining token plus a constant
   are enough for every function of the recursive descent, so parse (fuel 12*|input|+40) never answers PFuel.
   Together with lexer progress this bounds the work of BuildFilter by the length of the text. *)
From Coq Require Import ZArith Lia List.
From Syz Require Import QEval QLexProofs.
Import ListNotations.
Close Scope N_scope.
Open Scope nat_scope.

Section Fuel.
Variable pf : bytes -> option N.

Definition neof (t : token) : nat := if ttype_eqb (ttyp t) TEOF then 0 else 1.
Definition mu (s : pst) : nat := neof (cur s) + neof (pk s) + length (inp s).

Lemma ttype_eqb_eq a b : ttype_eqb a b = true -> a = b.
Proof. destruct a, b; cbn; intros H; try discriminate; reflexivity. Qed.
Lemma ttype_eqb_refl a : ttype_eqb a a = true.
Proof. destruct a; reflexivity. Qed.

Lemma next_token_len input t r : next_token input = (t, r) -> length r <= length input.
Proof.
  unfold next_token. pose proof (skip_ws_length input) as Hw.
  destruct (skip_ws input) as [|c l] eqn:El; [intros E; inversion E; subst; cbn; lia|].
  cbn [length] in Hw.
  assert (Htl : length (tl l) <= length l) by apply tl_length.
  repeat match goal with
         | |- context [if ?b then _ else _] => destruct b eqn:?
         end;
    try (intros E; inversion E; subst; cbn [length]; lia).
  - pose proof (tl_length (tl l)). intros E; inversion E; subst. lia.
  - pose proof (read_string_length c l []) as Hs. destruct (read_string c l []) as [s0 r']. intros E; inversion E; subst. cbn [snd length] in *. lia.
  - pose proof (read_ident_length (c :: l)) as Hs. pose proof (span_length (fun x => is_letter x || is_digit x) (c :: l)) as Hs2.
    destruct (read_ident_or_kw (c :: l)) as [w r']. intros E; inversion E; subst. cbn [snd length] in *. lia.
  - match goal with H : is_digit c = true |- _ => pose proof (read_number_strict c l H) as Hs end.
    destruct (read_number (c :: l)) as [n0 r']. intros E; inversion E; subst. cbn [snd length] in *. lia.
Qed.

Lemma next_token_le input t r : next_token input = (t, r) -> neof t + length r <= length input.
Proof.
  intros E. unfold neof. destruct (ttype_eqb (ttyp t) TEOF) eqn:Et.
  - pose proof (next_token_len _ _ _ E). lia.
  - assert (ttyp t <> TEOF) by (intro Hc; rewrite Hc in Et; discriminate).
    pose proof (next_token_progress _ _ _ E H). lia.
Qed.

Lemma advance_mu s : mu (advance s) + neof (cur s) <= mu s.
Proof.
  unfold advance, mu. destruct (next_token (inp s)) as [t r] eqn:E. cbn [cur pk inp].
  pose proof (next_token_le _ _ _ E). lia.
Qed.

Lemma cur_is_neof s t : cur_is s t = true -> t <> TEOF -> neof (cur s) = 1.
Proof.
  unfold cur_is, neof. intros H Hne. apply ttype_eqb_eq in H. rewrite H.
  destruct (ttype_eqb t TEOF) eqn:E; [apply ttype_eqb_eq in E; contradiction|reflexivity].
Qed.

Lemma advance_strict s t : cur_is s t = true -> t <> TEOF -> mu (advance s) + 1 <= mu s.
Proof. intros H Hne. pose proof (advance_mu s). rewrite (cur_is_neof s t H Hne) in H0. exact H0. Qed.

Lemma advance_le s : mu (advance s) <= mu s.
Proof. pose proof (advance_mu s). lia. Qed.

Definition okr {A} (r : pres (A * pst)) (s : pst) : Prop :=
  match r with PFuel => False | POk x => mu (snd x) <= mu s | PErr => True end.

Lemma okr_bind {A B} (r : pres (A * pst)) (f : A * pst -> pres (B * pst)) s :
  okr r s -> (forall x, r = POk x -> mu (snd x) <= mu s -> okr (f x) s) -> okr (pbind r f) s.
Proof. intros H Hf. destruct r as [x| |]; cbn in *; [apply Hf; auto|exact I|exact H]. Qed.

Lemma okr_bind' {A B} (r : pres (A * pst)) (f : A * pst -> pres (B * pst)) s0 s :
  okr r s0 -> (forall x, mu (snd x) <= mu s0 -> okr (f x) s) -> okr (pbind r f) s.
Proof. intros H Hf. destruct r as [x| |]; cbn in *; [apply Hf; auto|exact I|exact H]. Qed.

Lemma okr_weaken {A} (r : pres (A * pst)) s s' : okr r s -> mu s <= mu s' -> okr r s'.
Proof. destruct r as [x| |]; cbn; intros; auto. lia. Qed.

(* ---------- the non-mutual pieces ---------- *)
Lemma p_number_ok s : okr (p_number pf s) s.
Proof. unfold p_number. destruct (pf (tlit (cur s))); cbn; [apply advance_le|exact I]. Qed.

Lemma p_array_elem_ok s : okr (p_array_elem pf s) s.
Proof. unfold p_array_elem. destruct (ttyp (cur s)); cbn; try exact I; [apply advance_le|apply p_number_ok]. Qed.

Lemma p_array_rest_ok : forall fuel s acc, 1 + 8 * mu s <= fuel -> okr (p_array_rest pf fuel s acc) s.
Proof.
  induction fuel as [|f IH]; intros s acc Hf; [lia|]. cbn [p_array_rest].
  destruct (cur_is s TComma) eqn:Ec; [|cbn; lia].
  pose proof (advance_strict s TComma Ec ltac:(discriminate)) as Hs.
  apply (okr_bind' _ _ (advance s)); [apply p_array_elem_ok|].
  intros [x s1] Hm. cbn [fst snd] in *. eapply okr_weaken; [apply IH; lia|lia].
Qed.

Lemma p_array_lit_ok fuel s : 1 + 8 * mu s <= fuel -> okr (p_array_lit pf fuel s) s.
Proof.
  intros Hf. unfold p_array_lit. pose proof (advance_le s) as Ha.
  apply okr_bind.
  - destruct (cur_is (advance s) TRBracket); [cbn; exact Ha|].
    apply okr_bind; [eapply okr_weaken; [apply p_array_elem_ok|exact Ha]|].
    intros [x s1] _ Hm. cbn [fst snd] in *. eapply okr_weaken; [apply p_array_rest_ok; lia|exact Hm].
  - intros [l s1] _ Hm. cbn [fst snd] in *. destruct (cur_is s1 TRBracket); cbn; [|exact I]. pose proof (advance_le s1). lia.
Qed.

Lemma p_in_ok fuel e s : 1 + 8 * mu s <= fuel -> okr (p_in pf fuel e s) s.
Proof.
  intros Hf. unfold p_in. pose proof (advance_le s) as Ha. pose proof (advance_le (advance s)) as Ha2.
  set (s2 := if cur_is s TNot && cur_is (advance s) TIN then advance (advance s) else advance s).
  assert (Hs2 : mu s2 <= mu s) by (unfold s2; destruct (cur_is s TNot && cur_is (advance s) TIN); lia).
  destruct (cur_is s2 TLBracket); [|exact I].
  apply okr_bind; [eapply okr_weaken; [apply p_array_lit_ok; lia|exact Hs2]|].
  intros [x s3] _ Hm. cbn. exact Hm.
Qed.

(* ---------- the mutually recursive descent ---------- *)
Definition P (fuel : nat) : Prop :=
  (forall s, 20 + 8 * mu s <= fuel -> okr (p_or pf fuel s) s) /\
  (forall l s, 19 + 8 * mu s <= fuel -> okr (p_or_rest pf fuel l s) s) /\
  (forall s, 19 + 8 * mu s <= fuel -> okr (p_and pf fuel s) s) /\
  (forall l s, 18 + 8 * mu s <= fuel -> okr (p_and_rest pf fuel l s) s) /\
  (forall s, 18 + 8 * mu s <= fuel -> okr (p_cmp pf fuel s) s) /\
  (forall s, 17 + 8 * mu s <= fuel -> okr (p_not pf fuel s) s) /\
  (forall s, 16 + 8 * mu s <= fuel -> okr (p_primary pf fuel s) s) /\
  (forall s, 15 + 8 * mu s <= fuel -> okr (p_ident_or_func pf fuel s) s) /\
  (forall e s, 14 + 8 * mu s <= fuel -> okr (p_path pf fuel e s) s) /\
  (forall s acc, 14 + 8 * mu s <= fuel -> okr (p_args pf fuel s acc) s).

Lemma ttyp_neof s t : ttyp (cur s) = t -> t <> TEOF -> neof (cur s) = 1.
Proof. intros H Hne. apply (cur_is_neof s t); [unfold cur_is; rewrite H; apply ttype_eqb_refl|exact Hne]. Qed.

Lemma all_ok : forall fuel, P fuel.
Proof.
  induction fuel as [|f IH]; [unfold P; repeat split; intros; lia|].
  destruct IH as (Hor & Horr & Hand & Handr & Hcmp & Hnot & Hprim & Hiof & Hpath & Hargs).
  unfold P. repeat split.
  - (* p_or *) intros s Hf. cbn [p_or].
    apply (okr_bind' _ _ s); [apply Hand; lia|].
    intros [x s1] Hm. cbn [fst snd] in *. eapply okr_weaken; [apply Horr; lia|exact Hm].
  - (* p_or_rest *) intros l s Hf. cbn [p_or_rest].
    destruct (cur_is s TOr) eqn:Ec; [|cbn; lia].
    pose proof (advance_strict s TOr Ec ltac:(discriminate)) as Hs.
    apply (okr_bind' _ _ (advance s)); [apply Hand; lia|].
    intros [x s1] Hm. cbn [fst snd] in *. eapply okr_weaken; [apply Horr; lia|lia].
  - (* p_and *) intros s Hf. cbn [p_and].
    apply (okr_bind' _ _ s); [apply Hcmp; lia|].
    intros [x s1] Hm. cbn [fst snd] in *. eapply okr_weaken; [apply Handr; lia|exact Hm].
  - (* p_and_rest *) intros l s Hf. cbn [p_and_rest].
    destruct (cur_is s TAnd) eqn:Ec; [|cbn; lia].
    pose proof (advance_strict s TAnd Ec ltac:(discriminate)) as Hs.
    apply (okr_bind' _ _ (advance s)); [apply Hcmp; lia|].
    intros [x s1] Hm. cbn [fst snd] in *. eapply okr_weaken; [apply Handr; lia|lia].
  - (* p_cmp *) intros s Hf. cbn [p_cmp].
    apply (okr_bind' _ _ s); [apply Hnot; lia|].
    intros [x s1] Hm. cbn [fst snd] in *.
    destruct (is_cmp_op (ttyp (cur s1))); [|cbn; exact Hm].
    pose proof (advance_le s1) as Ha.
    apply (okr_bind' _ _ (advance s1)); [apply Hnot; lia|].
    intros [y s2] Hm2. cbn [fst snd] in *. cbn. lia.
  - (* p_not *) intros s Hf. cbn [p_not]. pose proof (advance_le s) as Ha.
    destruct (cur_is s TNot).
    + apply (okr_bind' _ _ (advance s)); [apply Hprim; lia|]. intros [x s1] Hm. cbn [fst snd] in *. cbn. lia.
    + apply Hprim. lia.
  - (* p_primary *) intros s Hf. cbn [p_primary]. pose proof (advance_le s) as Ha.
    destruct (ttyp (cur s)) eqn:Et; try exact I.
    + apply Hiof. lia.
    + cbn. exact Ha.
    + apply p_number_ok.
    + cbn. exact Ha.
    + cbn. exact Ha.
    + (* parenthesis *)
      pose proof (advance_mu s) as Hs. rewrite (ttyp_neof s TLParen Et ltac:(discriminate)) in Hs.
      apply (okr_bind' _ _ (advance s)); [apply Hor; lia|].
      intros [x s1] Hm. cbn [fst snd] in *. destruct (cur_is s1 TRParen); cbn; [|exact I]. pose proof (advance_le s1). lia.
    + apply p_array_lit_ok. lia.
    + destruct (cur_is (advance s) TIdent); cbn; [|exact I]. pose proof (advance_le (advance s)). lia.
  - (* p_ident_or_func *) intros s Hf. cbn [p_ident_or_func]. pose proof (advance_le s) as Ha.
    apply (okr_bind' _ _ (advance s)); [apply Hpath; lia|].
    intros [e s1] Hm. cbn [fst snd] in *.
    destruct (cur_is s1 TIN || cur_is s1 TNot).
    { eapply okr_weaken; [apply p_in_ok; lia|lia]. }
    destruct (cur_is s1 TLParen) eqn:Elp.
    { destruct e; try exact I.
      pose proof (advance_strict s1 TLParen Elp ltac:(discriminate)) as Hs2.
      apply (okr_bind' _ _ (advance s1)).
      - destruct (cur_is (advance s1) TRParen); [cbn; lia|].
        apply (okr_bind' _ _ (advance s1)); [apply Hor; lia|].
        intros [a s3] Hm3. cbn [fst snd] in *. eapply okr_weaken; [apply Hargs; lia|exact Hm3].
      - intros [l s3] Hm3. cbn [fst snd] in *. destruct (cur_is s3 TRParen); cbn; [|exact I]. pose proof (advance_le s3). lia. }
    destruct (cur_is s1 TEXISTS); [cbn; pose proof (advance_le s1); lia|].
    destruct (cur_is s1 TDNE); [cbn; pose proof (advance_le s1); lia|].
    cbn. lia.
  - (* p_path *) intros e s Hf. cbn [p_path].
    destruct (cur_is s TLBracket) eqn:Eb.
    { pose proof (advance_strict s TLBracket Eb ltac:(discriminate)) as Hs.
      apply (okr_bind' _ _ (advance s)); [apply Hor; lia|].
      intros [x s1] Hm. cbn [fst snd] in *. destruct (cur_is s1 TRBracket); [|exact I].
      pose proof (advance_le s1). eapply okr_weaken; [apply Hpath; lia|lia]. }
    destruct (cur_is s TDot) eqn:Ed; [|cbn; lia].
    pose proof (advance_strict s TDot Ed ltac:(discriminate)) as Hs.
    destruct (cur_is (advance s) TIdent); [|exact I].
    pose proof (advance_le (advance s)). eapply okr_weaken; [apply Hpath; lia|lia].
  - (* p_args *) intros s acc Hf. cbn [p_args].
    destruct (cur_is s TComma) eqn:Ec; [|cbn; lia].
    pose proof (advance_strict s TComma Ec ltac:(discriminate)) as Hs.
    apply (okr_bind' _ _ (advance s)); [apply Hor; lia|].
    intros [x s1] Hm. cbn [fst snd] in *. eapply okr_weaken; [apply Hargs; lia|lia].
Qed.

Lemma init_mu input : mu (init_pst input) <= length input.
Proof.
  unfold init_pst. set (z := {| ttyp := TIdent; tlit := [] |}).
  set (s0 := {| cur := z; pk := z; inp := input |}).
  pose proof (advance_mu s0) as H1. pose proof (advance_mu (advance s0)) as H2.
  assert (neof (cur s0) = 1) by reflexivity.
  assert (neof (cur (advance s0)) = 1).
  { unfold advance. destruct (next_token (inp s0)). cbn [cur]. reflexivity. }
  assert (mu s0 = 2 + length input) by reflexivity. lia.
Qed.

Theorem parse_never_out_of_fuel input : parse pf input <> PFuel.
Proof.
  unfold parse, parse_with_fuel.
  destruct (all_ok (12 * length input + 40)) as (Hor & _).
  pose proof (init_mu input) as Hm.
  specialize (Hor (init_pst input) ltac:(lia)).
  destruct (p_or pf (12 * length input + 40) (init_pst input)) as [[e s]| |]; cbn in *; try discriminate; [|contradiction].
  destruct (cur_is s TEOF); discriminate.
Qed.
End Fuel.
