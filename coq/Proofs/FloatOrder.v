(* FloatOrder.v — "<" on primitive binary64 floats is asymmetric. *)
From Coq Require Import ZArith Floats.
From Coq Require Import SpecFloat.

Lemma SFcompare_asym a b : SFcompare a b = Some Lt -> SFcompare b a = Some Gt.
Proof.
  destruct a as [sa|sa| |sa ma ea], b as [sb|sb| |sb mb eb]; cbn [SFcompare]; try discriminate;
    try (destruct sa; try destruct sb; intros H; inversion H; reflexivity).
  destruct sa, sb; try (intros H; inversion H; reflexivity).
  - (* both negative *)
    rewrite (Z.compare_antisym ea eb). destruct (Z.compare ea eb) eqn:E; cbn [CompOpp]; try (intros H; inversion H; reflexivity).
    fold (Pos.compare ma mb). fold (Pos.compare mb ma). rewrite (Pos.compare_antisym ma mb).
    destruct (Pos.compare ma mb); cbn [CompOpp]; intros H; inversion H; reflexivity.
  - rewrite (Z.compare_antisym ea eb). destruct (Z.compare ea eb) eqn:E; cbn [CompOpp]; try (intros H; inversion H; reflexivity).
    fold (Pos.compare ma mb). fold (Pos.compare mb ma). rewrite (Pos.compare_antisym ma mb).
    destruct (Pos.compare ma mb); cbn [CompOpp]; intros H; inversion H; reflexivity.
Qed.

Theorem ltb_asym x y : PrimFloat.ltb x y = true -> PrimFloat.ltb y x = false.
Proof.
  rewrite !ltb_spec. unfold SFltb. destruct (SFcompare (Prim2SF x) (Prim2SF y)) as [[| |]|] eqn:E; try discriminate.
  intros _. now rewrite (SFcompare_asym _ _ E).
Qed.
