(* SpanProofs.v — parseSpan inverts the image WriteRecord builds (serializeSpan + padding + CRC). *)
From Coq Require Import ZArith Lia ZifyN ZifyBool ZifyNat.
From Syz Require Import Store Consts ConstsOk ListLemmas VarintProofs CrcBound.
Open Scope N_scope.
Ltac Zify.zify_post_hook ::= Z.div_mod_to_equations.

Definition lim63 : N := 9223372036854775807.   (* 2^63 - 1 *)

Definition wf_stream (s : stream) : Prop := blen (snd s) < lim63.

Record wf_span (seq : N) (rid : bytes) (ss : list stream) (pad : N) : Prop := {
  wf_seq : seq < 4294967296;
  wf_rid : blen rid < lim63;
  wf_ns : (length ss < 256)%nat;
  wf_ss : Forall wf_stream ss;
  wf_len : span_size seq rid ss + pad < 4294967296 }.

Lemma lim63_lt n : n < lim63 -> n < 2 ^ 63.
Proof. unfold lim63. change (2 ^ 63) with 9223372036854775808. lia. Qed.

Lemma lim63_lt' n : n < lim63 -> n < 2 ^ 63 - 1.
Proof. unfold lim63. change (2 ^ 63 - 1) with 9223372036854775807. lia. Qed.

Lemma blen_write7 n : blen (write7 n) = N.of_nat (lengthOf7w n).
Proof. unfold blen. now rewrite length_write7. Qed.

Definition streams_len (ss : list stream) : N :=
  fold_right (fun s a => 1 + N.of_nat (lengthOf7w (blen (snd s))) + blen (snd s) + a) 0 ss.

Lemma blen_streams ss : blen (flat_map stream_img ss) = streams_len ss.
Proof.
  induction ss as [|[sid d] ss IH]; [reflexivity|].
  cbn [flat_map streams_len fold_right snd]. rewrite blen_app, IH. unfold stream_img. cbn [fst snd].
  rewrite blen_cons, blen_app, blen_write7. fold (streams_len ss). lia.
Qed.

Lemma blen_body seq rid ss :
  blen (span_body seq rid ss)
  = N.of_nat (lengthOf7w seq) + N.of_nat (lengthOf7w (blen rid)) + blen rid + 1 + streams_len ss.
Proof.
  unfold span_body. rewrite !blen_app, !blen_write7, blen_cons, blen_nil, blen_streams. lia.
Qed.

Lemma span_field_size seq rid ss : seq < 4294967296 -> blen rid < lim63 -> Forall wf_stream ss ->
  span_field seq rid ss = span_size seq rid ss.
Proof.
  intros Hs Hr Hss. unfold span_field, span_size. rewrite blen_body.
  rewrite (lengthOf7_agree seq) by (change (2^63-1) with 9223372036854775807; lia).
  rewrite (lengthOf7_agree (blen rid)) by (apply lim63_lt'; exact Hr).
  assert (E : fold_right (fun s a => 1 + N.of_nat (lengthOf7 (blen (snd s))) + blen (snd s) + a) 0 ss = streams_len ss).
  { induction Hss as [|s ss Hs' _ IH]; [reflexivity|]. cbn [fold_right streams_len]. fold (streams_len ss).
    rewrite IH. rewrite (lengthOf7_agree (blen (snd s))) by (apply lim63_lt'; exact Hs'). reflexivity. }
  rewrite E. lia.
Qed.

(* the stored length field and the true length of the image *)
Definition img_len (seq : N) (rid : bytes) (ss : list stream) (pad : N) : N := span_size seq rid ss + pad.

Lemma blen_ta_img seq rid ss pad : blen (ta_img seq rid ss pad) = img_len seq rid ss pad.
Proof.
  unfold ta_img, img_len, span_size. rewrite !blen_app, !blen_be32, blen_nzeros. lia.
Qed.

Lemma ta_field seq rid ss pad : wf_span seq rid ss pad ->
  (if pad =? 0 then span_field seq rid ss else span_size seq rid ss + pad) = img_len seq rid ss pad.
Proof.
  intros [Hs Hr _ Hss _]. unfold img_len. destruct (N.eqb_spec pad 0) as [->|_]; [|reflexivity].
  rewrite span_field_size by assumption. lia.
Qed.

Lemma verify_checksum_ok (pre : bytes) : verify_checksum (pre ++ be32 (crc32 pre)) = true.
Proof.
  unfold verify_checksum. rewrite app_length, length_be32.
  destruct (Nat.ltb_spec (length pre + 4) 4) as [H|H]; [lia|].
  replace (length pre + 4 - 4)%nat with (length pre) by lia.
  rewrite skipn_app_exact, firstn_app_exact.
  rewrite <- (app_nil_r (be32 (crc32 pre))).
  rewrite rd32_be32 by (apply crc32_bound). apply N.eqb_refl.
Qed.

Lemma parse_streams_img : forall ss acc tail, Forall wf_stream ss ->
  parse_streams (length ss) (flat_map stream_img ss ++ tail) acc = Ok (rev acc ++ ss, tail).
Proof.
  induction ss as [|[sid d] ss IH]; intros acc tail Hw.
  - cbn [length parse_streams flat_map app]. now rewrite app_nil_r.
  - inversion Hw as [|? ? Hd Hss]; subst. unfold wf_stream in Hd. cbn [snd] in Hd.
    cbn [length parse_streams flat_map]. unfold stream_img at 1. cbn [fst snd].
    rewrite <- !app_assoc. cbn [app].
    rewrite <- !app_assoc.
    rewrite read7_write7 by (apply lim63_lt; exact Hd).
    rewrite <- length_write7, skipn_app_exact.
    unfold two63. destruct (N.leb_spec 9223372036854775808 (blen d)) as [Hbig|_]; [unfold lim63 in Hd; lia|].
    rewrite blen_app. destruct (N.ltb_spec (blen d + blen (flat_map stream_img ss ++ tail)) (blen d)) as [Hx|_]; [lia|].
    unfold skipn_N, firstn_N. rewrite to_nat_blen, skipn_app_exact, firstn_app_exact.
    rewrite IH by exact Hss. cbn [rev]. rewrite <- app_assoc. reflexivity.
Qed.

Theorem parse_span_img seq rid ss pad rest : wf_span seq rid ss pad ->
  parse_span (ta_img seq rid ss pad ++ rest)
  = Ok {| sp_seq := seq; sp_rid := rid; sp_streams := ss |}.
Proof.
  intros Hw. pose proof Hw as [Hs Hr Hn Hss Hl].
  pose proof (blen_ta_img seq rid ss pad) as HL.
  set (L := img_len seq rid ss pad) in *.
  assert (HL15 : 15 <= L).
  { unfold L, img_len, span_size. rewrite blen_body.
    pose proof (lengthOf7w_pos seq). pose proof (lengthOf7w_pos (blen rid)). lia. }
  assert (HLlt : L < 4294967296) by exact Hl.
  (* the two header words *)
  assert (Hshape : ta_img seq rid ss pad ++ rest =
     be32 activeMagic ++ be32 L ++ span_body seq rid ss ++ nzeros pad
       ++ be32 (crc32 (be32 activeMagic ++ be32 L ++ span_body seq rid ss ++ nzeros pad)) ++ rest).
  { unfold ta_img. rewrite (ta_field _ _ _ _ Hw). fold L. rewrite <- !app_assoc. reflexivity. }
  set (crc := crc32 (be32 activeMagic ++ be32 L ++ span_body seq rid ss ++ nzeros pad)) in *.
  assert (H1 : rd32 (ta_img seq rid ss pad ++ rest) = Some activeMagic).
  { rewrite Hshape. apply rd32_be32. destruct magic_ok as [-> _]. lia. }
  assert (H2 : rd32 (skipn 4 (ta_img seq rid ss pad ++ rest)) = Some L).
  { rewrite Hshape. rewrite (skipn_app_exact' (be32 activeMagic)) by reflexivity. apply rd32_be32. exact HLlt. }
  assert (H3 : firstn_N L (ta_img seq rid ss pad ++ rest) = ta_img seq rid ss pad).
  { unfold firstn_N. rewrite <- HL, to_nat_blen. apply firstn_app_exact. }
  assert (H4 : skipn 8 (ta_img seq rid ss pad ++ rest)
               = write7 seq ++ write7 (blen rid) ++ rid ++ (N.of_nat (length ss) mod 256)
                 :: flat_map stream_img ss ++ nzeros pad ++ be32 crc ++ rest).
  { rewrite Hshape. rewrite app_assoc. rewrite skipn_app_exact' by reflexivity.
    unfold span_body. rewrite <- !app_assoc. reflexivity. }
  assert (Hck : verify_checksum (ta_img seq rid ss pad) = true).
  { unfold ta_img. apply verify_checksum_ok. }
  unfold parse_span. rewrite blen_app, HL, minSpanLength_ok.
  destruct (N.ltb_spec (L + blen rest) 15) as [H|_]; [lia|].
  rewrite H1, H2, N.eqb_refl. cbn [negb].
  destruct (N.ltb_spec (L + blen rest) L) as [H|_]; [lia|].
  rewrite H3, Hck. cbn [negb]. rewrite H4.
  rewrite read7_write7 by (change (2^63) with 9223372036854775808; lia).
  rewrite <- length_write7, skipn_app_exact.
  rewrite read7_write7 by (apply lim63_lt; exact Hr).
  rewrite <- length_write7, skipn_app_exact.
  unfold two63. destruct (N.leb_spec 9223372036854775808 (blen rid)) as [Hbig|_]; [unfold lim63 in Hr; lia|].
  rewrite blen_app, blen_cons.
  match goal with |- context [?a <=? blen rid] => destruct (N.leb_spec a (blen rid)) as [Hx|_]; [lia|] end.
  cbn [orb]. unfold skipn_N at 1, firstn_N at 1. rewrite to_nat_blen, skipn_app_exact, firstn_app_exact.
  assert (Hns : N.to_nat (N.of_nat (length ss) mod 256) = length ss).
  { rewrite N.mod_small by lia. lia. }
  rewrite Hns. rewrite parse_streams_img by exact Hss. cbn [bind rev app fst snd].
  rewrite !blen_app, blen_be32.
  match goal with |- context [?a <? 4] => destruct (N.ltb_spec a 4) as [Hy|_]; [lia|] end.
  rewrite N.mod_small by exact Hs. reflexivity.
Qed.
