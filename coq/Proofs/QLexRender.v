(* QLexRender.v — from bytes to tokens: a text written as documented tokens separated by single spaces lexes back to
   exactly those tokens, so the parser theorem (QParseTree.parse_builds_tree) applies to concrete filter texts. *)
From Coq Require Import NArith List Bool Lia.
From Syz Require Import QLex QParse QLexProofs QParseProofs QSemProofs QParseTree.
Import ListNotations.
Open Scope N_scope.

(* ---------- the state of the parser as a function of the remaining text ---------- *)
Definition state_at (i0 : bytes) : pst :=
  let (c, i1) := next_token i0 in let (p, i2) := next_token i1 in {| cur := c; pk := p; inp := i2 |}.

Lemma init_state_at text : init_pst text = state_at text.
Proof.
  unfold init_pst, state_at, advance. cbn [inp pk cur].
  destruct (next_token text) as [c i1]. cbn [inp pk cur]. destruct (next_token i1) as [p i2]. reflexivity.
Qed.

Lemma advance_state_at i0 : advance (state_at i0) = state_at (snd (next_token i0)).
Proof.
  unfold state_at, advance. destruct (next_token i0) as [c i1]. cbn [snd].
  destruct (next_token i1) as [p i2]. cbn [inp pk cur]. destruct (next_token i2) as [t i3]. reflexivity.
Qed.

Lemma cur_state_at i0 : cur (state_at i0) = fst (next_token i0).
Proof. unfold state_at. destruct (next_token i0) as [c i1]. destruct (next_token i1). reflexivity. Qed.

Lemma next_token_space rest : next_token (32 :: rest) = next_token rest.
Proof. reflexivity. Qed.

Lemma state_at_space rest : state_at (32 :: rest) = state_at rest.
Proof. unfold state_at. rewrite next_token_space. reflexivity. Qed.

(* ---------- spans ---------- *)
Lemma span_app_stop p w c rest : forallb p w = true -> p c = false -> span p (w ++ c :: rest) = (w, c :: rest).
Proof.
  induction w as [|x w IH]; cbn [app span forallb]; intros Hw Hc.
  - rewrite Hc. reflexivity.
  - apply andb_prop in Hw. destruct Hw as [Hx Hw]. rewrite Hx, (IH Hw Hc). reflexivity.
Qed.

Lemma read_dec_digits ds rest : forallb is_digit ds = true -> read_dec (ds ++ 32 :: rest) false = (ds, 32 :: rest).
Proof.
  induction ds as [|d ds IH]; cbn [app read_dec forallb]; intros H.
  - reflexivity.
  - apply andb_prop in H. destruct H as [Hd H]. rewrite Hd, (IH H). reflexivity.
Qed.

Lemma read_string_plain q s rest acc :
  forallb (fun c => negb (c =? q) && negb (c =? 0) && negb (c =? 92)) s = true ->
  read_string q (s ++ q :: rest) acc = (rev acc ++ s, rest).
Proof.
  revert acc. induction s as [|c s IH]; intros acc H; cbn [app read_string forallb] in *.
  - rewrite N.eqb_refl, app_nil_r. reflexivity.
  - apply andb_prop in H. destruct H as [Hc H]. apply andb_prop in Hc. destruct Hc as [Hc H92]. apply andb_prop in Hc. destruct Hc as [Hq H0].
    apply negb_true_iff in Hq, H0, H92. rewrite Hq, H0, H92. rewrite (IH (c :: acc) H). cbn [rev]. rewrite <- app_assoc. reflexivity.
Qed.

(* ---------- printable tokens ---------- *)
Definition fixed_table : list (ttype * bytes) :=
  [ (TLParen, [40]); (TRParen, [41]); (TComma, [44]); (TLBracket, [91]); (TRBracket, [93]); (TDot, [46]);
    (TEq, [61; 61]); (TNe, [33; 61]); (TGt, [62]); (TGe, [62; 61]); (TLt, [60]); (TLe, [60; 61]);
    (TAnd, [65; 78; 68]); (TOr, [79; 82]); (TNot, s_NOT); (TIN, [73; 78]); (TEXISTS, [69; 88; 73; 83; 84; 83]);
    (TDNE, s_DNE); (TCONTAINS, [67; 79; 78; 84; 65; 73; 78; 83]); (TSW, [83; 84; 65; 82; 84; 83; 95; 87; 73; 84; 72]);
    (TEW, [69; 78; 68; 83; 95; 87; 73; 84; 72]); (TMATCHES, [77; 65; 84; 67; 72; 69; 83]);
    (TBool, [116; 114; 117; 101]); (TBool, [102; 97; 108; 115; 101]); (TNull, [110; 117; 108; 108]) ].

Lemma fixed_lex t text rest : In (t, text) fixed_table -> next_token (text ++ 32 :: rest) = (tok t text, 32 :: rest).
Proof.
  unfold fixed_table. cbn [In]. intros H.
  repeat match type of H with
         | _ \/ _ => destruct H as [H|H]
         end; try contradiction; inversion H; subst; reflexivity.
Qed.

Definition ident_ok (name : bytes) : bool :=
  match name with
  | c :: r => is_letter c && forallb (fun x => is_letter x || is_digit x) r
  | [] => false
  end && negb (bytes_eqb name s_DOES) && ttype_eqb (lookup_kw keywords name) TIdent.

Ltac not_char H c k :=
  assert ((c =? k) = false) by (destruct (N.eqb_spec c k) as [E|E]; [subst; vm_compute in H; discriminate|reflexivity]).

Lemma ident_lex name rest : ident_ok name = true -> next_token (name ++ 32 :: rest) = (tok TIdent name, 32 :: rest).
Proof.
  unfold ident_ok. intros H. apply andb_prop in H. destruct H as [H Hkw]. apply andb_prop in H. destruct H as [H Hd].
  destruct name as [|c r]; [discriminate|]. apply andb_prop in H. destruct H as [Hc Hr].
  assert (Hsp : is_space c = false).
  { unfold is_space. not_char Hc c 32. not_char Hc c 9. not_char Hc c 10. not_char Hc c 13. rewrite H, H0, H1, H2. reflexivity. }
  unfold next_token. cbn [app skip_ws]. rewrite Hsp.
  not_char Hc c 40. not_char Hc c 41. not_char Hc c 44. not_char Hc c 61. not_char Hc c 33. not_char Hc c 62. not_char Hc c 60.
  not_char Hc c 91. not_char Hc c 93. not_char Hc c 58. not_char Hc c 46. not_char Hc c 34. not_char Hc c 39.
  rewrite H, H0, H1, H2, H3, H4, H5, H6, H7, H8, H9, H10, H11. cbn [orb]. rewrite Hc.
  unfold read_ident_or_kw.
  assert (Hspan : span (fun x => is_letter x || is_digit x) (c :: r ++ 32 :: rest) = (c :: r, 32 :: rest)).
  { apply (span_app_stop _ (c :: r) 32 rest); [|reflexivity]. cbn [forallb]. rewrite Hc, Hr. reflexivity. }
  rewrite Hspan. apply negb_true_iff in Hd. rewrite Hd. cbn [andb].
  unfold ttype_eqb in Hkw. apply N.eqb_eq in Hkw.
  assert (Hk : lookup_kw keywords (c :: r) = TIdent) by (destruct (lookup_kw keywords (c :: r)); try discriminate; reflexivity).
  rewrite Hk. reflexivity.
Qed.

Definition digits_ok (ds : bytes) : bool := match ds with [] => false | _ => forallb is_digit ds end.

Lemma number_lex ds rest : digits_ok ds = true -> next_token (ds ++ 32 :: rest) = (tok TNumber ds, 32 :: rest).
Proof.
  unfold digits_ok. destruct ds as [|c r]; [discriminate|]. intros H. cbn [forallb] in H. apply andb_prop in H. destruct H as [Hc Hr].
  assert (Hsp : is_space c = false).
  { unfold is_space. not_char Hc c 32. not_char Hc c 9. not_char Hc c 10. not_char Hc c 13. rewrite H, H0, H1, H2. reflexivity. }
  assert (Hl : is_letter c = false).
  { unfold is_letter, is_digit in *. apply andb_prop in Hc. destruct Hc as [H1 H2]. apply N.leb_le in H1, H2.
    replace (97 <=? c) with false by (symmetry; apply N.leb_gt; lia).
    replace (65 <=? c) with false by (symmetry; apply N.leb_gt; lia).
    replace (c =? 95) with false by (symmetry; apply N.eqb_neq; lia). reflexivity. }
  unfold next_token. cbn [app skip_ws]. rewrite Hsp.
  not_char Hc c 40. not_char Hc c 41. not_char Hc c 44. not_char Hc c 61. not_char Hc c 33. not_char Hc c 62. not_char Hc c 60.
  not_char Hc c 91. not_char Hc c 93. not_char Hc c 58. not_char Hc c 46. not_char Hc c 34. not_char Hc c 39.
  rewrite H, H0, H1, H2, H3, H4, H5, H6, H7, H8, H9, H10, H11. cbn [orb]. rewrite Hl, Hc.
  unfold read_number.
  assert (Hx : (hd0 (tl (c :: r ++ 32 :: rest)) =? 120) || (hd0 (tl (c :: r ++ 32 :: rest)) =? 88) = false).
  { cbn [tl]. destruct r as [|d r']; [reflexivity|]. cbn [app forallb] in *. apply andb_prop in Hr. destruct Hr as [Hd _].
    unfold hd0. cbn [hd]. not_char Hd d 120. not_char Hd d 88. rewrite H12, H13. reflexivity. }
  rewrite Hx, andb_false_r. unfold read_number_dec.
  change (c :: r ++ 32 :: rest) with ((c :: r) ++ 32 :: rest).
  rewrite (read_dec_digits (c :: r) rest) by (cbn [forallb]; rewrite Hc, Hr; reflexivity).
  reflexivity.
Qed.

Definition str_ok (q : N) (s : bytes) : bool :=
  ((q =? 34) || (q =? 39)) && forallb (fun c => negb (c =? q) && negb (c =? 0) && negb (c =? 92)) s.

Lemma string_lex q s rest : str_ok q s = true -> next_token (q :: s ++ q :: 32 :: rest) = (tok TString s, 32 :: rest).
Proof.
  unfold str_ok. intros H. apply andb_prop in H. destruct H as [Hq Hs].
  assert (Hr : read_string q (s ++ q :: 32 :: rest) [] = (s, 32 :: rest)) by (rewrite read_string_plain by exact Hs; reflexivity).
  apply orb_prop in Hq. destruct Hq as [Hq|Hq]; apply N.eqb_eq in Hq; subst q; unfold next_token; cbn [skip_ws is_space];
    cbn -[read_string]; rewrite Hr; reflexivity.
Qed.

(* ---------- rendering ---------- *)
Inductive ptok :=
| PFixed (t : ttype) (text : bytes)      (* punctuation, operators, keywords, true/false/null *)
| PIdent (name : bytes)
| PNum (digits : bytes)
| PStr (q : N) (s : bytes).

Definition pt_ok (p : ptok) : Prop :=
  match p with
  | PFixed t text => In (t, text) fixed_table
  | PIdent name => ident_ok name = true
  | PNum ds => digits_ok ds = true
  | PStr q s => str_ok q s = true
  end.

Definition text_of (p : ptok) : bytes :=
  match p with
  | PFixed _ text => text
  | PIdent name => name
  | PNum ds => ds
  | PStr q s => q :: s ++ [q]
  end.

Definition tok_of (p : ptok) : token :=
  match p with
  | PFixed t text => tok t text
  | PIdent name => tok TIdent name
  | PNum ds => tok TNumber ds
  | PStr _ s => tok TString s
  end.

(* every token followed by one space *)
Definition render (ps : list ptok) : bytes := flat_map (fun p => text_of p ++ [32]) ps.

Lemma next_render p rest : pt_ok p -> next_token (text_of p ++ 32 :: rest) = (tok_of p, 32 :: rest).
Proof.
  destruct p as [t text|name|ds|q s]; cbn [pt_ok text_of tok_of]; intros H.
  - apply fixed_lex. exact H.
  - apply ident_lex. exact H.
  - apply number_lex. exact H.
  - cbn [app]. rewrite <- app_assoc. cbn [app]. apply string_lex. exact H.
Qed.

Theorem render_follows : forall (ps : list ptok) (specs : list tspec),
  Forall pt_ok ps -> Forall2 (fun sp p => sp (tok_of p)) specs ps ->
  Follows specs (state_at (render ps)) (state_at []).
Proof.
  induction ps as [|p ps IH]; intros specs Hok Hsp; inversion Hsp; subst; cbn [Follows].
  - reflexivity.
  - inversion Hok; subst.
    assert (E : next_token (render (p :: ps)) = (tok_of p, 32 :: render ps)).
    { unfold render. cbn [flat_map]. rewrite <- app_assoc. cbn [app]. apply next_render. assumption. }
    split.
    + rewrite cur_state_at, E. cbn [fst]. assumption.
    + rewrite advance_state_at, E. cbn [snd]. rewrite state_at_space. apply IH; assumption.
Qed.

Lemma end_is_eof : ttyp (cur (state_at [])) = TEOF.
Proof. reflexivity. Qed.

Section Text.
Variable pf : bytes -> option N.

(* a filter text written as the tokens of a documented expression: Parse returns the tree of that expression *)
Theorem text_builds_tree (e : wexpr) (specs : list tspec) (ps : list ptok) :
  Renders pf LOr e specs -> Forall pt_ok ps -> Forall2 (fun sp p => sp (tok_of p)) specs ps ->
  parse pf (render ps) = POk (to_node e).
Proof.
  intros Hr Hok Hsp.
  apply (parse_builds_tree pf (render ps) e specs (state_at [])); [exact Hr| |exact end_is_eof].
  rewrite init_state_at. apply render_follows; assumption.
Qed.
End Text.

(* ---------- non-vacuity: "a == 1 OR NOT ( u . x EXISTS ) AND ( b IN [ 2 , 'k' ] ) " ---------- *)
Definition ex_ps : list ptok :=
  [PIdent [97]; PFixed TEq [61; 61]; PNum [49]; PFixed TOr [79; 82]; PFixed TNot s_NOT; PFixed TLParen [40];
   PIdent [117]; PFixed TDot [46]; PIdent [120]; PFixed TEXISTS [69; 88; 73; 83; 84; 83]; PFixed TRParen [41];
   PFixed TAnd [65; 78; 68]; PFixed TLParen [40]; PIdent [98]; PFixed TIN [73; 78]; PFixed TLBracket [91];
   PNum [50]; PFixed TComma [44]; PStr 39 [107]; PFixed TRBracket [93]; PFixed TRParen [41]].

Example ex_text_tree : parse pf_small (render ex_ps) = POk (to_node ex_expr).
Proof.
  apply (text_builds_tree pf_small ex_expr ex_toks ex_ps ex_renders).
  - unfold ex_ps. repeat (constructor; [cbn [pt_ok]; first [reflexivity | (unfold fixed_table; cbn [In]; tauto)]|]). constructor.
  - unfold ex_toks, ex_ps, ex_c1, ex_c2, ex_c3.
    cbn [cond_toks path_toks tail_toks head app items_toks tlit_spec].
    unfold ty, tident, tnum, tstr, top.
    repeat (constructor; [cbn [tok_of tok ttyp tlit]; repeat split; vm_compute; reflexivity|]). constructor.
Qed.
