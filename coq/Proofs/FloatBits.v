(* FloatBits.v — on non-negative, non-NaN binary64 values the order of the numbers is the order of their bit patterns:
   PrimFloat.ltb x y = (bits64 x <? bits64 y).  This discharges the order hypothesis of the result-heap theorems
   (C03, C04) for the distances the code really compares. *)
From Coq Require Import ZArith Reals Floats List Lia Bool.
From Flocq Require Import Core.Core IEEE754.BinarySingleNaN IEEE754.Binary IEEE754.Bits IEEE754.PrimFloat.
From Syz Require Import F32.
Open Scope Z_scope.

Notation bf64 := (BinarySingleNaN.binary_float 53 1024).

Definition bitsB (X : bf64) : Z := bits_of_binary_float 52 11 (BSN2B 53 1024 nan64 X).

Lemma bits64_bitsB x : F32.bits64 x = bitsB (Prim2B x).
Proof. reflexivity. Qed.

Lemma bitsB_zero : bitsB (BinarySingleNaN.B754_zero false) = 0.
Proof. reflexivity. Qed.

Lemma bitsB_inf : bitsB (BinarySingleNaN.B754_infinity false) = 2047 * 4503599627370496.
Proof. reflexivity. Qed.

Lemma bitsB_finite m e H : bitsB (BinarySingleNaN.B754_finite false m e H) =
  if 4503599627370496 <=? Z.pos m then (e + 1075) * 4503599627370496 + (Z.pos m - 4503599627370496) else Z.pos m.
Proof.
  unfold bitsB, BSN2B, bits_of_binary_float. cbv beta iota.
  change (2 ^ 52) with 4503599627370496.
  destruct (Z.leb_spec 4503599627370496 (Z.pos m)) as [Hm|Hm].
  - replace (0 <=? Z.pos m - 4503599627370496) with true by (symmetry; apply Z.leb_le; lia).
    unfold join_bits. rewrite Z.shiftl_mul_pow2 by lia. change (2 ^ 52) with 4503599627370496.
    change (SpecFloat.emin (52 + 1) (2 ^ (11 - 1))) with (-1074). lia.
  - replace (0 <=? Z.pos m - 4503599627370496) with false by (symmetry; apply Z.leb_gt; lia).
    unfold join_bits. rewrite Z.shiftl_mul_pow2 by lia. lia.
Qed.

Lemma bounded_facts m e : bounded 53 1024 m e = true ->
  -1074 <= e <= 971 /\ Z.pos m < 9007199254740992
  /\ (Z.pos m < 4503599627370496 -> e = -1074) /\ (-1074 < e -> 4503599627370496 <= Z.pos m).
Proof.
  unfold bounded, canonical_mantissa. intros H. apply andb_prop in H. destruct H as [Hc He].
  apply Zeq_bool_eq in Hc. apply Z.leb_le in He.
  rewrite Digits.Zpos_digits2_pos in Hc.
  unfold SpecFloat.fexp, SpecFloat.emin in Hc. 
  pose proof (Digits.Zdigits_correct radix2 (Z.pos m)) as Hd. cbn [Z.abs] in Hd.
  set (d := Digits.Zdigits radix2 (Z.pos m)) in *.
  assert (Hd0 : 0 < d) by (apply Digits.Zdigits_gt_0; discriminate).
  change (3 - 1024 - 53) with (-1074) in Hc. change (1024 - 53) with 971 in He.
  assert (Hcase : (d + e - 53 <= -1074 /\ e = -1074) \/ (-1074 <= d + e - 53 /\ d = 53)) by lia.
  split; [lia|].
  assert (Hpow : forall k, 0 <= k -> Zpower radix2 k = 2 ^ k) by (intros; reflexivity).
  change (radix2 ^ d) with (2 ^ d) in Hd. change (radix2 ^ (d - 1)) with (2 ^ (d - 1)) in Hd.
  destruct Hcase as [[H1 H2]|[H1 H2]].
  - assert (d <= 53) by lia.
    assert (2 ^ d <= 2 ^ 53) by (apply Z.pow_le_mono_r; lia).
    change (2 ^ 53) with 9007199254740992 in *. split; [lia|]. split; [intros; exact H2|intros; lia].
  - rewrite H2 in Hd. change (2 ^ 53) with 9007199254740992 in Hd. change (2 ^ (53 - 1)) with 4503599627370496 in Hd.
    split; [lia|]. split; [intros; lia|intros; lia].
Qed.

Definition nonnegB (X : bf64) : Prop := BinarySingleNaN.is_nan X = false /\ BinarySingleNaN.Bsign X = false.

Lemma Pcompare_Z m1 m2 : Pos.compare m1 m2 = Z.compare (Z.pos m1) (Z.pos m2).
Proof. reflexivity. Qed.

Theorem BltB_bits (X Y : bf64) : nonnegB X -> nonnegB Y -> BinarySingleNaN.Bltb X Y = (bitsB X <? bitsB Y).
Proof.
  intros [HnX HsX] [HnY HsY].
  destruct X as [sx|sx| |sx mx ex Hx]; cbn in HnX, HsX; try discriminate; subst;
  destruct Y as [sy|sy| |sy my ey Hy]; cbn in HnY, HsY; try discriminate; subst;
  rewrite ?bitsB_zero, ?bitsB_inf, ?bitsB_finite;
  unfold BinarySingleNaN.Bltb, SFltb; cbn [BinarySingleNaN.B2SF SFcompare];
  try reflexivity.
  - (* 0 < finite *)
    destruct (bounded_facts my ey Hy) as (He & Hm & H1 & H2).
    symmetry. apply Z.ltb_lt. destruct (4503599627370496 <=? Z.pos my); lia.
  - (* inf < finite : false *)
    destruct (bounded_facts my ey Hy) as (He & Hm & H1 & H2).
    symmetry. apply Z.ltb_ge. destruct (Z.leb_spec 4503599627370496 (Z.pos my)); nia.
  - (* finite < 0 : false *)
    destruct (bounded_facts mx ex Hx) as (He & Hm & H1 & H2).
    symmetry. apply Z.ltb_ge. destruct (4503599627370496 <=? Z.pos mx); lia.
  - (* finite < inf *)
    destruct (bounded_facts mx ex Hx) as (He & Hm & H1 & H2).
    symmetry. apply Z.ltb_lt. destruct (Z.leb_spec 4503599627370496 (Z.pos mx)); nia.
  - (* finite, finite *)
    destruct (bounded_facts mx ex Hx) as (Hex & Hmx & Hx1 & Hx2).
    destruct (bounded_facts my ey Hy) as (Hey & Hmy & Hy1 & Hy2).
    destruct (Z.compare_spec ex ey) as [He|He|He].
    + subst ey. rewrite Pcompare_Z.
      destruct (Z.compare_spec (Z.pos mx) (Z.pos my)) as [Hm|Hm|Hm];
        destruct (Z.leb_spec 4503599627370496 (Z.pos mx)); destruct (Z.leb_spec 4503599627370496 (Z.pos my));
        symmetry; (apply Z.ltb_lt || apply Z.ltb_ge); nia.
    + destruct (Z.leb_spec 4503599627370496 (Z.pos mx)); destruct (Z.leb_spec 4503599627370496 (Z.pos my));
        symmetry; apply Z.ltb_lt; nia.
    + destruct (Z.leb_spec 4503599627370496 (Z.pos mx)); destruct (Z.leb_spec 4503599627370496 (Z.pos my));
        symmetry; apply Z.ltb_ge; nia.
Qed.

Definition nonneg (x : PrimFloat.float) : Prop := PrimFloat.is_nan x = false /\ PrimFloat.get_sign x = false.

Theorem ltb_bits x y : nonneg x -> nonneg y -> PrimFloat.ltb x y = (F32.bits64 x <? F32.bits64 y).
Proof.
  intros [Hnx Hsx] [Hny Hsy]. rewrite ltb_equiv, !bits64_bitsB.
  apply BltB_bits; split; rewrite <- ?is_nan_equiv, <- ?get_sign_equiv; assumption.
Qed.
