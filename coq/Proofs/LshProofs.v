(* LshProofs.v — the index invariant of one LSH tree is preserved by insertion (with or without a
   split, whatever plane the random source proposes) and by removal; neither can fail on a tree
   that satisfies it.  The side function is used as a black box: the proofs hold for every geometry
   and every rounding behaviour. *)
From Coq Require Import ZArith Floats List Bool Lia.
From Syz Require Import Quant Dist Search Lsh.
Import ListNotations.
Open Scope Z_scope.

Section Inv.
Variable cosine : bool.

Definition doc := (Z * list float)%type.
Definition goes_right (n : list float) (b : float) (d : doc) : bool := side cosine (snd d) n b.

(* D = the documents indexed in this subtree *)
Fixpoint inv (t : tree) (D : list doc) : Prop :=
  match t with
  | Leaf ids => NoDup ids /\ forall i, In i ids <-> In i (map fst D)
  | Node n b l r => inv l (filter (fun d => negb (goes_right n b d)) D) /\ inv r (filter (goes_right n b) D)
  | Nil => False
  end.

(* every live id exactly once, no dead id *)
Lemma inv_ids t : forall D, inv t D -> forall i, In i (leaf_ids t) <-> In i (map fst D).
Proof.
  induction t as [ids|n b l IHl r IHr|]; intros D H i; cbn [inv leaf_ids] in *.
  - now apply H.
  - destruct H as [Hl Hr]. rewrite in_app_iff, (IHl _ Hl), (IHr _ Hr), !in_map_iff. split.
    + intros [(d & E & Hd)|(d & E & Hd)]; apply filter_In in Hd; exists d; tauto.
    + intros (d & E & Hd). destruct (goes_right n b d) eqn:Eg.
      * right. exists d. split; [exact E|]. apply filter_In. tauto.
      * left. exists d. split; [exact E|]. apply filter_In. rewrite Eg. tauto.
  - destruct H.
Qed.

(* ---------- documents are looked up by id ---------- *)

Definition ids_unique (docs : list doc) : Prop := NoDup (map fst docs).

Lemma vec_of_in docs i v : ids_unique docs -> In (i, v) docs -> vec_of docs i = Some v.
Proof.
  unfold vec_of, ids_unique. induction docs as [|[j w] docs IH]; intros Hnd Hin; [destruct Hin|].
  cbn [map fst] in Hnd. inversion Hnd as [|? ? Hnotin Hnd']; subst. cbn [find fst].
  destruct Hin as [E|Hin].
  - inversion E; subst. now rewrite Z.eqb_refl.
  - destruct (Z.eqb_spec j i) as [->|Hne].
    + exfalso. apply Hnotin. apply in_map_iff. exists (i, v). split; [reflexivity|exact Hin].
    + now apply IH.
Qed.

(* ---------- splitting a leaf ---------- *)

Lemma partition_spec docs n b : ids_unique docs -> forall ids,
  (forall i, In i ids -> In i (map fst docs)) ->
  exists ls rs, partition_ids cosine docs n b ids = Some (ls, rs)
    /\ (forall i, In i ls <-> In i ids /\ exists v, In (i, v) docs /\ goes_right n b (i, v) = false)
    /\ (forall i, In i rs <-> In i ids /\ exists v, In (i, v) docs /\ goes_right n b (i, v) = true)
    /\ (NoDup ids -> NoDup ls /\ NoDup rs).
Proof.
  intros Hu. induction ids as [|id r IH]; intros Hin.
  - exists [], []. cbn [partition_ids]. split; [reflexivity|]. split; [|split].
    + intros i. split; [intros []|intros ([] & _)].
    + intros i. split; [intros []|intros ([] & _)].
    + intros _. split; constructor.
  - destruct (IH (fun i H => Hin i (or_intror H))) as (ls & rs & E & Hl & Hr & Hnd).
    assert (Hid : In id (map fst docs)) by (apply Hin; now left).
    apply in_map_iff in Hid. destruct Hid as ([j v] & Ej & Hv). cbn [fst] in Ej. subst j.
    cbn [partition_ids]. rewrite (vec_of_in docs id v Hu Hv), E.
    assert (Huniq : forall w, In (id, w) docs -> w = v).
    { intros w Hw. pose proof (vec_of_in docs id w Hu Hw) as E1. rewrite (vec_of_in docs id v Hu Hv) in E1. now inversion E1. }
    destruct (side cosine v n b) eqn:Es.
    + exists ls, (id :: rs). split; [reflexivity|]. split; [|split].
      * intros i. rewrite Hl. split; [intros (H1 & H2); split; [now right|exact H2]|].
        intros ([->|H1] & w & Hw & Hg); [|split; [exact H1|eauto]].
        rewrite (Huniq w Hw) in Hg. unfold goes_right in Hg. cbn [snd] in Hg. congruence.
      * intros i. cbn [In]. rewrite Hr. split.
        -- intros [<-|(H1 & H2)]; [split; [now left|exists v; split; [exact Hv|exact Es]]|split; [now right|exact H2]].
        -- intros ([->|H1] & H2); [now left|right; split; assumption].
      * intros Hn. inversion Hn as [|? ? Hnotin Hn']; subst. destruct (Hnd Hn') as [N1 N2]. split; [exact N1|].
        constructor; [|exact N2]. intros H. apply Hr in H. now destruct H.
    + exists (id :: ls), rs. split; [reflexivity|]. split; [|split].
      * intros i. cbn [In]. rewrite Hl. split.
        -- intros [<-|(H1 & H2)]; [split; [now left|exists v; split; [exact Hv|exact Es]]|split; [now right|exact H2]].
        -- intros ([->|H1] & H2); [now left|right; split; assumption].
      * intros i. rewrite Hr. split; [intros (H1 & H2); split; [now right|exact H2]|].
        intros ([->|H1] & w & Hw & Hg); [|split; [exact H1|eauto]].
        rewrite (Huniq w Hw) in Hg. unfold goes_right in Hg. cbn [snd] in Hg. congruence.
      * intros Hn. inversion Hn as [|? ? Hnotin Hn']; subst. destruct (Hnd Hn') as [N1 N2]. split; [|exact N2].
        constructor; [|exact N1]. intros H. apply Hl in H. now destruct H.
Qed.

Lemma NoDup_snoc (l : list Z) x : NoDup l -> ~ In x l -> NoDup (l ++ [x]).
Proof.
  intros Hn Hx. induction Hn as [|y l Hy _ IH]; cbn [app]; [constructor; [intros []|constructor]|].
  constructor.
  - intros H. apply in_app_or in H. destruct H as [H|[H|[]]]; [contradiction|]. apply Hx. now left.
  - apply IH. intros H. apply Hx. now right.
Qed.

(* ---------- insertion ---------- *)

(* docs: all documents of the collection after the insertion (what getDocument can see);
   D: those indexed in this subtree before it; the new (id, v) is in docs and not in D *)
Theorem insert_inv : forall t oracle D docs id v,
  ids_unique docs -> In (id, v) docs -> (forall d, In d D -> In d docs) -> ~ In id (map fst D) ->
  inv t D ->
  exists t', insert cosine docs t oracle id v = Some t' /\ inv t' ((id, v) :: D).
Proof.
  induction t as [ids|n b l IHl r IHr|]; intros oracle D docs id v Hu Hin Hsub Hfresh H; cbn [inv] in H.
  - destruct H as [Hnd Hids]. cbn [insert].
    set (ids' := ids ++ [id]).
    assert (Hnd' : NoDup ids').
    { unfold ids'. apply NoDup_snoc; [exact Hnd|]. intros Hi. apply Hfresh. now apply Hids. }
    assert (Hids' : forall i, In i ids' <-> In i (map fst ((id, v) :: D))).
    { intros i. unfold ids'. rewrite in_app_iff. cbn [map fst In]. rewrite Hids. intuition. }
    assert (Hleaf : inv (Leaf ids') ((id, v) :: D)) by (cbn [inv]; split; assumption).
    destruct (Nat.ltb threshold (length ids')); [|eauto].
    destruct oracle as [oi|n b ol or|]; [eauto| |eauto].
    assert (Hall : forall i, In i ids' -> In i (map fst docs)).
    { intros i Hi. apply Hids' in Hi. cbn [map fst In] in Hi. destruct Hi as [<-|Hi].
      - apply in_map_iff. exists (id, v). split; [reflexivity|exact Hin].
      - apply in_map_iff in Hi. destruct Hi as (d & E & Hd). apply in_map_iff. exists d. split; [exact E|now apply Hsub]. }
    destruct (partition_spec docs n b Hu ids' Hall) as (ls & rs & E & Hl & Hr & Hndp).
    rewrite E. destruct (Hndp Hnd') as [Nl Nr].
    destruct ls as [|l0 ls']; [eauto|]. destruct rs as [|r0 rs']; [eauto|].
    eexists. split; [reflexivity|]. cbn [inv].
    assert (Hdoc : forall i w, In (i, w) ((id, v) :: D) -> In (i, w) docs).
    { intros i w [E1|H1]; [inversion E1; subst; exact Hin|now apply Hsub]. }
    assert (Huniq : forall i w w', In (i, w) docs -> In (i, w') docs -> w = w').
    { intros i w w' H1 H2. pose proof (vec_of_in docs i w Hu H1) as E1. rewrite (vec_of_in docs i w' Hu H2) in E1. now inversion E1. }
    split; (split; [assumption|]); intros i.
    + rewrite Hl, Hids'. rewrite !in_map_iff. split.
      * intros ((d & Ed & Hd) & w & Hw & Hg). destruct d as [j u]. cbn [fst] in Ed. subst j.
        exists (i, u). split; [reflexivity|]. apply filter_In. split; [exact Hd|].
        rewrite (Huniq i u w (Hdoc i u Hd) Hw). now rewrite Hg.
      * intros ([j u] & Ed & Hd). cbn [fst] in Ed. subst j. apply filter_In in Hd. destruct Hd as [Hd Hg].
        split; [exists (i, u); split; [reflexivity|exact Hd]|]. exists u. split; [now apply Hdoc|].
        now apply negb_true_iff in Hg.
    + rewrite Hr, Hids'. rewrite !in_map_iff. split.
      * intros ((d & Ed & Hd) & w & Hw & Hg). destruct d as [j u]. cbn [fst] in Ed. subst j.
        exists (i, u). split; [reflexivity|]. apply filter_In. split; [exact Hd|].
        now rewrite (Huniq i u w (Hdoc i u Hd) Hw).
      * intros ([j u] & Ed & Hd). cbn [fst] in Ed. subst j. apply filter_In in Hd. destruct Hd as [Hd Hg].
        split; [exists (i, u); split; [reflexivity|exact Hd]|]. exists u. split; [now apply Hdoc|exact Hg].
  - destruct H as [Hl Hr]. cbn [insert].
    destruct oracle as [oi|on ob ol or|].
    + (* oracle shape differs: children get Nil oracles *)
      destruct (side cosine v n b) eqn:Es.
      * destruct (IHr Nil (filter (goes_right n b) D) docs id v Hu Hin) as (r' & Er & Hr'); try assumption.
        { intros d Hd. apply filter_In in Hd. now apply Hsub. }
        { intros Hi. apply Hfresh. apply in_map_iff in Hi. destruct Hi as (d & E & Hd). apply filter_In in Hd. apply in_map_iff. exists d. tauto. }
        rewrite Er. eexists. split; [reflexivity|]. assert (Eg : goes_right n b (id, v) = side cosine v n b) by reflexivity. cbn [inv filter]. rewrite Eg, Es. cbn [negb]. split; assumption.
      * destruct (IHl Nil (filter (fun d => negb (goes_right n b d)) D) docs id v Hu Hin) as (l' & El & Hl'); try assumption.
        { intros d Hd. apply filter_In in Hd. now apply Hsub. }
        { intros Hi. apply Hfresh. apply in_map_iff in Hi. destruct Hi as (d & E & Hd). apply filter_In in Hd. apply in_map_iff. exists d. tauto. }
        rewrite El. eexists. split; [reflexivity|]. assert (Eg : goes_right n b (id, v) = side cosine v n b) by reflexivity. cbn [inv filter]. rewrite Eg, Es. cbn [negb]. split; assumption.
    + destruct (side cosine v n b) eqn:Es.
      * destruct (IHr or (filter (goes_right n b) D) docs id v Hu Hin) as (r' & Er & Hr'); try assumption.
        { intros d Hd. apply filter_In in Hd. now apply Hsub. }
        { intros Hi. apply Hfresh. apply in_map_iff in Hi. destruct Hi as (d & E & Hd). apply filter_In in Hd. apply in_map_iff. exists d. tauto. }
        rewrite Er. eexists. split; [reflexivity|]. assert (Eg : goes_right n b (id, v) = side cosine v n b) by reflexivity. cbn [inv filter]. rewrite Eg, Es. cbn [negb]. split; assumption.
      * destruct (IHl ol (filter (fun d => negb (goes_right n b d)) D) docs id v Hu Hin) as (l' & El & Hl'); try assumption.
        { intros d Hd. apply filter_In in Hd. now apply Hsub. }
        { intros Hi. apply Hfresh. apply in_map_iff in Hi. destruct Hi as (d & E & Hd). apply filter_In in Hd. apply in_map_iff. exists d. tauto. }
        rewrite El. eexists. split; [reflexivity|]. assert (Eg : goes_right n b (id, v) = side cosine v n b) by reflexivity. cbn [inv filter]. rewrite Eg, Es. cbn [negb]. split; assumption.
    + destruct (side cosine v n b) eqn:Es.
      * destruct (IHr Nil (filter (goes_right n b) D) docs id v Hu Hin) as (r' & Er & Hr'); try assumption.
        { intros d Hd. apply filter_In in Hd. now apply Hsub. }
        { intros Hi. apply Hfresh. apply in_map_iff in Hi. destruct Hi as (d & E & Hd). apply filter_In in Hd. apply in_map_iff. exists d. tauto. }
        rewrite Er. eexists. split; [reflexivity|]. assert (Eg : goes_right n b (id, v) = side cosine v n b) by reflexivity. cbn [inv filter]. rewrite Eg, Es. cbn [negb]. split; assumption.
      * destruct (IHl Nil (filter (fun d => negb (goes_right n b d)) D) docs id v Hu Hin) as (l' & El & Hl'); try assumption.
        { intros d Hd. apply filter_In in Hd. now apply Hsub. }
        { intros Hi. apply Hfresh. apply in_map_iff in Hi. destruct Hi as (d & E & Hd). apply filter_In in Hd. apply in_map_iff. exists d. tauto. }
        rewrite El. eexists. split; [reflexivity|]. assert (Eg : goes_right n b (id, v) = side cosine v n b) by reflexivity. cbn [inv filter]. rewrite Eg, Es. cbn [negb]. split; assumption.
  - destruct H.
Qed.

(* ---------- removal ---------- *)

Lemma remove_first_in id ids : NoDup ids -> forall i, In i (remove_first id ids) <-> i <> id /\ In i ids.
Proof.
  induction ids as [|x r IH]; intros Hn i; cbn [remove_first In]; [tauto|].
  inversion Hn as [|? ? Hnotin Hn']; subst. destruct (Z.eqb_spec x id) as [->|Hne].
  - split; [intros H; split; [intros ->; contradiction|now right]|intros (H1 & [H2|H2]); [congruence|exact H2]].
  - cbn [In]. rewrite (IH Hn'). split; [intros [<-|(H1 & H2)]; [split; [exact Hne|now left]|split; [exact H1|now right]]|].
    intros (H1 & [H2|H2]); [now left|right; tauto].
Qed.

Lemma remove_first_nodup id ids : NoDup ids -> NoDup (remove_first id ids).
Proof.
  induction ids as [|x r IH]; intros Hn; cbn [remove_first]; [constructor|].
  inversion Hn as [|? ? Hnotin Hn']; subst. destruct (x =? id); [exact Hn'|].
  constructor; [|now apply IH]. intros H. apply (remove_first_in id r Hn') in H. tauto.
Qed.

Definition without (id : Z) (D : list doc) : list doc := filter (fun d => negb (fst d =? id)) D.

Lemma without_filter id f D : without id (filter f D) = filter f (without id D).
Proof.
  unfold without. induction D as [|d D IH]; [reflexivity|]. cbn [filter].
  destruct (f d) eqn:Ef; destruct (negb (fst d =? id)) eqn:En; cbn [filter]; rewrite ?Ef, ?En; now rewrite IH.
Qed.

Lemma without_absent id D : ~ In id (map fst D) -> without id D = D.
Proof.
  unfold without. induction D as [|d D IH]; intros H; [reflexivity|]. cbn [filter].
  destruct (Z.eqb_spec (fst d) id) as [E|Hne]; cbn [negb].
  - exfalso. apply H. cbn [map In]. now left.
  - f_equal. apply IH. intros H1. apply H. cbn [map In]. now right.
Qed.

(* the document is found again by routing the vector it was indexed with *)
Theorem remove_inv : forall t D id v, ids_unique D -> In (id, v) D -> inv t D ->
  exists t', remove cosine t id v = Some t' /\ inv t' (without id D).
Proof.
  induction t as [ids|n b l IHl r IHr|]; intros D id v Hu Hin H; cbn [inv] in H.
  - destruct H as [Hnd Hids]. cbn [remove]. eexists. split; [reflexivity|]. cbn [inv]. split; [now apply remove_first_nodup|].
    intros i. rewrite (remove_first_in id ids Hnd), Hids. unfold without. rewrite !in_map_iff. split.
    + intros (Hne & d & E & Hd). exists d. split; [exact E|]. apply filter_In. split; [exact Hd|].
      apply negb_true_iff. apply Z.eqb_neq. congruence.
    + intros (d & E & Hd). apply filter_In in Hd. destruct Hd as [Hd Hn]. apply negb_true_iff, Z.eqb_neq in Hn.
      split; [congruence|exists d; tauto].
  - destruct H as [Hl Hr]. cbn [remove].
    assert (Hsub : forall f, ids_unique (filter f D)).
    { intros f. unfold ids_unique in *. clear - Hu. induction D as [|d D IH]; [constructor|]. cbn [filter map] in *.
      inversion Hu as [|? ? Hnotin Hu']; subst. destruct (f d); [|now apply IH]. cbn [map]. constructor; [|now apply IH].
      intros H. apply Hnotin. apply in_map_iff in H. destruct H as (e & E & He). apply filter_In in He. apply in_map_iff. exists e. tauto. }
    assert (Hother : forall f, (forall w, In (id, w) D -> f (id, w) = false) -> ~ In id (map fst (filter f D))).
    { intros f Hf Hi. apply in_map_iff in Hi. destruct Hi as ([j w] & E & Hd). cbn [fst] in E. subst j.
      apply filter_In in Hd. destruct Hd as [Hd Hfd]. rewrite (Hf w Hd) in Hfd. discriminate. }
    assert (Huniq : forall w, In (id, w) D -> w = v).
    { intros w Hw. pose proof (vec_of_in D id w Hu Hw) as E1. rewrite (vec_of_in D id v Hu Hin) in E1. now inversion E1. }
    destruct (side cosine v n b) eqn:Es.
    + destruct (IHr (filter (goes_right n b) D) id v (Hsub _)) as (r' & Er & Hr'); try assumption.
      { apply filter_In. split; [exact Hin|]. unfold goes_right. cbn [snd]. exact Es. }
      rewrite Er. eexists. split; [reflexivity|]. cbn [inv]. rewrite <- !without_filter. split; [|exact Hr'].
      rewrite without_absent; [exact Hl|]. apply Hother. intros w Hw. rewrite (Huniq w Hw). unfold goes_right. cbn [snd]. now rewrite Es.
    + destruct (IHl (filter (fun d => negb (goes_right n b d)) D) id v (Hsub _)) as (l' & El & Hl'); try assumption.
      { apply filter_In. split; [exact Hin|]. unfold goes_right. cbn [snd]. now rewrite Es. }
      rewrite El. eexists. split; [reflexivity|]. cbn [inv]. rewrite <- !without_filter. split; [exact Hl'|].
      rewrite without_absent; [exact Hr|]. apply Hother. intros w Hw. rewrite (Huniq w Hw). unfold goes_right. cbn [snd]. exact Es.
  - destruct H.
Qed.

(* a fresh collection and a collection emptied by removals both satisfy the invariant with no documents *)
Lemma inv_empty_leaf : inv (Leaf []) [].
Proof. cbn [inv]. split; [constructor|]. intros i. cbn. tauto. Qed.
End Inv.
