(* CollProofs.v — the document layer (AddDocument, UpdateDocument, removal, GetDocument, GetAllIDs,
   GetDocumentCount) refines a finite map from uint64 ids to (metadata, stored vector bytes). *)
From Coq Require Import ZArith Lia ZifyN ZifyBool ZifyNat Sorting.Sorted Sorting.Permutation.
From Syz Require Import Coll Consts ConstsOk ListLemmas VarintProofs CrcBound SpanProofs ScanProofs StoreProofs ReopenProofs DecimalProofs.
Open Scope N_scope.

Definition doc_streams (meta vec : bytes) : list stream := [(0, meta); (1, vec)].

(* the document stored under an id, read off the abstract record map *)
Definition doc_of (s : sf) (id : N) : option (bytes * bytes) :=
  match slookup (abs (tiles s)) (doc_rid id) with
  | Some [(_, meta); (_, vec)] => Some (meta, vec)
  | _ => None
  end.

Record CollInv (s : sf) : Prop := {
  ci_inv : Inv s;
  ci_opts : In [] (active_rids (tiles s));
  ci_rids : forall rid, In rid (active_rids (tiles s)) -> rid = [] \/ exists id, id < two64 /\ rid = doc_rid id;
  ci_shape : forall id ss, id < two64 -> slookup (abs (tiles s)) (doc_rid id) = Some ss ->
                           exists meta vec, ss = doc_streams meta vec }.

Lemma doc_rid_eqb id id' : id < two64 -> id' < two64 ->
  bytes_eqb (doc_rid id) (doc_rid id') = (id =? id').
Proof.
  intros H H'. destruct (N.eqb_spec id id') as [->|Hne]; [apply bytes_eqb_refl|].
  apply bytes_eqb_neq. intros E. apply Hne. now apply dec_string_inj.
Qed.

Lemma doc_rid_nonempty id : id < two64 -> bytes_eqb (doc_rid id) [] = false.
Proof. intros H. apply bytes_eqb_neq. now apply dec_string_nonempty. Qed.

(* ---------- GetDocument ---------- *)

Theorem get_refines s id : CollInv s -> id < two64 ->
  get_document s id = match doc_of s id with Some d => Ok d | None => Err end.
Proof.
  intros [HI _ _ Hsh] Hid. unfold get_document, doc_of.
  pose proof (read_refines s (doc_rid id) (inv_wf s HI)) as R. unfold read_streams in R.
  destruct (slookup (abs (tiles s)) (doc_rid id)) as [ss|] eqn:El.
  - destruct (Hsh id ss Hid El) as (meta & vec & ->).
    destruct (read_record s (doc_rid id)) as [sp| |]; try discriminate.
    inversion R as [R']. cbn [bind]. unfold stream_data. rewrite R'. reflexivity.
  - destruct (read_record s (doc_rid id)) as [sp| |]; try discriminate. reflexivity.
Qed.

(* ---------- membership of ids in the abstract map ---------- *)

Lemma slookup_in_keys m rid : slookup m rid <> None <-> In rid (map fst m).
Proof.
  induction m as [|[k v] m IH]; cbn [slookup map fst]; [split; [congruence|intros []]|].
  destruct (bytes_eqb k rid) eqn:E.
  - apply bytes_eqb_eq in E. subst. split; [now left|discriminate].
  - apply bytes_eqb_neq in E. rewrite IH. split; [now right|intros [H|H]; [contradiction|exact H]].
Qed.

Lemma in_rids_lookup s rid : Inv s -> In rid (active_rids (tiles s)) <-> slookup (abs (tiles s)) rid <> None.
Proof. intros HI. rewrite slookup_in_keys, abs_keys by apply HI. reflexivity. Qed.

(* ---------- AddDocument ---------- *)

Definition fits_doc (s : sf) (id : N) (vec meta : bytes) (exp : N) : Prop :=
  id < two64 /\ fits s (doc_rid id) (doc_streams meta vec) exp.

Lemma rids_after_write s s' rid ss : Inv s -> Inv s' ->
  (forall r, slookup (abs (tiles s')) r = if bytes_eqb rid r then Some ss else slookup (abs (tiles s)) r) ->
  forall r, In r (active_rids (tiles s')) <-> r = rid \/ In r (active_rids (tiles s)).
Proof.
  intros HI HI' Hl r. rewrite !in_rids_lookup by assumption. rewrite Hl.
  destruct (bytes_eqb rid r) eqn:E.
  - apply bytes_eqb_eq in E. subst. split; [now left|discriminate].
  - apply bytes_eqb_neq in E. split; [now right|intros [H|H]; [congruence|exact H]].
Qed.

Theorem add_refines s id vec meta exp steps s' : CollInv s -> fits_doc s id vec meta exp ->
  add_document s id vec meta exp = Some (steps, s') ->
  CollInv s' /\ forall id', id' < two64 ->
     doc_of s' id' = if id =? id' then Some (meta, vec) else doc_of s id'.
Proof.
  intros [HI Ho Hr Hsh] [Hid Hfit] Hw. unfold add_document in Hw.
  destruct (write_refines _ _ _ _ _ _ HI Hfit Hw) as (HI' & Hl & Hn).
  pose proof (rids_after_write s s' _ _ HI HI' Hl) as Hrid.
  split.
  - constructor.
    + exact HI'.
    + apply Hrid. now right.
    + intros rid H. apply Hrid in H. destruct H as [->|H]; [right; eauto|now apply Hr].
    + intros id' ss Hid' E. rewrite Hl in E. rewrite doc_rid_eqb in E by assumption.
      destruct (id =? id'); [inversion E; unfold doc_streams; eauto|now apply (Hsh id')].
  - intros id' Hid'. unfold doc_of. rewrite Hl, doc_rid_eqb by assumption.
    destruct (id =? id'); reflexivity.
Qed.

(* ---------- UpdateDocument ---------- *)

Theorem update_refines s id meta exp : CollInv s -> id < two64 ->
  match doc_of s id with
  | None => update_document s id meta exp = Err
  | Some (old_meta, vec) =>
      update_document s id meta exp = Ok (add_document s id vec meta exp)
  end.
Proof.
  intros HC Hid. pose proof HC as [HI _ _ Hsh]. unfold update_document, doc_of.
  pose proof (read_refines s (doc_rid id) (inv_wf s HI)) as R. unfold read_streams in R.
  destruct (slookup (abs (tiles s)) (doc_rid id)) as [ss|] eqn:El.
  - destruct (Hsh id ss Hid El) as (m0 & vec & ->). unfold doc_streams.
    destruct (read_record s (doc_rid id)) as [sp| |]; try discriminate.
    inversion R as [R']. cbn [bind]. unfold stream_data. rewrite R'. reflexivity.
  - destruct (read_record s (doc_rid id)) as [sp| |]; try discriminate. reflexivity.
Qed.

(* ---------- removal ---------- *)

Theorem remove_doc_refines s id : CollInv s -> id < two64 ->
  match remove_document s id with
  | Ok (_, s') => doc_of s id <> None /\ CollInv s'
                  /\ forall id', id' < two64 -> doc_of s' id' = if id =? id' then None else doc_of s id'
  | Err => doc_of s id = None
  | Panic => False
  end.
Proof.
  intros [HI Ho Hr Hsh] Hid. unfold remove_document.
  pose proof (remove_refines s (doc_rid id) HI) as R.
  destruct (remove_record s (doc_rid id)) as [[steps s']| |]; [| |exact R].
  - destruct R as (Hin & HI' & Hn & Hlen & Hl). split; [|split].
    + unfold doc_of. destruct (slookup (abs (tiles s)) (doc_rid id)) as [ss|] eqn:E; [|congruence].
      destruct (Hsh id ss Hid E) as (m & v & ->). discriminate.
    + assert (Hrid : forall r, In r (active_rids (tiles s')) <-> r <> doc_rid id /\ In r (active_rids (tiles s))).
      { intros r. rewrite !in_rids_lookup by assumption. rewrite Hl.
        destruct (bytes_eqb (doc_rid id) r) eqn:E.
        - apply bytes_eqb_eq in E. subst. split; [congruence|intros [H _]; congruence].
        - apply bytes_eqb_neq in E. split; [intros H; split; [congruence|exact H]|intros [_ H]; exact H]. }
      constructor.
      * exact HI'.
      * apply Hrid. split; [|exact Ho]. intros E. symmetry in E. now apply dec_string_nonempty in E.
      * intros rid H. apply Hrid in H. now apply Hr.
      * intros id' ss Hid' E. rewrite Hl in E. destruct (bytes_eqb (doc_rid id) (doc_rid id')); [discriminate|].
        now apply (Hsh id').
    + intros id' Hid'. unfold doc_of. rewrite Hl, doc_rid_eqb by assumption.
      destruct (id =? id'); reflexivity.
  - unfold doc_of. now rewrite R.
Qed.

(* ---------- GetAllIDs / GetDocumentCount ---------- *)

Lemma index_keys ts : forall off, map fst (index_from ts off) = active_rids ts.
Proof.
  induction ts as [|t ts IH]; intros off; [reflexivity|].
  cbn [index_from]. rewrite map_app, IH. unfold active_rids. cbn [flat_map]. f_equal.
  destruct t; reflexivity.
Qed.

Lemma insert_by_perm {A} (lt : A -> A -> bool) x l : Permutation (insert_by lt x l) (x :: l).
Proof.
  induction l as [|y l IH]; [reflexivity|]. cbn [insert_by].
  destruct (lt y x); [|reflexivity]. rewrite IH. apply perm_swap.
Qed.

Lemma sort_by_perm {A} (lt : A -> A -> bool) l : Permutation (sort_by lt l) l.
Proof.
  induction l as [|x l IH]; [reflexivity|]. unfold sort_by in *. cbn [fold_right].
  rewrite insert_by_perm. now constructor.
Qed.

Lemma insert_by_sorted x l : StronglySorted N.le l -> StronglySorted N.le (insert_by N.ltb x l).
Proof.
  intros H. induction H as [|y l Hs IH Hy]; cbn [insert_by]; [repeat constructor|].
  destruct (N.ltb_spec y x) as [Hlt|Hge].
  - constructor; [exact IH|].
    apply Forall_forall. intros z Hz.
    apply (Permutation_in _ (insert_by_perm N.ltb x l)) in Hz. destruct Hz as [->|Hz]; [lia|].
    rewrite Forall_forall in Hy. now apply Hy.
  - constructor; [constructor; assumption|]. constructor; [exact Hge|].
    rewrite Forall_forall in *. intros z Hz. specialize (Hy z Hz). lia.
Qed.

Lemma sort_by_sorted l : StronglySorted N.le (sort_by N.ltb l).
Proof.
  induction l as [|x l IH]; [constructor|]. unfold sort_by in *. cbn [fold_right]. now apply insert_by_sorted.
Qed.

Definition rid_ids (r : bytes) : list N := match parse_uint r with Some n => [n] | None => [] end.

Lemma all_ids_perm s : Permutation (all_ids s)
  (flat_map rid_ids (filter (fun r => negb (bytes_eqb r [])) (active_rids (tiles s)))).
Proof.
  unfold all_ids, live_rids, index_of. rewrite index_keys. apply sort_by_perm.
Qed.

(* GetAllIDs: ascending, and exactly the ids that have a document *)
Theorem ids_refines s : CollInv s ->
  StronglySorted N.le (all_ids s) /\ NoDup (all_ids s)
  /\ forall id, id < two64 -> (In id (all_ids s) <-> doc_of s id <> None).
Proof.
  intros [HI Ho Hr Hsh]. split; [apply sort_by_sorted|].
  pose proof (all_ids_perm s) as P.
  assert (Hchar : forall id, In id (all_ids s) <-> id < two64 /\ In (doc_rid id) (active_rids (tiles s))).
  { intros id. split.
    - intros H. apply (Permutation_in _ P) in H. apply in_flat_map in H. destruct H as (r & Hr1 & Hr2).
      apply filter_In in Hr1. destruct Hr1 as [Hr1 Hne].
      destruct (Hr r Hr1) as [->|(id' & Hid' & ->)]; [now rewrite bytes_eqb_refl in Hne|].
      unfold rid_ids, doc_rid in Hr2. rewrite parse_uint_dec_string in Hr2 by exact Hid'.
      destruct Hr2 as [<-|[]]. split; assumption.
    - intros [Hid H]. apply (Permutation_in _ (Permutation_sym P)). apply in_flat_map.
      exists (doc_rid id). split.
      + apply filter_In. split; [exact H|]. now rewrite doc_rid_nonempty.
      + unfold rid_ids, doc_rid. rewrite parse_uint_dec_string by exact Hid. now left. }
  split.
  - apply (Permutation_NoDup (Permutation_sym P)).
    pose proof (inv_nodup s HI) as Hnd. clear - Hnd Hr.
    induction (active_rids (tiles s)) as [|r l IH]; [constructor|].
    inversion Hnd as [|? ? Hnotin Hnd']; subst. cbn [filter].
    assert (IH' := IH (fun x Hx => Hr x (or_intror Hx)) Hnd').
    destruct (bytes_eqb r []) eqn:E; cbn [negb]; [exact IH'|].
    cbn [flat_map]. destruct (Hr r (or_introl eq_refl)) as [->|(id & Hid & ->)]; [now rewrite bytes_eqb_refl in E|].
    unfold rid_ids at 1, doc_rid. rewrite parse_uint_dec_string by exact Hid. cbn [app].
    constructor; [|exact IH'].
    intros H. apply in_flat_map in H. destruct H as (r' & H1 & H2). apply filter_In in H1. destruct H1 as [H1 _].
    destruct (Hr r' (or_intror H1)) as [->|(id' & Hid' & ->)].
    + unfold rid_ids in H2. cbn in H2. exact H2.
    + unfold rid_ids, doc_rid in H2. rewrite parse_uint_dec_string in H2 by exact Hid'.
      destruct H2 as [<-|[]]. apply Hnotin. exact H1.
  - intros id Hid. rewrite Hchar. rewrite in_rids_lookup by exact HI. unfold doc_of. split.
    + intros [_ H]. destruct (slookup (abs (tiles s)) (doc_rid id)) as [ss|] eqn:E; [|congruence].
      destruct (Hsh id ss Hid E) as (m & v & ->). discriminate.
    + intros H. split; [exact Hid|]. destruct (slookup (abs (tiles s)) (doc_rid id)); [discriminate|congruence].
Qed.

Lemma length_flat_map_docs l :
  (forall rid, In rid l -> rid = [] \/ exists id, id < two64 /\ rid = doc_rid id) ->
  length (flat_map rid_ids (filter (fun r => negb (bytes_eqb r [])) l))
  = length (filter (fun r => negb (bytes_eqb r [])) l).
Proof.
  induction l as [|r l IH]; intros H; [reflexivity|]. cbn [filter].
  assert (IH' := IH (fun x Hx => H x (or_intror Hx))).
  destruct (bytes_eqb r []) eqn:E; cbn [negb]; [exact IH'|].
  cbn [flat_map length]. rewrite app_length, IH'.
  destruct (H r (or_introl eq_refl)) as [->|(id & Hid & ->)]; [now rewrite bytes_eqb_refl in E|].
  unfold rid_ids, doc_rid. rewrite parse_uint_dec_string by exact Hid. reflexivity.
Qed.

Lemma length_filter_nonempty l : NoDup l -> In [] l ->
  S (length (filter (fun r : bytes => negb (bytes_eqb r [])) l)) = length l.
Proof.
  induction l as [|r l IH]; intros Hnd Hin; [destruct Hin|].
  inversion Hnd as [|? ? Hnotin Hnd']; subst. cbn [filter length].
  destruct (bytes_eqb r []) eqn:E; cbn [negb].
  - apply bytes_eqb_eq in E. subst. f_equal.
    clear - Hnotin. induction l as [|x l IH]; [reflexivity|]. cbn [filter length].
    destruct (bytes_eqb x []) eqn:E; cbn [negb length].
    + apply bytes_eqb_eq in E. subst. exfalso. apply Hnotin. now left.
    + f_equal. apply IH. intros H. apply Hnotin. now right.
  - cbn [length]. f_equal. apply IH; [exact Hnd'|]. destruct Hin as [->|H]; [now rewrite bytes_eqb_refl in E|exact H].
Qed.

(* GetDocumentCount equals the number of ids GetAllIDs lists *)
Theorem count_refines s : CollInv s -> doc_count s = N.of_nat (length (all_ids s)).
Proof.
  intros [HI Ho Hr Hsh]. unfold doc_count.
  rewrite (Permutation_length (all_ids_perm s)), length_flat_map_docs by exact Hr.
  assert (Hlen : length (index_of (tiles s)) = length (active_rids (tiles s))).
  { unfold index_of. rewrite <- (index_keys (tiles s) 0). now rewrite map_length. }
  rewrite Hlen.
  pose proof (length_filter_nonempty (active_rids (tiles s)) (inv_nodup s HI) Ho) as H.
  unfold bytes in *. lia.
Qed.
