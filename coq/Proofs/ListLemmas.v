(* ListLemmas.v — small facts about firstn/skipn/length on byte lists. *)
From Coq Require Import ZArith Lia ZifyN ZifyBool ZifyNat.
From Syz Require Import Bytes.
Open Scope N_scope.

Lemma blen_app (a b : bytes) : blen (a ++ b) = blen a + blen b.
Proof. unfold blen. rewrite app_length. lia. Qed.

Lemma blen_cons x (a : bytes) : blen (x :: a) = 1 + blen a.
Proof. unfold blen. cbn [length]. lia. Qed.

Lemma blen_nil : blen [] = 0.
Proof. reflexivity. Qed.

Lemma firstn_app_exact {A} (a b : list A) : firstn (length a) (a ++ b) = a.
Proof. induction a as [|x a IH]; cbn [length firstn app]; [now destruct b|now rewrite IH]. Qed.

Lemma skipn_app_exact {A} (a b : list A) : skipn (length a) (a ++ b) = b.
Proof. induction a as [|x a IH]; cbn [length skipn app]; [reflexivity|exact IH]. Qed.

Lemma firstn_app_exact' {A} (a b : list A) n : n = length a -> firstn n (a ++ b) = a.
Proof. intros ->. apply firstn_app_exact. Qed.

Lemma skipn_app_exact' {A} (a b : list A) n : n = length a -> skipn n (a ++ b) = b.
Proof. intros ->. apply skipn_app_exact. Qed.

Lemma to_nat_blen (a : bytes) : N.to_nat (blen a) = length a.
Proof. unfold blen. lia. Qed.

Lemma length_zeros n : length (zeros n) = n.
Proof. induction n as [|n IH]; cbn [zeros length]; [reflexivity|now rewrite IH]. Qed.

Lemma blen_nzeros n : blen (nzeros n) = n.
Proof. unfold blen, nzeros. rewrite length_zeros. lia. Qed.

Lemma length_be32 n : length (be32 n) = 4%nat.
Proof. reflexivity. Qed.

Lemma blen_be32 n : blen (be32 n) = 4.
Proof. reflexivity. Qed.

Lemma rd32_be32 n r : n < 4294967296 -> rd32 (be32 n ++ r) = Some n.
Proof.
  intros H. unfold be32. cbn [app rd32]. f_equal.
  Ltac Zify.zify_post_hook ::= Z.div_mod_to_equations.
  lia.
Qed.

Lemma bytes_eqb_refl (a : bytes) : bytes_eqb a a = true.
Proof. induction a as [|x a IH]; cbn [bytes_eqb]; [reflexivity|]. now rewrite N.eqb_refl, IH. Qed.

Lemma bytes_eqb_eq (a b : bytes) : bytes_eqb a b = true <-> a = b.
Proof.
  revert b. induction a as [|x a IH]; intros [|y b]; cbn [bytes_eqb]; split; intros H; try discriminate; try reflexivity.
  - apply andb_true_iff in H. destruct H as [H1 H2]. apply N.eqb_eq in H1. apply IH in H2. now subst.
  - inversion H; subst. now rewrite N.eqb_refl, bytes_eqb_refl.
Qed.
