From Coq Require Import List NArith Bool Lia.
Import ListNotations.
From Syz Require Import Dump.
Open Scope N_scope.

Fixpoint join_nl (ls : list bytes) : bytes :=
  match ls with
  | [] => []
  | l :: rest => l ++ match rest with [] => [] | _ => NL :: join_nl rest end
  end.

Definition no_nl (l : bytes) : Prop := ~ In NL l.

Lemma split_acc_app : forall p cur, (forall x, In x cur -> x <> NL) ->
  split_nl_acc p cur = match split_nl_acc p [] with
                       | l :: r => (rev cur ++ l) :: r
                       | [] => []
                       end.
Proof.
  induction p as [|c r IH]; intros cur Hc; simpl.
  - rewrite app_nil_r. reflexivity.
  - destruct (N.eqb_spec c NL) as [->|Hne].
    + rewrite app_nil_r. reflexivity.
    + rewrite (IH (c :: cur)). 2:{ intros x [<-|Hx]; auto. }
      rewrite (IH [c]). 2:{ intros x [<-|[]]; auto. }
      destruct (split_nl_acc r []) as [|l rest]; [reflexivity|].
      simpl. rewrite <- app_assoc. reflexivity.
Qed.

Lemma split_cons_nl : forall p, split_nl (NL :: p) = [] :: split_nl p.
Proof. reflexivity. Qed.

Lemma split_nl_nonnil : forall p cur, split_nl_acc p cur <> [].
Proof. induction p as [|c r IH]; intros cur; simpl; [discriminate|]. destruct (c =? NL); [discriminate|apply IH]. Qed.

Lemma split_cons_other : forall c p, c <> NL ->
  split_nl (c :: p) = match split_nl p with l :: r => (c :: l) :: r | [] => [] end.
Proof.
  intros c p Hc. unfold split_nl. simpl. destruct (N.eqb_spec c NL); [contradiction|].
  rewrite split_acc_app. 2:{ intros x [<-|[]]; auto. } reflexivity.
Qed.

Lemma split_app_line : forall l p, no_nl l ->
  split_nl (l ++ p) = match split_nl p with h :: r => (l ++ h) :: r | [] => [] end.
Proof.
  induction l as [|c l IH]; intros p Hl; simpl.
  - destruct (split_nl p); reflexivity.
  - assert (c <> NL) by (intro E; apply Hl; left; auto).
    rewrite split_cons_other by assumption. rewrite IH. 2:{ intro Hin. apply Hl. right. exact Hin. }
    destruct (split_nl p); reflexivity.
Qed.

Lemma split_join : forall ls, ls <> [] -> Forall no_nl ls -> split_nl (join_nl ls) = ls.
Proof.
  induction ls as [|l rest IH]; intros Hne Hall; [contradiction|].
  inversion Hall as [|? ? Hl Hrest]; subst. simpl.
  destruct rest as [|l2 rest'].
  - rewrite split_app_line by assumption. cbn. rewrite app_nil_r. reflexivity.
  - rewrite split_app_line by assumption. rewrite split_cons_nl. rewrite IH; [|discriminate|assumption].
    rewrite app_nil_r. reflexivity.
Qed.

Lemma join_split : forall p, join_nl (split_nl p) = p.
Proof.
  induction p as [|c r IH]; [reflexivity|].
  destruct (N.eqb_spec c NL) as [->|Hne].
  - rewrite split_cons_nl. simpl. pose proof (split_nl_nonnil r []) as Hn. unfold split_nl in *.
    destruct (split_nl_acc r []) eqn:E; [contradiction|]. rewrite IH. reflexivity.
  - rewrite split_cons_other by assumption. pose proof (split_nl_nonnil r []) as Hn. unfold split_nl in *.
    destruct (split_nl_acc r []) as [|l rest] eqn:E; [contradiction|]. simpl in *. rewrite IH. reflexivity.
Qed.

Lemma split_lines_no_nl : forall p, Forall no_nl (split_nl p).
Proof.
  induction p as [|c r IH]; [repeat constructor; intros []|].
  destruct (N.eqb_spec c NL) as [->|Hne].
  - rewrite split_cons_nl. constructor; [intros []|exact IH].
  - rewrite split_cons_other by assumption. destruct (split_nl r) as [|l rest]; [constructor|].
    inversion IH; subst. constructor; [|assumption]. intros [E|Hin]; [congruence|contradiction].
Qed.

(* ---------- the indenter ---------- *)
Definition ind (prefix l : bytes) : bytes := if nonempty l then prefix ++ l else [].

Lemma iw_lines_join : forall prefix ls, iw_lines prefix true ls = join_nl (map (ind prefix) ls).
Proof.
  induction ls as [|l rest IH]; [reflexivity|]. simpl. unfold ind at 1.
  destruct rest as [|l2 rest']; [reflexivity|]. rewrite IH. reflexivity.
Qed.

Lemma ind_no_nl : forall prefix l, no_nl prefix -> no_nl l -> no_nl (ind prefix l).
Proof. intros prefix l Hp Hl. unfold ind. destruct (nonempty l); [|intros []]. intro Hin. apply in_app_or in Hin. unfold no_nl in *. tauto. Qed.

Theorem indent_write_lines : forall prefix p, no_nl prefix ->
  split_nl (indent_write prefix true p) = map (ind prefix) (split_nl p).
Proof.
  intros prefix p Hp. unfold indent_write. rewrite iw_lines_join. apply split_join.
  - pose proof (split_nl_nonnil p []) as Hn. unfold split_nl. destruct (split_nl_acc p []); [contradiction|discriminate].
  - pose proof (split_lines_no_nl p) as H. induction H; constructor; auto using ind_no_nl.
Qed.

Lemma spaces4_no_nl : no_nl spaces4.
Proof. intros [E|[E|[E|[E|[]]]]]; discriminate. Qed.

(* ---------- the metadata block ---------- *)
Lemma take_line_spec : forall p acc,
  match take_line p acc with
  | Some (first, rest) => exists l, no_nl l /\ first = rev acc ++ l ++ [NL] /\ p = l ++ NL :: rest
  | None => no_nl p
  end.
Proof.
  induction p as [|c r IH]; intros acc; simpl; [intros []|].
  destruct (N.eqb_spec c NL) as [->|Hne].
  - exists []. split; [intros []|]. split; [|reflexivity]. simpl. reflexivity.
  - specialize (IH (c :: acc)). destruct (take_line r (c :: acc)) as [[first rest]|].
    + destruct IH as [l [Hl [Hf Hp]]]. exists (c :: l). split.
      { intros [E|Hin]; [congruence|contradiction]. }
      split; [rewrite Hf; simpl; rewrite <- app_assoc; reflexivity | rewrite Hp; reflexivity].
    + intros [E|Hin]; [congruence|contradiction].
Qed.

Theorem export_meta_lines : forall mj,
  split_nl (export_meta mj) =
  match split_nl mj with
  | first :: rest => first :: map (ind spaces4) rest
  | [] => []
  end.
Proof.
  intro mj. unfold export_meta. pose proof (take_line_spec mj []) as H.
  destruct (take_line mj []) as [[first rest]|].
  - destruct H as [l [Hl [Hf Hp]]]. simpl in Hf. subst first. subst mj.
    rewrite <- app_assoc. simpl. rewrite !split_app_line by assumption. rewrite !split_cons_nl.
    rewrite indent_write_lines by apply spaces4_no_nl. rewrite !app_nil_r. reflexivity.
  - rewrite <- (app_nil_r mj). rewrite split_app_line by assumption. simpl. rewrite app_nil_r. reflexivity.
Qed.

(* indentation only adds spaces at the start of lines *)
Fixpoint ltrim (l : bytes) : bytes :=
  match l with
  | c :: r => if c =? 32 then ltrim r else l
  | [] => []
  end.

Lemma ltrim_ind : forall l, ltrim (ind spaces4 l) = ltrim l.
Proof. intro l. unfold ind. destruct l; reflexivity. Qed.

Theorem export_meta_whitespace_only : forall mj,
  map ltrim (split_nl (export_meta mj)) = map ltrim (split_nl mj).
Proof.
  intro mj. rewrite export_meta_lines. destruct (split_nl mj) as [|first rest]; [reflexivity|].
  simpl. f_equal. rewrite map_map. apply map_ext. apply ltrim_ind.
Qed.

(* ---------- records ---------- *)
Section Recs.
  Context {V M : Type} (rv : V -> V) (rm : M -> M).
  Let tr (d : V * M) : V * M := (rv (fst d), rm (snd d)).

  Lemma lookup_upsert_same : forall (c : @coll V M) id d, lookup id (upsert id d c) = Some d.
  Proof.
    induction c as [|[i e] r IH]; intros id d; simpl.
    - rewrite N.eqb_refl. reflexivity.
    - destruct (N.eqb_spec i id) as [->|Hne]; simpl.
      + rewrite N.eqb_refl. reflexivity.
      + destruct (N.eqb_spec i id); [contradiction|]. apply IH.
  Qed.

  Lemma lookup_upsert_other : forall (c : @coll V M) id id' d, id <> id' -> lookup id' (upsert id d c) = lookup id' c.
  Proof.
    induction c as [|[i e] r IH]; intros id id' d Hne; simpl.
    - destruct (N.eqb_spec id id'); [contradiction|reflexivity].
    - destruct (N.eqb_spec i id) as [->|Hni]; simpl.
      + destruct (N.eqb_spec id id'); [contradiction|reflexivity].
      + destruct (N.eqb_spec i id'); [reflexivity|]. apply IH. exact Hne.
  Qed.

  Lemma lookup_none_notin : forall (c : @coll V M) id, ~ In id (map fst c) -> lookup id c = None.
  Proof.
    induction c as [|[i e] r IH]; intros id Hn; simpl; [reflexivity|].
    destruct (N.eqb_spec i id) as [->|Hne]; [exfalso; apply Hn; left; reflexivity|].
    apply IH. intro Hin. apply Hn. right. exact Hin.
  Qed.

  Lemma import_fold : forall (recs acc : @coll V M) id,
    NoDup (map fst recs) ->
    lookup id (fold_left (fun c r => upsert (fst r) (tr (snd r)) c) recs acc) =
    match lookup id recs with Some d => Some (tr d) | None => lookup id acc end.
  Proof.
    induction recs as [|[i d] r IH]; intros acc id Hnd; simpl; [reflexivity|].
    inversion Hnd as [|? ? Hnotin Hnd']; subst. rewrite IH by assumption.
    destruct (N.eqb_spec i id) as [->|Hne].
    - rewrite (lookup_none_notin r id Hnotin). simpl. apply lookup_upsert_same.
    - destruct (lookup id r); [reflexivity|]. simpl. apply lookup_upsert_other. exact Hne.
  Qed.

  Theorem import_export_lookup : forall (c : @coll V M) id, NoDup (map fst c) ->
    lookup id (import_records rv rm c) = option_map tr (lookup id c).
  Proof.
    intros c id Hnd. unfold import_records. fold tr. rewrite import_fold by assumption.
    destruct (lookup id c); reflexivity.
  Qed.

  Lemma upsert_fresh_ids : forall (c : @coll V M) id d, ~ In id (map fst c) -> map fst (upsert id d c) = map fst c ++ [id].
  Proof.
    induction c as [|[i e] r IH]; intros id d Hn; simpl; [reflexivity|].
    destruct (N.eqb_spec i id) as [->|Hne]; [exfalso; apply Hn; left; reflexivity|].
    simpl. f_equal. apply IH. intro Hin. apply Hn. right. exact Hin.
  Qed.

  Lemma import_ids_fold : forall (recs acc : @coll V M),
    NoDup (map fst acc ++ map fst recs) ->
    map fst (fold_left (fun c r => upsert (fst r) (tr (snd r)) c) recs acc) = map fst acc ++ map fst recs.
  Proof.
    induction recs as [|[i d] r IH]; intros acc Hnd; simpl; [rewrite app_nil_r; reflexivity|].
    simpl in Hnd. pose proof (NoDup_remove_2 _ _ _ Hnd) as Hnotin.
    rewrite IH.
    - rewrite upsert_fresh_ids. { rewrite <- app_assoc. reflexivity. }
      intro Hin. apply Hnotin. apply in_or_app. left. exact Hin.
    - rewrite upsert_fresh_ids. 2:{ intro Hin. apply Hnotin. apply in_or_app. left. exact Hin. }
      rewrite <- app_assoc. simpl. exact Hnd.
  Qed.

  Theorem import_export_ids : forall (c : @coll V M), NoDup (map fst c) ->
    map fst (import_records rv rm c) = map fst c.
  Proof. intros c Hnd. unfold import_records. fold tr. rewrite import_ids_fold; [reflexivity|exact Hnd]. Qed.
End Recs.
