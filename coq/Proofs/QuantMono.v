(* QuantMono.v — monotonicity of quantize, through Flocq's specification of binary64. *)
From Coq Require Import Floats ZArith Reals Lia Lra Psatz Bool.
From Flocq Require Import Core BinarySingleNaN PrimFloat.
Open Scope R_scope.

Notation B := (binary_float prec emax).
#[local] Existing Instance Hprec.
#[local] Existing Instance Hmax.
Notation RN := (round radix2 (fexp prec emax) (round_mode mode_NE)).

Lemma RN_le a b : a <= b -> RN a <= RN b.
Proof. intros; apply round_le; [apply fexp_correct; typeclasses eauto | typeclasses eauto | assumption]. Qed.

Lemma RN_bound z k : (-1000 <= k <= 1000)%Z -> Rabs z <= bpow radix2 k -> Rabs (RN z) <= bpow radix2 k.
Proof.
  intros Hk Hz. apply abs_round_le_generic; auto with typeclass_instances.
  - apply fexp_correct; typeclasses eauto.
  - apply generic_format_bpow. unfold fexp, FLT_exp, emin, emax, prec. lia.
Qed.

Lemma bpow_lt_emax k : (k <= 1000)%Z -> bpow radix2 k < bpow radix2 emax.
Proof. intros; apply bpow_lt; unfold emax; lia. Qed.

(* generic "operation on bounded finite inputs is exactly the rounded real operation" *)
Lemma plus_ok (x c : B) k : (-1000 <= k <= 999)%Z -> is_finite x = true -> is_finite c = true ->
  Rabs (B2R x) <= bpow radix2 k -> Rabs (B2R c) <= bpow radix2 k ->
  B2R (Bplus mode_NE x c) = RN (B2R x + B2R c) /\ is_finite (Bplus mode_NE x c) = true.
Proof.
  intros Hk Fx Fc Bx Bc.
  pose proof (Bplus_correct prec emax _ _ mode_NE x c Fx Fc) as H.
  rewrite Rlt_bool_true in H.
  - destruct H as (H1 & H2 & _); auto.
  - eapply Rle_lt_trans; [apply (RN_bound _ (k+1)); [lia|]| apply bpow_lt_emax; lia].
    rewrite bpow_plus_1. simpl (IZR radix2).
    eapply Rle_trans; [apply Rabs_triang|]. lra.
Qed.

Lemma mult_ok (x c : B) k1 k2 : (-1000 <= k1 + k2 <= 1000)%Z ->
  Rabs (B2R x) <= bpow radix2 k1 -> Rabs (B2R c) <= bpow radix2 k2 ->
  B2R (Bmult mode_NE x c) = RN (B2R x * B2R c) /\ is_finite (Bmult mode_NE x c) = andb (is_finite x) (is_finite c).
Proof.
  intros Hk Bx Bc.
  pose proof (Bmult_correct prec emax _ _ mode_NE x c) as H.
  rewrite Rlt_bool_true in H.
  - destruct H as (H1 & H2 & _); auto.
  - eapply Rle_lt_trans; [apply (RN_bound _ (k1+k2)); [lia|]| apply bpow_lt_emax; lia].
    rewrite Rabs_mult, bpow_plus. apply Rmult_le_compat; auto using Rabs_pos.
Qed.

Lemma div_ok (x c : B) k : (-1000 <= k <= 999)%Z -> B2R c <> 0 -> 1 <= Rabs (B2R c) ->
  Rabs (B2R x) <= bpow radix2 k ->
  B2R (Bdiv mode_NE x c) = RN (B2R x / B2R c) /\ is_finite (Bdiv mode_NE x c) = is_finite x.
Proof.
  intros Hk Hc0 Hc1 Bx.
  pose proof (Bdiv_correct prec emax _ _ mode_NE x c Hc0) as H.
  rewrite Rlt_bool_true in H.
  - destruct H as (H1 & H2 & _); auto.
  - eapply Rle_lt_trans; [apply (RN_bound _ k); [lia|]| apply bpow_lt_emax; lia].
    unfold Rdiv. rewrite Rabs_mult, Rabs_inv.
    apply Rle_trans with (Rabs (B2R x) * 1); [|lra].
    apply Rmult_le_compat_l; [apply Rabs_pos|].
    rewrite <- Rinv_1. apply Rinv_le_contravar; lra.
Qed.

Section Scaled.
Variables one two maxi : B.
Hypothesis one_r : B2R one = 1.  Hypothesis one_f : is_finite one = true.
Hypothesis two_r : B2R two = 2.  Hypothesis two_f : is_finite two = true.
Hypothesis maxi_f : is_finite maxi = true.
Hypothesis maxi_lo : 1 <= B2R maxi.  Hypothesis maxi_hi : B2R maxi <= bpow radix2 17.

Definition Bscaled (v : B) : B := Bmult mode_NE (Bdiv mode_NE (Bplus mode_NE v one) two) maxi.

Lemma bpow1 : bpow radix2 1 = 2. Proof. reflexivity. Qed.
Lemma bpow2 : bpow radix2 2 = 4. Proof. simpl. lra. Qed.

Lemma Bscaled_spec v : is_finite v = true -> -1 <= B2R v <= 1 ->
  is_finite (Bscaled v) = true /\
  B2R (Bscaled v) = RN (RN (RN (B2R v + 1) / 2) * B2R maxi) /\
  Rabs (RN (B2R v + 1)) <= 4 /\ Rabs (RN (RN (B2R v + 1) / 2)) <= 4.
Proof.
  intros Fv Hv. unfold Bscaled.
  destruct (plus_ok v one 1) as (P1 & P2); auto; try lia.
  { rewrite bpow1. apply Rabs_le. lra. }
  { rewrite bpow1, one_r. rewrite Rabs_R1. lra. }
  rewrite one_r in P1.
  assert (A1 : Rabs (RN (B2R v + 1)) <= 4).
  { rewrite <- bpow2. apply RN_bound; [lia|]. rewrite bpow2. apply Rabs_le. lra. }
  destruct (div_ok (Bplus mode_NE v one) two 2) as (D1 & D2); auto; try lia.
  { rewrite two_r. lra. } { rewrite two_r. rewrite Rabs_pos_eq; lra. }
  { rewrite P1, bpow2. exact A1. }
  rewrite P1, two_r in D1. rewrite P2 in D2.
  assert (A2 : Rabs (RN (RN (B2R v + 1) / 2)) <= 4).
  { rewrite <- bpow2. apply RN_bound; [lia|]. rewrite bpow2.
    unfold Rdiv. rewrite Rabs_mult. rewrite (Rabs_pos_eq (/2)) by lra. lra. }
  destruct (mult_ok (Bdiv mode_NE (Bplus mode_NE v one) two) maxi 2 17) as (M1 & M2); try lia.
  { rewrite D1, bpow2. exact A2. }
  { rewrite Rabs_pos_eq; lra. }
  rewrite D1 in M1. rewrite D2, maxi_f in M2.
  repeat split; auto.
Qed.

Lemma Bscaled_mono x y : is_finite x = true -> is_finite y = true ->
  -1 <= B2R x -> B2R x <= B2R y -> B2R y <= 1 -> B2R (Bscaled x) <= B2R (Bscaled y).
Proof.
  intros Fx Fy H1 H2 H3.
  destruct (Bscaled_spec x Fx) as (_ & Ex & _); [lra|].
  destruct (Bscaled_spec y Fy) as (_ & Ey & _); [lra|].
  rewrite Ex, Ey. apply RN_le. apply Rmult_le_compat_r; [lra|].
  apply RN_le. unfold Rdiv. apply Rmult_le_compat_r; [lra|]. apply RN_le. lra.
Qed.
End Scaled.

(* round half away from zero of a float, as the model computes it from mantissa/exponent *)
Definition round_away_sf (f : SpecFloat.spec_float) : Z :=
  match f with
  | SpecFloat.S754_finite s m e =>
      let mz := Z.pos m in
      let r := (if (0 <=? e)%Z then Z.shiftl mz e
                else let d := Z.shiftl 1 (-e) in (2*mz + d) / (2*d))%Z in
      if s then (-r)%Z else r
  | _ => 0%Z
  end.
Definition round_away_B (x : B) : Z := round_away_sf (B2SF x).

Lemma round_away_nonneg (x : B) : is_finite x = true -> 0 <= B2R x ->
  round_away_B x = Zfloor (B2R x + /2).
Proof.
  intros Fx Hx. destruct x as [s|s| |s m e Hb]; try discriminate.
  - change (round_away_B (B754_zero s)) with 0%Z. simpl B2R. symmetry. apply Zfloor_imp. simpl. lra.
  - unfold round_away_B, B2SF, round_away_sf.
    assert (s = false) as ->.
    { destruct s; [|reflexivity]. exfalso.
      simpl in Hx. unfold F2R in Hx. simpl in Hx.
      assert (0 < bpow radix2 e) by apply bpow_gt_0.
      assert (IZR (Z.neg m) < 0) by (apply IZR_lt; lia). nra. }
    simpl B2R. unfold F2R. simpl Fnum. simpl Fexp. cbn [cond_Zopp].
    destruct (Z.leb_spec 0 e) as [He|He].
    + rewrite Z.shiftl_mul_pow2 by lia.
      symmetry. apply Zfloor_imp.
      replace (bpow radix2 e) with (IZR (2 ^ e)) by (rewrite <- (IZR_Zpower radix2) by lia; reflexivity).
      rewrite <- mult_IZR. rewrite plus_IZR. simpl. lra.
    + rewrite !Z.shiftl_mul_pow2 by lia. rewrite Z.mul_1_l.
      set (d := (2 ^ (- e))%Z).
      assert (Hd : (0 < d)%Z) by (apply Z.pow_pos_nonneg; lia).
      replace (bpow radix2 e) with (/ IZR d).
      2:{ unfold d. change 2%Z with (radix_val radix2). rewrite (IZR_Zpower radix2) by lia. rewrite <- bpow_opp. f_equal. lia. }
      rewrite <- (Zfloor_div (2 * Z.pos m + d) (2 * d)) by lia.
      f_equal. rewrite plus_IZR, !mult_IZR. simpl (IZR 2).
      assert (IZR d <> 0) by (apply not_0_IZR; lia). field. auto.
Qed.

Lemma round_away_mono (x y : B) : is_finite x = true -> is_finite y = true ->
  0 <= B2R x -> B2R x <= B2R y -> (round_away_B x <= round_away_B y)%Z.
Proof.
  intros Fx Fy H0 H1. rewrite !round_away_nonneg by (auto; lra).
  apply Zfloor_le. lra.
Qed.

(* ---------- from Flocq's binary_float to the primitive floats of the model ---------- *)
From Syz Require Import Quant.
Local Open Scope R_scope.

Lemma prim_const f s m e : Prim2SF f = SpecFloat.S754_finite s m e ->
  B2R (Prim2B f) = F2R (Float radix2 (cond_Zopp s (Zpos m)) e) /\ is_finite (Prim2B f) = true.
Proof.
  intros H. split.
  - rewrite <- SF2R_B2SF, B2SF_Prim2B, H. reflexivity.
  - rewrite <- is_finite_SF_B2SF, B2SF_Prim2B, H. reflexivity.
Qed.

Lemma one_R : B2R (Prim2B 1%float) = 1 /\ is_finite (Prim2B 1%float) = true.
Proof.
  destruct (prim_const 1%float false 4503599627370496 (-52) eq_refl) as [H1 H2]. split; [|exact H2].
  rewrite H1. unfold F2R. simpl. lra.
Qed.

Lemma mone_R : B2R (Prim2B (-1)%float) = -1 /\ is_finite (Prim2B (-1)%float) = true.
Proof.
  destruct (prim_const (-1)%float true 4503599627370496 (-52) eq_refl) as [H1 H2]. split; [|exact H2].
  rewrite H1. unfold F2R. simpl. lra.
Qed.

Lemma two_R : B2R (Prim2B 2%float) = 2 /\ is_finite (Prim2B 2%float) = true.
Proof.
  destruct (prim_const 2%float false 4503599627370496 (-51) eq_refl) as [H1 H2]. split; [|exact H2].
  rewrite H1. unfold F2R. simpl. lra.
Qed.

(* a non-NaN float that is neither below -1 nor above 1 is finite and lies in [-1, 1] *)
Lemma in_range x : PrimFloat.is_nan x = false -> PrimFloat.ltb x (-1)%float = false -> PrimFloat.ltb 1%float x = false ->
  is_finite (Prim2B x) = true /\ -1 <= B2R (Prim2B x) <= 1.
Proof.
  intros Hn Hlo Hhi. rewrite is_nan_equiv in Hn. rewrite ltb_equiv in Hlo, Hhi.
  destruct mone_R as [Rm Fm]. destruct one_R as [Ro Fo].
  destruct (Prim2B x) as [sx|sx| |sx mx ex Bx] eqn:Ex.
  - split; [reflexivity|]. simpl. lra.
  - exfalso. destruct sx.
    + (* -inf < -1 *)
      unfold Bltb in Hlo. rewrite B2SF_Prim2B in Hlo. cbn in Hlo. discriminate.
    + unfold Bltb in Hhi. rewrite B2SF_Prim2B in Hhi. cbn in Hhi. discriminate.
  - discriminate.
  - split; [reflexivity|].
    rewrite Bltb_correct in Hlo by (try exact Fm; reflexivity).
    rewrite Bltb_correct in Hhi by (try exact Fo; reflexivity).
    rewrite Rm in Hlo. rewrite Ro in Hhi.
    match type of Hlo with Rlt_bool ?a ?b = false => destruct (Rlt_bool_spec a b) as [H1|H1]; [discriminate|] end.
    match type of Hhi with Rlt_bool ?a ?b = false => destruct (Rlt_bool_spec a b) as [H2|H2]; [discriminate|] end.
    lra.
Qed.

Lemma leb_R x y : is_finite (Prim2B x) = true -> is_finite (Prim2B y) = true -> PrimFloat.leb x y = true ->
  B2R (Prim2B x) <= B2R (Prim2B y).
Proof.
  intros Fx Fy H. rewrite leb_equiv, Bleb_correct in H by assumption.
  destruct (Rle_bool_spec (B2R (Prim2B x)) (B2R (Prim2B y))); [assumption|discriminate].
Qed.

Lemma Rle_bool_true_inv' a b : Rle_bool a b = true -> a <= b.
Proof. intros H. destruct (Rle_bool_spec a b); [assumption|discriminate]. Qed.

(* the scaled value as Flocq operations *)
Lemma scaled_B maxf x : PrimFloat.ltb x (-1)%float = false -> PrimFloat.ltb 1%float x = false ->
  Prim2B (scaled maxf x) = Bscaled (Prim2B 1%float) (Prim2B 2%float) (Prim2B maxf) (Prim2B x).
Proof.
  intros Hlo Hhi. unfold scaled, clamp, Bscaled. rewrite Hlo, Hhi.
  rewrite mul_equiv, div_equiv, add_equiv. reflexivity.
Qed.

Lemma round_away_prim q : round_away q = round_away_B (Prim2B q).
Proof. unfold round_away, round_away_B. now rewrite B2SF_Prim2B. Qed.

Lemma maxi_facts bits : bits = 4%Z \/ bits = 8%Z \/ bits = 16%Z ->
  is_finite (Prim2B (of_Z (max_int bits))) = true
  /\ 1 <= B2R (Prim2B (of_Z (max_int bits))) /\ B2R (Prim2B (of_Z (max_int bits))) <= bpow radix2 17.
Proof.
  intros [->|[->| ->]].
  - destruct (prim_const (of_Z (max_int 4)) false 8444249301319680 (-49) eq_refl) as [H1 H2].
    split; [exact H2|]. rewrite H1. unfold F2R. simpl. lra.
  - destruct (prim_const (of_Z (max_int 8)) false 8972014882652160 (-45) eq_refl) as [H1 H2].
    split; [exact H2|]. rewrite H1. unfold F2R. simpl. lra.
  - destruct (prim_const (of_Z (max_int 16)) false 9007061815787520 (-37) eq_refl) as [H1 H2].
    split; [exact H2|]. rewrite H1. unfold F2R. simpl. lra.
Qed.

(* non-negativity of the scaled value *)
Lemma RN_nonneg z : 0 <= z -> 0 <= RN z.
Proof. intros H. rewrite <- (round_0 radix2 (fexp prec emax) (round_mode mode_NE)). now apply RN_le. Qed.

Theorem quantize_mono_core bits x y : bits = 4%Z \/ bits = 8%Z \/ bits = 16%Z ->
  PrimFloat.is_nan x = false -> PrimFloat.is_nan y = false ->
  PrimFloat.ltb x (-1)%float = false -> PrimFloat.ltb 1%float x = false ->
  PrimFloat.ltb y (-1)%float = false -> PrimFloat.ltb 1%float y = false ->
  PrimFloat.leb x y = true ->
  (quantize bits x <= quantize bits y)%Z.
Proof.
  intros Hb Nx Ny Lx Hx Ly Hy Hle.
  destruct (in_range x Nx Lx Hx) as [Fx Rx]. destruct (in_range y Ny Ly Hy) as [Fy Ry].
  pose proof (leb_R x y Fx Fy Hle) as Hxy.
  destruct one_R as [Ro Fo]. destruct two_R as [Rt Ft].
  destruct (maxi_facts bits Hb) as (Fm & Ml & Mh).
  unfold quantize. rewrite !round_away_prim, !scaled_B by assumption.
  set (one := Prim2B 1%float) in *. set (two := Prim2B 2%float) in *.
  set (maxi := Prim2B (of_Z (max_int bits))) in *.
  destruct (Bscaled_spec one two maxi Ro Fo Rt Fm Ml Mh (Prim2B x) Fx Rx) as (Fsx & Esx & _).
  destruct (Bscaled_spec one two maxi Ro Fo Rt Fm Ml Mh (Prim2B y) Fy Ry) as (Fsy & Esy & _).
  apply round_away_mono; try assumption.
  - rewrite Esx. apply RN_nonneg. apply Rmult_le_pos; [|lra]. apply RN_nonneg.
    unfold Rdiv. apply Rmult_le_pos; [|lra]. apply RN_nonneg. lra.
  - apply (Bscaled_mono one two maxi Ro Fo Rt Fm Ml Mh); try assumption; lra.
Qed.
