(* ApproxProofs.v — whatever the forest looks like and in whatever order the node queue hands out
   nodes, the default-precision search returns a duplicate-free list, in non-decreasing distance
   order, of at most K (or only within-radius) accepted documents, each with the distance to its
   stored vector. *)
From Coq Require Import ZArith Floats List Bool Lia Sorting.Sorted Sorting.Permutation.
From Syz Require Import Quant Dist Search Lsh SearchProofs.
Import ListNotations.
Open Scope Z_scope.

Section Sound.
Variable cosine : bool.
Variable q : list float.
Variable K : nat.
Variable R : float.
Variable docs : list sdoc.

(* a hit that is a live, accepted document with its true distance *)
Definition good_hit (h : hit) : Prop :=
  exists d, find (fun x => sd_id x =? fst h) docs = Some d /\ sd_ok d = true
            /\ snd h = distance cosine q (sd_vec d).

Definition not_smaller (a b : hit) : Prop := PrimFloat.ltb (snd b) (snd a) = false.

Record sinv (s : sstate) : Prop := {
  si_good : Forall good_hit (st_res s);
  si_seen : forall h, In h (st_res s) -> In (fst h) (st_visited s);
  si_nodup : NoDup (map fst (st_res s));
  si_sorted : LocallySorted not_smaller (st_res s);
  si_k : PrimFloat.ltb 0 R = false -> (0 < K)%nat -> (length (st_res s) <= K)%nat;
  si_r : PrimFloat.ltb 0 R = true -> Forall (fun h => PrimFloat.leb (snd h) R = true) (st_res s) }.

(* "<" on binary64 is asymmetric *)
Hypothesis ltb_asym : forall x y, PrimFloat.ltb x y = true -> PrimFloat.ltb y x = false.

Lemma insert_in x l h : In h (insert_asc PrimFloat.ltb x l) <-> h = x \/ In h l.
Proof.
  split; intros H.
  - apply (Permutation_in _ (insert_perm _ PrimFloat.ltb x l)) in H. destruct H as [<-|H]; auto.
  - apply (Permutation_in _ (Permutation_sym (insert_perm _ PrimFloat.ltb x l))). destruct H as [->|H]; [now left|now right].
Qed.

Lemma insert_locally_sorted x l : LocallySorted not_smaller l -> LocallySorted not_smaller (insert_asc PrimFloat.ltb x l).
Proof.
  intros H. induction H as [|a|a b l Hs IH Hab]; cbn [insert_asc].
  - constructor.
  - destruct (PrimFloat.ltb (snd x) (snd a)) eqn:E.
    + constructor; [constructor|]. unfold not_smaller. now apply ltb_asym.
    + constructor; [constructor|]. exact E.
  - destruct (PrimFloat.ltb (snd x) (snd a)) eqn:E.
    + constructor; [constructor; assumption|]. unfold not_smaller. now apply ltb_asym.
    + cbn [insert_asc] in IH. destruct (PrimFloat.ltb (snd x) (snd b)) eqn:E2.
      * constructor; [exact IH|exact E].
      * constructor; [exact IH|exact Hab].
Qed.

Lemma firstn_locally_sorted n (l : list hit) : LocallySorted not_smaller l -> LocallySorted not_smaller (firstn n l).
Proof.
  revert l. induction n as [|n IH]; intros l H; [constructor|].
  destruct H as [|a|a b l Hs Hab]; cbn [firstn].
  - constructor.
  - destruct n; constructor.
  - specialize (IH (b :: l) Hs). destruct n as [|n']; [cbn [firstn]; constructor|].
    cbn [firstn] in *. constructor; [exact IH|exact Hab].
Qed.

Lemma firstn_in {A} n (l : list A) x : In x (firstn n l) -> In x l.
Proof. revert l. induction n as [|n IH]; intros [|y l] H; cbn [firstn] in H; try contradiction. destruct H as [->|H]; [now left|right; now apply IH]. Qed.

Lemma firstn_nodup_map n (l : list hit) : NoDup (map fst l) -> NoDup (map fst (firstn n l)).
Proof.
  revert l. induction n as [|n IH]; intros [|y l] H; cbn [firstn map]; try constructor.
  - cbn [map] in H. inversion H as [|? ? Hn H']; subst. intros Hi. apply Hn. apply in_map_iff in Hi.
    destruct Hi as (z & E & Hz). apply in_map_iff. exists z. split; [exact E|now apply firstn_in in Hz].
  - cbn [map] in H. inversion H; subst. now apply IH.
Qed.

(* the callback keeps the invariant when it is asked about an id it has not seen in a result yet *)
Lemma consider_inv s id : sinv s -> In id (st_visited s) -> ~ In id (map fst (st_res s)) ->
  sinv (snd (consider_approx cosine q K R docs s id)).
Proof.
  intros HI Hv Hfresh. pose proof HI as [Hg Hs Hn Hso Hk Hr]. unfold consider_approx.
  destruct (find (fun d => sd_id d =? id) docs) as [d|] eqn:Ef; [|cbn [snd]; try exact HI; constructor; cbn [st_res st_visited st_pts]; apply HI].
  destruct (sd_ok d) eqn:Eok; cbn [negb]; [|cbn [snd]; try exact HI; constructor; cbn [st_res st_visited st_pts]; apply HI].
  assert (Hnew : good_hit (id, distance cosine q (sd_vec d))).
  { exists d. cbn [fst snd]. repeat split; assumption. }
  cbn [st_res st_radius st_pts st_kc st_acc st_visited st_stop].
  destruct (PrimFloat.ltb 0 R) eqn:ER.
  - destruct (PrimFloat.leb (distance cosine q (sd_vec d)) R) eqn:El; cbn [snd]; [|cbn [snd]; try exact HI; constructor; cbn [st_res st_visited st_pts]; apply HI].
    constructor; cbn [st_res st_visited].
    + apply Forall_forall. intros h Hh. apply insert_in in Hh. destruct Hh as [->|Hh]; [exact Hnew|].
      rewrite Forall_forall in Hg. now apply Hg.
    + intros h Hh. apply insert_in in Hh. destruct Hh as [->|Hh]; [exact Hv|now apply Hs].
    + apply (Permutation_NoDup (Permutation_sym (Permutation_map fst (insert_perm _ PrimFloat.ltb _ _)))).
      cbn [map fst]. constructor; assumption.
    + now apply insert_locally_sorted.
    + intros H; congruence.
    + intros _. apply Forall_forall. intros h Hh. apply insert_in in Hh. destruct Hh as [->|Hh]; [exact El|].
      specialize (Hr eq_refl). rewrite Forall_forall in Hr. now apply Hr.
  - destruct (Nat.ltb 0 K) eqn:EK; [|cbn [snd]; try exact HI; constructor; cbn [st_res st_visited st_pts]; apply HI].
    set (l := st_res s) in *.
    destruct (Nat.ltb (length l) K || match rev l with worst :: _ => PrimFloat.ltb (distance cosine q (sd_vec d)) (snd worst) | [] => true end) eqn:Eb;
      cbn [snd]; [|cbn [snd]; try exact HI; constructor; cbn [st_res st_visited st_pts]; apply HI].
    set (l1 := insert_asc PrimFloat.ltb (id, distance cosine q (sd_vec d)) l).
    assert (G1 : Forall good_hit l1).
    { apply Forall_forall. intros h Hh. apply insert_in in Hh. destruct Hh as [->|Hh]; [exact Hnew|]. rewrite Forall_forall in Hg. now apply Hg. }
    assert (S1 : forall h, In h l1 -> In (fst h) (st_visited s)).
    { intros h Hh. apply insert_in in Hh. destruct Hh as [->|Hh]; [exact Hv|now apply Hs]. }
    assert (N1 : NoDup (map fst l1)).
    { apply (Permutation_NoDup (Permutation_sym (Permutation_map fst (insert_perm _ PrimFloat.ltb _ _)))). cbn [map fst]. constructor; assumption. }
    assert (O1 : LocallySorted not_smaller l1) by now apply insert_locally_sorted.
    destruct (Nat.ltb K (length l1)) eqn:EL.
    + constructor; cbn [st_res st_visited].
      * apply Forall_forall. intros h Hh. apply firstn_in in Hh. rewrite Forall_forall in G1. now apply G1.
      * intros h Hh. apply firstn_in in Hh. now apply S1.
      * now apply firstn_nodup_map.
      * now apply firstn_locally_sorted.
      * intros _ _. rewrite firstn_length. lia.
      * intros H; congruence.
    + constructor; cbn [st_res st_visited]; try assumption.
      * intros _ _. apply Nat.ltb_ge in EL. exact EL.
      * intros H; congruence.
Qed.

Lemma consider_visited s id : st_visited (snd (consider_approx cosine q K R docs s id)) = st_visited s.
Proof.
  unfold consider_approx. destruct (find _ docs) as [d|]; [|reflexivity].
  destruct (negb (sd_ok d)); [reflexivity|].
  destruct (PrimFloat.ltb 0 R).
  - destruct (PrimFloat.leb _ R); reflexivity.
  - destruct (Nat.ltb 0 K); [|reflexivity]. destruct (_ || _); reflexivity.
Qed.

Lemma visit_inv : forall ids s, sinv s -> sinv (visit_ids cosine q K R docs ids s).
Proof.
  induction ids as [|id r IH]; intros s H; cbn [visit_ids]; [exact H|].
  destruct (st_stop s); [exact H|].
  destruct (existsb (fun x => x =? id) (st_visited s)) eqn:Ev; [now apply IH|].
  set (s0 := {| st_res := st_res s; st_radius := st_radius s; st_pts := st_pts s; st_kc := st_kc s;
                st_acc := st_acc s; st_visited := id :: st_visited s; st_stop := false |}).
  assert (H0 : sinv s0).
  { destruct H as [Hg Hs Hn Hso Hk Hr]. constructor; cbn [st_res st_visited]; try assumption.
    intros h Hh. right. now apply Hs. }
  assert (Hfresh : ~ In id (map fst (st_res s0))).
  { cbn [st_res]. intros Hi. apply in_map_iff in Hi. destruct Hi as (h & E & Hh).
    apply (si_seen s H) in Hh. rewrite E in Hh.
    assert (existsb (fun x => x =? id) (st_visited s) = true) by (apply existsb_exists; exists id; split; [exact Hh|apply Z.eqb_refl]).
    congruence. }
  pose proof (consider_inv s0 id H0 (or_introl eq_refl) Hfresh) as H1.
  destruct (consider_approx cosine q K R docs s0 id) as [sig s1]. cbn [snd] in H1.
  assert (Hupd : forall kc acc stop, sinv {| st_res := st_res s1; st_radius := st_radius s1; st_pts := st_pts s1; st_kc := kc;
                                             st_acc := acc; st_visited := st_visited s1; st_stop := stop |}).
  { intros kc acc stop. destruct H1 as [Hg Hs Hn Hso Hk Hr]. constructor; cbn [st_res st_visited]; assumption. }
  destruct sig; [apply Hupd|apply IH, Hupd|apply IH, Hupd|now apply IH].
Qed.

Lemma loop_inv : forall fuel qlen nq s, sinv s -> sinv (search_loop fuel cosine q qlen K R docs nq s).
Proof.
  induction fuel as [|f IH]; intros qlen nq s H; cbn [search_loop]; [exact H|].
  destruct (hpop fst (0%float, Nil) nq) as [[[pr node] nq']|]; [|exact H].
  destruct (PrimFloat.ltb pr 0 && PrimFloat.ltb (st_radius s) (- pr)%float && match node with Leaf _ => true | _ => false end); [now apply IH|].
  destruct (search_k <=? st_kc s); [exact H|].
  destruct node as [ids|n b l r|]; [| |exact H].
  - pose proof (visit_inv ids s H) as Hv. destruct (st_stop (visit_ids cosine q K R docs ids s)); [exact Hv|now apply IH].
  - destruct (dist_to_hyperplane cosine q qlen n b) as [d right]. destruct right; now apply IH.
Qed.

(* soundness of the default-precision search, for every forest (even one that does not satisfy the
   index invariant) and every behaviour of the node queue *)
Theorem approx_sound forest :
  let res := fst (fst (search_approx cosine q K R docs forest)) in
  Forall good_hit res /\ NoDup (map fst res) /\ LocallySorted not_smaller res
  /\ (PrimFloat.ltb 0 R = false -> (0 < K)%nat -> (length res <= K)%nat)
  /\ (PrimFloat.ltb 0 R = true -> Forall (fun h => PrimFloat.leb (snd h) R = true) res).
Proof.
  cbn zeta. unfold search_approx.
  match goal with |- context [search_loop ?f cosine q ?ql K R docs ?nq ?s0] =>
    assert (H : sinv (search_loop f cosine q ql K R docs nq s0)) end.
  { apply loop_inv. constructor; cbn [st_res st_visited].
    - constructor.
    - intros h [].
    - constructor.
    - constructor.
    - intros _ _. cbn [length]. lia.
    - intros _. constructor. }
  cbn [fst]. destruct H as [Hg Hs Hn Hso Hk Hr]. repeat split; assumption.
Qed.
End Sound.
