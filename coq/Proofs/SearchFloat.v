(* SearchFloat.v — the result-heap theorems instantiated at the type the code uses: binary64 distances compared with
   PrimFloat.ltb.  For non-negative, non-NaN distances the order is that of the bit patterns (FloatBits.ltb_bits), so
   the exact K-nearest search of the model returns the K smallest candidates, and the Euclidean distance of finite
   vectors always is such a distance. *)
From Coq Require Import ZArith Floats List Lia Bool Sorting.Sorted Sorting.Permutation.
From Syz Require Import Quant Dist Search SearchProofs FloatBits DistProofs.
Import ListNotations.
Open Scope Z_scope.

(* ---------- knn commutes with a map that preserves the comparison ---------- *)
Section Map.
Variables (A B : Type) (f : A -> B) (ltA : A -> A -> bool) (ltB : B -> B -> bool).
Hypothesis lt_f : forall x y, ltA x y = ltB (f x) (f y).
Definition fm (c : Z * A) : Z * B := (fst c, f (snd c)).

Lemma insert_map x l : map fm (insert_asc ltA x l) = insert_asc ltB (fm x) (map fm l).
Proof.
  induction l as [|y r IH]; [reflexivity|]. cbn [insert_asc map]. cbn [fm snd]. rewrite <- lt_f.
  destruct (ltA (snd x) (snd y)); [reflexivity|]. cbn [map]. rewrite IH. reflexivity.
Qed.

Lemma consider_map K l x : map fm (consider_k ltA K l x) = consider_k ltB K (map fm l) (fm x).
Proof.
  unfold consider_k. rewrite map_length. destruct (Nat.ltb (length l) K); [apply insert_map|].
  rewrite <- map_rev. destruct (rev l) as [|w rl]; [reflexivity|]. cbn [map]. cbn [fm snd]. rewrite <- lt_f.
  destruct (ltA (snd x) (snd w)); [|reflexivity]. rewrite <- firstn_map, insert_map. reflexivity.
Qed.

Lemma knn_map K cands : map fm (knn ltA K cands) = knn ltB K (map fm cands).
Proof.
  unfold knn. change (@nil (Z * B)) with (map fm []). generalize (@nil (Z * A)).
  induction cands as [|x r IH]; intros l; [reflexivity|]. cbn [fold_left map]. rewrite IH, consider_map. reflexivity.
Qed.
End Map.

(* ---------- non-negative, non-NaN binary64 values as a type of their own ---------- *)
Definition nnf : Type := { x : float | nonneg x }.
Definition lt_nn (a b : nnf) : bool := PrimFloat.ltb (proj1_sig a) (proj1_sig b).
Definition key_nn (a : nnf) : Z := bits64 (proj1_sig a).

Lemma lt_key_nn a b : lt_nn a b = (key_nn a <? key_nn b).
Proof. destruct a as [x Hx], b as [y Hy]. exact (ltb_bits x y Hx Hy). Qed.

Lemma lift_list (cands : list hit) : Forall (fun h => nonneg (snd h)) cands ->
  exists l : list (Z * nnf), map (fm nnf float (@proj1_sig _ _)) l = cands.
Proof.
  induction 1 as [|[i x] r Hx _ [l IH]]; [exists []; reflexivity|].
  exists ((i, exist _ x Hx) :: l). cbn [map]. rewrite IH. reflexivity.
Qed.

Definition le_bits (a b : hit) : Prop := bits64 (snd a) <= bits64 (snd b).

(* the K-nearest answer of the model on real distances: the K smallest candidates, ascending; ties open *)
Theorem knn_floats K (cands : list hit) : Forall (fun h => nonneg (snd h)) cands ->
  let res := knn PrimFloat.ltb K cands in
  exists rest,
    Permutation cands (res ++ rest) /\ StronglySorted le_bits res
    /\ length res = Nat.min K (length cands)
    /\ forall y r, In y res -> In r rest -> le_bits y r.
Proof.
  intros Hnn. destruct (lift_list cands Hnn) as [l El]. cbn zeta.
  set (g := fm nnf float (@proj1_sig _ _)) in *.
  assert (Hk : knn PrimFloat.ltb K cands = map g (knn lt_nn K l)).
  { rewrite <- El. symmetry. apply knn_map. intros x y. reflexivity. }
  destruct (knn_spec nnf lt_nn key_nn lt_key_nn K l) as (rest & Hp & Hs & Hl & Hb).
  exists (map g rest). rewrite Hk. repeat split.
  - rewrite <- El, <- map_app. apply Permutation_map. exact Hp.
  - clear -Hs. induction Hs as [|a r Hr IH Ha]; cbn [map]; constructor; [exact IH|].
    rewrite Forall_forall in *. intros b Hb. apply in_map_iff in Hb. destruct Hb as (b' & <- & Hb'). exact (Ha b' Hb').
  - rewrite map_length, Hl, <- El, map_length. reflexivity.
  - intros y r Hy Hr. apply in_map_iff in Hy. apply in_map_iff in Hr.
    destruct Hy as (y' & <- & Hy'). destruct Hr as (r' & <- & Hr'). exact (Hb y' r' Hy' Hr').
Qed.

(* ... and so is the exact Euclidean K-nearest search of the model, for every query and every set of documents with
   finite components *)
Theorem search_knn_euclid q K docs :
  Forall finite_f q -> Forall (fun d => Forall finite_f (sd_vec d)) docs ->
  let cands := candidates false q docs in
  let res := search_knn false q K docs in
  exists rest,
    Permutation cands (res ++ rest) /\ StronglySorted le_bits res
    /\ length res = Nat.min K (length cands)
    /\ forall y r, In y res -> In r rest -> le_bits y r.
Proof.
  intros Hq Hd. cbn zeta. unfold search_knn. apply knn_floats.
  unfold candidates. rewrite Forall_forall. intros h Hh. apply in_map_iff in Hh. destruct Hh as (d & <- & Hin).
  apply filter_In in Hin. destruct Hin as [Hin _]. cbn [snd]. unfold distance.
  rewrite Forall_forall in Hd. exact (euclid_total q (sd_vec d) Hq (Hd d Hin)).
Qed.
