(* ConcLin.v — linearizability of calls that run under one readers-writer lock (C10, the data half).
   Threads execute calls.  A call takes the collection lock (exclusively if it is a mutator), runs its body one
   micro-step at a time — reads of the shared state into thread-local state, and (mutators only) writes of the shared
   state — and releases the lock.  For EVERY interleaving: the shared state and every thread's result are those of
   running the calls one after the other, each atomically, in the order in which they acquired the lock; that order
   respects real time (a call that returned before another was invoked acquired the lock earlier). *)
From Coq Require Import List Arith Lia Bool.
Import ListNotations.

Section Lin.
Variables S L : Type.

Inductive micro := MRd (k : S -> L -> L) | MWr (f : L -> S -> S).
Definition is_read (m : micro) : Prop := match m with MRd _ => True | MWr _ => False end.

Record call := { wr : bool; body : list micro; l0 : L }.
(* a call that takes the lock shared only reads *)
Definition call_ok (c : call) : Prop := wr c = false -> Forall is_read (body c).

Inductive phase := Idle | Run (done_rev rest : list micro) | Done.
Record th := { cl : call; ph : phase; loc : L }.

Definition is_in (t : th) : Prop := match ph t with Run _ _ => True | _ => False end.

Record st := { sh : S; thr : nat -> th; ord : list nat }.

Definition upd (f : nat -> th) (i : nat) (t : th) : nat -> th := fun j => if Nat.eqb j i then t else f j.

Definition exec1 (m : micro) (x : S * L) : S * L :=
  match m with
  | MRd k => (fst x, k (fst x) (snd x))
  | MWr f => (f (snd x) (fst x), snd x)
  end.
Definition exec (ms : list micro) (x : S * L) : S * L := fold_left (fun a m => exec1 m a) ms x.

(* one step of thread i *)
Inductive step (i : nat) : st -> st -> Prop :=
| s_acq_w s : ph (thr s i) = Idle -> wr (cl (thr s i)) = true -> (forall j, ~ is_in (thr s j)) ->
    step i s {| sh := sh s; thr := upd (thr s) i {| cl := cl (thr s i); ph := Run [] (body (cl (thr s i))); loc := loc (thr s i) |};
                ord := ord s ++ [i] |}
| s_acq_r s : ph (thr s i) = Idle -> wr (cl (thr s i)) = false -> (forall j, is_in (thr s j) -> wr (cl (thr s j)) = false) ->
    step i s {| sh := sh s; thr := upd (thr s) i {| cl := cl (thr s i); ph := Run [] (body (cl (thr s i))); loc := loc (thr s i) |};
                ord := ord s ++ [i] |}
| s_micro s d m r : ph (thr s i) = Run d (m :: r) ->
    step i s {| sh := fst (exec1 m (sh s, loc (thr s i)));
                thr := upd (thr s) i {| cl := cl (thr s i); ph := Run (m :: d) r; loc := snd (exec1 m (sh s, loc (thr s i))) |};
                ord := ord s |}
| s_rel s d : ph (thr s i) = Run d [] ->
    step i s {| sh := sh s; thr := upd (thr s) i {| cl := cl (thr s i); ph := Done; loc := loc (thr s i) |}; ord := ord s |}.

Inductive reach (s0 : st) : st -> Prop :=
| r_refl : reach s0 s0
| r_step s s' i : reach s0 s -> step i s s' -> reach s0 s'.

(* ---------- the serial reference: the calls of `order`, each run atomically, one after the other ---------- *)
Fixpoint serial_sh (calls : nat -> call) (order : list nat) (x : S) : S :=
  match order with
  | [] => x
  | i :: r => serial_sh calls r (fst (exec (body (calls i)) (x, l0 (calls i))))
  end.

(* the result of call i in that serial run: the first occurrence of i in the order *)
Fixpoint serial_res (calls : nat -> call) (order : list nat) (x : S) (i : nat) : option L :=
  match order with
  | [] => None
  | j :: r => let y := exec (body (calls j)) (x, l0 (calls j)) in
              if Nat.eqb j i then Some (snd y) else serial_res calls r (fst y) i
  end.

(* ---------- what has been executed so far, replayed in acquisition order ---------- *)
Definition executed (t : th) : list micro :=
  match ph t with Idle => [] | Run d _ => rev d | Done => body (cl t) end.

Fixpoint sig (thr : nat -> th) (order : list nat) (x : S) : S :=
  match order with
  | [] => x
  | i :: r => sig thr r (fst (exec (executed (thr i)) (x, l0 (cl (thr i)))))
  end.

Lemma exec_app a b x : exec (a ++ b) x = exec b (exec a x).
Proof. unfold exec. apply fold_left_app. Qed.

Lemma exec_reads ms x : Forall is_read ms -> fst (exec ms x) = fst x.
Proof.
  revert x. induction ms as [|m ms IH]; intros x H; [reflexivity|]. inversion H; subst. cbn [exec fold_left].
  change (fold_left (fun a m0 => exec1 m0 a) ms (exec1 m x)) with (exec ms (exec1 m x)).
  rewrite IH by assumption. destruct m; [reflexivity|contradiction].
Qed.

Lemma sig_app thr a b x : sig thr (a ++ b) x = sig thr b (sig thr a x).
Proof. revert x. induction a as [|i a IH]; intros x; [reflexivity|]. cbn [app sig]. apply IH. Qed.

Lemma sig_ext thr thr' order x : (forall i, In i order -> thr i = thr' i) -> sig thr order x = sig thr' order x.
Proof.
  revert x. induction order as [|i r IH]; intros x H; [reflexivity|]. cbn [sig].
  rewrite (H i (or_introl eq_refl)). apply IH. intros j Hj. apply H. right. exact Hj.
Qed.

Lemma upd_same f i t : upd f i t i = t.
Proof. unfold upd. rewrite Nat.eqb_refl. reflexivity. Qed.
Lemma upd_other f i t j : j <> i -> upd f i t j = f j.
Proof. intros H. unfold upd. apply Nat.eqb_neq in H. rewrite H. reflexivity. Qed.

Lemma sig_upd_notin thr i t order x : ~ In i order -> sig (upd thr i t) order x = sig thr order x.
Proof. intros H. apply sig_ext. intros j Hj. apply upd_other. intros ->. contradiction. Qed.

Lemma sig_readers thr order x :
  (forall j, In j order -> Forall is_read (executed (thr j))) -> sig thr order x = x.
Proof.
  revert x. induction order as [|i r IH]; intros x H; [reflexivity|]. cbn [sig].
  rewrite exec_reads by (apply H; left; reflexivity). cbn [fst]. apply IH. intros j Hj. apply H. right. exact Hj.
Qed.

Lemma sig_upd_same_effect thr i t' order x :
  (forall y, fst (exec (executed t') (y, l0 (cl t'))) = fst (exec (executed (thr i)) (y, l0 (cl (thr i))))) ->
  sig (upd thr i t') order x = sig thr order x.
Proof.
  intros H. revert x. induction order as [|j r IH]; intros x; [reflexivity|]. cbn [sig].
  destruct (Nat.eq_dec j i) as [->|Hn].
  - rewrite upd_same, H. apply IH.
  - rewrite (upd_other _ _ _ _ Hn). apply IH.
Qed.

Lemma split_last (i : nat) l pre post : ~ In i l -> l ++ [i] = pre ++ i :: post -> pre = l /\ post = [].
Proof.
  revert pre. induction l as [|a l IH]; intros pre Hn E.
  - destruct pre as [|b pre]; cbn in E.
    + inversion E. split; reflexivity.
    + inversion E; subst. destruct pre; discriminate.
  - destruct pre as [|b pre]; cbn in E.
    + inversion E; subst. exfalso. apply Hn. left. reflexivity.
    + inversion E; subst. destruct (IH pre) as [-> ->]; [intros H; apply Hn; right; exact H|assumption|]. split; reflexivity.
Qed.

Lemma split_mid (i k : nat) l pre post : k <> i -> l ++ [i] = pre ++ k :: post ->
  exists post', post = post' ++ [i] /\ l = pre ++ k :: post'.
Proof.
  revert pre. induction l as [|a l IH]; intros pre Hn E.
  - destruct pre as [|b pre]; cbn in E; inversion E; subst; [contradiction|destruct pre; discriminate].
  - destruct pre as [|b pre]; cbn in E; inversion E; subst.
    + exists l. split; reflexivity.
    + destruct (IH pre Hn H1) as (post' & -> & ->). exists post'. split; reflexivity.
Qed.

Lemma nodup_snoc (i : nat) l : NoDup l -> ~ In i l -> NoDup (l ++ [i]).
Proof.
  intros Hd Hn. induction Hd as [|a l Ha Hd IH]; cbn [app]; [constructor; [intros []|constructor]|].
  constructor.
  - intros H. apply in_app_or in H. destruct H as [H|[H|[]]]; [contradiction|subst; apply Hn; left; reflexivity].
  - apply IH. intros H. apply Hn. right. exact H.
Qed.

Lemma nodup_mid_unique (k : nat) pre post pre' post' :
  NoDup (pre ++ k :: post) -> pre ++ k :: post = pre' ++ k :: post' -> pre = pre' /\ post = post'.
Proof.
  revert pre'. induction pre as [|a pre IH]; intros pre' Hd E.
  - destruct pre' as [|b pre']; cbn in E; inversion E; subst; [split; reflexivity|].
    exfalso. cbn in Hd. inversion Hd; subst. apply H1. apply in_or_app. right. left. reflexivity.
  - destruct pre' as [|b pre']; cbn in E; inversion E; subst.
    + exfalso. cbn in Hd. inversion Hd; subst. apply H1. apply in_or_app. right. left. reflexivity.
    + cbn in Hd. inversion Hd; subst. destruct (IH pre' H3 H1) as [-> ->]. split; reflexivity.
Qed.

(* ---------- the invariant ---------- *)
Variable s0 : st.
Hypothesis init_idle : forall i, ph (thr s0 i) = Idle /\ loc (thr s0 i) = l0 (cl (thr s0 i)).
Hypothesis init_ord : ord s0 = [].
Hypothesis calls_ok : forall i, call_ok (cl (thr s0 i)).

Record Inv (s : st) : Prop := {
  i_calls : forall i, cl (thr s i) = cl (thr s0 i);
  i_nodup : NoDup (ord s);
  i_mem : forall i, In i (ord s) <-> ph (thr s i) <> Idle;
  i_idle : forall i, ph (thr s i) = Idle -> loc (thr s i) = l0 (cl (thr s i));
  i_pref : forall i d r, ph (thr s i) = Run d r -> body (cl (thr s i)) = rev d ++ r;
  i_excl : forall i, is_in (thr s i) -> wr (cl (thr s i)) = true ->
           (forall j, j <> i -> ~ is_in (thr s j)) /\ exists pre, ord s = pre ++ [i];
  i_tail : forall pre i post, ord s = pre ++ i :: post -> is_in (thr s i) ->
           forall j, In j post -> wr (cl (thr s j)) = false;
  i_sh : sh s = sig (thr s) (ord s) (sh s0);
  i_loc : forall pre i post, ord s = pre ++ i :: post ->
          loc (thr s i) = snd (exec (executed (thr s i)) (sig (thr s) pre (sh s0), l0 (cl (thr s i))))
}.

Lemma inv_init : Inv s0.
Proof.
  constructor; rewrite ?init_ord.
  - reflexivity.
  - constructor.
  - intros i. split; [intros []|]. intros H. exfalso. apply H. apply init_idle.
  - intros i _. apply init_idle.
  - intros i d r H. destruct (init_idle i) as [E _]. rewrite E in H. discriminate.
  - intros i H. unfold is_in in H. destruct (init_idle i) as [E _]. rewrite E in H. contradiction.
  - intros pre i post H. destruct pre; discriminate.
  - reflexivity.
  - intros pre i post H. destruct pre; discriminate.
Qed.

Definition acquired (s : st) (i : nat) : st :=
  {| sh := sh s; thr := upd (thr s) i {| cl := cl (thr s i); ph := Run [] (body (cl (thr s i))); loc := loc (thr s i) |};
     ord := ord s ++ [i] |}.

Lemma is_in_upd_other f i t j : j <> i -> is_in (upd f i t j) <-> is_in (f j).
Proof. intros H. rewrite (upd_other _ _ _ _ H). reflexivity. Qed.

Lemma inv_acquire s i : Inv s -> ph (thr s i) = Idle ->
  (wr (cl (thr s i)) = true -> forall j, ~ is_in (thr s j)) ->
  (wr (cl (thr s i)) = false -> forall j, is_in (thr s j) -> wr (cl (thr s j)) = false) ->
  Inv (acquired s i).
Proof.
  intros [Hc Hd Hm Hi Hp He Ht Hs Hl] Hph Hw Hr.
  assert (Hni : ~ In i (ord s)) by (intros H; apply Hm in H; contradiction).
  set (t' := {| cl := cl (thr s i); ph := Run [] (body (cl (thr s i))); loc := loc (thr s i) |}).
  assert (Hex : executed t' = []) by reflexivity.
  constructor; unfold acquired; cbn [sh thr ord]; fold t'.
  - intros j. destruct (Nat.eq_dec j i) as [->|Hn]; [rewrite upd_same; apply Hc|rewrite (upd_other _ _ _ _ Hn); apply Hc].
  - apply nodup_snoc; assumption.
  - intros j. destruct (Nat.eq_dec j i) as [->|Hn].
    + rewrite upd_same. split; [intros _; discriminate|intros _; apply in_or_app; right; left; reflexivity].
    + rewrite (upd_other _ _ _ _ Hn). rewrite <- Hm. split; intros H.
      * apply in_app_or in H. destruct H as [H|[H|[]]]; [exact H|subst; contradiction].
      * apply in_or_app. left. exact H.
  - intros j. destruct (Nat.eq_dec j i) as [->|Hn]; [rewrite upd_same; discriminate|rewrite (upd_other _ _ _ _ Hn); apply Hi].
  - intros j d r. destruct (Nat.eq_dec j i) as [->|Hn].
    + rewrite upd_same. cbn [ph cl t']. intros E. inversion E; subst. reflexivity.
    + rewrite (upd_other _ _ _ _ Hn). apply Hp.
  - intros j Hin Hwj. destruct (Nat.eq_dec j i) as [->|Hn].
    + rewrite upd_same in Hwj. cbn [cl t'] in Hwj. split; [|exists (ord s); reflexivity].
      intros k Hk. rewrite (is_in_upd_other _ _ _ _ Hk). apply Hw. exact Hwj.
    + rewrite (upd_other _ _ _ _ Hn) in Hwj. rewrite (is_in_upd_other _ _ _ _ Hn) in Hin.
      destruct (wr (cl (thr s i))) eqn:Ewi.
      * exfalso. exact (Hw eq_refl j Hin).
      * rewrite (Hr eq_refl j Hin) in Hwj. discriminate.
  - intros pre k post E Hin j Hj.
    destruct (Nat.eq_dec k i) as [->|Hn].
    + destruct (split_last i (ord s) pre post Hni E) as [_ ->]. destruct Hj.
    + destruct (split_mid i k (ord s) pre post Hn E) as (post' & -> & Eo).
      rewrite (is_in_upd_other _ _ _ _ Hn) in Hin.
      apply in_app_or in Hj. destruct Hj as [Hj|[<-|[]]].
      * assert (Hji : j <> i) by (intros ->; apply Hni; rewrite Eo; apply in_or_app; right; right; exact Hj).
        rewrite (upd_other _ _ _ _ Hji). exact (Ht pre k post' Eo Hin j Hj).
      * rewrite upd_same. cbn [cl t'].
        destruct (wr (cl (thr s i))) eqn:Ewi; [|reflexivity]. exfalso. exact (Hw eq_refl k Hin).
  - rewrite sig_app. cbn [sig]. rewrite upd_same, Hex. cbn [exec fold_left fst].
    rewrite (sig_upd_notin _ _ _ _ _ Hni). exact Hs.
  - intros pre k post E.
    destruct (Nat.eq_dec k i) as [->|Hn].
    + destruct (split_last i (ord s) pre post Hni E) as [-> _]. rewrite upd_same, Hex. cbn [exec fold_left snd loc cl t'].
      apply Hi. exact Hph.
    + destruct (split_mid i k (ord s) pre post Hn E) as (post' & -> & Eo).
      rewrite (upd_other _ _ _ _ Hn).
      assert (Hnp : ~ In i pre) by (intros H; apply Hni; rewrite Eo; apply in_or_app; left; exact H).
      rewrite (sig_upd_notin _ _ _ _ _ Hnp). exact (Hl pre k post' Eo).
Qed.

Lemma reader_reads s j : Inv s -> wr (cl (thr s j)) = false -> Forall is_read (executed (thr s j)).
Proof.
  intros H Hw. pose proof (calls_ok j) as Hok. rewrite <- (i_calls s H j) in Hok. specialize (Hok Hw).
  unfold executed. destruct (ph (thr s j)) as [|d r|] eqn:E; [constructor| |exact Hok].
  rewrite (i_pref s H j d r E) in Hok. apply Forall_app in Hok. apply Hok.
Qed.

Lemma inv_release s i d : Inv s -> ph (thr s i) = Run d [] ->
  Inv {| sh := sh s; thr := upd (thr s) i {| cl := cl (thr s i); ph := Done; loc := loc (thr s i) |}; ord := ord s |}.
Proof.
  intros HI Hph. pose proof HI as [Hc Hd Hm Hi Hp He Ht Hs Hl].
  set (t' := {| cl := cl (thr s i); ph := Done; loc := loc (thr s i) |}).
  assert (Hex : executed t' = executed (thr s i)).
  { unfold executed. cbn [ph cl t']. rewrite Hph. rewrite (Hp i d [] Hph). apply app_nil_r. }
  assert (Hsig : forall order x, sig (upd (thr s) i t') order x = sig (thr s) order x).
  { intros order x. apply sig_upd_same_effect. intros y. rewrite Hex. reflexivity. }
  assert (Hnin : ~ is_in t') by (unfold is_in; cbn; tauto).
  constructor; cbn [sh thr ord]; fold t'.
  - intros j. destruct (Nat.eq_dec j i) as [->|Hn]; [rewrite upd_same; apply Hc|rewrite (upd_other _ _ _ _ Hn); apply Hc].
  - exact Hd.
  - intros j. destruct (Nat.eq_dec j i) as [->|Hn].
    + rewrite upd_same. split; [intros _; discriminate|intros _; apply Hm; rewrite Hph; discriminate].
    + rewrite (upd_other _ _ _ _ Hn). apply Hm.
  - intros j. destruct (Nat.eq_dec j i) as [->|Hn]; [rewrite upd_same; discriminate|rewrite (upd_other _ _ _ _ Hn); apply Hi].
  - intros j d' r. destruct (Nat.eq_dec j i) as [->|Hn]; [rewrite upd_same; discriminate|rewrite (upd_other _ _ _ _ Hn); apply Hp].
  - intros j Hin Hwj. destruct (Nat.eq_dec j i) as [->|Hn]; [rewrite upd_same in Hin; contradiction|].
    rewrite (upd_other _ _ _ _ Hn) in Hwj. rewrite (is_in_upd_other _ _ _ _ Hn) in Hin.
    destruct (He j Hin Hwj) as [H1 H2]. split; [|exact H2].
    intros k Hk. destruct (Nat.eq_dec k i) as [->|Hki]; [rewrite upd_same; exact Hnin|].
    rewrite (is_in_upd_other _ _ _ _ Hki). apply H1. exact Hk.
  - intros pre k post E Hin j Hj. destruct (Nat.eq_dec k i) as [->|Hn]; [rewrite upd_same in Hin; contradiction|].
    rewrite (is_in_upd_other _ _ _ _ Hn) in Hin.
    destruct (Nat.eq_dec j i) as [->|Hji]; [rewrite upd_same; cbn [cl t']|rewrite (upd_other _ _ _ _ Hji)]; exact (Ht pre k post E Hin _ Hj).
  - rewrite Hsig. exact Hs.
  - intros pre k post E. rewrite Hsig. destruct (Nat.eq_dec k i) as [->|Hn].
    + rewrite upd_same, Hex. cbn [loc cl t']. exact (Hl pre i post E).
    + rewrite (upd_other _ _ _ _ Hn). exact (Hl pre k post E).
Qed.

Lemma exec_snoc ms m x : exec (ms ++ [m]) x = exec1 m (exec ms x).
Proof. rewrite exec_app. reflexivity. Qed.

Lemma inv_micro s i d m r : Inv s -> ph (thr s i) = Run d (m :: r) ->
  Inv {| sh := fst (exec1 m (sh s, loc (thr s i)));
         thr := upd (thr s) i {| cl := cl (thr s i); ph := Run (m :: d) r; loc := snd (exec1 m (sh s, loc (thr s i))) |};
         ord := ord s |}.
Proof.
  intros HI Hph. pose proof HI as [Hc Hd Hm Hi Hp He Ht Hs Hl].
  set (t' := {| cl := cl (thr s i); ph := Run (m :: d) r; loc := snd (exec1 m (sh s, loc (thr s i))) |}).
  assert (Hin_i : is_in (thr s i)) by (unfold is_in; rewrite Hph; exact I).
  assert (Hio : In i (ord s)) by (apply Hm; rewrite Hph; discriminate).
  destruct (in_split _ _ Hio) as (pre0 & post0 & Eo).
  assert (Hd' : NoDup (pre0 ++ i :: post0)) by (rewrite <- Eo; exact Hd).
  assert (Hex_old : executed (thr s i) = rev d) by (unfold executed; rewrite Hph; reflexivity).
  assert (Hex : executed t' = executed (thr s i) ++ [m]) by (rewrite Hex_old; reflexivity).
  assert (Hbody : body (cl (thr s i)) = rev d ++ m :: r) by (apply Hp; exact Hph).
  (* the pair reached by thread i so far *)
  assert (Hpair : exec (executed (thr s i)) (sig (thr s) pre0 (sh s0), l0 (cl (thr s i))) = (fst (exec (executed (thr s i)) (sig (thr s) pre0 (sh s0), l0 (cl (thr s i)))), loc (thr s i))).
  { rewrite (Hl pre0 i post0 Eo). apply surjective_pairing. }
  (* in both cases the shared state seen by thread i is the current one, and nothing after i changes it *)
  assert (Hcur : fst (exec (executed (thr s i)) (sig (thr s) pre0 (sh s0), l0 (cl (thr s i)))) = sh s
                 /\ (forall x, sig (thr s) post0 x = x)
                 /\ (wr (cl (thr s i)) = true -> post0 = [])).
  { destruct (wr (cl (thr s i))) eqn:Ew.
    - destruct (He i Hin_i Ew) as [_ (pre1 & E1)].
      assert (post0 = [] /\ pre0 = pre1) as [-> ->].
      { rewrite Eo in E1. change (pre1 ++ [i]) with (pre1 ++ i :: []) in E1.
        destruct (nodup_mid_unique i pre0 post0 pre1 [] Hd' E1) as [-> ->]. split; reflexivity. }
      split; [|split; [reflexivity|reflexivity]].
      rewrite Hs, Eo, sig_app. reflexivity.
    - assert (Hpost : forall x, sig (thr s) post0 x = x).
      { intros x. apply sig_readers. intros j Hj. apply (reader_reads s j HI). exact (Ht pre0 i post0 Eo Hin_i j Hj). }
      split; [|split; [exact Hpost|discriminate]].
      rewrite Hs, Eo, sig_app. cbn [sig]. rewrite Hpost. reflexivity. }
  destruct Hcur as (Hcur & Hpost & Hwlast).
  assert (Hstate : exec (executed (thr s i)) (sig (thr s) pre0 (sh s0), l0 (cl (thr s i))) = (sh s, loc (thr s i))).
  { rewrite Hpair, Hcur. reflexivity. }
  assert (Hnpre : ~ In i pre0).
  { intros H. apply NoDup_remove_2 in Hd'. apply Hd'. apply in_or_app. left. exact H. }
  assert (Hnpost : ~ In i post0).
  { intros H. apply NoDup_remove_2 in Hd'. apply Hd'. apply in_or_app. right. exact H. }
  (* the shared-state effect of i's executed steps, as seen by the positions after i *)
  assert (Hsig_after : forall order x, (wr (cl (thr s i)) = true -> ~ In i order) -> sig (upd (thr s) i t') order x = sig (thr s) order x).
  { intros order x Hcond. destruct (wr (cl (thr s i))) eqn:Ew.
    - apply sig_upd_notin. apply Hcond. reflexivity.
    - apply sig_upd_same_effect. intros y.
      assert (Hr1 : Forall is_read (executed (thr s i))) by (apply (reader_reads s i HI); exact Ew).
      assert (Hr2 : Forall is_read (executed t')).
      { rewrite Hex. apply Forall_app. split; [exact Hr1|]. constructor; [|constructor].
        pose proof (calls_ok i) as Hok. rewrite <- (Hc i) in Hok. specialize (Hok Ew). rewrite Hbody in Hok.
        apply Forall_app in Hok. destruct Hok as [_ Hok]. inversion Hok; assumption. }
      rewrite !exec_reads by assumption. reflexivity. }
  constructor; cbn [sh thr ord]; fold t'.
  - intros j. destruct (Nat.eq_dec j i) as [->|Hn]; [rewrite upd_same; apply Hc|rewrite (upd_other _ _ _ _ Hn); apply Hc].
  - exact Hd.
  - intros j. destruct (Nat.eq_dec j i) as [->|Hn].
    + rewrite upd_same. split; [intros _; discriminate|intros _; exact Hio].
    + rewrite (upd_other _ _ _ _ Hn). apply Hm.
  - intros j. destruct (Nat.eq_dec j i) as [->|Hn]; [rewrite upd_same; discriminate|rewrite (upd_other _ _ _ _ Hn); apply Hi].
  - intros j d' r'. destruct (Nat.eq_dec j i) as [->|Hn].
    + rewrite upd_same. cbn [ph cl t']. intros E. inversion E; subst. rewrite Hbody. cbn [rev]. rewrite <- app_assoc. reflexivity.
    + rewrite (upd_other _ _ _ _ Hn). apply Hp.
  - intros j Hin Hwj. destruct (Nat.eq_dec j i) as [->|Hn].
    + rewrite upd_same in Hwj. cbn [cl t'] in Hwj. destruct (He i Hin_i Hwj) as [H1 H2]. split; [|exact H2].
      intros k Hk. rewrite (is_in_upd_other _ _ _ _ Hk). apply H1. exact Hk.
    + rewrite (upd_other _ _ _ _ Hn) in Hwj. rewrite (is_in_upd_other _ _ _ _ Hn) in Hin.
      destruct (He j Hin Hwj) as [H1 _]. exfalso. apply (H1 i); [intros E; apply Hn; symmetry; exact E|exact Hin_i].
  - intros pre k post E Hin j Hj.
    assert (Hink : is_in (thr s k)).
    { destruct (Nat.eq_dec k i) as [->|Hn]; [exact Hin_i|rewrite (is_in_upd_other _ _ _ _ Hn) in Hin; exact Hin]. }
    destruct (Nat.eq_dec j i) as [->|Hji]; [rewrite upd_same; cbn [cl t']|rewrite (upd_other _ _ _ _ Hji)]; exact (Ht pre k post E Hink _ Hj).
  - rewrite Eo, sig_app. cbn [sig]. rewrite upd_same. cbn [cl t']. rewrite Hex, exec_snoc.
    rewrite (sig_upd_notin _ _ _ _ _ Hnpre), Hstate.
    rewrite Hsig_after by (intros Hw; rewrite (Hwlast Hw); intros []).
    rewrite Hpost. reflexivity.
  - intros pre k post E. rewrite Eo in E.
    destruct (Nat.eq_dec k i) as [->|Hn].
    + destruct (nodup_mid_unique i pre0 post0 pre post Hd' E) as [<- <-].
      rewrite upd_same. cbn [loc cl t']. rewrite Hex, exec_snoc, (sig_upd_notin _ _ _ _ _ Hnpre), Hstate. reflexivity.
    + rewrite (upd_other _ _ _ _ Hn).
      rewrite Hsig_after.
      * rewrite <- Eo in E. exact (Hl pre k post E).
      * intros Hw Hip. rewrite (Hwlast Hw) in E, Hd'.
        destruct (split_mid i k pre0 pre post Hn E) as (post' & -> & E2).
        rewrite E in Hd'.
        replace (pre ++ k :: post' ++ [i]) with ((pre ++ k :: post') ++ i :: []) in Hd' by (rewrite <- app_assoc; reflexivity).
        apply NoDup_remove_2 in Hd'. apply Hd'. rewrite app_nil_r. apply in_or_app. left. exact Hip.
Qed.

Lemma inv_step s s' i : Inv s -> step i s s' -> Inv s'.
Proof.
  intros HI Hst. destruct Hst as [s Hph Hw Hno|s Hph Hw Hno|s d m r Hph|s d Hph].
  - apply (inv_acquire s i HI Hph); [intros _; exact Hno|rewrite Hw; discriminate].
  - apply (inv_acquire s i HI Hph); [rewrite Hw; discriminate|intros _; exact Hno].
  - apply (inv_micro s i d m r HI Hph).
  - apply (inv_release s i d HI Hph).
Qed.

Theorem inv_reach s : reach s0 s -> Inv s.
Proof. induction 1 as [|s s' i Hr IH Hst]; [exact inv_init|exact (inv_step s s' i IH Hst)]. Qed.

(* ---------- the serial reference and the theorem ---------- *)
Definition calls (i : nat) : call := cl (thr s0 i).

Lemma sig_done thr order x :
  (forall j, In j order -> ph (thr j) = Done /\ cl (thr j) = calls j) -> sig thr order x = serial_sh calls order x.
Proof.
  revert x. induction order as [|i r IH]; intros x H; [reflexivity|]. cbn [sig serial_sh].
  destruct (H i (or_introl eq_refl)) as [Hd Hc]. unfold executed. rewrite Hd, Hc. apply IH. intros j Hj. apply H. right. exact Hj.
Qed.

Lemma serial_res_split pre i post x : ~ In i pre ->
  serial_res calls (pre ++ i :: post) x i = Some (snd (exec (body (calls i)) (serial_sh calls pre x, l0 (calls i)))).
Proof.
  revert x. induction pre as [|j pre IH]; intros x Hn; cbn [app serial_res serial_sh].
  - rewrite Nat.eqb_refl. reflexivity.
  - assert (Hji : j <> i) by (intros ->; apply Hn; left; reflexivity).
    apply Nat.eqb_neq in Hji. rewrite Hji. apply IH. intros H. apply Hn. right. exact H.
Qed.

Definition quiescent (s : st) : Prop := forall i, ph (thr s i) = Idle \/ ph (thr s i) = Done.

(* every interleaving is equivalent to running the calls one at a time in the order in which they took the lock *)
Theorem linearizable s : reach s0 s -> quiescent s ->
  sh s = serial_sh calls (ord s) (sh s0)
  /\ forall i, In i (ord s) -> serial_res calls (ord s) (sh s0) i = Some (loc (thr s i)).
Proof.
  intros Hr Hq. pose proof (inv_reach s Hr) as HI. pose proof HI as [Hc Hd Hm Hi Hp He Ht Hs Hl].
  assert (Hdone : forall order, (forall j, In j order -> In j (ord s)) -> forall j, In j order -> ph (thr s j) = Done /\ cl (thr s j) = calls j).
  { intros order Hsub j Hj. split; [|apply Hc]. destruct (Hq j) as [H|H]; [|exact H]. exfalso. apply (Hm j); [apply Hsub; exact Hj|exact H]. }
  split.
  - rewrite Hs. apply sig_done. apply Hdone. auto.
  - intros i Hi_in. destruct (in_split _ _ Hi_in) as (pre & post & E).
    assert (Hnp : ~ In i pre).
    { intros H. rewrite E in Hd. apply NoDup_remove_2 in Hd. apply Hd. apply in_or_app. left. exact H. }
    rewrite E at 1. rewrite (serial_res_split pre i post _ Hnp). f_equal.
    rewrite (Hl pre i post E).
    destruct (Hdone [i]) with (j := i) as [Hdi Hci]; [intros j [<-|[]]; exact Hi_in|left; reflexivity|].
    unfold executed. rewrite Hdi, Hci.
    rewrite (sig_done (thr s) pre) by (apply Hdone; intros j Hj; rewrite E; apply in_or_app; left; exact Hj).
    reflexivity.
Qed.

(* the order respects real time: a call that had returned when another had not yet started comes first *)
Lemma step_ord_grows i s s' : step i s s' -> exists suf, ord s' = ord s ++ suf.
Proof. intros H. destruct H; cbn [ord]; [exists [i]|exists [i]|exists []|exists []]; rewrite ?app_nil_r; reflexivity. Qed.

Lemma reach_ord_grows s s' : reach s s' -> exists suf, ord s' = ord s ++ suf.
Proof.
  induction 1 as [|s1 s2 i Hr [suf E] Hst]; [exists []; rewrite app_nil_r; reflexivity|].
  destruct (step_ord_grows i s1 s2 Hst) as [suf2 E2]. exists (suf ++ suf2). rewrite E2, E, app_assoc. reflexivity.
Qed.

Theorem real_time_order s s' a b : reach s0 s -> reach s s' ->
  ph (thr s a) = Done -> ph (thr s b) = Idle -> In b (ord s') ->
  exists l1 l2 l3, ord s' = l1 ++ a :: l2 ++ b :: l3.
Proof.
  intros Hr Hr' Ha Hb Hin. pose proof (inv_reach s Hr) as HI.
  assert (Hao : In a (ord s)) by (apply (i_mem s HI); rewrite Ha; discriminate).
  assert (Hbo : ~ In b (ord s)) by (intros H; apply (i_mem s HI) in H; contradiction).
  destruct (reach_ord_grows s s' Hr') as [suf E]. rewrite E in Hin |- *.
  apply in_app_or in Hin. destruct Hin as [Hin|Hin]; [contradiction|].
  destruct (in_split _ _ Hao) as (l1 & l2 & E1). destruct (in_split _ _ Hin) as (m1 & m2 & E2).
  exists l1, (l2 ++ m1), m2. rewrite E1, E2. repeat (rewrite <- app_assoc; cbn [app]). reflexivity.
Qed.
End Lin.

(* ---------- non-vacuity: a counter, one incrementing writer (thread 0) and one reader (thread 1) ---------- *)
Definition ex_w : call nat nat := {| wr := true; body := [MWr nat nat (fun _ s => S s)]; l0 := 0 |}.
Definition ex_r : call nat nat := {| wr := false; body := [MRd nat nat (fun s _ => s)]; l0 := 0 |}.
Definition ex_s0 : st nat nat :=
  {| sh := 0; thr := fun i => {| cl := if Nat.eqb i 0 then ex_w else ex_r; ph := Idle nat nat; loc := 0 |}; ord := [] |}.

Example ex_premises :
  (forall i, ph nat nat (thr nat nat ex_s0 i) = Idle nat nat /\ loc nat nat (thr nat nat ex_s0 i) = l0 nat nat (cl nat nat (thr nat nat ex_s0 i)))
  /\ ord nat nat ex_s0 = [] /\ (forall i, call_ok nat nat (cl nat nat (thr nat nat ex_s0 i))).
Proof.
  split; [|split].
  - intros i. cbn. destruct (Nat.eqb i 0); split; reflexivity.
  - reflexivity.
  - intros i. cbn. destruct (Nat.eqb i 0); unfold call_ok; cbn; [discriminate|]. intros _. constructor; [exact I|constructor].
Qed.

(* reader 1 takes the lock, reads, releases; then writer 0 takes it, increments, releases *)
Example ex_run : exists s, reach nat nat ex_s0 s /\ ord nat nat s = [1; 0] /\ sh nat nat s = 1
                           /\ loc nat nat (thr nat nat s 1) = 0 /\ quiescent nat nat s.
Proof.
  eexists. split.
  - eapply r_step. eapply r_step. eapply r_step. eapply r_step. eapply r_step. eapply r_step. apply r_refl.
    + apply (s_acq_r nat nat 1); cbn; [reflexivity|reflexivity|]. intros j H. unfold is_in in H. cbn in H. contradiction.
    + eapply (s_micro nat nat 1). cbn. reflexivity.
    + eapply (s_rel nat nat 1). cbn. reflexivity.
    + apply (s_acq_w nat nat 0); cbn; [reflexivity|reflexivity|].
      intros j H. unfold is_in, upd in H. cbn in H. destruct (Nat.eqb j 1); cbn in H; contradiction.
    + eapply (s_micro nat nat 0). cbn. reflexivity.
    + eapply (s_rel nat nat 0). cbn. reflexivity.
  - cbn. repeat split. intros i. unfold upd. cbn.
    destruct (Nat.eqb i 0) eqn:E0; [right; reflexivity|]. destruct (Nat.eqb i 1); [right; reflexivity|left; reflexivity].
Qed.
