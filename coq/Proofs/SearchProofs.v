(* SearchProofs.v — the bounded result heap of the exact search holds the K smallest candidates,
   for every iteration order and however ties are broken. *)
From Coq Require Import ZArith List Lia Bool Sorting.Sorted Sorting.Permutation.
From Syz Require Import Search.
Import ListNotations.
Open Scope Z_scope.

Section KNN.
Variable A : Type.
Variable lt : A -> A -> bool.
(* the comparison is the order of an integer key (for non-negative, non-NaN binary64 values the key
   is the bit pattern) *)
Variable key : A -> Z.
Hypothesis lt_key : forall x y, lt x y = (key x <? key y).

Definition kle (a b : Z * A) : Prop := key (snd a) <= key (snd b).
Definition sorted (l : list (Z * A)) : Prop := StronglySorted kle l.

Lemma insert_perm x l : Permutation (insert_asc lt x l) (x :: l).
Proof.
  induction l as [|y r IH]; [reflexivity|]. cbn [insert_asc].
  destruct (lt (snd x) (snd y)); [reflexivity|]. rewrite IH. apply perm_swap.
Qed.

Lemma insert_sorted x l : sorted l -> sorted (insert_asc lt x l).
Proof.
  intros H. induction H as [|y r Hs IH Hy]; cbn [insert_asc]; [repeat constructor|].
  rewrite lt_key. destruct (Z.ltb_spec (key (snd x)) (key (snd y))) as [Hlt|Hge].
  - constructor; [constructor; assumption|]. constructor; [unfold kle; lia|].
    rewrite Forall_forall in *. intros z Hz. specialize (Hy z Hz). unfold kle in *. lia.
  - constructor; [exact IH|]. rewrite Forall_forall in *. intros z Hz.
    apply (Permutation_in _ (insert_perm x r)) in Hz. destruct Hz as [<-|Hz]; [unfold kle; lia|now apply Hy].
Qed.

Lemma insert_length x l : length (insert_asc lt x l) = S (length l).
Proof. apply (Permutation_length (insert_perm x l)). Qed.

(* inserting something smaller than the last element keeps that last element last *)
Lemma insert_keeps_last x l w : sorted (l ++ [w]) -> key (snd x) < key (snd w) ->
  insert_asc lt x (l ++ [w]) = insert_asc lt x l ++ [w].
Proof.
  intros Hs Hx. induction l as [|y r IH]; cbn [app insert_asc].
  - rewrite lt_key. destruct (Z.ltb_spec (key (snd x)) (key (snd w))); [reflexivity|lia].
  - destruct (lt (snd x) (snd y)); [reflexivity|]. cbn [app]. f_equal. apply IH. now inversion Hs.
Qed.

Lemma sorted_last_max l w : sorted (l ++ [w]) -> forall y, In y l -> kle y w.
Proof.
  induction l as [|z r IH]; intros Hs y Hy; [destruct Hy|].
  cbn [app] in Hs. inversion Hs as [|? ? Hs' Hz]; subst. destruct Hy as [<-|Hy].
  - rewrite Forall_forall in Hz. apply Hz. apply in_or_app. right. now left.
  - now apply IH.
Qed.

Lemma sorted_app_l l w : sorted (l ++ [w]) -> sorted l.
Proof.
  induction l as [|z r IH]; intros Hs; [constructor|].
  cbn [app] in Hs. inversion Hs as [|? ? Hs' Hz]; subst. constructor; [now apply IH|].
  rewrite Forall_forall in *. intros y Hy. apply Hz. apply in_or_app. now left.
Qed.

(* what the heap holds after any sequence of candidates *)
Record heap_inv (K : nat) (processed l rest : list (Z * A)) : Prop := {
  hi_perm : Permutation processed (l ++ rest);
  hi_sorted : sorted l;
  hi_len : (length l <= K)%nat;
  hi_full : (length l < K)%nat -> rest = [];
  hi_best : forall y r, In y l -> In r rest -> kle y r }.

Lemma consider_step K processed l rest x : heap_inv K processed l rest ->
  exists rest', heap_inv K (processed ++ [x]) (consider_k lt K l x) rest'.
Proof.
  intros [Hp Hs Hl Hf Hb]. unfold consider_k.
  destruct (Nat.ltb_spec (length l) K) as [Hlt|Hge].
  - (* room left: insert *)
    rewrite (Hf Hlt) in *. exists []. constructor.
    + rewrite app_nil_r in *. rewrite Hp. rewrite insert_perm. symmetry. apply Permutation_cons_append.
    + now apply insert_sorted.
    + rewrite insert_length. lia.
    + reflexivity.
    + intros y r _ [].
  - assert (Hk : length l = K) by lia.
    destruct (rev l) as [|worst rl] eqn:Er.
    + (* K = 0 *)
      assert (l = []) by (apply (f_equal (@rev _)) in Er; rewrite rev_involutive in Er; exact Er). subst l.
      exists (rest ++ [x]). constructor; cbn [app] in *.
      * rewrite Hp. reflexivity.
      * constructor.
      * lia.
      * cbn [length] in Hk. lia.
      * intros y r [].
    + assert (El : l = rev rl ++ [worst]).
      { apply (f_equal (@rev _)) in Er. rewrite rev_involutive in Er. cbn [rev] in Er. exact Er. }
      set (l0 := rev rl) in *.
      rewrite lt_key. destruct (Z.ltb_spec (key (snd x)) (key (snd worst))) as [Hx|Hx].
      * (* better than the worst: insert, drop the worst *)
        rewrite El in Hs. rewrite El, (insert_keeps_last x l0 worst Hs Hx).
        assert (Hlen0 : length (insert_asc lt x l0) = K).
        { rewrite insert_length. rewrite El, app_length in Hk. cbn [length] in Hk. lia. }
        assert (Ef : firstn K (insert_asc lt x l0 ++ [worst]) = insert_asc lt x l0).
        { rewrite <- Hlen0. rewrite firstn_app, Nat.sub_diag, firstn_all. cbn [firstn]. apply app_nil_r. }
        rewrite Ef.
        exists (worst :: rest). constructor.
        -- rewrite Hp, El, insert_perm.
           eapply Permutation_trans; [apply Permutation_app_comm|]. cbn [app]. rewrite <- app_assoc. reflexivity.
        -- apply insert_sorted. now apply sorted_app_l in Hs.
        -- lia.
        -- lia.
        -- intros y r Hy Hr. apply (Permutation_in _ (insert_perm x l0)) in Hy.
           assert (Hyw : kle y worst).
           { destruct Hy as [<-|Hy]; [unfold kle; lia|]. now apply (sorted_last_max l0 worst Hs). }
           destruct Hr as [<-|Hr]; [exact Hyw|].
           assert (Hw : kle worst r). { apply Hb; [rewrite El; apply in_or_app; right; now left|exact Hr]. }
           unfold kle in *. lia.
      * (* not better: unchanged *)
        exists (rest ++ [x]). constructor.
        -- rewrite Hp. rewrite app_assoc. reflexivity.
        -- exact Hs.
        -- exact Hl.
        -- intros H. lia.
        -- intros y r Hy Hr. apply in_app_or in Hr. destruct Hr as [Hr|[<-|[]]]; [now apply Hb|].
           rewrite El in Hs, Hy. apply in_app_or in Hy. destruct Hy as [Hy|[<-|[]]].
           ++ pose proof (sorted_last_max l0 worst Hs y Hy). unfold kle in *. lia.
           ++ unfold kle. lia.
Qed.

Lemma knn_inv K : forall cands processed l rest, heap_inv K processed l rest ->
  exists rest', heap_inv K (processed ++ cands) (fold_left (consider_k lt K) cands l) rest'.
Proof.
  induction cands as [|x cands IH]; intros processed l rest H.
  - exists rest. now rewrite app_nil_r.
  - cbn [fold_left]. destruct (consider_step K processed l rest x H) as (rest1 & H1).
    destruct (IH _ _ _ H1) as (rest2 & H2). exists rest2. now rewrite <- app_assoc in H2.
Qed.

(* the K-nearest answer: sorted, a sub-multiset of the candidates of size min(K, m), and nothing
   left out is closer than anything returned — whatever the order in which the candidates arrive *)
Theorem knn_spec K cands :
  let res := knn lt K cands in
  exists rest,
    Permutation cands (res ++ rest) /\ sorted res
    /\ length res = Nat.min K (length cands)
    /\ forall y r, In y res -> In r rest -> kle y r.
Proof.
  cbn zeta. unfold knn.
  assert (H0 : heap_inv K [] [] []).
  { constructor; [reflexivity|constructor|cbn; lia|reflexivity|intros y r []]. }
  destruct (knn_inv K cands [] [] [] H0) as (rest & [Hp Hs Hl Hf Hb]). cbn [app] in Hp.
  exists rest. repeat split; try assumption.
  pose proof (Permutation_length Hp) as Hlen. rewrite app_length in Hlen.
  destruct (Nat.ltb_spec (length (fold_left (consider_k lt K) cands [])) K) as [Hlt|Hge].
  - rewrite (Hf Hlt) in Hlen. cbn [length] in Hlen. lia.
  - lia.
Qed.

(* the radius answer: exactly the candidates within the radius, sorted *)
Theorem sorted_fold cands :
  let res := fold_left (fun l x => insert_asc lt x l) cands [] in
  Permutation res cands /\ sorted res.
Proof.
  cbn zeta.
  assert (G : forall cs l, sorted l ->
             Permutation (fold_left (fun l x => insert_asc lt x l) cs l) (l ++ cs)
             /\ sorted (fold_left (fun l x => insert_asc lt x l) cs l)).
  { induction cs as [|x cs IH]; intros l Hl; cbn [fold_left].
    - rewrite app_nil_r. split; [reflexivity|exact Hl].
    - destruct (IH (insert_asc lt x l) (insert_sorted x l Hl)) as [Hp Hs]. split; [|exact Hs].
      rewrite Hp. rewrite insert_perm. cbn [app]. apply Permutation_middle. }
  destruct (G cands [] (SSorted_nil _)) as [Hp Hs]. split; assumption.
Qed.
End KNN.
