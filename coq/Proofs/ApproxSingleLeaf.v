(* ApproxSingleLeaf.v — on a forest whose trees are single leaves (a collection of up to 100 documents) the
   default-precision K-nearest search is the exact search: the first leaf the queue hands out holds every
   document, all of them are considered in leaf order with the same bounded heap as the exact search, and
   the other leaves add nothing.  The result is therefore `knn` over the accepted candidates in that order,
   which C03_knn characterises for every order. *)
From Coq Require Import ZArith Floats List Bool Lia Sorting.Permutation.
From Syz Require Import Quant Dist Search SearchProofs Lsh ApproxProofs HeapPerm ApproxNonEmpty.
Import ListNotations.
Open Scope Z_scope.

Section Single.
Variable cosine : bool.
Variable q : list float.
Variable qlen : float.
Variable K : nat.
Variable R : float.
Variable docs : list sdoc.
Hypothesis HK : (0 < K)%nat.
Hypothesis HR : PrimFloat.ltb 0 R = false.

(* the accepted candidates among ids, in that order, each with its true distance *)
Definition cand_of (id : Z) : list hit :=
  match find (fun x => sd_id x =? id) docs with
  | Some d => if sd_ok d then [(id, distance cosine q (sd_vec d))] else []
  | None => []
  end.
Definition cands_in_order (ids : list Z) : list hit := flat_map cand_of ids.

(* K mode of the callback is the bounded heap of the exact search *)
Definition better (l : list (Z * float)) (x : Z * float) : bool :=
  match rev l with worst :: _ => PrimFloat.ltb (snd x) (snd worst) | [] => true end.

Lemma ck_acc (l : list (Z * float)) (x : Z * float) : Nat.ltb (length l) K || better l x = true ->
  consider_k PrimFloat.ltb K l x =
  (if Nat.ltb K (length (insert_asc PrimFloat.ltb x l)) then firstn K (insert_asc PrimFloat.ltb x l) else insert_asc PrimFloat.ltb x l).
Proof.
  intros H. unfold consider_k. rewrite (insert_length _ PrimFloat.ltb).
  destruct (Nat.ltb_spec (length l) K) as [Hlt|Hge].
  - destruct (Nat.ltb_spec K (S (length l))); [lia|reflexivity].
  - cbn [orb] in H. unfold better in H. destruct (rev l) as [|worst r] eqn:Er.
    + assert (l = []) by (rewrite <- (rev_involutive l), Er; reflexivity). subst. cbn in Hge. lia.
    + rewrite H. destruct (Nat.ltb_spec K (S (length l))); [reflexivity|lia].
Qed.

Lemma ck_rej (l : list (Z * float)) (x : Z * float) : Nat.ltb (length l) K || better l x = false -> consider_k PrimFloat.ltb K l x = l.
Proof.
  intros H. apply orb_false_iff in H. destruct H as [H1 H2]. unfold consider_k. rewrite H1.
  unfold better in H2. destruct (rev l) as [|worst r]; [reflexivity|]. rewrite H2. reflexivity.
Qed.

Lemma consider_is_consider_k s id d : find (fun x => sd_id x =? id) docs = Some d -> sd_ok d = true ->
  st_res (snd (consider_approx cosine q K R docs s id)) = consider_k PrimFloat.ltb K (st_res s) (id, distance cosine q (sd_vec d))
  /\ fst (consider_approx cosine q K R docs s id) <> SStop /\ fst (consider_approx cosine q K R docs s id) <> SIgn.
Proof.
  intros Hf Hok. unfold consider_approx. rewrite Hf, Hok. cbn [negb]. rewrite HR.
  destruct (Nat.ltb_spec 0 K) as [_|]; [|lia]. cbn [st_res].
  match goal with |- context [if ?c then (SAcc, _) else (SChk, _)] => destruct c eqn:E end.
  - cbn [snd st_res fst]. rewrite (ck_acc (st_res s) (id, distance cosine q (sd_vec d)) E). repeat split; discriminate.
  - cbn [snd st_res fst]. rewrite (ck_rej (st_res s) (id, distance cosine q (sd_vec d)) E). repeat split; discriminate.
Qed.

(* visiting a leaf whose ids have not been seen: the heap becomes the fold of consider_k over their candidates *)
Lemma visit_leaf : forall ids s, st_stop s = false -> Forall (live docs) ids -> NoDup ids ->
  (forall x, In x ids -> ~ In x (st_visited s)) ->
  let s' := visit_ids cosine q K R docs ids s in
  st_res s' = fold_left (consider_k PrimFloat.ltb K) (cands_in_order ids) (st_res s)
  /\ st_stop s' = false
  /\ (forall x, In x (st_visited s') <-> In x (st_visited s) \/ In x ids).
Proof.
  induction ids as [|id r IH]; intros s Hs Hl Hnd Hfresh; cbn zeta; cbn [visit_ids cands_in_order flat_map fold_left].
  - split; [reflexivity|]. split; [exact Hs|]. intros x. cbn [In]. tauto.
  - inversion Hl as [|? ? Hid Hr]; inversion Hnd as [|? ? Hnotin Hnd']; subst. rewrite Hs.
    destruct (existsb (fun x => x =? id) (st_visited s)) eqn:Ev.
    { exfalso. apply existsb_exists in Ev. destruct Ev as [y [Hy E]]. apply Z.eqb_eq in E. subst. apply (Hfresh id); [left; reflexivity|exact Hy]. }
    set (s0 := {| st_res := st_res s; st_radius := st_radius s; st_pts := st_pts s; st_kc := st_kc s;
                  st_acc := st_acc s; st_visited := id :: st_visited s; st_stop := false |}).
    destruct Hid as [d Hd]. unfold cand_of at 1. rewrite Hd.
    assert (Hnext : forall s1 res, st_stop s1 = false -> st_visited s1 = id :: st_visited s -> st_res s1 = res ->
              let s' := visit_ids cosine q K R docs r s1 in
              st_res s' = fold_left (consider_k PrimFloat.ltb K) (cands_in_order r) res
              /\ st_stop s' = false /\ (forall x, In x (st_visited s') <-> In x (st_visited s) \/ In x (id :: r))).
    { intros s1 res Hs1 Hv1 <-. destruct (IH s1 Hs1 Hr Hnd') as (A1 & A2 & A3).
      - intros x Hx Hin. rewrite Hv1 in Hin. destruct Hin as [<-|Hin]; [contradiction|]. apply (Hfresh x); [right; exact Hx|exact Hin].
      - split; [exact A1|]. split; [exact A2|]. intros x. rewrite A3, Hv1. cbn [In]. tauto. }
    destruct (sd_ok d) eqn:Eok.
    + destruct (consider_is_consider_k s0 id d Hd Eok) as (Hres & Hsig & Hsig2).
      pose proof (consider_visited cosine q K R docs s0 id) as Hvis.
      destruct (consider_approx cosine q K R docs s0 id) as [sig s1]. cbn [fst snd] in *.
      rewrite fold_left_app. cbn [fold_left].
      destruct sig; try contradiction; (apply Hnext; [reflexivity|cbn [st_visited]; exact Hvis|cbn [st_res]; exact Hres]).
    + (* rejected by the filter *)
      unfold consider_approx. rewrite Hd, Eok. cbn [negb app].
      apply Hnext; reflexivity.
Qed.

Lemma visit_seen : forall ids s, st_stop s = false -> (forall x, In x ids -> In x (st_visited s)) ->
  visit_ids cosine q K R docs ids s = s.
Proof.
  induction ids as [|id r IH]; intros s Hs Hseen; cbn [visit_ids]; [reflexivity|]. rewrite Hs.
  assert (existsb (fun x => x =? id) (st_visited s) = true).
  { apply existsb_exists. exists id. split; [apply Hseen; left; reflexivity|apply Z.eqb_refl]. }
  rewrite H. apply IH; [exact Hs|]. intros x Hx. apply Hseen. right. exact Hx.
Qed.

Definition is_leaf_within (ids : list Z) (it : qitem) : Prop := exists ids', snd it = Leaf ids' /\ incl ids' ids.

(* once every id has been seen, further leaves change nothing *)
Lemma loop_rest : forall fuel nq s ids, st_stop s = false -> (forall x, In x ids -> In x (st_visited s)) ->
  Forall (is_leaf_within ids) nq ->
  st_res (search_loop fuel cosine q qlen K R docs nq s) = st_res s.
Proof.
  induction fuel as [|f IH]; intros nq s ids Hs Hseen Hq; cbn [search_loop]; [reflexivity|].
  destruct (hpop fst (0%float, Nil) nq) as [[[pr node] nq']|] eqn:Ep; [|reflexivity].
  pose proof (hpop_perm _ _ _ _ _ _ Ep) as P.
  assert (Hq' : Forall (is_leaf_within ids) ((pr, node) :: nq')) by (eapply Permutation_Forall; eauto).
  inversion Hq' as [|? ? [ids' [Hn Hinc]] Hrest]; subst. cbn [snd] in Hn. subst node.
  destruct (_ && _ && _); [apply (IH nq' s ids); assumption|].
  destruct (search_k <=? st_kc s); [reflexivity|].
  rewrite (visit_seen ids' s Hs) by (intros x Hx; apply Hseen, Hinc, Hx). rewrite Hs.
  apply (IH nq' s ids); assumption.
Qed.
End Single.

Theorem approx_single_leaf cosine q K R docs forest : (0 < K)%nat -> PrimFloat.ltb 0 R = false ->
  forest <> [] ->
  (* every tree is one leaf; all leaves hold the same, duplicate-free, live ids *)
  (forall t, In t forest -> exists ids, t = Leaf ids /\ NoDup ids /\ Forall (live docs) ids) ->
  (forall t t' ids ids', In t forest -> In t' forest -> t = Leaf ids -> t' = Leaf ids' -> incl ids' ids) ->
  exists ids, In (Leaf ids) forest /\
    fst (fst (search_approx cosine q K R docs forest)) = knn PrimFloat.ltb K (cands_in_order cosine q docs ids).
Proof.
  intros HK HR Hne Hleaf Hsame. unfold search_approx. cbn [fst]. rewrite HR.
  set (nq := fold_left _ forest []).
  pose proof (init_queue_perm forest []) as P. fold nq in P. rewrite app_nil_r in P.
  set (fuel := (2 * fold_left (fun a t => (a + tree_size t)%nat) forest 0%nat + 10)%nat).
  assert (Hfuel : exists f, fuel = S f) by (exists (2 * fold_left (fun a t => (a + tree_size t)%nat) forest 0%nat + 9)%nat; unfold fuel; lia).
  destruct Hfuel as [f Hf]. rewrite Hf. cbn [search_loop].
  destruct (hpop fst (0%float, Nil) nq) as [[[pr node] nq']|] eqn:Ep.
  2:{ apply hpop_none in Ep. exfalso. rewrite Ep in P. apply Permutation_nil in P. destruct forest; [contradiction|discriminate]. }
  pose proof (hpop_perm _ _ _ _ _ _ Ep) as P2.
  assert (Hin : In (pr, node) (map (fun t => (0%float, t)) forest)).
  { eapply Permutation_in; [exact P|]. eapply Permutation_in; [apply Permutation_sym; exact P2|left; reflexivity]. }
  apply in_map_iff in Hin. destruct Hin as (t & E & Ht). inversion E; subst pr node. clear E.
  destruct (Hleaf t Ht) as (ids & -> & Hnd & Hlive).
  exists ids. split; [exact Ht|].
  change (PrimFloat.ltb 0 0) with false. cbn [andb]. change (search_k <=? 0) with false.
  set (s0 := {| st_res := []; st_radius := max_float; st_pts := 0; st_kc := 0; st_acc := false; st_visited := []; st_stop := false |}).
  destruct (visit_leaf cosine q K R docs HK HR ids s0 eq_refl Hlive Hnd (fun x _ H => H)) as (A1 & A2 & A3).
  rewrite A2.
  change (search_k <=? st_kc s0) with false. cbv iota.
  rewrite (loop_rest cosine q (vector_length q) K R docs f nq' _ ids A2).
  - rewrite A1. reflexivity.
  - intros x Hx. apply A3. right. exact Hx.
  - assert (Hall : Forall (is_leaf_within ids) ((0%float, Leaf ids) :: nq')).
    { eapply Permutation_Forall; [exact P2|]. eapply Permutation_Forall; [apply Permutation_sym; exact P|].
      apply Forall_forall. intros it Hit. apply in_map_iff in Hit. destruct Hit as (t' & <- & Ht').
      destruct (Hleaf t' Ht') as (ids' & -> & _ & _). exists ids'. split; [reflexivity|].
      apply (Hsame (Leaf ids) (Leaf ids') ids ids' Ht Ht' eq_refl eq_refl). }
    inversion Hall; assumption.
Qed.
