(* ConcSafety.v — mutual exclusion in the RWMutex semantics of Conc.v: at any time a mutex has at most one
   exclusive holder, and an exclusive holder excludes every shared holder.  With table_ok (mutators hold
   Collection.mutex exclusively for their whole body, readers hold it shared) this is what makes the critical
   sections of a collection conflict-serialisable. *)
From Coq Require Import List Arith Bool Lia.
From Syz Require Import LockTable Conc ConcProofs.
Import ListNotations.

Definition is_entry (m : nat) (md : mode) (x : nat * mode) : bool := Nat.eqb (fst x) m && mode_eqb (snd x) md.
Definition hc (md : mode) (m : nat) (h : held) : nat := length (filter (is_entry m md) h).
Fixpoint cnt (md : mode) (m : nat) (s : sys) : nat :=
  match s with [] => 0 | th :: r => hc md m (t_held th) + cnt md m r end.

Definition mutex_ok (m : nat) (s : sys) : Prop := cnt W m s <= 1 /\ (cnt W m s = 1 -> cnt R m s = 0).

Lemma mode_eqb_refl md : mode_eqb md md = true. Proof. destruct md; reflexivity. Qed.
Lemma mode_eqb_eq a b : mode_eqb a b = true -> a = b. Proof. destruct a, b; try discriminate; reflexivity. Qed.

Lemma remove_held_count : forall h m md h' m0 md0, remove_held m md h = Some h' ->
  hc md0 m0 h = hc md0 m0 h' + (if Nat.eqb m m0 && mode_eqb md md0 then 1 else 0).
Proof.
  induction h as [|[m' md'] r IH]; intros m md h' m0 md0 H; [discriminate|]. cbn [remove_held] in H.
  destruct (Nat.eqb m m' && mode_eqb md md') eqn:E.
  - inversion H; subst. apply andb_true_iff in E. destruct E as [E1 E2]. apply Nat.eqb_eq in E1. apply mode_eqb_eq in E2. subst.
    unfold hc. cbn [filter]. unfold is_entry at 1. cbn [fst snd].
    destruct (Nat.eqb m' m0) eqn:E1; destruct (mode_eqb md' md0) eqn:E2; cbn [andb length]; lia.
  - destruct (remove_held m md r) as [r'|] eqn:Er; [|discriminate]. inversion H; subst.
    specialize (IH m md r' m0 md0 Er). unfold hc in *. cbn [filter]. destruct (is_entry m0 md0 (m', md')); cbn [length]; lia.
Qed.

Lemma existsb_false_cnt_w m s : existsb (holds_w m) s = false -> cnt W m s = 0.
Proof.
  induction s as [|th s IH]; intros H; [reflexivity|]. cbn [existsb] in H. apply orb_false_iff in H. destruct H as [H1 H2].
  cbn [cnt]. rewrite (IH H2). unfold holds_w in H1.
  assert (hc W m (t_held th) = 0).
  { unfold hc. induction (t_held th) as [|x r IHr]; [reflexivity|]. cbn [existsb] in H1. apply orb_false_iff in H1. destruct H1 as [Ha Hb].
    cbn [filter]. unfold is_entry. rewrite Ha. apply IHr. exact Hb. }
  lia.
Qed.

Lemma existsb_false_cnt_any m s md : existsb (holds m) s = false -> cnt md m s = 0.
Proof.
  induction s as [|th s IH]; intros H; [reflexivity|]. cbn [existsb] in H. apply orb_false_iff in H. destruct H as [H1 H2].
  cbn [cnt]. rewrite (IH H2). unfold holds in H1.
  assert (hc md m (t_held th) = 0).
  { unfold hc. induction (t_held th) as [|x r IHr]; [reflexivity|]. cbn [existsb] in H1. apply orb_false_iff in H1. destruct H1 as [Ha Hb].
    cbn [filter]. unfold is_entry. rewrite Ha. cbn [andb]. apply IHr. exact Hb. }
  lia.
Qed.

(* the effect of one system step on the counts: only the moving thread changes *)
Lemma step_at_counts : forall s_all s i s', step_at s_all s i = Some s' ->
  exists th, In th s /\ enabled s_all th = true /\
    forall md m, cnt md m s' + hc md m (t_held th) = cnt md m s + hc md m (t_held (step_thread th)).
Proof.
  induction s as [|a s IH]; intros i s' H; [discriminate|]. destruct i; cbn in H.
  - destruct (enabled s_all a) eqn:E; [|discriminate]. inversion H; subst. exists a. split; [left; reflexivity|]. split; [exact E|].
    intros md m. cbn [cnt]. lia.
  - destruct (step_at s_all s i) as [r'|] eqn:E; [|discriminate]. inversion H; subst.
    destruct (IH i r' E) as (th & Hin & Hen & Hc). exists th. split; [right; exact Hin|]. split; [exact Hen|].
    intros md m. specialize (Hc md m). cbn [cnt]. lia.
Qed.

Lemma hc_cons md m x h : hc md m (x :: h) = (if is_entry m md x then 1 else 0) + hc md m h.
Proof. unfold hc. cbn [filter]. destruct (is_entry m md x); reflexivity. Qed.

Theorem step_mutex_ok s i s' m : step s i = Some s' -> mutex_ok m s -> mutex_ok m s'.
Proof.
  unfold step. intros H [Hw Hr].
  destruct (step_at_counts _ _ _ _ H) as (th & Hin & Hen & Hc).
  pose proof (Hc W m) as HW. pose proof (Hc R m) as HR.
  unfold enabled in Hen. unfold step_thread in HW, HR.
  destruct (t_rest th) as [|[m1 md1|m1 md1] r] eqn:Er; [discriminate| |].
  - destruct md1.
    + (* shared acquisition of m1: no exclusive holder of m1 *)
      apply andb_true_iff in Hen. destruct Hen as [Hnw _]. apply negb_true_iff in Hnw. pose proof (existsb_false_cnt_w _ _ Hnw) as Z.
      cbn [t_held] in HW, HR. rewrite hc_cons in HW, HR. unfold is_entry in HW, HR. cbn [fst snd mode_eqb] in HW, HR.
      rewrite andb_false_r in HW. rewrite andb_true_r in HR.
      destruct (Nat.eqb_spec m1 m) as [->|Hne]; unfold mutex_ok; lia.
    + destruct (t_announced th) eqn:Ea.
      * (* exclusive acquisition: nobody holds m1 *)
        apply negb_true_iff in Hen. pose proof (existsb_false_cnt_any _ _ W Hen) as ZW. pose proof (existsb_false_cnt_any _ _ R Hen) as ZR.
        cbn [t_held] in HW, HR. rewrite hc_cons in HW, HR. unfold is_entry in HW, HR. cbn [fst snd mode_eqb] in HW, HR.
        rewrite andb_true_r in HW. rewrite andb_false_r in HR.
        destruct (Nat.eqb_spec m1 m) as [->|Hne]; unfold mutex_ok; lia.
      * cbn [t_held] in HW, HR. unfold mutex_ok. lia.
  - (* release *)
    cbn [t_held] in HW, HR. destruct (remove_held m1 md1 (t_held th)) as [h'|] eqn:Erm.
    + pose proof (remove_held_count _ _ _ _ m W Erm) as CW. pose proof (remove_held_count _ _ _ _ m R Erm) as CR.
      destruct (Nat.eqb m1 m && mode_eqb md1 W); destruct (Nat.eqb m1 m && mode_eqb md1 R); unfold mutex_ok; lia.
    + unfold mutex_ok. lia.
Qed.

Lemma start_mutex_ok ps m : mutex_ok m (start ps).
Proof.
  unfold mutex_ok. assert (forall md, cnt md m (start ps) = 0).
  { intro md. unfold start. induction ps as [|p r IH]; [reflexivity|]. cbn [map cnt t_held]. rewrite IH. reflexivity. }
  rewrite !H. lia.
Qed.

Theorem reachable_mutex_ok : forall sched ps m, mutex_ok m (run_sched (start ps) sched).
Proof.
  intros sched ps m. assert (G : forall sched s, mutex_ok m s -> mutex_ok m (run_sched s sched)).
  { induction sched0 as [|i r IH]; intros s Hs; [exact Hs|]. cbn [run_sched].
    destruct (step s i) as [s'|] eqn:E; [apply IH; eapply step_mutex_ok; eauto|apply IH; exact Hs]. }
  apply G. apply start_mutex_ok.
Qed.
