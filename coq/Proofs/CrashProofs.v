(* CrashProofs.v — the file image after any prefix of the storage steps of a write or removal
   recovers (scan + recovery on a writable open) to the pre- or the post-operation state. *)
From Coq Require Import ZArith Lia ZifyN ZifyBool ZifyNat.
From Syz Require Import Store Consts ConstsOk ListLemmas VarintProofs CrcBound SpanProofs ScanProofs StoreProofs ReopenProofs.
Open Scope N_scope.

(* ---------- recovery in general: which tiles survive ---------- *)

Definition is_best (all : list tile) (seq : N) (rid : bytes) : bool :=
  match best_seq all rid None with Some b => seq =? b | None => false end.

Definition keeper_rids (all ts : list tile) : list bytes :=
  flat_map (fun t => match t with TA _ seq rid => if is_best all seq rid then [rid] else [] | _ => [] end) ts.

Definition mark (rw : bool) (all : list tile) (t : tile) : tile :=
  match t with
  | TA _ seq rid => if is_best all seq rid then t else supersede rw t
  | _ => t
  end.

Lemma dedup_general rw all : forall ts done,
  NoDup (keeper_rids all ts) -> (forall r, In r done -> ~ In r (keeper_rids all ts)) ->
  dedup_go rw all ts done = map (mark rw all) ts.
Proof.
  induction ts as [|t ts IH]; intros done Hnd Hdone; [reflexivity|].
  destruct t as [img seq rid|len junk|bs|bs]; cbn [dedup_go map mark];
    try (f_equal; apply IH; assumption).
  unfold keeper_rids in Hnd, Hdone. cbn [flat_map] in Hnd, Hdone. fold (keeper_rids all ts) in Hnd, Hdone.
  fold (is_best all seq rid).
  destruct (is_best all seq rid) eqn:Eb; cbn [app] in *.
  - inversion Hnd as [|? ? Hnotin Hnd']; subst.
    rewrite mem_bytes_false.
    2:{ intros H. apply (Hdone rid H). now left. }
    cbn [andb negb]. f_equal. apply IH; [exact Hnd'|].
    intros r [H|H] Hin; [subst; contradiction|]. apply (Hdone r H). now right.
  - cbn [andb]. f_equal. apply IH; assumption.
Qed.

Lemma best_seq_app a b rid m : best_seq (a ++ b) rid m = best_seq b rid (best_seq a rid m).
Proof.
  revert m. induction a as [|t a IH]; intros m; [reflexivity|].
  destruct t as [img seq r|len junk|bs|bs]; cbn [app best_seq]; apply IH.
Qed.

(* ---------- the zero region of an interrupted growth ---------- *)

Lemma stamp_tail_app ts last : Forall wf_tile ts -> stamp_tail (ts ++ [last]) = ts ++ stamp_tail [last].
Proof.
  intros H. induction H as [|t ts Ht _ IH]; [reflexivity|].
  cbn [app]. destruct ts as [|t2 ts2].
  - cbn [app] in *. destruct Ht; reflexivity.
  - cbn [app] in *. destruct Ht; cbn [stamp_tail]; f_equal; exact IH.
Qed.

Lemma skipn8_zeros n : 8 <= n -> blen (skipn 8 (nzeros n)) = n - 8.
Proof. intros H. rewrite blen_skipn8; rewrite blen_nzeros; lia. Qed.

Lemma stamp_zeros n : 15 <= n -> n < 4294967296 ->
  stamp_tail [TZ (nzeros n)] = [TF n (skipn 8 (nzeros n))].
Proof.
  intros H15 Hlt. cbn [stamp_tail]. rewrite blen_nzeros, minSpanLength_ok.
  destruct (N.leb_spec 15 n); [|lia].
  assert (Hr : rd32 (nzeros n) = Some 0).
  { unfold nzeros. replace (N.to_nat n) with (S (S (S (S (N.to_nat n - 4))))) by lia. reflexivity. }
  rewrite Hr. cbn [andb]. rewrite N.mod_small by exact Hlt. reflexivity.
Qed.

Lemma max_seq_app_free l bs : forall m, max_seq (l ++ [TZ bs]) m = max_seq l m.
Proof.
  induction l as [|t l IH]; intros m; [reflexivity|].
  destruct t; cbn [app max_seq]; apply IH.
Qed.

(* state recovered from the image left after the growth step: the old tiles plus one FREE span *)
Theorem recover_after_growth s exp : Inv s -> 15 <= exp -> tiles_len (tiles s) + exp < 4294967296 ->
  exists s', open_image true (flatten (tiles s ++ [TZ (nzeros exp)])) = Ok s'
             /\ tiles s' = tiles s ++ [TF exp (skipn 8 (nzeros exp))]
             /\ Inv s' /\ abs (tiles s') = abs (tiles s).
Proof.
  intros [Hwf Hnd Hseq Hne Hsz [Hpos Hlt]] H15 Hfit.
  set (tf := TF exp (skipn 8 (nzeros exp))).
  assert (Hwtf : wf_tile tf).
  { constructor; [rewrite skipn8_zeros; lia|exact H15|lia]. }
  assert (Hflat : flatten (tiles s ++ [TZ (nzeros exp)]) = flatten (tiles s) ++ nzeros exp).
  { unfold flatten. rewrite flat_map_app. cbn [flat_map timg]. now rewrite app_nil_r. }
  assert (Hm : (max_seq (tiles s ++ [TZ (nzeros exp)]) 0 + 1) mod 4294967296 = max_seq (tiles s) 0 + 1).
  { assert (E : max_seq (tiles s ++ [TZ (nzeros exp)]) 0 = max_seq (tiles s) 0).
    { apply max_seq_app_free. }
    rewrite E. apply N.mod_small. pose proof (max_seq_bound _ _ Hseq 0 Hpos). lia. }
  exists {| tiles := tiles s ++ [tf]; nseq := max_seq (tiles s) 0 + 1 |}.
  split; [|split; [reflexivity|split]].
  - unfold open_image. rewrite Hflat.
    assert (Hfw : rd32 (flatten (tiles s) ++ nzeros exp) = Some activeMagic \/ rd32 (flatten (tiles s) ++ nzeros exp) = Some freeMagic).
    { destruct Hwf as [|t ts Ht _]; [contradiction|]. unfold flatten. cbn [flat_map]. rewrite <- app_assoc.
      destruct Ht as [seq rid ss pad Hs Hp|len junk Hl H15' Hlt'].
      - left. cbn [timg]. apply ta_img_magic.
      - right. cbn [timg]. rewrite <- !app_assoc. apply rd32_be32. destruct magic_ok as [_ ->]. lia. }
    assert (Hscan : scan (flatten (tiles s) ++ nzeros exp) = Ok (tiles s ++ [TZ (nzeros exp)])).
    { apply scan_flatten_zeros; [exact Hwf|lia]. }
    assert (Hrec : recover true (tiles s ++ [TZ (nzeros exp)]) = tiles s ++ [tf]).
    { unfold recover.
      assert (Hnd2 : NoDup (active_rids (tiles s ++ [TZ (nzeros exp)]))).
      { rewrite active_rids_app. cbn. now rewrite app_nil_r. }
      pose proof (dedup_clean true (tiles s ++ [TZ (nzeros exp)]) [] [] Hnd2 (fun r (H : In r []) => match H with end)) as Hd.
      cbn [app] in Hd. rewrite Hd. rewrite stamp_tail_app by exact Hwf. rewrite stamp_zeros by lia. reflexivity. }
    destruct Hfw as [-> | ->].
    + rewrite N.eqb_refl. cbn [orb negb]. rewrite Hscan. cbn [bind]. now rewrite Hrec, Hm.
    + rewrite N.eqb_refl, orb_true_r. cbn [negb]. rewrite Hscan. cbn [bind]. now rewrite Hrec, Hm.
  - constructor; cbn [tiles nseq].
    + apply Forall_app. split; [exact Hwf|]. constructor; [exact Hwtf|constructor].
    + rewrite active_rids_app. cbn. now rewrite app_nil_r.
    + apply Forall_app. split; [apply max_seq_above|]. constructor; [exact I|constructor].
    + destruct (tiles s); discriminate.
    + rewrite tiles_len_app, tiles_len_cons, tiles_len_nil. unfold tf. cbn [tlen]. rewrite skipn8_zeros by lia. lia.
    + pose proof (max_seq_bound _ _ Hseq 0 Hpos). lia.
  - cbn [tiles]. rewrite abs_app. cbn. now rewrite app_nil_r.
Qed.

(* ---------- the image after the new span is written and before the old one is freed ---------- *)

Lemma best_seq_top l r n : Forall (seq_below n) l -> best_seq l r (Some n) = Some n.
Proof.
  intros H. induction H as [|t l Ht _ IH]; [reflexivity|].
  destruct t as [img seq r'|len junk|bs|bs]; cbn [best_seq]; try exact IH.
  destruct (bytes_eqb r' r); [|exact IH]. cbn [seq_below] in Ht.
  replace (N.max n seq) with n by lia. exact IH.
Qed.

Lemma best_seq_below l r n : Forall (seq_below n) l -> forall m,
  (m = None \/ exists x, m = Some x /\ x < n) ->
  best_seq l r m = None \/ exists x, best_seq l r m = Some x /\ x < n.
Proof.
  intros H. induction H as [|t l Ht _ IH]; intros m Hm; [exact Hm|].
  destruct t as [img seq r'|len junk|bs|bs]; cbn [best_seq]; try (apply IH; exact Hm).
  apply IH. destruct (bytes_eqb r' r); [|exact Hm]. cbn [seq_below] in Ht. right.
  destruct Hm as [->|(x & -> & Hx)]; [exists seq; split; [reflexivity|exact Ht]|].
  exists (N.max x seq). split; [reflexivity|lia].
Qed.

Lemma map_mark_free_tiles rw all l : all_free l -> map (mark rw all) l = l.
Proof.
  intros H. induction H as [|t l Ht _ IH]; [reflexivity|]. cbn [map]. rewrite IH. f_equal.
  destruct t; cbn in Ht; try discriminate; reflexivity.
Qed.

Lemma keeper_free_tiles all l : all_free l -> keeper_rids all l = [].
Proof.
  intros H. unfold keeper_rids. induction H as [|t l Ht _ IH]; [reflexivity|]. cbn [flat_map]. rewrite IH.
  destruct t; cbn in Ht; try discriminate; reflexivity.
Qed.

Section AfterWrite.
Variables (pre placed_rest post : list tile) (img : bytes) (n : N) (rid : bytes).
Let placed := TA img n rid :: placed_rest.
Let all := pre ++ placed ++ post.
Hypothesis Hfree : all_free placed_rest.
Hypothesis Hnd : NoDup (active_rids pre ++ active_rids post).
Hypothesis Hspre : Forall (seq_below n) pre.
Hypothesis Hspost : Forall (seq_below n) post.

Lemma best_rid : best_seq all rid None = Some n.
Proof.
  unfold all, placed. rewrite !best_seq_app. cbn [best_seq]. rewrite bytes_eqb_refl.
  destruct (free_tiles_no_active placed_rest Hfree) as [Hr _].
  rewrite (best_seq_notin placed_rest) by (rewrite Hr; intros []).
  destruct (best_seq_below pre rid n Hspre None (or_introl eq_refl)) as [->|(x & -> & Hx)].
  - now apply best_seq_top.
  - replace (N.max x n) with n by lia. now apply best_seq_top.
Qed.

Lemma is_best_placed : is_best all n rid = true.
Proof. unfold is_best. rewrite best_rid. apply N.eqb_refl. Qed.

Lemma rids_all : active_rids all = active_rids pre ++ rid :: active_rids post.
Proof.
  unfold all, placed. rewrite !active_rids_app. unfold active_rids at 2. cbn [flat_map tile_rid app].
  fold (active_rids placed_rest). destruct (free_tiles_no_active placed_rest Hfree) as [-> _]. reflexivity.
Qed.

Lemma is_best_other a b img' seq r :
  all = a ++ TA img' seq r :: b -> ~ In r (active_rids a) -> ~ In r (active_rids b) -> is_best all seq r = true.
Proof.
  intros E Ha Hb. unfold is_best. rewrite E, best_seq_unique by assumption. apply N.eqb_refl.
Qed.

Lemma mark_pre t : In t pre ->
  mark true all t = match t with TA _ _ r => if bytes_eqb r rid then freed t else t | _ => t end.
Proof.
  intros Hin. destruct t as [img' seq r|len junk|bs|bs]; try reflexivity.
  cbn [mark]. destruct (in_split _ _ Hin) as (a & b & Hp).
  assert (Hsb : seq < n).
  { rewrite Forall_forall in Hspre. apply (Hspre _ Hin). }
  destruct (bytes_eqb r rid) eqn:Er.
  - apply bytes_eqb_eq in Er. subst r. unfold is_best. rewrite best_rid.
    destruct (N.eqb_spec seq n); [lia|]. reflexivity.
  - apply bytes_eqb_neq in Er.
    rewrite Hp in Hnd. rewrite active_rids_app in Hnd. unfold active_rids at 2 in Hnd.
    cbn [flat_map tile_rid app] in Hnd. fold (active_rids b) in Hnd. rewrite <- !app_assoc in Hnd. cbn [app] in Hnd.
    pose proof (NoDup_remove_2 _ _ _ Hnd) as Hn2.
    rewrite (is_best_other a (b ++ placed ++ post) img' seq r); [reflexivity| | |].
    + unfold all. rewrite Hp. rewrite <- !app_assoc. reflexivity.
    + intros H. apply Hn2. apply in_or_app. now left.
    + intros H. rewrite !active_rids_app in H. apply in_app_or in H. destruct H as [H|H].
      * apply Hn2. apply in_or_app. right. apply in_or_app. now left.
      * apply in_app_or in H. destruct H as [H|H].
        -- unfold placed, active_rids in H. cbn [flat_map tile_rid app] in H. fold (active_rids placed_rest) in H.
           destruct (free_tiles_no_active placed_rest Hfree) as [Hr0 _]. rewrite Hr0 in H.
           destruct H as [H|[]]. congruence.
        -- apply Hn2. apply in_or_app. right. apply in_or_app. now right.
Qed.

Lemma mark_post t : In t post ->
  mark true all t = match t with TA _ _ r => if bytes_eqb r rid then freed t else t | _ => t end.
Proof.
  intros Hin. destruct t as [img' seq r|len junk|bs|bs]; try reflexivity.
  cbn [mark]. destruct (in_split _ _ Hin) as (a & b & Hp).
  assert (Hsb : seq < n).
  { rewrite Forall_forall in Hspost. apply (Hspost _ Hin). }
  destruct (bytes_eqb r rid) eqn:Er.
  - apply bytes_eqb_eq in Er. subst r. unfold is_best. rewrite best_rid.
    destruct (N.eqb_spec seq n); [lia|]. reflexivity.
  - apply bytes_eqb_neq in Er.
    rewrite Hp in Hnd. rewrite active_rids_app in Hnd. unfold active_rids at 3 in Hnd.
    cbn [flat_map tile_rid app] in Hnd. fold (active_rids b) in Hnd. rewrite app_assoc in Hnd.
    pose proof (NoDup_remove_2 _ _ _ Hnd) as Hn2.
    rewrite (is_best_other (pre ++ placed ++ a) b img' seq r); [reflexivity| | |].
    + unfold all. rewrite Hp. rewrite <- !app_assoc. reflexivity.
    + intros H. rewrite !active_rids_app in H. apply in_app_or in H. destruct H as [H|H].
      * apply Hn2. apply in_or_app. left. apply in_or_app. now left.
      * apply in_app_or in H. destruct H as [H|H].
        -- unfold placed, active_rids in H. cbn [flat_map tile_rid app] in H. fold (active_rids placed_rest) in H.
           destruct (free_tiles_no_active placed_rest Hfree) as [Hr0 _]. rewrite Hr0 in H.
           destruct H as [H|[]]. congruence.
        -- apply Hn2. apply in_or_app. left. apply in_or_app. now right.
    + intros H. apply Hn2. apply in_or_app. now right.
Qed.

Lemma map_mark_free l : (forall t, In t l ->
    mark true all t = match t with TA _ _ r => if bytes_eqb r rid then freed t else t | _ => t end) ->
  map (mark true all) l = free_rid rid l.
Proof.
  intros H. unfold free_rid. apply map_ext_in. intros t Hin. rewrite (H t Hin).
  destruct t; reflexivity.
Qed.

Lemma mark_free_tile t : is_free t = true -> mark true all t = t.
Proof. destruct t; cbn; congruence. Qed.

Lemma map_mark_all : map (mark true all) all = free_rid rid pre ++ placed ++ free_rid rid post.
Proof.
  unfold all at 2. rewrite !map_app.
  rewrite (map_mark_free pre mark_pre), (map_mark_free post mark_post). f_equal. f_equal.
  unfold placed. cbn [map mark]. rewrite is_best_placed. f_equal.
  now apply map_mark_free_tiles.
Qed.

Lemma keeper_rids_eq l : (forall t, In t l ->
    mark true all t = match t with TA _ _ r => if bytes_eqb r rid then freed t else t | _ => t end) ->
  Forall wf_tile l ->
  keeper_rids all l = filter (other_than rid) (active_rids l).
Proof.
  intros H Hw. unfold keeper_rids, active_rids. induction Hw as [|t l Ht _ IH]; [reflexivity|].
  cbn [flat_map]. rewrite IH by (intros t' Ht'; apply H; now right). rewrite filter_app. f_equal.
  specialize (H t (or_introl eq_refl)).
  destruct Ht as [seq r ss pad Hs Hp|len junk Hl H15 Hlt]; [|reflexivity].
  cbn [tile_rid filter mark] in *. unfold other_than.
  destruct (bytes_eqb r rid) eqn:Er; cbn [negb].
  - destruct (is_best all seq r); [|reflexivity].
    rewrite freed_ta in H by exact Hs. discriminate.
  - destruct (is_best all seq r) eqn:Eb; [reflexivity|].
    cbn [supersede] in H. rewrite freed_ta in H by exact Hs. discriminate.
Qed.

Hypothesis Hwpre : Forall wf_tile pre.
Hypothesis Hwpost : Forall wf_tile post.
Hypothesis Hwplaced : Forall wf_tile placed.

Theorem recover_after_write :
  recover true all = free_rid rid pre ++ placed ++ free_rid rid post.
Proof.
  unfold recover.
  rewrite dedup_general.
  - rewrite map_mark_all. apply stamp_tail_clean.
    apply Forall_app. split; [now apply free_rid_wf|]. apply Forall_app. split; [exact Hwplaced|now apply free_rid_wf].
  - unfold all at 2. unfold keeper_rids. rewrite !flat_map_app.
    fold (keeper_rids all pre) (keeper_rids all placed) (keeper_rids all post).
    rewrite (keeper_rids_eq pre mark_pre Hwpre), (keeper_rids_eq post mark_post Hwpost).
    assert (Hkp : keeper_rids all placed = [rid]).
    { unfold placed, keeper_rids. cbn [flat_map]. rewrite is_best_placed. cbn [app]. f_equal.
      now apply keeper_free_tiles. }
    rewrite Hkp.
    assert (Hf : NoDup (filter (other_than rid) (active_rids pre) ++ filter (other_than rid) (active_rids post))).
    { rewrite <- filter_app. apply NoDup_filter. exact Hnd. }
    cbn [app]. apply (proj2 (NoDup_Add (Add_app rid _ _))).
    split; [exact Hf|rewrite <- filter_app; apply filter_other_in].
  - intros r [].
Qed.
End AfterWrite.

(* ---------- all crash points of WriteRecord and RemoveRecord ---------- *)

Lemma open_wf ts : Forall wf_tile ts -> ts <> [] ->
  open_image true (flatten ts)
  = Ok {| tiles := recover true ts; nseq := (max_seq ts 0 + 1) mod 4294967296 |}.
Proof.
  intros Hw Hne. unfold open_image.
  destruct (first_word _ Hw Hne) as [-> | ->].
  - rewrite N.eqb_refl. cbn [orb negb]. rewrite scan_flatten by exact Hw. reflexivity.
  - rewrite N.eqb_refl, orb_true_r. cbn [negb]. rewrite scan_flatten by exact Hw. reflexivity.
Qed.

Lemma place_shape seq rid ss size rem old : exists img rest,
  place seq rid ss size rem old = TA img seq rid :: rest /\ all_free rest.
Proof.
  unfold place. destruct (rem =? 0); [eexists; eexists; split; [reflexivity|constructor]|].
  destruct (rem <? minSpanLength); [eexists; eexists; split; [reflexivity|constructor]|].
  eexists; eexists; split; [reflexivity|]. constructor; [reflexivity|constructor].
Qed.

Definition same_as (s_r s : sf) : Prop := forall r, slookup (abs (tiles s_r)) r = slookup (abs (tiles s)) r.
Definition written (s_r s : sf) (rid : bytes) (ss : list stream) : Prop :=
  forall r, slookup (abs (tiles s_r)) r = if bytes_eqb rid r then Some ss else slookup (abs (tiles s)) r.

(* recovery from the image after the new span has been written (with or without the old one freed) *)
Lemma recover_post_state s pre placed post rid ss stage :
  Forall wf_tile pre -> Forall wf_tile post -> NoDup (active_rids pre ++ active_rids post) ->
  Forall (seq_below (nseq s)) pre -> Forall (seq_below (nseq s)) post ->
  (exists img rest, placed = TA img (nseq s) rid :: rest /\ all_free rest) ->
  Forall wf_tile placed -> active_rids placed = [rid] -> abs placed = [(rid, ss)] ->
  Forall (seq_below (nseq s + 1)) placed ->
  nseq s + 1 < 4294967296 ->
  tiles_len pre + tiles_len placed + tiles_len post < 4294967296 ->
  (forall r, slookup (abs pre ++ abs post) r = slookup (abs (tiles s)) r) ->
  stage = pre ++ placed ++ post \/ stage = free_rid rid pre ++ placed ++ free_rid rid post ->
  exists s_r, open_image true (flatten stage) = Ok s_r /\ Inv s_r /\ written s_r s rid ss.
Proof.
  intros Hwpre Hwpost Hnd Hspre Hspost (img & rest & Hpl & Hfree) Hwpl Hrp Hap Hspl Hn Hsz Habs Hstage.
  pose proof (install_spec pre placed post rid ss (nseq s) Hwpre Hwpost Hnd Hwpl Hrp Hap Hspre Hspost Hspl) as I.
  cbn zeta in I. destruct I as (I1 & I2 & I3 & I4 & I5).
  set (final := free_rid rid pre ++ placed ++ free_rid rid post) in *.
  assert (Hrec : recover true stage = final).
  { destruct Hstage as [-> | ->].
    - unfold final. rewrite Hpl.
      apply recover_after_write; try assumption. rewrite <- Hpl. exact Hwpl.
    - apply recover_clean; assumption. }
  assert (Hwstage : Forall wf_tile stage).
  { destruct Hstage as [-> | ->]; [|exact I1].
    apply Forall_app. split; [exact Hwpre|]. apply Forall_app. split; assumption. }
  assert (Hne : stage <> []).
  { destruct Hstage as [-> | ->]; unfold final; rewrite Hpl; intros E; apply app_eq_nil in E; destruct E as [_ E]; discriminate. }
  assert (Hsstage : Forall (seq_below (nseq s + 1)) stage).
  { destruct Hstage as [-> | ->]; [|exact I3].
    assert (Hmono : forall t, seq_below (nseq s) t -> seq_below (nseq s + 1) t).
    { intros [i q r'| | |]; cbn; try tauto. lia. }
    apply Forall_app. split; [eapply Forall_impl; [apply Hmono|exact Hspre]|].
    apply Forall_app. split; [exact Hspl|eapply Forall_impl; [apply Hmono|exact Hspost]]. }
  assert (Hmax : max_seq stage 0 < nseq s + 1) by (apply max_seq_bound; [exact Hsstage|lia]).
  rewrite open_wf by assumption. rewrite Hrec.
  rewrite N.mod_small by lia.
  eexists. split; [reflexivity|]. split.
  - constructor; cbn [tiles nseq].
    + exact I1.
    + exact I2.
    + (* every active tile of final is an active tile of stage *)
      assert (Hsub : Forall (seq_below (max_seq stage 0 + 1)) stage) by apply max_seq_above.
      destruct Hstage as [-> | ->]; [|exact Hsub].
      apply Forall_app in Hsub. destruct Hsub as [H1 H2]. apply Forall_app in H2. destruct H2 as [H2 H3].
      apply Forall_app. split; [now apply free_rid_seq|]. apply Forall_app. split; [exact H2|now apply free_rid_seq].
    + unfold final. rewrite Hpl. intros E. apply app_eq_nil in E. destruct E as [_ E]. discriminate.
    + rewrite I5. exact Hsz.
    + lia.
  - intros r. cbn [tiles]. rewrite I4, Habs. reflexivity.
Qed.

Theorem crash_write s rid ss exp st : Inv s -> fits s rid ss exp ->
  write_stages (tiles s) (nseq s) rid ss exp = Some st ->
  forall stage, In stage (map snd st) ->
  exists s_r, open_image true (flatten stage) = Ok s_r /\ Inv s_r
              /\ (same_as s_r s \/ written s_r s rid ss).
Proof.
  intros HI Hfit Hst stage Hin.
  pose proof HI as [Hwf Hnd Hseq Hne Hsz [Hpos Hlt]].
  pose proof (fits_wf_span _ _ _ _ Hfit) as Hspan.
  destruct Hfit as (F1 & F2 & F3 & F4 & F5 & F6).
  unfold write_stages in Hst.
  set (size := span_size (nseq s) rid ss) in *.
  destruct (find_run (tiles s) [] [] 0 size) as [[[pre run] post]|] eqn:Ef.
  - apply find_run_some in Ef; [|constructor|reflexivity].
    destruct Ef as (Hsplit & Hfree & Hfit1 & Hpos1). cbn [rev app] in Hsplit.
    rewrite Hsplit in Hwf, Hnd, Hseq, Hsz.
    apply Forall_app in Hwf. destruct Hwf as [Hwpre Hwf]. apply Forall_app in Hwf. destruct Hwf as [Hwrun Hwpost].
    apply Forall_app in Hseq. destruct Hseq as [Hspre Hseq]. apply Forall_app in Hseq. destruct Hseq as [_ Hspost].
    destruct (free_tiles_no_active run Hfree) as [Hr0 Ha0].
    rewrite !active_rids_app, Hr0 in Hnd. cbn [app] in Hnd.
    rewrite !tiles_len_app in Hsz.
    pose proof (place_spec (nseq s) rid ss (tiles_len run) (flatten run) Hspan Hfit1 ltac:(lia) (blen_flatten run)) as P.
    cbn zeta in P. fold size in P. destruct P as (P1 & P2 & P3 & P4 & P5).
    set (placed := place (nseq s) rid ss size (tiles_len run - size) (flatten run)) in *.
    destruct (recover_post_state s pre placed post rid ss stage) as (s_r & Ho & Hi & Hw); try assumption.
    + apply place_shape.
    + rewrite P4. lia.
    + intros r. rewrite Hsplit, !abs_app, Ha0. reflexivity.
    + inversion Hst; subst st. cbn [map snd] in Hin. destruct Hin as [<-|Hin]; [now left|].
      destruct (lookup (index_of (tiles s)) rid); cbn [map snd] in Hin; [|destruct Hin].
      destruct Hin as [<-|[]]. now right.
    + exists s_r. split; [exact Ho|]. split; [exact Hi|]. now right.
  - destruct (N.ltb_spec exp size) as [Hlt'|Hge]; [discriminate|].
    inversion Hst; subst st. cbn [map snd] in Hin.
    destruct Hin as [<-|Hin].
    + (* after the growth step *)
      destruct (recover_after_growth s exp HI) as (s_r & Ho & Ht & Hi & Ha).
      * pose proof (img_len_ge15 (nseq s) rid ss 0). unfold img_len in *. fold size in H. lia.
      * lia.
      * exists s_r. split; [exact Ho|]. split; [exact Hi|]. left. intros r. now rewrite Ha.
    + pose proof (place_spec (nseq s) rid ss exp (nzeros exp) Hspan Hge ltac:(lia) (blen_nzeros exp)) as P.
      cbn zeta in P. fold size in P. destruct P as (P1 & P2 & P3 & P4 & P5).
      set (placed := place (nseq s) rid ss size (exp - size) (nzeros exp)) in *.
      destruct (recover_post_state s (tiles s) placed [] rid ss stage) as (s_r & Ho & Hi & Hw); try assumption.
      * constructor.
      * cbn [active_rids flat_map]. now rewrite app_nil_r.
      * constructor.
      * apply place_shape.
      * rewrite P4. rewrite tiles_len_nil. lia.
      * intros r. cbn [abs flat_map]. now rewrite app_nil_r.
      * change (free_rid rid []) with (@nil tile). rewrite !app_nil_r.
        destruct Hin as [<-|Hin]; [now left|].
        destruct (lookup (index_of (tiles s)) rid); cbn [map snd] in Hin; [|destruct Hin].
        destruct Hin as [<-|[]]. right. now rewrite app_nil_r.
      * exists s_r. split; [exact Ho|]. split; [exact Hi|]. now right.
Qed.

(* removal has a single storage step: the image after it is the post-state, the image before it the pre-state *)
Theorem crash_remove s rid steps s' : Inv s -> remove_record s rid = Ok (steps, s') ->
  (exists s_r, open_image true (flatten (tiles s)) = Ok s_r /\ Inv s_r /\ same_as s_r s)
  /\ (exists s_r, open_image true (flatten (tiles s')) = Ok s_r /\ Inv s_r /\ same_as s_r s').
Proof.
  intros HI Hr. pose proof (remove_refines s rid HI) as R. rewrite Hr in R.
  destruct R as (_ & HI' & _).
  split.
  - destruct (reopen_clean true s HI) as (s_r & Ho & Ht & _ & Hi). exists s_r.
    split; [exact Ho|]. split; [exact Hi|]. intros r. now rewrite Ht.
  - destruct (reopen_clean true s' HI') as (s_r & Ho & Ht & _ & Hi). exists s_r.
    split; [exact Ho|]. split; [exact Hi|]. intros r. now rewrite Ht.
Qed.
