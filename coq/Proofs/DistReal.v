(* DistReal.v — the ideal (real-number) distance functions that the binary64 code approximates obey the metric laws.
   The rounding error between these and Dist.v's float functions is NOT bounded here (DESIGN, C06: partial). *)
From Coq Require Import Reals List Lra.
Import ListNotations.
Open Scope R_scope.

Fixpoint dotR (a b : list R) : R :=
  match a, b with x :: a', y :: b' => x * y + dotR a' b' | _, _ => 0 end.
Fixpoint sqdR (a b : list R) : R :=
  match a, b with x :: a', y :: b' => (x - y) * (x - y) + sqdR a' b' | _, _ => 0 end.
Definition euclidR (a b : list R) : R := sqrt (sqdR a b).
Definition normR (a : list R) : R := sqrt (dotR a a).
Definition cosineR (a b : list R) : R := dotR a b / (normR a * normR b).
Definition scaleR (k : R) (a : list R) : list R := map (Rmult k) a.

Lemma sqdR_nonneg : forall a b, 0 <= sqdR a b.
Proof.
  induction a as [|x a IH]; intros [|y b]; cbn [sqdR]; try lra. specialize (IH b).
  pose proof (Rle_0_sqr (x - y)) as H. unfold Rsqr in H. lra.
Qed.

Lemma dotR_self_nonneg : forall a, 0 <= dotR a a.
Proof. induction a as [|x a IH]; cbn [dotR]; [lra|]. pose proof (Rle_0_sqr x) as H. unfold Rsqr in H. lra. Qed.

Lemma sqdR_sym : forall a b, sqdR a b = sqdR b a.
Proof. induction a as [|x a IH]; intros [|y b]; cbn [sqdR]; try reflexivity. rewrite (IH b). ring. Qed.

Lemma dotR_sym : forall a b, dotR a b = dotR b a.
Proof. induction a as [|x a IH]; intros [|y b]; cbn [dotR]; try reflexivity. rewrite (IH b). ring. Qed.

Lemma sqdR_self : forall a, sqdR a a = 0.
Proof. induction a as [|x a IH]; cbn [sqdR]; [reflexivity|]. rewrite IH. ring. Qed.

(* the one arithmetic step of Cauchy-Schwarz *)
Lemma sq_lt : forall u t, 0 <= u -> u < t -> u * u < t * t.
Proof. intros u t H0 H1. apply Rmult_le_0_lt_compat; lra. Qed.

Lemma sq_le_abs : forall p m, 0 <= m -> p * p <= m * m -> - m <= p <= m.
Proof.
  intros p m Hm H. split; apply Rnot_lt_le; intro Hc.
  - pose proof (sq_lt m (- p) Hm ltac:(lra)) as H1. replace (- p * - p) with (p * p) in H1 by ring. lra.
  - pose proof (sq_lt m p Hm Hc). lra.
Qed.

Lemma cs_step : forall x y p A B, 0 <= A -> 0 <= B -> p * p <= A * B -> 2 * x * y * p <= x * x * B + y * y * A.
Proof.
  intros x y p A B HA HB Hp. destruct (Rle_or_lt (2 * x * y * p) (x * x * B + y * y * A)) as [H|H]; [exact H|exfalso].
  pose proof (Rle_0_sqr x) as Hx. pose proof (Rle_0_sqr y) as Hy. unfold Rsqr in Hx, Hy.
  assert (H0 : 0 <= x * x * B + y * y * A) by (apply Rplus_le_le_0_compat; apply Rmult_le_pos; assumption).
  pose proof (sq_lt _ _ H0 H) as H1.
  pose proof (Rle_0_sqr (x * x * B - y * y * A)) as H2. unfold Rsqr in H2.
  assert (H3 : 0 <= ((x * y) * (x * y)) * (A * B - p * p)).
  { apply Rmult_le_pos; [|lra]. pose proof (Rle_0_sqr (x * y)) as Hxy. unfold Rsqr in Hxy. exact Hxy. }
  assert (E : (x * x * B + y * y * A) * (x * x * B + y * y * A) - (2 * x * y * p) * (2 * x * y * p)
              = (x * x * B - y * y * A) * (x * x * B - y * y * A) + 4 * (((x * y) * (x * y)) * (A * B - p * p))) by ring.
  lra.
Qed.

Lemma cs_combine : forall X Y p A B, p * p <= A * B -> 2 * X * Y * p <= X * X * B + Y * Y * A ->
  (X * Y + p) * (X * Y + p) <= (X * X + A) * (Y * Y + B).
Proof.
  intros X Y p A B H1 H2.
  assert (E : (X * X + A) * (Y * Y + B) - (X * Y + p) * (X * Y + p) = (X * X * B + Y * Y * A - 2 * X * Y * p) + (A * B - p * p)) by ring.
  lra.
Qed.

(* Cauchy-Schwarz *)
Theorem cauchy_schwarz : forall a b, dotR a b * dotR a b <= dotR a a * dotR b b.
Proof.
  induction a as [|x a IH]; intros [|y b]; cbn [dotR]; try lra.
  specialize (IH b). pose proof (dotR_self_nonneg a) as HA. pose proof (dotR_self_nonneg b) as HB.
    apply cs_combine; [exact IH|]. apply cs_step; assumption.
Qed.

(* the cross term of (a-b) and (b-c) *)
Fixpoint crossR (a b c : list R) : R :=
  match a, b, c with x :: a', y :: b', z :: c' => (x - y) * (y - z) + crossR a' b' c' | _, _, _ => 0 end.

Lemma cross_facts : forall a b c, length a = length b -> length b = length c ->
  crossR a b c * crossR a b c <= sqdR a b * sqdR b c /\ sqdR a c = sqdR a b + 2 * crossR a b c + sqdR b c.
Proof.
  induction a as [|x a IH]; intros [|y b] [|z c] Hab Hbc; cbn [length] in *; try discriminate; cbn [crossR sqdR].
  - split; lra.
  - destruct (IH b c) as [H1 H2]; [congruence|congruence|]. split; [|rewrite H2; ring].
    pose proof (sqdR_nonneg a b) as HA. pose proof (sqdR_nonneg b c) as HB.
    apply cs_combine; [exact H1|]. apply cs_step; assumption.
Qed.

(* Minkowski: the Euclidean distance obeys the triangle inequality *)
Theorem euclidR_triangle : forall a b c, length a = length b -> length b = length c ->
  euclidR a c <= euclidR a b + euclidR b c.
Proof.
  intros a b c Hab Hbc. unfold euclidR. destruct (cross_facts a b c Hab Hbc) as [H1 H2].
  pose proof (sqdR_nonneg a b) as HA. pose proof (sqdR_nonneg b c) as HB. pose proof (sqdR_nonneg a c) as HC.
  set (A := sqdR a b) in *. set (B := sqdR b c) in *. set (p := crossR a b c) in *.
  pose proof (sqrt_pos A) as HsA. pose proof (sqrt_pos B) as HsB.
  pose proof (sqrt_sqrt A HA) as HqA. pose proof (sqrt_sqrt B HB) as HqB.
  assert (Hm : (sqrt A * sqrt B) * (sqrt A * sqrt B) = A * B).
  { replace ((sqrt A * sqrt B) * (sqrt A * sqrt B)) with ((sqrt A * sqrt A) * (sqrt B * sqrt B)) by ring. now rewrite HqA, HqB. }
  assert (Hp : p <= sqrt A * sqrt B).
  { apply (sq_le_abs p (sqrt A * sqrt B)); [apply Rmult_le_pos; assumption|lra]. }
  rewrite <- (sqrt_square (sqrt A + sqrt B)) by lra. apply sqrt_le_1; [exact HC| |].
  - pose proof (Rle_0_sqr (sqrt A + sqrt B)) as Hq. unfold Rsqr in Hq. exact Hq.
  - rewrite H2. replace ((sqrt A + sqrt B) * (sqrt A + sqrt B)) with (sqrt A * sqrt A + 2 * (sqrt A * sqrt B) + sqrt B * sqrt B) by ring. lra.
Qed.

Theorem euclidR_sym : forall a b, euclidR a b = euclidR b a.
Proof. intros. unfold euclidR. now rewrite sqdR_sym. Qed.

Theorem euclidR_self : forall a, euclidR a a = 0.
Proof. intros. unfold euclidR. rewrite sqdR_self. apply sqrt_0. Qed.

Theorem euclidR_nonneg : forall a b, 0 <= euclidR a b.
Proof. intros. apply sqrt_pos. Qed.

(* the cosine of two non-zero vectors lies in [-1, 1]: in exact arithmetic the clamp before acos is the identity *)
Theorem cosineR_range : forall a b, 0 < dotR a a -> 0 < dotR b b -> -1 <= cosineR a b <= 1.
Proof.
  intros a b Ha Hb. unfold cosineR, normR.
  pose proof (sqrt_lt_R0 _ Ha) as Hsa. pose proof (sqrt_lt_R0 _ Hb) as Hsb.
  pose proof (sqrt_sqrt _ (Rlt_le _ _ Ha)) as Hqa. pose proof (sqrt_sqrt _ (Rlt_le _ _ Hb)) as Hqb.
  pose proof (cauchy_schwarz a b) as CS.
  set (sa := sqrt (dotR a a)) in *. set (sb := sqrt (dotR b b)) in *. set (p := dotR a b) in *.
  assert (Hm : 0 < sa * sb) by (apply Rmult_lt_0_compat; assumption).
  assert (Hpp : p * p <= (sa * sb) * (sa * sb)).
  { replace ((sa * sb) * (sa * sb)) with ((sa * sa) * (sb * sb)) by ring. rewrite Hqa, Hqb. exact CS. }
  assert (Hab : - (sa * sb) <= p <= sa * sb) by (apply sq_le_abs; lra).
  split.
  - apply Rmult_le_reg_r with (sa * sb); [exact Hm|]. unfold Rdiv. rewrite Rmult_assoc, Rinv_l by lra. lra.
  - apply Rmult_le_reg_r with (sa * sb); [exact Hm|]. unfold Rdiv. rewrite Rmult_assoc, Rinv_l by lra. lra.
Qed.

Lemma dotR_scale_l : forall k a b, dotR (scaleR k a) b = k * dotR a b.
Proof. intros k. induction a as [|x a IH]; intros [|y b]; cbn [scaleR map dotR]; try ring. fold (scaleR k a). rewrite IH. ring. Qed.

Lemma dotR_scale_self : forall k a, dotR (scaleR k a) (scaleR k a) = k * k * dotR a a.
Proof. intros. rewrite dotR_scale_l, dotR_sym, dotR_scale_l. ring. Qed.

Lemma normR_scale : forall k a, 0 < k -> normR (scaleR k a) = k * normR a.
Proof.
  intros k a Hk. unfold normR. rewrite dotR_scale_self. rewrite sqrt_mult_alt by (pose proof (Rle_0_sqr k) as Hkk; unfold Rsqr in Hkk; exact Hkk).
  rewrite sqrt_square by lra. reflexivity.
Qed.

(* unchanged by positive scaling of either argument *)
Theorem cosineR_scale_l : forall k a b, 0 < k -> 0 < dotR a a -> 0 < dotR b b -> cosineR (scaleR k a) b = cosineR a b.
Proof.
  intros k a b Hk Ha Hb. unfold cosineR. rewrite dotR_scale_l, normR_scale by exact Hk.
  pose proof (sqrt_lt_R0 _ Ha). pose proof (sqrt_lt_R0 _ Hb). unfold normR. field. lra.
Qed.

Theorem cosineR_sym : forall a b, cosineR a b = cosineR b a.
Proof. intros. unfold cosineR. rewrite dotR_sym. f_equal. ring. Qed.

Theorem cosineR_scale_r : forall k a b, 0 < k -> 0 < dotR a a -> 0 < dotR b b -> cosineR a (scaleR k b) = cosineR a b.
Proof. intros. rewrite cosineR_sym, cosineR_scale_l by assumption. apply cosineR_sym. Qed.

(* a vector against itself has cosine 1, against its opposite cosine -1 *)
Theorem cosineR_self : forall a, 0 < dotR a a -> cosineR a a = 1.
Proof.
  intros a Ha. unfold cosineR, normR. rewrite sqrt_sqrt by lra. field. lra.
Qed.

Theorem cosineR_opposite : forall a, 0 < dotR a a -> cosineR a (scaleR (-1) a) = -1.
Proof.
  intros a Ha. unfold cosineR, normR. rewrite dotR_scale_self, (dotR_sym a), dotR_scale_l.
  replace (-1 * -1 * dotR a a) with (dotR a a) by ring. rewrite sqrt_sqrt by lra. field. lra.
Qed.

(* with the real arc cosine: distance acos(c)/PI is 0 for a vector against itself, 1 against its opposite, in [0,1] always *)
Definition angularR (a b : list R) : R := acos (cosineR a b) / PI.

Theorem angularR_range : forall a b, 0 < dotR a a -> 0 < dotR b b -> 0 <= angularR a b <= 1.
Proof.
  intros a b Ha Hb. unfold angularR. pose proof (cosineR_range a b Ha Hb) as Hc.
  pose proof (acos_bound (cosineR a b)) as Hb'. pose proof PI_RGT_0 as Hpi. split.
  - apply Rmult_le_reg_r with PI; [lra|]. unfold Rdiv. rewrite Rmult_assoc, Rinv_l by lra. lra.
  - apply Rmult_le_reg_r with PI; [lra|]. unfold Rdiv. rewrite Rmult_assoc, Rinv_l by lra. lra.
Qed.

Theorem angularR_self : forall a, 0 < dotR a a -> angularR a a = 0.
Proof. intros a Ha. unfold angularR. rewrite cosineR_self by exact Ha. rewrite acos_1. unfold Rdiv. ring. Qed.

Theorem angularR_opposite : forall a, 0 < dotR a a -> angularR a (scaleR (-1) a) = 1.
Proof.
  intros a Ha. unfold angularR. rewrite cosineR_opposite by exact Ha.
  assert (E : acos (-1) = PI) by (replace (-1) with (Ropp 1) by lra; rewrite acos_opp, acos_1; ring).
  rewrite E. pose proof PI_RGT_0. field. lra.
Qed.

