(* StoreProofs.v — the span file refines a finite map from record ids to streams. *)
From Coq Require Import ZArith Lia ZifyN ZifyBool ZifyNat.
From Syz Require Import Store Consts ConstsOk ListLemmas VarintProofs CrcBound SpanProofs ScanProofs.
Open Scope N_scope.
Ltac Zify.zify_post_hook ::= Z.div_mod_to_equations.

(* ---------- abstraction ---------- *)

Definition smap := list (bytes * list stream).

Fixpoint slookup (m : smap) (rid : bytes) : option (list stream) :=
  match m with
  | [] => None
  | (r, ss) :: rest => if bytes_eqb r rid then Some ss else slookup rest rid
  end.

Definition tile_rid (t : tile) : list bytes :=
  match t with TA _ _ rid => [rid] | _ => [] end.
Definition active_rids (ts : list tile) : list bytes := flat_map tile_rid ts.

Definition tile_entry (t : tile) : smap :=
  match t with
  | TA img _ rid => match parse_span img with Ok sp => [(rid, sp_streams sp)] | _ => [] end
  | _ => []
  end.
Definition abs (ts : list tile) : smap := flat_map tile_entry ts.

Definition seq_below (n : N) (t : tile) : Prop :=
  match t with TA _ seq _ => seq < n | _ => True end.

Record Inv (s : sf) : Prop := {
  inv_wf : Forall wf_tile (tiles s);
  inv_nodup : NoDup (active_rids (tiles s));
  inv_seq : Forall (seq_below (nseq s)) (tiles s);
  inv_nonempty : tiles s <> [];
  inv_size : tiles_len (tiles s) < 4294967296;
  inv_nseq : 0 < nseq s /\ nseq s < 4294967296 }.

(* ---------- generic list facts ---------- *)

Lemma bytes_eqb_sym a b : bytes_eqb a b = bytes_eqb b a.
Proof.
  destruct (bytes_eqb a b) eqn:E1, (bytes_eqb b a) eqn:E2; try reflexivity.
  - apply bytes_eqb_eq in E1. subst. now rewrite bytes_eqb_refl in E2.
  - apply bytes_eqb_eq in E2. subst. now rewrite bytes_eqb_refl in E1.
Qed.

Lemma bytes_eqb_neq a b : bytes_eqb a b = false <-> a <> b.
Proof.
  split.
  - intros H E. subst. now rewrite bytes_eqb_refl in H.
  - intros H. destruct (bytes_eqb a b) eqn:E; [|reflexivity]. apply bytes_eqb_eq in E. contradiction.
Qed.

Lemma tiles_len_cons t a : tiles_len (t :: a) = tlen t + tiles_len a.
Proof. reflexivity. Qed.

Lemma tiles_len_nil : tiles_len [] = 0.
Proof. reflexivity. Qed.

Lemma tiles_len_app a b : tiles_len (a ++ b) = tiles_len a + tiles_len b.
Proof.
  induction a as [|t a IH]; [rewrite tiles_len_nil; cbn [app]; lia|].
  cbn [app]. rewrite !tiles_len_cons, IH. lia.
Qed.

Lemma tiles_len_rev a : tiles_len (rev a) = tiles_len a.
Proof.
  induction a as [|t a IH]; [reflexivity|]. cbn [rev]. rewrite tiles_len_app, IH, !tiles_len_cons, tiles_len_nil. lia.
Qed.

Lemma active_rids_app a b : active_rids (a ++ b) = active_rids a ++ active_rids b.
Proof. unfold active_rids. apply flat_map_app. Qed.

Lemma abs_app a b : abs (a ++ b) = abs a ++ abs b.
Proof. unfold abs. apply flat_map_app. Qed.

Lemma slookup_app a b r :
  slookup (a ++ b) r = match slookup a r with Some x => Some x | None => slookup b r end.
Proof.
  induction a as [|[k v] a IH]; [reflexivity|]. cbn [app slookup]. destruct (bytes_eqb k r); [reflexivity|exact IH].
Qed.

Definition other_than (rid : bytes) (r : bytes) : bool := negb (bytes_eqb r rid).

Lemma slookup_filter m rid r :
  slookup (filter (fun e => other_than rid (fst e)) m) r
  = if bytes_eqb rid r then None else slookup m r.
Proof.
  induction m as [|[k v] m IH]; cbn [filter slookup fst].
  - now destruct (bytes_eqb rid r).
  - unfold other_than at 1. destruct (bytes_eqb k rid) eqn:Ek; cbn [negb].
    + apply bytes_eqb_eq in Ek. subst k. rewrite IH. destruct (bytes_eqb rid r); reflexivity.
    + cbn [slookup]. destruct (bytes_eqb k r) eqn:Ekr.
      * apply bytes_eqb_eq in Ekr. subst k. rewrite bytes_eqb_sym, Ek. reflexivity.
      * exact IH.
Qed.

Lemma free_tiles_no_active run : Forall (fun t => is_free t = true) run -> active_rids run = [] /\ abs run = [].
Proof.
  intros H. induction H as [|t run Ht _ [IH1 IH2]]; [split; reflexivity|].
  unfold active_rids, abs in *. cbn [flat_map]. rewrite IH1, IH2.
  destruct t; cbn in Ht; try discriminate; split; reflexivity.
Qed.

(* ---------- entries of well-formed tiles ---------- *)

Lemma parse_ta_img seq rid ss pad : wf_span seq rid ss pad ->
  parse_span (ta_img seq rid ss pad) = Ok {| sp_seq := seq; sp_rid := rid; sp_streams := ss |}.
Proof. intros H. rewrite <- (app_nil_r (ta_img seq rid ss pad)). apply parse_span_img. exact H. Qed.

Lemma entry_ta seq rid ss pad : wf_span seq rid ss pad ->
  tile_entry (TA (ta_img seq rid ss pad) seq rid) = [(rid, ss)].
Proof. intros H. cbn [tile_entry]. now rewrite parse_ta_img. Qed.

(* every entry of a well-formed tile list belongs to an active tile: same keys *)
Lemma abs_keys ts : Forall wf_tile ts -> map fst (abs ts) = active_rids ts.
Proof.
  intros H. induction H as [|t ts Ht _ IH]; [reflexivity|].
  unfold abs, active_rids in *. cbn [flat_map]. rewrite map_app, IH. f_equal.
  destruct Ht as [seq rid ss pad Hs Hp|]; [|reflexivity].
  fold (tile_entry (TA (ta_img seq rid ss pad) seq rid)). now rewrite entry_ta.
Qed.

(* ---------- reading ---------- *)

Definition read_streams (s : sf) (rid : bytes) : res (list stream) :=
  match read_record s rid with Ok sp => Ok (sp_streams sp) | Err => Err | Panic => Panic end.

Lemma find_active_abs ts rid : Forall wf_tile ts ->
  match find_active ts rid with
  | Some (img, rest) => exists seq ss, parse_span (img ++ rest) = Ok {| sp_seq := seq; sp_rid := rid; sp_streams := ss |}
                                       /\ slookup (abs ts) rid = Some ss
  | None => slookup (abs ts) rid = None
  end.
Proof.
  intros H. induction H as [|t ts Ht _ IH]; [reflexivity|].
  destruct Ht as [seq r ss pad Hs Hp|len junk].
  - cbn [find_active]. unfold abs. cbn [flat_map]. fold (abs ts).
    fold (tile_entry (TA (ta_img seq r ss pad) seq r)). rewrite entry_ta by exact Hs.
    cbn [app slookup]. destruct (bytes_eqb r rid) eqn:E.
    + apply bytes_eqb_eq in E. subst r. exists seq, ss. split; [apply parse_span_img; exact Hs|reflexivity].
    + exact IH.
  - cbn [find_active]. exact IH.
Qed.

Theorem read_refines s rid : Forall wf_tile (tiles s) ->
  read_streams s rid = match slookup (abs (tiles s)) rid with Some ss => Ok ss | None => Err end.
Proof.
  intros H. unfold read_streams, read_record.
  pose proof (find_active_abs (tiles s) rid H) as F.
  destruct (find_active (tiles s) rid) as [[img rest]|].
  - destruct F as (seq & ss & Hp & Hl). rewrite Hp, Hl. reflexivity.
  - rewrite F. reflexivity.
Qed.

(* the record read back carries the id it was asked for *)
Theorem read_rid s rid sp : Forall wf_tile (tiles s) -> read_record s rid = Ok sp -> sp_rid sp = rid.
Proof.
  intros H. unfold read_record.
  pose proof (find_active_abs (tiles s) rid H) as F.
  destruct (find_active (tiles s) rid) as [[img rest]|]; [|discriminate].
  destruct F as (seq & ss & Hp & _). rewrite Hp. intros E. inversion E. reflexivity.
Qed.

(* ---------- the index ---------- *)

Lemma lookup_index_none ts rid : forall off,
  lookup (index_from ts off) rid = None <-> ~ In rid (active_rids ts).
Proof.
  induction ts as [|t ts IH]; intros off; cbn [index_from lookup active_rids flat_map].
  - split; [intros _ []|reflexivity].
  - fold (active_rids ts). destruct t as [img seq r|len junk|bs|bs]; cbn [tile_rid app]; try apply IH.
    cbn [lookup]. destruct (bytes_eqb r rid) eqn:E.
    + apply bytes_eqb_eq in E. subst. split; [discriminate|]. intros H. exfalso. apply H. now left.
    + apply bytes_eqb_neq in E. rewrite IH. split.
      * intros H [H1|H1]; [contradiction|contradiction].
      * intros H H1. apply H. now right.
Qed.

(* ---------- freeing ---------- *)

Lemma freed_ta seq rid ss pad : wf_span seq rid ss pad ->
  freed (TA (ta_img seq rid ss pad) seq rid)
  = TF (img_len seq rid ss pad) (skipn 8 (ta_img seq rid ss pad)).
Proof.
  intros H. cbn [freed].
  pose proof (ta_img_field seq rid ss pad [] H) as F. rewrite app_nil_r in F. now rewrite F.
Qed.

Lemma blen_skipn8 (b : bytes) : 8 <= blen b -> blen (skipn 8 b) = blen b - 8.
Proof. unfold blen. rewrite skipn_length. lia. Qed.

Lemma wf_freed seq rid ss pad : wf_span seq rid ss pad ->
  wf_tile (TF (img_len seq rid ss pad) (skipn 8 (ta_img seq rid ss pad))).
Proof.
  intros H. pose proof (img_len_ge15 seq rid ss pad) as H15.
  constructor.
  - rewrite blen_skipn8; rewrite blen_ta_img; lia.
  - exact H15.
  - destruct H. unfold img_len. assumption.
Qed.

Lemma free_rid_wf rid ts : Forall wf_tile ts -> Forall wf_tile (free_rid rid ts).
Proof.
  intros H. unfold free_rid. induction H as [|t ts Ht _ IH]; [constructor|].
  cbn [map]. constructor; [|exact IH].
  destruct Ht as [seq r ss pad Hs Hp|len junk Hl H15 Hlt].
  - destruct (bytes_eqb r rid); [|now constructor]. rewrite freed_ta by exact Hs. now apply wf_freed.
  - now constructor.
Qed.

Lemma free_rid_rids rid ts : Forall wf_tile ts ->
  active_rids (free_rid rid ts) = filter (other_than rid) (active_rids ts).
Proof.
  intros H. unfold free_rid, active_rids. induction H as [|t ts Ht _ IH]; [reflexivity|].
  cbn [map flat_map]. rewrite IH.
  destruct Ht as [seq r ss pad Hs Hp|len junk Hl H15 Hlt]; [|reflexivity].
  cbn [tile_rid app filter]. unfold other_than at 2.
  destruct (bytes_eqb r rid); cbn [negb]; [|reflexivity]. now rewrite freed_ta.
Qed.

Lemma free_rid_abs rid ts : Forall wf_tile ts ->
  abs (free_rid rid ts) = filter (fun e => other_than rid (fst e)) (abs ts).
Proof.
  intros H. unfold free_rid, abs. induction H as [|t ts Ht _ IH]; [reflexivity|].
  cbn [map flat_map]. rewrite IH, filter_app. f_equal.
  destruct Ht as [seq r ss pad Hs Hp|len junk Hl H15 Hlt]; [|reflexivity].
  fold (tile_entry (TA (ta_img seq r ss pad) seq r)). rewrite entry_ta by exact Hs.
  cbn [filter fst]. unfold other_than.
  destruct (bytes_eqb r rid); cbn [negb].
  - now rewrite freed_ta.
  - fold (tile_entry (TA (ta_img seq r ss pad) seq r)). now rewrite entry_ta.
Qed.

Lemma free_rid_len rid ts : Forall wf_tile ts -> tiles_len (free_rid rid ts) = tiles_len ts.
Proof.
  intros H. unfold free_rid. induction H as [|t ts Ht _ IH]; [reflexivity|].
  cbn [map]. rewrite !tiles_len_cons, IH. f_equal.
  destruct Ht as [seq r ss pad Hs Hp|len junk Hl H15 Hlt]; [|reflexivity].
  destruct (bytes_eqb r rid); [|reflexivity]. rewrite freed_ta by exact Hs. cbn [tlen].
  rewrite blen_skipn8; rewrite blen_ta_img; pose proof (img_len_ge15 seq r ss pad); lia.
Qed.

Lemma free_rid_seq rid n ts : Forall (seq_below n) ts -> Forall (seq_below n) (free_rid rid ts).
Proof.
  intros H. unfold free_rid. induction H as [|t ts Ht _ IH]; [constructor|].
  cbn [map]. constructor; [|exact IH].
  destruct t as [img seq r|len junk|bs|bs]; try exact Ht.
  destruct (bytes_eqb r rid); [|exact Ht]. cbn [freed]. destruct (rd32 (skipn 4 img)); [exact I|exact Ht].
Qed.

Lemma free_rid_nonempty rid ts : ts <> [] -> free_rid rid ts <> [].
Proof. destruct ts; [contradiction|discriminate]. Qed.

Lemma filter_other_notin rid l : ~ In rid l -> filter (other_than rid) l = l.
Proof.
  induction l as [|x l IH]; intros H; [reflexivity|]. cbn [filter]. unfold other_than at 1.
  destruct (bytes_eqb x rid) eqn:E.
  - apply bytes_eqb_eq in E. subst. exfalso. apply H. now left.
  - cbn [negb]. f_equal. apply IH. intros H1. apply H. now right.
Qed.

Lemma filter_other_in rid l : ~ In rid (filter (other_than rid) l).
Proof.
  intros H. apply filter_In in H. destruct H as [_ H]. unfold other_than in H. now rewrite bytes_eqb_refl in H.
Qed.

Lemma NoDup_filter {A} (f : A -> bool) l : NoDup l -> NoDup (filter f l).
Proof.
  intros H. induction H as [|x l Hx _ IH]; [constructor|]. cbn [filter].
  destruct (f x); [|exact IH]. constructor; [|exact IH]. intros H. apply filter_In in H. now destruct H.
Qed.

(* ---------- allocation ---------- *)

Definition all_free (l : list tile) : Prop := Forall (fun t => is_free t = true) l.

Lemma find_run_some : forall ts pre_rev run_rev runlen size pre run post,
  find_run ts pre_rev run_rev runlen size = Some (pre, run, post) ->
  all_free run_rev -> runlen = tiles_len run_rev ->
  rev pre_rev ++ rev run_rev ++ ts = pre ++ run ++ post
  /\ all_free run /\ size <= tiles_len run /\ 0 < tiles_len run.
Proof.
  induction ts as [|t ts IH]; intros pre_rev run_rev runlen size pre run post Hf Hfree Hlen.
  - cbn [find_run] in Hf.
    destruct ((0 <? runlen) && (size <=? runlen)) eqn:E; [|discriminate].
    inversion Hf; subst. apply andb_true_iff in E. destruct E as [E1 E2].
    rewrite tiles_len_rev. repeat split; try lia.
    unfold all_free. apply Forall_rev. exact Hfree.
  - cbn [find_run] in Hf. destruct (is_free t) eqn:Et.
    + apply IH in Hf.
      * destruct Hf as (H1 & H2 & H3 & H4). repeat split; try assumption.
        rewrite <- H1. cbn [rev]. rewrite <- !app_assoc. reflexivity.
      * constructor; assumption.
      * rewrite tiles_len_cons. lia.
    + destruct ((0 <? runlen) && (size <=? runlen)) eqn:E.
      * inversion Hf; subst. apply andb_true_iff in E. destruct E as [E1 E2].
        rewrite tiles_len_rev. repeat split; try lia.
        unfold all_free. apply Forall_rev. exact Hfree.
      * apply IH in Hf; [|constructor|reflexivity].
        destruct Hf as (H1 & H2 & H3 & H4). repeat split; try assumption.
        rewrite <- H1. cbn [rev app]. rewrite rev_app_distr. rewrite <- !app_assoc. reflexivity.
Qed.

(* ---------- placing the new span ---------- *)

Lemma wf_span_pad seq rid ss pad : wf_span seq rid ss 0 -> span_size seq rid ss + pad < 4294967296 ->
  wf_span seq rid ss pad.
Proof. intros [H1 H2 H3 H4 _] H. constructor; assumption. Qed.

Lemma place_spec seq rid ss L old : wf_span seq rid ss 0 ->
  span_size seq rid ss <= L -> L < 4294967296 -> blen old = L ->
  let placed := place seq rid ss (span_size seq rid ss) (L - span_size seq rid ss) old in
  Forall wf_tile placed /\ active_rids placed = [rid] /\ abs placed = [(rid, ss)]
  /\ tiles_len placed = L /\ Forall (seq_below (seq + 1)) placed.
Proof.
  intros Hw Hle Hlt Hold. set (size := span_size seq rid ss) in *. set (rem := L - size).
  cbn zeta. unfold place. fold size. fold rem.
  destruct (N.eqb_spec rem 0) as [E0|E0].
  - repeat split.
    + constructor; [|constructor]. constructor; [exact Hw|lia].
    + unfold abs. cbn [flat_map]. fold (tile_entry (TA (ta_img seq rid ss 0) seq rid)). rewrite entry_ta by exact Hw. reflexivity.
    + rewrite tiles_len_cons. cbn [tlen tiles_len fold_right]. rewrite blen_ta_img. unfold img_len. fold size. lia.
    + constructor; [cbn; lia|constructor].
  - rewrite minSpanLength_ok. destruct (N.ltb_spec rem 15) as [E15|E15].
    + assert (Hw' : wf_span seq rid ss rem) by (apply wf_span_pad; [exact Hw|fold size; lia]).
      repeat split.
      * constructor; [|constructor]. constructor; [exact Hw'|exact E15].
      * unfold abs. cbn [flat_map]. fold (tile_entry (TA (ta_img seq rid ss rem) seq rid)). rewrite entry_ta by exact Hw'. reflexivity.
      * rewrite tiles_len_cons. cbn [tlen tiles_len fold_right]. rewrite blen_ta_img. unfold img_len. fold size. lia.
      * constructor; [cbn; lia|constructor].
    + assert (Hj : blen (skipn_N (size + 8) old) = rem - 8).
      { unfold skipn_N, blen in *. rewrite skipn_length. lia. }
      repeat split.
      * constructor; [constructor; [exact Hw|lia]|]. constructor; [|constructor].
        constructor; [rewrite Hj; lia|exact E15|lia].
      * unfold abs. cbn [flat_map]. fold (tile_entry (TA (ta_img seq rid ss 0) seq rid)). rewrite entry_ta by exact Hw. reflexivity.
      * rewrite !tiles_len_cons. cbn [tlen tiles_len fold_right]. rewrite blen_ta_img, Hj. unfold img_len. fold size. lia.
      * constructor; [cbn; lia|]. constructor; [exact I|constructor].
Qed.

(* ---------- installing the new version ---------- *)

Lemma install_spec pre placed post rid ss n :
  Forall wf_tile pre -> Forall wf_tile post -> NoDup (active_rids pre ++ active_rids post) ->
  Forall wf_tile placed -> active_rids placed = [rid] -> abs placed = [(rid, ss)] ->
  Forall (seq_below n) pre -> Forall (seq_below n) post -> Forall (seq_below (n + 1)) placed ->
  let final := free_rid rid pre ++ placed ++ free_rid rid post in
  Forall wf_tile final /\ NoDup (active_rids final) /\ Forall (seq_below (n + 1)) final
  /\ (forall r, slookup (abs final) r
                = if bytes_eqb rid r then Some ss else slookup (abs pre ++ abs post) r)
  /\ tiles_len final = tiles_len pre + tiles_len placed + tiles_len post.
Proof.
  intros Hpre Hpost Hnd Hpl Hr Ha Hs1 Hs2 Hs3. cbn zeta.
  assert (Hmono : forall t, seq_below n t -> seq_below (n + 1) t).
  { intros [img seq r| | |]; cbn; try tauto. lia. }
  repeat split.
  - apply Forall_app. split; [now apply free_rid_wf|]. apply Forall_app. split; [exact Hpl|now apply free_rid_wf].
  - rewrite !active_rids_app, Hr, !free_rid_rids by assumption.
    (* filter pre ++ [rid] ++ filter post *)
    assert (Hf : NoDup (filter (other_than rid) (active_rids pre) ++ filter (other_than rid) (active_rids post))).
    { rewrite <- filter_app. apply NoDup_filter. exact Hnd. }
    cbn [app]. apply (proj2 (NoDup_Add (Add_app rid _ _))).
    split; [exact Hf|rewrite <- filter_app; apply filter_other_in].
  - apply Forall_app. split; [apply free_rid_seq; eapply Forall_impl; [apply Hmono|exact Hs1]|].
    apply Forall_app. split; [exact Hs3|apply free_rid_seq; eapply Forall_impl; [apply Hmono|exact Hs2]].
  - intros r. rewrite !abs_app, Ha, !free_rid_abs by assumption.
    rewrite !slookup_app, !slookup_filter. cbn [slookup app].
    destruct (bytes_eqb rid r) eqn:E; [reflexivity|].
    destruct (slookup (abs pre) r); reflexivity.
  - rewrite !tiles_len_app, !free_rid_len by assumption. lia.
Qed.

Lemma free_rid_id rid ts : ~ In rid (active_rids ts) -> free_rid rid ts = ts.
Proof.
  unfold free_rid, active_rids. induction ts as [|t ts IH]; intros H; [reflexivity|].
  cbn [map flat_map] in *. rewrite IH by (intros H1; apply H; apply in_or_app; now right).
  f_equal. destruct t as [img seq r|len junk|bs|bs]; try reflexivity.
  destruct (bytes_eqb r rid) eqn:E; [|reflexivity].
  apply bytes_eqb_eq in E. subst. exfalso. apply H. apply in_or_app. left. now left.
Qed.

(* ---------- WriteRecord ---------- *)

Definition fits (s : sf) (rid : bytes) (ss : list stream) (exp : N) : Prop :=
  blen rid < lim63 /\ (length ss < 256)%nat /\ Forall wf_stream ss
  /\ nseq s + 1 < 4294967296
  /\ tiles_len (tiles s) + exp < 4294967296
  /\ span_size (nseq s) rid ss <= exp.

Lemma fits_wf_span s rid ss exp : fits s rid ss exp -> wf_span (nseq s) rid ss 0.
Proof. intros (H1 & H2 & H3 & H4 & H5 & H6). constructor; try assumption; lia. Qed.

(* the tiles WriteRecord leaves behind *)
Definition write_result (ts : list tile) (seq : N) (rid : bytes) (ss : list stream) (exp : N) : option (list tile) :=
  match write_stages ts seq rid ss exp with
  | Some st => Some (last_tiles ts st)
  | None => None
  end.

Lemma write_result_cases ts seq rid ss exp : Forall wf_tile ts ->
  let size := span_size seq rid ss in
  match find_run ts [] [] 0 size with
  | Some (pre, run, post) =>
      write_result ts seq rid ss exp
      = Some (free_rid rid pre ++ place seq rid ss size (tiles_len run - size) (flatten run) ++ free_rid rid post)
  | None =>
      write_result ts seq rid ss exp
      = if exp <? size then None
        else Some (free_rid rid ts ++ place seq rid ss size (exp - size) (nzeros exp) ++ [])
  end.
Proof.
  intros Hw. cbn zeta. unfold write_result, write_stages.
  destruct (find_run ts [] [] 0 (span_size seq rid ss)) as [[[pre run] post]|] eqn:Ef.
  - apply find_run_some in Ef; [|constructor|reflexivity]. destruct Ef as (Hsplit & Hfree & _).
    cbn [rev app] in Hsplit. subst ts.
    destruct (lookup (index_of (pre ++ run ++ post)) rid) eqn:El.
    + reflexivity.
    + cbn [last_tiles rev app]. f_equal.
      unfold index_of in El. apply lookup_index_none in El.
      rewrite !active_rids_app in El.
      rewrite !free_rid_id; [reflexivity| |]; intros H; apply El; apply in_or_app; [right; apply in_or_app; now right|now left].
  - destruct (exp <? span_size seq rid ss); [reflexivity|].
    destruct (lookup (index_of ts) rid) eqn:El.
    + reflexivity.
    + cbn [last_tiles rev app]. f_equal.
      unfold index_of in El. apply lookup_index_none in El.
      rewrite free_rid_id by exact El. rewrite app_nil_r. reflexivity.
Qed.

Lemma write_record_result s rid ss exp steps s' :
  write_record s rid ss exp = Some (steps, s') ->
  write_result (tiles s) (nseq s) rid ss exp = Some (tiles s') /\ nseq s' = (nseq s + 1) mod 4294967296.
Proof.
  unfold write_record, write_result. destruct (write_stages (tiles s) (nseq s) rid ss exp); [|discriminate].
  intros H. inversion H; subst. split; reflexivity.
Qed.

Theorem write_refines s rid ss exp steps s' : Inv s -> fits s rid ss exp ->
  write_record s rid ss exp = Some (steps, s') ->
  Inv s'
  /\ (forall r, slookup (abs (tiles s')) r = if bytes_eqb rid r then Some ss else slookup (abs (tiles s)) r)
  /\ nseq s' = nseq s + 1.
Proof.
  intros [Hwf Hnd Hseq Hne Hsz Hns] Hfit Hw.
  pose proof (fits_wf_span _ _ _ _ Hfit) as Hspan.
  destruct Hfit as (F1 & F2 & F3 & F4 & F5 & F6).
  apply write_record_result in Hw. destruct Hw as [Hres Hn].
  rewrite N.mod_small in Hn by lia.
  pose proof (write_result_cases (tiles s) (nseq s) rid ss exp Hwf) as Hc. cbn zeta in Hc.
  set (size := span_size (nseq s) rid ss) in *.
  destruct (find_run (tiles s) [] [] 0 size) as [[[pre run] post]|] eqn:Ef.
  - apply find_run_some in Ef; [|constructor|reflexivity].
    destruct Ef as (Hsplit & Hfree & Hfit1 & Hpos). cbn [rev app] in Hsplit.
    rewrite Hc in Hres. inversion Hres as [Ht]. clear Hres Hc.
    rewrite Hsplit in Hwf, Hnd, Hseq, Hsz.
    apply Forall_app in Hwf. destruct Hwf as [Hwpre Hwf]. apply Forall_app in Hwf. destruct Hwf as [Hwrun Hwpost].
    apply Forall_app in Hseq. destruct Hseq as [Hspre Hseq]. apply Forall_app in Hseq. destruct Hseq as [_ Hspost].
    destruct (free_tiles_no_active run Hfree) as [Hr0 Ha0].
    rewrite !active_rids_app, Hr0 in Hnd. cbn [app] in Hnd.
    rewrite !tiles_len_app in Hsz.
    pose proof (place_spec (nseq s) rid ss (tiles_len run) (flatten run) Hspan Hfit1 ltac:(lia) (blen_flatten run)) as P.
    cbn zeta in P. fold size in P. destruct P as (P1 & P2 & P3 & P4 & P5).
    pose proof (install_spec pre _ post rid ss (nseq s) Hwpre Hwpost Hnd P1 P2 P3 Hspre Hspost P5) as I.
    cbn zeta in I. destruct I as (I1 & I2 & I3 & I4 & I5).
    split; [|split; [|exact Hn]].
    + constructor; try rewrite <- Ht.
      * exact I1.
      * exact I2.
      * rewrite Hn. exact I3.
      * intros E. apply app_eq_nil in E. destruct E as [_ E]. apply app_eq_nil in E. destruct E as [E _].
        rewrite E in P2. discriminate.
      * rewrite I5, P4. lia.
      * lia.
    + intros r. try rewrite <- Ht. rewrite I4. rewrite Hsplit, !abs_app, Ha0. reflexivity.
  - rewrite Hc in Hres. destruct (N.ltb_spec exp size) as [Hlt|Hge]; [discriminate|].
    inversion Hres as [Ht]. clear Hres Hc.
    pose proof (place_spec (nseq s) rid ss exp (nzeros exp) Hspan Hge ltac:(lia) (blen_nzeros exp)) as P.
    cbn zeta in P. fold size in P. destruct P as (P1 & P2 & P3 & P4 & P5).
    assert (Hnd' : NoDup (active_rids (tiles s) ++ active_rids [])) by (cbn [active_rids flat_map]; now rewrite app_nil_r).
    pose proof (install_spec (tiles s) _ [] rid ss (nseq s) Hwf (Forall_nil _) Hnd' P1 P2 P3 Hseq (Forall_nil _) P5) as I.
    cbn zeta in I. destruct I as (I1 & I2 & I3 & I4 & I5).
    change (free_rid rid []) with (@nil tile) in *.
    split; [|split; [|exact Hn]].
    + constructor; try rewrite <- Ht.
      * exact I1.
      * exact I2.
      * rewrite Hn. exact I3.
      * intros E. apply app_eq_nil in E. destruct E as [_ E]. apply app_eq_nil in E. destruct E as [E _].
        rewrite E in P2. discriminate.
      * rewrite I5, P4. cbn [tiles_len fold_right]. lia.
      * lia.
    + intros r. try rewrite <- Ht. rewrite I4. cbn [abs flat_map]. rewrite app_nil_r. reflexivity.
Qed.

(* with an admissible growth amount WriteRecord always succeeds *)
Theorem write_total s rid ss exp : Inv s -> fits s rid ss exp ->
  exists steps s', write_record s rid ss exp = Some (steps, s').
Proof.
  intros HI (F1 & F2 & F3 & F4 & F5 & F6). unfold write_record, write_stages.
  destruct (find_run (tiles s) [] [] 0 (span_size (nseq s) rid ss)) as [[[pre run] post]|]; [eauto|].
  destruct (N.ltb_spec exp (span_size (nseq s) rid ss)); [lia|eauto].
Qed.

(* the file grows only when no free run can hold the record, and then by the chosen amount *)
Theorem write_growth s rid ss exp steps s' : Inv s -> fits s rid ss exp ->
  write_record s rid ss exp = Some (steps, s') ->
  (tiles_len (tiles s') = tiles_len (tiles s)
   /\ exists pre run post, tiles s = pre ++ run ++ post /\ all_free run /\ span_size (nseq s) rid ss <= tiles_len run)
  \/ (tiles_len (tiles s') = tiles_len (tiles s) + exp
      /\ find_run (tiles s) [] [] 0 (span_size (nseq s) rid ss) = None).
Proof.
  intros [Hwf Hnd Hseq Hne Hsz Hns] Hfit Hw.
  pose proof (fits_wf_span _ _ _ _ Hfit) as Hspan.
  destruct Hfit as (F1 & F2 & F3 & F4 & F5 & F6).
  apply write_record_result in Hw. destruct Hw as [Hres _].
  pose proof (write_result_cases (tiles s) (nseq s) rid ss exp Hwf) as Hc. cbn zeta in Hc.
  set (size := span_size (nseq s) rid ss) in *.
  destruct (find_run (tiles s) [] [] 0 size) as [[[pre run] post]|] eqn:Ef.
  - left. apply find_run_some in Ef; [|constructor|reflexivity].
    destruct Ef as (Hsplit & Hfree & Hfit1 & Hpos). cbn [rev app] in Hsplit.
    rewrite Hc in Hres. inversion Hres as [Ht]. clear Hres Hc.
    rewrite Hsplit in Hwf, Hsz.
    apply Forall_app in Hwf. destruct Hwf as [Hwpre Hwf]. apply Forall_app in Hwf. destruct Hwf as [Hwrun Hwpost].
    rewrite !tiles_len_app in Hsz.
    pose proof (place_spec (nseq s) rid ss (tiles_len run) (flatten run) Hspan Hfit1 ltac:(lia) (blen_flatten run)) as P.
    cbn zeta in P. fold size in P. destruct P as (_ & _ & _ & P4 & _).
    split; [|exists pre, run, post; repeat split; assumption].
    rewrite !tiles_len_app, !free_rid_len, P4 by assumption. rewrite Hsplit, !tiles_len_app. reflexivity.
  - right. rewrite Hc in Hres. destruct (N.ltb_spec exp size) as [Hlt|Hge]; [discriminate|].
    inversion Hres as [Ht]. clear Hres Hc.
    pose proof (place_spec (nseq s) rid ss exp (nzeros exp) Hspan Hge ltac:(lia) (blen_nzeros exp)) as P.
    cbn zeta in P. fold size in P. destruct P as (_ & _ & _ & P4 & _).
    split; [|reflexivity].
    rewrite !tiles_len_app, free_rid_len, P4 by assumption. cbn [tiles_len fold_right]. lia.
Qed.

(* ---------- RemoveRecord ---------- *)

Theorem remove_refines s rid : Inv s ->
  match remove_record s rid with
  | Ok (_, s') =>
      slookup (abs (tiles s)) rid <> None /\ Inv s' /\ nseq s' = nseq s
      /\ tiles_len (tiles s') = tiles_len (tiles s)
      /\ forall r, slookup (abs (tiles s')) r = if bytes_eqb rid r then None else slookup (abs (tiles s)) r
  | Err => slookup (abs (tiles s)) rid = None
  | Panic => False
  end.
Proof.
  intros [Hwf Hnd Hseq Hne Hsz Hns]. unfold remove_record.
  destruct (lookup (index_of (tiles s)) rid) eqn:El.
  - repeat split; cbn [tiles nseq].
    + assert (Hin : In rid (active_rids (tiles s))).
      { destruct (in_dec (list_eq_dec N.eq_dec) rid (active_rids (tiles s))) as [H|H]; [exact H|].
        apply (lookup_index_none (tiles s) rid 0) in H. unfold index_of in El. congruence. }
      rewrite <- abs_keys in Hin by exact Hwf. clear - Hin.
      induction (abs (tiles s)) as [|[k v] m IH]; [destruct Hin|].
      cbn [slookup]. destruct (bytes_eqb k rid) eqn:E; [discriminate|].
      cbn [map fst] in Hin. destruct Hin as [H|H]; [subst; now rewrite bytes_eqb_refl in E|now apply IH].
    + now apply free_rid_wf.
    + rewrite free_rid_rids by exact Hwf. now apply NoDup_filter.
    + now apply free_rid_seq.
    + now apply free_rid_nonempty.
    + rewrite free_rid_len by exact Hwf. exact Hsz.
    + apply Hns.
    + apply Hns.
    + now apply free_rid_len.
    + intros r. rewrite free_rid_abs by exact Hwf. apply slookup_filter.
  - unfold index_of in El. apply lookup_index_none in El.
    rewrite <- abs_keys in El by exact Hwf.
    induction (abs (tiles s)) as [|[k v] m IH]; [reflexivity|].
    cbn [slookup]. destruct (bytes_eqb k rid) eqn:E.
    + apply bytes_eqb_eq in E. subst. exfalso. apply El. now left.
    + apply IH. intros H. apply El. now right.
Qed.
