(* QuantCert.v — finite certificates (all codes) and integer-level packing for the quantisation. *)
From Coq Require Import ZArith Floats List Lia Bool.
From Syz Require Import Quant.
Import ListNotations.
Open Scope Z_scope.

Fixpoint zrange (n : nat) (start : Z) : list Z :=
  match n with O => [] | S m => start :: zrange m (start + 1) end.

Lemma in_zrange : forall n start k, start <= k < start + Z.of_nat n -> In k (zrange n start).
Proof.
  induction n as [|n IH]; intros start k H; [lia|]. cbn [zrange].
  destruct (Z.eq_dec k start) as [->|Hne]; [now left|right]. apply IH. lia.
Qed.

Definition codes (bits : Z) : list Z := zrange (Z.to_nat (2 ^ bits)) 0.

Lemma in_codes bits k : 0 <= bits -> 0 <= k < 2 ^ bits -> In k (codes bits).
Proof.
  intros Hb Hk. unfold codes. apply in_zrange. rewrite Z2Nat.id by (apply Z.pow_nonneg; lia). lia.
Qed.

Definition idem_ok (bits : Z) : bool :=
  forallb (fun k => quantize bits (dequantize bits k) =? k) (codes bits).

Lemma idem4 : idem_ok 4 = true. Proof. vm_compute. reflexivity. Qed.
Lemma idem8 : idem_ok 8 = true. Proof. vm_compute. reflexivity. Qed.
Lemma idem16 : idem_ok 16 = true. Proof. vm_compute. reflexivity. Qed.

(* storing a retrieved component retrieves the same component: every one of the 2^b codes *)
Theorem quantize_dequantize bits k : bits = 4 \/ bits = 8 \/ bits = 16 -> 0 <= k < 2 ^ bits ->
  quantize bits (dequantize bits k) = k.
Proof.
  intros Hb Hk.
  assert (H : idem_ok bits = true) by (destruct Hb as [->|[->| ->]]; [apply idem4|apply idem8|apply idem16]).
  unfold idem_ok in H. rewrite forallb_forall in H.
  apply Z.eqb_eq. apply H. apply in_codes; [destruct Hb as [->|[->| ->]]; lia|exact Hk].
Qed.

(* components outside [-1, 1] are clamped to the end levels (including the infinities) *)
Theorem quantize_clamp_low bits x : bits = 4 \/ bits = 8 \/ bits = 16 ->
  PrimFloat.ltb x (-1)%float = true -> quantize bits x = 0.
Proof.
  intros Hb Hx. unfold quantize, scaled, clamp. rewrite Hx.
  destruct Hb as [->|[->| ->]]; vm_compute; reflexivity.
Qed.

Theorem quantize_clamp_high bits x : bits = 4 \/ bits = 8 \/ bits = 16 ->
  PrimFloat.ltb x (-1)%float = false -> PrimFloat.ltb 1%float x = true -> quantize bits x = 2 ^ bits - 1.
Proof.
  intros Hb Hx1 Hx2. unfold quantize, scaled, clamp. rewrite Hx1, Hx2.
  destruct Hb as [->|[->| ->]]; vm_compute; reflexivity.
Qed.

(* ---------- packing ---------- *)

Lemma be_value_app a b acc : be_value (a ++ b) acc = be_value b (be_value a acc).
Proof. revert acc. induction a as [|x a IH]; intros acc; [reflexivity|]. cbn [app be_value]. apply IH. Qed.

Lemma be_bytes_mod : forall n k, be_bytes n k = be_bytes n (k mod 256 ^ Z.of_nat n).
Proof.
  induction n as [|m IHm]; intros k; [reflexivity|].
  cbn [be_bytes].
  assert (Hp2 : 256 ^ Z.of_nat (S m) = 256 ^ Z.of_nat m * 256) by (rewrite Nat2Z.inj_succ, Z.pow_succ_r; lia).
  assert (Hpos2 : 0 < 256 ^ Z.of_nat m) by (apply Z.pow_pos_nonneg; lia).
  f_equal.
  - rewrite Hp2. rewrite Z.rem_mul_r by lia.
    rewrite (Z.mul_comm (256 ^ Z.of_nat m)), Z.div_add by lia.
    rewrite (Z.div_small (k mod 256 ^ Z.of_nat m)) by (apply Z.mod_pos_bound; lia).
    rewrite Z.add_0_l, Z.mod_mod by lia. reflexivity.
  - rewrite (IHm k). rewrite (IHm (k mod 256 ^ Z.of_nat (S m))). f_equal.
    rewrite Hp2. rewrite Z.rem_mul_r by lia.
    rewrite (Z.mul_comm (256 ^ Z.of_nat m)), Z.mod_add by lia. rewrite Z.mod_mod by lia. reflexivity.
Qed.

Lemma be_value_bytes : forall n k acc, 0 <= k < 256 ^ Z.of_nat n ->
  be_value (be_bytes n k) acc = acc * 256 ^ Z.of_nat n + k.
Proof.
  induction n as [|n IH]; intros k acc Hk.
  - cbn [be_bytes be_value]. change (256 ^ Z.of_nat 0) with 1 in *. lia.
  - cbn [be_bytes be_value].
    assert (Hp : 256 ^ Z.of_nat (S n) = 256 * 256 ^ Z.of_nat n) by (rewrite Nat2Z.inj_succ, Z.pow_succ_r; lia).
    assert (Hpos : 0 < 256 ^ Z.of_nat n) by (apply Z.pow_pos_nonneg; lia).
    rewrite Hp in Hk.
    rewrite (Z.mod_small (k / 256 ^ Z.of_nat n) 256).
    2:{ split; [apply Z.div_pos; lia|apply Z.div_lt_upper_bound; lia]. }
    rewrite (be_bytes_mod n k). rewrite IH by (apply Z.mod_pos_bound; lia).
    rewrite Hp. pose proof (Z.div_mod k (256 ^ Z.of_nat n)). lia.
Qed.

Lemma length_be_bytes n k : length (be_bytes n k) = n.
Proof. induction n as [|n IH]; cbn [be_bytes length]; [reflexivity|now rewrite IH]. Qed.

Lemma firstn_exact {A} (a b : list A) : firstn (length a) (a ++ b) = a.
Proof. induction a as [|x a IH]; cbn [length firstn app]; [now destruct b|now rewrite IH]. Qed.
Lemma skipn_exact {A} (a b : list A) : skipn (length a) (a ++ b) = b.
Proof. induction a as [|x a IH]; cbn [length skipn app]; [reflexivity|exact IH]. Qed.

Theorem chunks_roundtrip nb codes :
  Forall (fun k => 0 <= k < 256 ^ Z.of_nat nb) codes ->
  chunks (length codes) nb (flat_map (be_bytes nb) codes) = codes.
Proof.
  intros H. induction H as [|k codes Hk _ IH]; [reflexivity|].
  cbn [length chunks flat_map].
  assert (E1 : firstn nb (be_bytes nb k ++ flat_map (be_bytes nb) codes) = be_bytes nb k).
  { rewrite <- (length_be_bytes nb k) at 1. apply firstn_exact. }
  assert (E2 : skipn nb (be_bytes nb k ++ flat_map (be_bytes nb) codes) = flat_map (be_bytes nb) codes).
  { rewrite <- (length_be_bytes nb k) at 1. apply skipn_exact. }
  rewrite E1, E2, IH. rewrite be_value_bytes by exact Hk. reflexivity.
Qed.

Theorem pack4_roundtrip : forall codes, Forall (fun k => 0 <= k < 16) codes ->
  unpack4 (length codes) (pack4 codes) = codes.
Proof.
  Ltac Zify.zify_post_hook ::= Z.div_mod_to_equations.
  fix IH 1. intros [|a [|b r]] H.
  - reflexivity.
  - inversion H as [|? ? Ha _]; subst. cbn [length pack4 unpack4]. f_equal. lia.
  - inversion H as [|? ? Ha H1]; subst. inversion H1 as [|? ? Hb H2]; subst.
    cbn [length pack4 unpack4]. rewrite (IH r H2). f_equal; [lia|f_equal; lia].
Qed.

(* decodeVector (encodeDocument v) gives back the stored codes, for every dimension, odd ones
   under 4-bit packing included *)
Theorem decode_encode bits codes :
  bits = 4 \/ bits = 8 \/ bits = 16 \/ bits = 32 \/ bits = 64 ->
  Forall (fun k => 0 <= k < 2 ^ bits) codes ->
  decode_codes bits (length codes) (encode_codes bits codes) = codes.
Proof.
  intros Hb H. unfold decode_codes, encode_codes.
  destruct Hb as [->|[->|[->|[->| ->]]]]; cbn [Z.eqb Pos.eqb].
  - apply pack4_roundtrip. exact H.
  - apply chunks_roundtrip. exact H.
  - apply chunks_roundtrip. exact H.
  - apply chunks_roundtrip. exact H.
  - apply chunks_roundtrip. exact H.
Qed.
