(* ApproxNonEmpty.v — a default-precision K-nearest search returns at least one result whenever some live
   document accepted by the filter is indexed: before the first acceptance nothing is pruned (the radius is
   still the largest float), the early-stop counter does not run, and the node queue — whatever order the heap
   gives it — hands out every node, so the leaf holding that document is reached within the fuel. *)
From Coq Require Import ZArith Floats List Bool Lia Sorting.Permutation.
From Syz Require Import Quant Dist Search Lsh HeapPerm.
Import ListNotations.
Open Scope Z_scope.

Definition qsize (nq : list qitem) : nat := fold_right (fun it a => (tree_size (snd it) + a)%nat) 0%nat nq.

Lemma qsize_perm a b : Permutation a b -> qsize a = qsize b.
Proof.
  intros P. induction P as [|x l l' P IH|x y l|l l' l'' P1 IH1 P2 IH2]; unfold qsize in *; cbn [fold_right]; [reflexivity|rewrite IH; reflexivity|lia|congruence].
Qed.

Lemma tree_size_pos t : (0 < tree_size t)%nat.
Proof. destruct t; cbn; lia. Qed.

Lemma qsize_pos nq (it : qitem) : In it nq -> (0 < qsize nq)%nat.
Proof. induction nq as [|a r IH]; [contradiction|]. intros _. unfold qsize. cbn [fold_right]. pose proof (tree_size_pos (snd a)). lia. Qed.

Section NonEmpty.
Variable cosine : bool.
Variable q : list float.
Variable qlen : float.
Variable K : nat.
Variable R : float.
Variable docs : list sdoc.
Hypothesis HK : (0 < K)%nat.
Hypothesis HR : PrimFloat.ltb 0 R = false.          (* K mode *)

Definition live (id : Z) : Prop := exists d, find (fun x => sd_id x =? id) docs = Some d.
Definition wanted (id : Z) : Prop := exists d, find (fun x => sd_id x =? id) docs = Some d /\ sd_ok d = true.

Definition not_huge (p : float) : Prop := PrimFloat.ltb max_float (- p)%float = false.

(* a tree the search can walk: no nil child, only live ids in the leaves, hyperplane distances that are not infinite *)
Fixpoint tree_ok (t : tree) : Prop :=
  match t with
  | Leaf ids => Forall live ids
  | Node n b l r =>
      (let (d, _) := dist_to_hyperplane cosine q qlen n b in not_huge d /\ not_huge (- d)%float)
      /\ tree_ok l /\ tree_ok r
  | Nil => False
  end.

Definition has_res (s : sstate) : Prop := st_res s <> [].

(* the state before the first acceptance *)
Record fresh (s : sstate) : Prop := {
  fr_res : st_res s = [];
  fr_rad : st_radius s = max_float;
  fr_kc : st_kc s = 0;
  fr_acc : st_acc s = false;
  fr_stop : st_stop s = false }.

Lemma insert_nonempty (x : hit) l : insert_asc PrimFloat.ltb x l <> [].
Proof. destruct l as [|y r]; cbn; [discriminate|]. destruct (PrimFloat.ltb (snd x) (snd y)); discriminate. Qed.

Lemma firstn_nonempty {A} n (l : list A) : (0 < n)%nat -> l <> [] -> firstn n l <> [].
Proof. destruct n; [lia|]. destruct l; [contradiction|]. cbn. discriminate. Qed.

(* once there is a result there always is one *)
Lemma consider_keeps s id : has_res s -> has_res (snd (consider_approx cosine q K R docs s id)).
Proof.
  unfold has_res, consider_approx. intros H. destruct (find _ docs) as [d|]; [|exact H].
  destruct (negb (sd_ok d)); [exact H|]. rewrite HR.
  destruct (Nat.ltb 0 K); [|exact H].
  destruct (_ || _); [|exact H]. cbn [snd st_res].
  destruct (Nat.ltb K _); [apply firstn_nonempty; [exact HK|apply insert_nonempty]|apply insert_nonempty].
Qed.

Lemma visit_keeps : forall ids s, has_res s -> has_res (visit_ids cosine q K R docs ids s).
Proof.
  induction ids as [|id r IH]; intros s H; cbn [visit_ids]; [exact H|].
  destruct (st_stop s); [exact H|]. destruct (existsb _ (st_visited s)); [apply IH; exact H|].
  match goal with |- context [consider_approx cosine q K R docs ?s0 id] =>
    pose proof (consider_keeps s0 id H) as Hc; destruct (consider_approx cosine q K R docs s0 id) as [sig s1] end.
  cbn [snd] in Hc. destruct sig; try (apply IH); exact Hc.
Qed.

Lemma loop_keeps : forall fuel nq s, has_res s -> has_res (search_loop fuel cosine q qlen K R docs nq s).
Proof.
  induction fuel as [|f IH]; intros nq s H; cbn [search_loop]; [exact H|].
  destruct (hpop fst (0%float, Nil) nq) as [[[pr node] nq']|]; [|exact H].
  destruct (_ && _ && _); [apply IH; exact H|]. destruct (search_k <=? st_kc s); [exact H|].
  destruct node as [ids|n b l r|]; [| |exact H].
  - pose proof (visit_keeps ids s H). destruct (st_stop _); [assumption|apply IH; assumption].
  - destruct (dist_to_hyperplane cosine q qlen n b) as [d right]. destruct right; apply IH; exact H.
Qed.

(* visiting a leaf from a fresh state: either a result appears, or the state is still fresh and exactly the
   ids of the leaf were added to the visited set *)
Lemma visit_fresh : forall ids s, fresh s -> Forall live ids ->
  has_res (visit_ids cosine q K R docs ids s) \/
  (fresh (visit_ids cosine q K R docs ids s) /\
   (forall x, In x (st_visited (visit_ids cosine q K R docs ids s)) -> In x (st_visited s) \/ In x ids) /\
   (forall x, In x ids -> wanted x -> In x (st_visited s))).
Proof.
  induction ids as [|id r IH]; intros s Hf Hl; cbn [visit_ids].
  - right. split; [exact Hf|]. split; [auto|intros x []].
  - inversion Hl as [|? ? Hid Hr]; subst. rewrite (fr_stop s Hf).
    destruct (existsb (fun x => x =? id) (st_visited s)) eqn:Ev.
    + destruct (IH s Hf Hr) as [H|(H1 & H2 & H3)]; [left; exact H|right].
      split; [exact H1|]. split; [intros x Hx; destruct (H2 x Hx); auto; right; right; assumption|].
      intros x [<-|Hx] Hw; [|apply H3; assumption].
      apply existsb_exists in Ev. destruct Ev as [y [Hy E]]. apply Z.eqb_eq in E. subst. exact Hy.
    + unfold consider_approx. destruct Hid as [d Hd]. cbn [st_res st_radius st_pts st_kc st_acc st_visited st_stop]. rewrite Hd.
      destruct (sd_ok d) eqn:Eok; cbn [negb].
      * (* accepted: the result list is empty, so the document enters it *)
        left. rewrite HR. destruct (Nat.ltb_spec 0 K) as [_|]; [|lia].
        rewrite (fr_res s Hf). cbn [length rev]. destruct (Nat.ltb_spec 0 K) as [_|]; [|lia]. cbn [orb].
        apply visit_keeps. unfold has_res. cbn [st_res insert_asc].
        match goal with |- (if ?c then _ else _) <> [] => destruct c end; [apply firstn_nonempty; [exact HK|discriminate]|discriminate].
      * (* rejected by the filter: counted as searched, nothing else changes *)
        set (s1 := {| st_res := st_res s; st_radius := st_radius s; st_pts := st_pts s + 1; st_kc := st_kc s;
                      st_acc := st_acc s; st_visited := id :: st_visited s; st_stop := false |}).
        assert (Hf1 : fresh s1) by (destruct Hf; constructor; cbn; try assumption; reflexivity).
        destruct (IH s1 Hf1 Hr) as [H|(H1 & H2 & H3)]; [left; exact H|right].
        split; [exact H1|]. split.
        { intros x Hx. destruct (H2 x Hx) as [[<-|Hv]|Hi]; [right; left; reflexivity|left; exact Hv|right; right; exact Hi]. }
        intros x [<-|Hx] Hw.
        { destruct Hw as [d' [Hd' Hok']]. rewrite Hd in Hd'. inversion Hd'; subst. congruence. }
        destruct (H3 x Hx Hw) as [<-|Hv]; [|exact Hv].
        destruct Hw as [d' [Hd' Hok']]. rewrite Hd in Hd'. inversion Hd'; subst. congruence.
Qed.

(* ---------- the loop ---------- *)
Definition item_ok (it : qitem) : Prop := not_huge (fst it) /\ tree_ok (snd it).

Lemma max_not_below_zero : PrimFloat.ltb max_float (- 0)%float = false.
Proof. reflexivity. Qed.

Theorem loop_finds : forall fuel nq s id, (qsize nq <= fuel)%nat -> fresh s -> Forall item_ok nq ->
  wanted id -> ~ In id (st_visited s) -> (exists it, In it nq /\ In id (leaf_ids (snd it))) ->
  has_res (search_loop fuel cosine q qlen K R docs nq s).
Proof.
  induction fuel as [|f IH]; intros nq s id Hfuel Hf Hok Hw Hnv (it & Hin & Hid).
  - exfalso. pose proof (qsize_pos nq it Hin). lia.
  - cbn [search_loop]. destruct (hpop fst (0%float, Nil) nq) as [[[pr node] nq']|] eqn:Ep.
    2:{ apply hpop_none in Ep. subst. contradiction. }
    pose proof (hpop_perm _ _ _ _ _ _ Ep) as P.
    assert (Hsz : qsize nq = (tree_size node + qsize nq')%nat) by (rewrite (qsize_perm _ _ P); reflexivity).
    assert (Hok' : Forall item_ok ((pr, node) :: nq')) by (eapply Permutation_Forall; eauto).
    inversion Hok' as [|? ? [Hpr Htok] Hoknq]; subst. cbn [fst snd] in Hpr, Htok.
    (* nothing is pruned while the radius is the largest float *)
    rewrite (fr_rad s Hf). unfold not_huge in Hpr. rewrite Hpr, andb_false_r. cbn [andb].
    rewrite (fr_kc s Hf). change (search_k <=? 0) with false.
    assert (Hwhere : In it ((pr, node) :: nq')) by (eapply Permutation_in; eauto).
    destruct node as [ids|n b l r|]; [| |contradiction].
    + (* a leaf *)
      destruct (visit_fresh ids s Hf Htok) as [Hres|(Hf' & Hvis & Hall)].
      * destruct (st_stop _); [exact Hres|apply loop_keeps; exact Hres].
      * rewrite (fr_stop _ Hf'). destruct Hwhere as [<-|Hin'].
        { exfalso. cbn [snd leaf_ids] in Hid. apply Hnv. apply Hall; assumption. }
        apply (IH nq' _ id); [unfold qsize in *; cbn [tree_size] in Hsz; lia|exact Hf'|exact Hoknq|exact Hw| |exists it; auto].
        intros Hv. destruct (Hvis id Hv) as [H|H]; [contradiction|]. apply Hnv. apply Hall; assumption.
    + (* an inner node: both children go into the queue *)
      cbn [tree_ok] in Htok. destruct Htok as (Hd & Hl & Hr).
      destruct (dist_to_hyperplane cosine q qlen n b) as [d right]. destruct Hd as [Hd1 Hd2].
      assert (Hpush : forall (a b0 : qitem) h, Permutation (hpush fst (0%float, Nil) (hpush fst (0%float, Nil) h a) b0) (b0 :: a :: h)).
      { intros a b0 h. eapply Permutation_trans; [apply hpush_perm|]. constructor. apply hpush_perm. }
      destruct right.
      * pose proof (Hpush (d, r) ((- d)%float, l) nq') as Pq.
        apply (IH _ s id); [rewrite (qsize_perm _ _ Pq); unfold qsize in *; cbn [fold_right snd tree_size] in *; lia|exact Hf| |exact Hw|exact Hnv|].
        { eapply Permutation_Forall; [apply Permutation_sym; exact Pq|]. constructor; [split; assumption|]. constructor; [split; assumption|exact Hoknq]. }
        destruct Hwhere as [<-|Hin'].
        { cbn [snd leaf_ids] in Hid. apply in_app_or in Hid. destruct Hid as [Hi|Hi].
          - exists ((- d)%float, l). split; [eapply Permutation_in; [apply Permutation_sym; exact Pq|left; reflexivity]|exact Hi].
          - exists (d, r). split; [eapply Permutation_in; [apply Permutation_sym; exact Pq|right; left; reflexivity]|exact Hi]. }
        exists it. split; [eapply Permutation_in; [apply Permutation_sym; exact Pq|right; right; exact Hin']|exact Hid].
      * pose proof (Hpush (d, l) ((- d)%float, r) nq') as Pq.
        apply (IH _ s id); [rewrite (qsize_perm _ _ Pq); unfold qsize in *; cbn [fold_right snd tree_size] in *; lia|exact Hf| |exact Hw|exact Hnv|].
        { eapply Permutation_Forall; [apply Permutation_sym; exact Pq|]. constructor; [split; assumption|]. constructor; [split; assumption|exact Hoknq]. }
        destruct Hwhere as [<-|Hin'].
        { cbn [snd leaf_ids] in Hid. apply in_app_or in Hid. destruct Hid as [Hi|Hi].
          - exists (d, l). split; [eapply Permutation_in; [apply Permutation_sym; exact Pq|right; left; reflexivity]|exact Hi].
          - exists ((- d)%float, r). split; [eapply Permutation_in; [apply Permutation_sym; exact Pq|left; reflexivity]|exact Hi]. }
        exists it. split; [eapply Permutation_in; [apply Permutation_sym; exact Pq|right; right; exact Hin']|exact Hid].
Qed.

End NonEmpty.

Lemma init_queue_perm : forall forest acc,
  Permutation (fold_left (fun h t => hpush fst (0%float, Nil) h (0%float, t)) forest acc)
              (map (fun t => (0%float, t)) forest ++ acc).
Proof.
  induction forest as [|t r IH]; intros acc; cbn [fold_left map app]; [apply Permutation_refl|].
  eapply Permutation_trans; [apply IH|]. eapply Permutation_trans; [apply Permutation_app_head; apply hpush_perm|].
  apply Permutation_sym. apply Permutation_middle.
Qed.

Lemma qsize_map forest : qsize (map (fun t => (0%float, t)) forest) = fold_right (fun t a => (tree_size t + a)%nat) 0%nat forest.
Proof. induction forest as [|t r IH]; [reflexivity|]. unfold qsize in *. cbn [map fold_right snd]. rewrite IH. reflexivity. Qed.

Lemma fold_left_size : forall forest a, fold_left (fun a t => (a + tree_size t)%nat) forest a = (a + fold_right (fun t a => (tree_size t + a)%nat) 0%nat forest)%nat.
Proof. induction forest as [|t r IH]; intros a; cbn [fold_left fold_right]; [lia|]. rewrite IH. lia. Qed.
Theorem approx_nonempty cosine q K R docs forest id : (0 < K)%nat -> PrimFloat.ltb 0 R = false ->
  Forall (tree_ok cosine q (vector_length q) docs) forest ->
  wanted docs id -> (exists t, In t forest /\ In id (leaf_ids t)) ->
  fst (fst (search_approx cosine q K R docs forest)) <> [].
Proof.
  intros HK HR Hok Hw (t & Ht & Hid). unfold search_approx. cbn [fst]. rewrite HR.
  set (nq := fold_left _ forest []).
  pose proof (init_queue_perm forest []) as P. fold nq in P. rewrite app_nil_r in P.
  eapply (loop_finds cosine q (vector_length q) K R docs HK HR) with (id := id).
  - rewrite (qsize_perm _ _ P), qsize_map, fold_left_size. lia.
  - constructor; reflexivity.
  - eapply Permutation_Forall; [apply Permutation_sym; exact P|].
    rewrite Forall_forall in *. intros it Hin. apply in_map_iff in Hin. destruct Hin as (t0 & <- & Ht0).
    split; [reflexivity|apply Hok; exact Ht0].
  - exact Hw.
  - intros [].
  - exists (0%float, t). split; [|exact Hid]. eapply Permutation_in; [apply Permutation_sym; exact P|]. apply in_map. exact Ht.
Qed.
