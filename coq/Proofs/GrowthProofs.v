(* GrowthProofs.v — allocation fails (and the file grows) only if no contiguous free region fits. *)
From Coq Require Import ZArith Lia ZifyN ZifyBool ZifyNat.
From Syz Require Import Store ListLemmas ScanProofs StoreProofs.
Open Scope N_scope.

Lemma app_split_mid {A} (t : A) : forall l1 l2 a run b,
  l1 ++ t :: l2 = a ++ run ++ b -> ~ In t run ->
  (exists b', l1 = a ++ run ++ b') \/ (exists a', l2 = a' ++ run ++ b).
Proof.
  induction l1 as [|y l1 IH]; intros l2 a run b E Hn.
  - destruct a as [|x a]; cbn [app] in E.
    + destruct run as [|r run]; [left; exists []; reflexivity|].
      cbn [app] in E. inversion E; subst. exfalso. apply Hn. now left.
    + inversion E; subst. right. now exists a.
  - destruct a as [|x a]; cbn [app] in E.
    + destruct run as [|r run]; [left; exists (y :: l1); reflexivity|].
      cbn [app] in E. inversion E as [[E1 E2]]; subst.
      assert (Hn' : ~ In t run) by (intros H; apply Hn; now right).
      destruct (IH l2 [] run b E2 Hn') as [(b' & ->)|(a' & Ha')].
      * left. exists b'. reflexivity.
      * exfalso. cbn [app] in E2. apply (f_equal (@length A)) in E2. rewrite Ha' in E2.
        rewrite !app_length in E2. cbn [length] in E2. rewrite !app_length in E2. lia.
    + inversion E as [[E1 E2]]; subst.
      destruct (IH l2 a run b E2 Hn) as [(b' & ->)|(a' & Ha')].
      * left. exists b'. reflexivity.
      * right. now exists a'.
Qed.

Lemma tiles_len_sub a run b : tiles_len run <= tiles_len (a ++ run ++ b).
Proof. rewrite !tiles_len_app. lia. Qed.

Lemma find_run_none : forall ts pre_rev run_rev runlen size,
  find_run ts pre_rev run_rev runlen size = None -> 0 < size ->
  all_free run_rev -> runlen = tiles_len run_rev ->
  forall a run b, rev run_rev ++ ts = a ++ run ++ b -> all_free run -> tiles_len run < size.
Proof.
  induction ts as [|t ts IH]; intros pre_rev run_rev runlen size Hf Hsz Hfree Hlen a run b E Hrun.
  - cbn [find_run] in Hf. rewrite app_nil_r in E.
    pose proof (tiles_len_sub a run b) as Hle. rewrite <- E, tiles_len_rev, <- Hlen in Hle.
    destruct (N.ltb_spec 0 runlen); destruct (N.leb_spec size runlen); cbn [andb] in Hf; try discriminate; lia.
  - cbn [find_run] in Hf. destruct (is_free t) eqn:Et.
    + apply (IH _ _ _ _ Hf Hsz) with (a := a) (b := b).
      * constructor; assumption.
      * rewrite tiles_len_cons. lia.
      * cbn [rev]. rewrite <- app_assoc. exact E.
      * exact Hrun.
    + destruct ((0 <? runlen) && (size <=? runlen)) eqn:Ec; [discriminate|].
      assert (Hnot : ~ In t run).
      { intros Hin. unfold all_free in Hrun. rewrite Forall_forall in Hrun. specialize (Hrun t Hin). congruence. }
      destruct (app_split_mid t _ _ _ _ _ E Hnot) as [(b' & Hb')|(a' & Ha')].
      * pose proof (tiles_len_sub a run b') as Hle. rewrite <- Hb', tiles_len_rev, <- Hlen in Hle.
        destruct (N.ltb_spec 0 runlen); destruct (N.leb_spec size runlen); cbn [andb] in Ec; try discriminate; lia.
      * apply (IH _ _ _ _ Hf Hsz) with (a := a') (b := b); [constructor|reflexivity|exact Ha'|exact Hrun].
Qed.

(* the statement used by C09: when allocation fails, every contiguous free region is too small *)
Theorem no_free_region_fits ts size : 0 < size -> find_run ts [] [] 0 size = None ->
  forall a run b, ts = a ++ run ++ b -> all_free run -> tiles_len run < size.
Proof.
  intros Hsz Hf a run b E Hrun.
  apply (find_run_none ts [] [] 0 size Hf Hsz) with (a := a) (b := b); [constructor|reflexivity|exact E|exact Hrun].
Qed.
