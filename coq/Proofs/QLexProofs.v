(* QLexProofs.v — the lexer always makes progress, so lexing needs at most |input|+1 steps. *)
From Coq Require Import ZArith Lia.
From Syz Require Import QLex.
Open Scope N_scope.

Lemma span_length p l : (length (snd (span p l)) <= length l)%nat.
Proof.
  induction l as [|c r IH]; cbn [span]; [cbn; lia|].
  destruct (p c); [|cbn; lia]. destruct (span p r) as [a b]. cbn [snd length] in *. lia.
Qed.

Lemma span_length_strict p c r : p c = true -> (length (snd (span p (c :: r))) < length (c :: r))%nat.
Proof.
  intros H. cbn [span]. rewrite H. pose proof (span_length p r) as Hs.
  destruct (span p r) as [a b]. cbn [snd length] in *. lia.
Qed.

Lemma skip_ws_length l : (length (skip_ws l) <= length l)%nat.
Proof. induction l as [|c r IH]; cbn [skip_ws]; [lia|]. destruct (is_space c); cbn [length]; lia. Qed.

Lemma tl_length (l : bytes) : (length (tl l) <= length l)%nat.
Proof. destruct l; cbn; lia. Qed.

Lemma read_string_length q : forall r acc, (length (snd (read_string q r acc)) <= length r)%nat.
Proof.
  intros r. remember (length r) as n eqn:Hn. revert r Hn.
  induction n as [n IH] using lt_wf_ind. intros r Hn acc. subst n.
  destruct r as [|c r']; [cbn [read_string snd length]; lia|]. cbn [read_string].
  destruct (c =? q); [cbn [snd length]; lia|].
  destruct (c =? 0); [cbn [snd length]; lia|].
  destruct (c =? 92).
  - destruct r' as [|e r'']; [cbn [snd length]; lia|].
    assert (Hs : forall a, (length (snd (read_string q r'' a)) <= length r'')%nat).
    { intros a. apply (IH (length r'')); [cbn [length]; lia|reflexivity]. }
    repeat match goal with |- context [if ?b then _ else _] => destruct b end;
      (eapply Nat.le_trans; [apply Hs|cbn [length]; lia]).
  - eapply Nat.le_trans; [apply (IH (length r')); [cbn [length]; lia|reflexivity]|cbn [length]; lia].
Qed.

Lemma read_dec_length : forall l b, (length (snd (read_dec l b)) <= length l)%nat.
Proof.
  induction l as [|c r IH]; intros b; cbn [read_dec]; [cbn; lia|].
  destruct (is_digit c).
  - specialize (IH b). destruct (read_dec r b) as [x y]. cbn [snd length] in *. lia.
  - destruct ((c =? 46) && negb b).
    + specialize (IH true). destruct (read_dec r true) as [x y]. cbn [snd length] in *. lia.
    + cbn [snd length]. lia.
Qed.

Lemma read_dec_strict c r : is_digit c = true -> (length (snd (read_dec (c :: r) false)) < length (c :: r))%nat.
Proof.
  intros H. cbn [read_dec]. rewrite H. pose proof (read_dec_length r false) as Hs.
  destruct (read_dec r false) as [x y]. cbn [snd length] in *. lia.
Qed.

Lemma read_number_dec_strict c r : is_digit c = true ->
  (length (snd (read_number_dec (c :: r))) < length (c :: r))%nat.
Proof.
  intros H. unfold read_number_dec. pose proof (read_dec_strict c r H) as Hs.
  destruct (read_dec (c :: r) false) as [d r1]. cbn [snd] in Hs.
  destruct ((hd0 r1 =? 101) || (hd0 r1 =? 69)); [|exact Hs].
  set (r3 := if (hd0 (tl r1) =? 43) || (hd0 (tl r1) =? 45) then tl (tl r1) else tl r1).
  assert (H3 : (length r3 <= length r1)%nat).
  { unfold r3. pose proof (tl_length r1). pose proof (tl_length (tl r1)).
    destruct ((hd0 (tl r1) =? 43) || (hd0 (tl r1) =? 45)); lia. }
  pose proof (span_length is_digit r3) as H4. destruct (span is_digit r3) as [ex r4]. cbn [snd] in *. lia.
Qed.

Lemma read_number_strict c r : is_digit c = true ->
  (length (snd (read_number (c :: r))) < length (c :: r))%nat.
Proof.
  intros H. unfold read_number.
  destruct ((hd0 (c :: r) =? 48) && ((hd0 (tl (c :: r)) =? 120) || (hd0 (tl (c :: r)) =? 88))).
  - cbn [tl]. pose proof (span_length is_hex_digit (tl r)) as Hs. pose proof (tl_length r) as Ht.
    destruct (span is_hex_digit (tl r)) as [h r'']. cbn [snd] in *. cbn [length]. lia.
  - now apply read_number_dec_strict.
Qed.

Lemma read_ident_length l : (length (snd (read_ident_or_kw l)) <= length (snd (span (fun c => is_letter c || is_digit c) l)))%nat.
Proof.
  unfold read_ident_or_kw. destruct (span (fun c => is_letter c || is_digit c) l) as [word r1]. cbn [snd].
  destruct (bytes_eqb word s_DOES && (hd0 r1 =? 32)); [|cbn [snd]; lia].
  destruct (hd0 (tl r1) =? 78); [|cbn [snd]; lia].
  pose proof (span_length is_letter (tl r1)) as H2. destruct (span is_letter (tl r1)) as [w2 r3]. cbn [snd] in H2.
  destruct (bytes_eqb w2 s_NOT && (hd0 r3 =? 32)); [|cbn [snd]; lia].
  pose proof (span_length is_letter (tl r3)) as H3. destruct (span is_letter (tl r3)) as [w3 r5]. cbn [snd] in H3.
  destruct (bytes_eqb w3 s_EXIST); cbn [snd]; [|cbn [snd]; lia].
  pose proof (tl_length r1). pose proof (tl_length r3). lia.
Qed.

(* every token other than EOF consumes at least one character *)
Theorem next_token_progress input t r : next_token input = (t, r) -> ttyp t <> TEOF ->
  (length r < length input)%nat.
Proof.
  unfold next_token. pose proof (skip_ws_length input) as Hw.
  destruct (skip_ws input) as [|c l] eqn:El; [intros E; inversion E; subst; cbn; congruence|].
  cbn [length] in Hw.
  assert (Htl : (length (tl l) <= length l)%nat) by apply tl_length.
  assert (Htl2 : (length (tl (tl l)) <= length l)%nat) by (pose proof (tl_length (tl l)); lia).
  repeat match goal with
         | |- context [if ?b then _ else _] => destruct b eqn:?
         end;
    try (intros E; inversion E; subst; cbn [ttyp tok] in *; try congruence; cbn [length]; lia).
  - (* string *)
    pose proof (read_string_length c l []) as Hs. destruct (read_string c l []) as [s r'].
    intros E; inversion E; subst. cbn [snd] in Hs. cbn [length] in *. lia.
  - (* identifier or keyword *)
    pose proof (read_ident_length (c :: l)) as Hs.
    assert (Hp : (fun x => is_letter x || is_digit x) c = true)
      by (cbn beta; match goal with H : is_letter c = true |- _ => rewrite H end; reflexivity).
    pose proof (span_length_strict _ c l Hp) as Hs2.
    destruct (read_ident_or_kw (c :: l)) as [w r']. intros E; inversion E; subst. cbn [snd] in Hs. cbn [length] in *. lia.
  - (* number *)
    match goal with H : is_digit c = true |- _ => pose proof (read_number_strict c l H) as Hs end.
    destruct (read_number (c :: l)) as [n r']. intros E; inversion E; subst. cbn [snd] in Hs. cbn [length] in *. lia.
Qed.

(* the token stream is always produced: |input| + 1 steps suffice *)
Theorem lex_all_total : forall fuel input, (length input < fuel)%nat -> lex_all fuel input <> None.
Proof.
  induction fuel as [|f IH]; intros input H; [lia|].
  cbn [lex_all]. destruct (next_token input) as [t r] eqn:En.
  destruct (ttyp t) eqn:Et; try discriminate;
    (assert (Hp : (length r < length input)%nat) by (apply (next_token_progress _ _ _ En); congruence);
     specialize (IH r ltac:(lia)); destruct (lex_all f r); [discriminate|contradiction]).
Qed.

(* ---- the end-of-input token is produced only when nothing but white space is left (no sentinel byte inside the text) *)
Lemma lookup_kw_keywords_not_eof w : lookup_kw keywords w <> TEOF.
Proof.
  unfold keywords. cbn [lookup_kw].
  repeat match goal with
         | |- context [if ?b then _ else _] => destruct b
         end; discriminate.
Qed.

Theorem eof_only_at_end input t r : next_token input = (t, r) -> ttyp t = TEOF -> skip_ws input = [].
Proof.
  unfold next_token. destruct (skip_ws input) as [|c l] eqn:El; [reflexivity|].
  repeat match goal with
         | |- context [if ?b then _ else _] => destruct b eqn:?
         end;
    try (intros E; inversion E; subst; cbn [ttyp tok] in *; discriminate).
  - destruct (read_string c l []) as [s r']. intros E; inversion E; subst. cbn [ttyp tok]. discriminate.
  - destruct (read_ident_or_kw (c :: l)) as [w r']. intros E; inversion E; subst. cbn [ttyp tok].
    intros H. exfalso. exact (lookup_kw_keywords_not_eof w H).
  - destruct (read_number (c :: l)) as [n r']. intros E; inversion E; subst. cbn [ttyp tok]. discriminate.
Qed.

Lemma skip_ws_nil_all_space l : skip_ws l = [] -> forallb is_space l = true.
Proof.
  induction l as [|c r IH]; [reflexivity|]. cbn [skip_ws forallb].
  destruct (is_space c); [intros H; rewrite (IH H); reflexivity|discriminate].
Qed.
