(* DecimalProofs.v — decimal record ids: printing is inverted by ParseUint, hence injective. *)
From Coq Require Import ZArith Lia ZifyN ZifyBool ZifyNat.
From Syz Require Import Coll ListLemmas.
Open Scope N_scope.
Ltac Zify.zify_post_hook ::= Z.div_mod_to_equations.

Definition two64 : N := 18446744073709551616.

Definition is_digit (c : N) : Prop := 48 <= c /\ c <= 57.

Definition val_from (a : N) (l : bytes) : N := fold_left (fun a c => a * 10 + (c - 48)) l a.

Lemma val_from_app a l1 l2 : val_from a (l1 ++ l2) = val_from (val_from a l1) l2.
Proof. unfold val_from. apply fold_left_app. Qed.

Lemma val_from_ge l : forall a, a <= val_from a l.
Proof.
  induction l as [|c l IH]; intros a; [unfold val_from; cbn [fold_left]; lia|]. unfold val_from. cbn [fold_left].
  fold (val_from (a * 10 + (c - 48)) l). eapply N.le_trans; [|apply IH]. lia.
Qed.

(* the digits dec_fuel prepends *)
Lemma dec_fuel_digits : forall f n acc, n < 10 ^ N.of_nat f -> (0 < f)%nat ->
  exists D, dec_fuel f n acc = D ++ acc /\ val_from 0 D = n /\ Forall is_digit D /\ D <> [].
Proof.
  induction f as [|f IH]; intros n acc Hn Hf; [lia|].
  cbn [dec_fuel]. destruct (N.ltb_spec n 10) as [Hs|Hb].
  - exists [48 + n mod 10]. repeat split.
    + unfold val_from. cbn [fold_left]. lia.
    + constructor; [|constructor]. unfold is_digit. lia.
    + discriminate.
  - destruct f as [|f'].
    + cbn in Hn. lia.
    + assert (Hn' : n / 10 < 10 ^ N.of_nat (S f')).
      { rewrite Nnat.Nat2N.inj_succ, N.pow_succ_r' in Hn. lia. }
      destruct (IH (n / 10) ((48 + n mod 10) :: acc) Hn' ltac:(lia)) as (D & HD & Hv & Hd & Hne).
      exists (D ++ [48 + n mod 10]). repeat split.
      * rewrite HD. rewrite <- app_assoc. reflexivity.
      * rewrite val_from_app, Hv. unfold val_from. cbn [fold_left]. lia.
      * apply Forall_app. split; [exact Hd|]. constructor; [|constructor]. unfold is_digit. lia.
      * destruct D; discriminate.
Qed.

Lemma pow10_40 : two64 < 10 ^ N.of_nat 40.
Proof. reflexivity. Qed.

Lemma dec_string_digits n : n < two64 ->
  exists D, dec_string n = D /\ val_from 0 D = n /\ Forall is_digit D /\ D <> [].
Proof.
  intros H. unfold dec_string.
  destruct (dec_fuel_digits 40 n [] ltac:(pose proof pow10_40; lia) ltac:(lia)) as (D & HD & Hv & Hd & Hne).
  rewrite app_nil_r in HD. eauto.
Qed.

Theorem dec_string_inj n m : n < two64 -> m < two64 -> dec_string n = dec_string m -> n = m.
Proof.
  intros Hn Hm E.
  destruct (dec_string_digits n Hn) as (D1 & H1 & V1 & _).
  destruct (dec_string_digits m Hm) as (D2 & H2 & V2 & _).
  congruence.
Qed.

Lemma parse_uint_from_val : forall D a, Forall is_digit D -> val_from a D < two64 ->
  parse_uint_from D a = Some (val_from a D).
Proof.
  induction D as [|c D IH]; intros a Hd Hv; [reflexivity|].
  inversion Hd as [|? ? Hc HD]; subst. destruct Hc as [Hc1 Hc2].
  cbn [parse_uint_from val_from fold_left] in *. fold (val_from (a * 10 + (c - 48)) D) in *.
  destruct (N.leb_spec 48 c); [|lia]. destruct (N.leb_spec c 57); [|lia]. cbn [andb].
  pose proof (val_from_ge D (a * 10 + (c - 48))) as Hge.
  destruct (N.leb_spec 18446744073709551616 (a * 10 + (c - 48))) as [Hbig|_]; [unfold two64 in Hv; lia|].
  apply IH; assumption.
Qed.

Theorem parse_uint_dec_string n : n < two64 -> parse_uint (dec_string n) = Some n.
Proof.
  intros H. destruct (dec_string_digits n H) as (D & HD & Hv & Hd & Hne).
  rewrite HD. unfold parse_uint. destruct D as [|c D]; [contradiction|].
  rewrite parse_uint_from_val by (try assumption; rewrite Hv; exact H). now rewrite Hv.
Qed.

Lemma dec_string_nonempty n : n < two64 -> dec_string n <> [].
Proof. intros H. destruct (dec_string_digits n H) as (D & HD & _ & _ & Hne). now rewrite HD. Qed.
