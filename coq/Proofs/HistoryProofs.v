(* HistoryProofs.v — every history of document operations behaves like the finite-map specification. *)
From Coq Require Import ZArith Lia ZifyN ZifyBool ZifyNat.
From Syz Require Import Coll Wire Consts ConstsOk ListLemmas VarintProofs CrcBound SpanProofs ScanProofs StoreProofs ReopenProofs DecimalProofs CollProofs.
Open Scope N_scope.

Inductive dop : Type :=
| DAdd (id : N) (vec meta : bytes) (exp : N)
| DUpdate (id : N) (meta : bytes) (exp : N)
| DRemove (id : N)
| DGet (id : N)
| DReopen (rw : bool).

Inductive dout : Type := DOk | DErr | DDoc (meta vec : bytes).

(* the implementation model; None = growth oracle inadmissible, or a panic *)
Definition dstep (s : sf) (o : dop) : option (sf * dout) :=
  match o with
  | DAdd id vec meta exp =>
      match add_document s id vec meta exp with Some (_, s') => Some (s', DOk) | None => None end
  | DUpdate id meta exp =>
      match update_document s id meta exp with
      | Ok (Some (_, s')) => Some (s', DOk)
      | Ok None => None
      | Err => Some (s, DErr)
      | Panic => None
      end
  | DRemove id =>
      match remove_document s id with Ok (_, s') => Some (s', DOk) | Err => Some (s, DErr) | Panic => None end
  | DGet id =>
      match get_document s id with Ok (m, v) => Some (s, DDoc m v) | Err => Some (s, DErr) | Panic => None end
  | DReopen rw =>
      match open_image rw (flatten (tiles s)) with Ok s' => Some (s', DOk) | _ => None end
  end.

(* the specification: a finite map from ids to (metadata, stored vector) *)
Definition dspec := N -> option (bytes * bytes).
Definition upd (m : dspec) (id : N) (v : option (bytes * bytes)) : dspec :=
  fun x => if id =? x then v else m x.

Definition sstep (m : dspec) (o : dop) : dspec * dout :=
  match o with
  | DAdd id vec meta _ => (upd m id (Some (meta, vec)), DOk)
  | DUpdate id meta _ =>
      match m id with Some (_, vec) => (upd m id (Some (meta, vec)), DOk) | None => (m, DErr) end
  | DRemove id => match m id with Some _ => (upd m id None, DOk) | None => (m, DErr) end
  | DGet id => match m id with Some (me, v) => (m, DDoc me v) | None => (m, DErr) end
  | DReopen _ => (m, DOk)
  end.

(* the inputs the property quantifies over: uint64 ids, sizes below the 32-bit span length,
   sequence numbers below the 32-bit wrap, an admissible growth amount *)
Definition fits_op (s : sf) (o : dop) : Prop :=
  match o with
  | DAdd id vec meta exp => fits_doc s id vec meta exp
  | DUpdate id meta exp =>
      id < two64 /\ match doc_of s id with Some (_, vec) => fits_doc s id vec meta exp | None => True end
  | DRemove id => id < two64
  | DGet id => id < two64
  | DReopen _ => True
  end.

Definition agree (s : sf) (m : dspec) : Prop := forall id, id < two64 -> doc_of s id = m id.

Theorem dstep_refines s m o s' out : CollInv s -> agree s m -> fits_op s o ->
  dstep s o = Some (s', out) ->
  out = snd (sstep m o) /\ CollInv s' /\ agree s' (fst (sstep m o)).
Proof.
  intros HC Ha Hf Hs. destruct o as [id vec meta exp|id meta exp|id|id|rw]; cbn [dstep sstep fits_op] in *.
  - destruct (add_document s id vec meta exp) as [[steps s1]|] eqn:E; [|discriminate].
    inversion Hs; subst. destruct (add_refines _ _ _ _ _ _ _ HC Hf E) as (HC' & Hd).
    cbn [fst snd]. split; [reflexivity|]. split; [exact HC'|]. intros id' Hid'. rewrite Hd by exact Hid'. unfold upd.
    destruct (id =? id'); [reflexivity|now apply Ha].
  - destruct Hf as [Hid Hf]. pose proof (update_refines s id meta exp HC Hid) as U.
    rewrite <- (Ha id Hid). destruct (doc_of s id) as [[m0 vec]|] eqn:Ed.
    + rewrite U in Hs. destruct (add_document s id vec meta exp) as [[steps s1]|] eqn:E; [|discriminate].
      inversion Hs; subst. destruct (add_refines _ _ _ _ _ _ _ HC Hf E) as (HC' & Hd).
      cbn [fst snd]. split; [reflexivity|]. split; [exact HC'|]. intros id' Hid'. rewrite Hd by exact Hid'. unfold upd.
      destruct (id =? id'); [reflexivity|now apply Ha].
    + rewrite U in Hs. inversion Hs; subst. cbn [fst snd]. split; [reflexivity|split; assumption].
  - pose proof (remove_doc_refines s id HC Hf) as R. rewrite <- (Ha id Hf).
    destruct (remove_document s id) as [[steps s1]| |]; [| |contradiction].
    + inversion Hs; subst. destruct R as (Hin & HC' & Hd).
      destruct (doc_of s id); [|congruence]. cbn [fst snd]. split; [reflexivity|]. split; [exact HC'|].
      intros id' Hid'. rewrite Hd by exact Hid'. unfold upd. destruct (id =? id'); [reflexivity|now apply Ha].
    + inversion Hs; subst. rewrite R. cbn [fst snd]. split; [reflexivity|split; assumption].
  - rewrite (get_refines s id HC Hf) in Hs. rewrite <- (Ha id Hf).
    destruct (doc_of s id) as [[me v]|]; inversion Hs; subst; cbn [fst snd]; (split; [reflexivity|split; assumption]).
  - destruct HC as [HI Ho Hr Hsh].
    destruct (reopen_clean rw s HI) as (s1 & Hopen & Ht & Hn & HI1).
    rewrite Hopen in Hs. inversion Hs; subst. cbn [fst snd]. split; [reflexivity|]. split; [constructor|].
    + exact HI1.
    + now rewrite Ht.
    + intros rid H. rewrite Ht in H. now apply Hr.
    + intros id ss Hid E. rewrite Ht in E. now apply (Hsh id).
    + intros id Hid. unfold doc_of. rewrite Ht. now apply Ha.
Qed.

(* with admissible inputs no operation panics, gets stuck, or rejects the growth amount *)
Theorem dstep_total s o : CollInv s -> fits_op s o -> exists s' out, dstep s o = Some (s', out).
Proof.
  intros HC Hf. destruct o as [id vec meta exp|id meta exp|id|id|rw]; cbn [dstep fits_op] in *.
  - destruct Hf as [Hid Hf]. destruct (write_total _ _ _ _ (ci_inv s HC) Hf) as (st & s' & E).
    unfold add_document. unfold doc_streams in E. rewrite E. eauto.
  - destruct Hf as [Hid Hf]. pose proof (update_refines s id meta exp HC Hid) as U.
    destruct (doc_of s id) as [[m0 vec]|]; rewrite U; [|eauto].
    destruct Hf as [_ Hf]. destruct (write_total _ _ _ _ (ci_inv s HC) Hf) as (st & s' & E).
    unfold add_document. unfold doc_streams in E. rewrite E. eauto.
  - pose proof (remove_doc_refines s id HC Hf) as R.
    destruct (remove_document s id) as [[steps s1]| |]; [eauto|eauto|contradiction].
  - rewrite (get_refines s id HC Hf). destruct (doc_of s id) as [[me v]|]; eauto.
  - destruct (reopen_clean rw s (ci_inv s HC)) as (s1 & Hopen & _). rewrite Hopen. eauto.
Qed.

(* histories *)
Inductive Run : sf -> list dop -> sf -> list dout -> Prop :=
| Run_nil : forall s, Run s [] s []
| Run_cons : forall s o ops s1 out s2 outs,
    fits_op s o -> dstep s o = Some (s1, out) -> Run s1 ops s2 outs -> Run s (o :: ops) s2 (out :: outs).

Fixpoint spec_run (m : dspec) (ops : list dop) : dspec * list dout :=
  match ops with
  | [] => (m, [])
  | o :: r => let (m1, out) := sstep m o in let (m2, outs) := spec_run m1 r in (m2, out :: outs)
  end.

Theorem histories_refine : forall ops s m s' outs, CollInv s -> agree s m -> Run s ops s' outs ->
  outs = snd (spec_run m ops) /\ CollInv s' /\ agree s' (fst (spec_run m ops)).
Proof.
  induction ops as [|o ops IH]; intros s m s' outs HC Ha HR.
  - inversion HR; subst. cbn [spec_run fst snd]. split; [reflexivity|split; assumption].
  - inversion HR as [|s0 o0 ops0 s1 out s2 outs0 Hfo Hst Hrun]; subst.
    destruct (dstep_refines _ _ _ _ _ HC Ha Hfo Hst) as (Ho & HC1 & Ha1).
    cbn [spec_run]. destruct (sstep m o) as [m1 out'] eqn:Es. cbn [fst snd] in *.
    destruct (IH _ _ _ _ HC1 Ha1 Hrun) as (Hos & HC2 & Ha2).
    destruct (spec_run m1 ops) as [m2 outs']. cbn [fst snd] in *. subst. split; [reflexivity|split; assumption].
Qed.

(* ---------- the initial states ---------- *)

Lemma initial_sf_eq : initial_sf = {| tiles := [TA initial_image 0 []]; nseq := 1 |}.
Proof. vm_compute. reflexivity. Qed.

Lemma initial_span_wf : wf_span 0 [] [] 0.
Proof.
  constructor.
  - reflexivity.
  - reflexivity.
  - cbn [length]. lia.
  - constructor.
  - vm_compute. reflexivity.
Qed.

Theorem initial_inv : Inv initial_sf.
Proof.
  rewrite initial_sf_eq. constructor; cbn [tiles nseq].
  - constructor; [|constructor]. unfold initial_image. constructor; [exact initial_span_wf|lia].
  - unfold active_rids. cbn [flat_map tile_rid app]. constructor; [intros []|constructor].
  - constructor; [cbn [seq_below]; lia|constructor].
  - discriminate.
  - vm_compute. reflexivity.
  - lia.
Qed.

(* a new collection: the options record is written under the empty id *)
Theorem new_collection_inv json exp steps s : 
  fits initial_sf [] [(0, json)] exp ->
  write_record initial_sf [] [(0, json)] exp = Some (steps, s) ->
  CollInv s /\ forall id, id < two64 -> doc_of s id = None.
Proof.
  intros Hfit Hw. destruct (write_refines _ _ _ _ _ _ initial_inv Hfit Hw) as (HI & Hl & Hn).
  assert (Hrids : forall r, In r (active_rids (tiles s)) <-> r = []).
  { intros r. rewrite (rids_after_write initial_sf s [] _ initial_inv HI Hl r).
    rewrite initial_sf_eq. unfold active_rids. cbn [tiles flat_map tile_rid app In]. intuition congruence. }
  assert (Hnone : forall id, id < two64 -> slookup (abs (tiles s)) (doc_rid id) = None).
  { intros id Hid. destruct (slookup (abs (tiles s)) (doc_rid id)) eqn:E; [|reflexivity].
    assert (H : In (doc_rid id) (active_rids (tiles s))) by (apply in_rids_lookup; [exact HI|congruence]).
    apply Hrids in H. now apply dec_string_nonempty in H. }
  split.
  - constructor.
    + exact HI.
    + now apply Hrids.
    + intros rid H. left. now apply Hrids.
    + intros id ss Hid E. rewrite Hnone in E by exact Hid. discriminate.
  - intros id Hid. unfold doc_of. now rewrite Hnone.
Qed.

(* ---------- an executable guard, so that concrete histories can be shown admissible by computation ---------- *)

Definition fitsb (s : sf) (rid : bytes) (ss : list stream) (exp : N) : bool :=
  (blen rid <? lim63) && (Nat.ltb (length ss) 256) && forallb (fun st => blen (snd st) <? lim63) ss
  && (nseq s + 1 <? 4294967296) && (tiles_len (tiles s) + exp <? 4294967296)
  && (span_size (nseq s) rid ss <=? exp).

Lemma fitsb_fits s rid ss exp : fitsb s rid ss exp = true -> fits s rid ss exp.
Proof.
  unfold fitsb, fits. rewrite !andb_true_iff. intros [[[[[H1 H2] H3] H4] H5] H6].
  apply N.ltb_lt in H1, H4, H5. apply Nat.ltb_lt in H2. apply N.leb_le in H6.
  repeat split; try assumption.
  rewrite forallb_forall in H3. apply Forall_forall. intros st Hin. apply N.ltb_lt. now apply H3.
Qed.

Definition fits_opb (s : sf) (o : dop) : bool :=
  match o with
  | DAdd id vec meta exp => (id <? two64) && fitsb s (doc_rid id) (doc_streams meta vec) exp
  | DUpdate id meta exp =>
      (id <? two64) && match doc_of s id with
                       | Some (_, vec) => (id <? two64) && fitsb s (doc_rid id) (doc_streams meta vec) exp
                       | None => true
                       end
  | DRemove id => id <? two64
  | DGet id => id <? two64
  | DReopen _ => true
  end.

Lemma fits_opb_fits s o : fits_opb s o = true -> fits_op s o.
Proof.
  destruct o as [id vec meta exp|id meta exp|id|id|rw]; cbn [fits_opb fits_op].
  - rewrite andb_true_iff. intros [H1 H2]. split; [now apply N.ltb_lt|now apply fitsb_fits].
  - rewrite andb_true_iff. intros [H1 H2]. split; [now apply N.ltb_lt|].
    destruct (doc_of s id) as [[m0 vec]|]; [|exact I].
    apply andb_true_iff in H2. destruct H2 as [H2 H3]. split; [now apply N.ltb_lt|now apply fitsb_fits].
  - apply N.ltb_lt.
  - apply N.ltb_lt.
  - intros _. exact I.
Qed.

Fixpoint runb (s : sf) (ops : list dop) : option (sf * list dout) :=
  match ops with
  | [] => Some (s, [])
  | o :: r =>
      if fits_opb s o then
        match dstep s o with
        | Some (s1, out) => match runb s1 r with Some (s2, outs) => Some (s2, out :: outs) | None => None end
        | None => None
        end
      else None
  end.

Lemma runb_Run : forall ops s s' outs, runb s ops = Some (s', outs) -> Run s ops s' outs.
Proof.
  induction ops as [|o ops IH]; intros s s' outs H; cbn [runb] in H.
  - inversion H; subst. constructor.
  - destruct (fits_opb s o) eqn:Ef; [|discriminate].
    destruct (dstep s o) as [[s1 out]|] eqn:Ed; [|discriminate].
    destruct (runb s1 ops) as [[s2 outs']|] eqn:Er; [|discriminate].
    inversion H; subst. econstructor; [now apply fits_opb_fits|exact Ed|now apply IH].
Qed.
