(* VarintProofs.v — round trip of the 7-bit length code. *)
From Coq Require Import ZArith Lia ZifyN ZifyBool ZifyNat.
From Syz Require Import Varint Consts ConstsOk.
Open Scope N_scope.
Ltac Zify.zify_post_hook ::= Z.div_mod_to_equations.

Definition two64 : N := 18446744073709551616.

Lemma length_digits k n : length (digits k n) = k.
Proof.
  induction k as [|[|k'] IH]; cbn [digits length]; try reflexivity.
  cbn [digits length] in IH. rewrite IH. reflexivity.
Qed.

Lemma length_write7 n : length (write7 n) = lengthOf7w n.
Proof. apply length_digits. Qed.

Lemma read7_digits : forall k n rest acc c, (0 < k)%nat ->
  acc * 128 ^ (N.of_nat k) + n mod 128 ^ (N.of_nat k) < two64 ->
  read7_from (digits k n ++ rest) acc c
  = Some (acc * 128 ^ (N.of_nat k) + n mod 128 ^ (N.of_nat k), (c + k)%nat).
Proof.
  induction k as [|k IH]; intros n rest acc c Hk Hb; [lia|].
  destruct k as [|k'].
  - cbn [digits app read7_from]. change (128 ^ N.of_nat 1) with 128 in *.
    rewrite N.mod_mod by lia.
    assert (n mod 128 < 128) by (apply N.mod_lt; lia).
    rewrite (N.mod_small (acc * 128 + n mod 128)) by (unfold two64 in Hb; lia).
    destruct (n mod 128 <? 128) eqn:E; [|lia]. f_equal. f_equal. lia.
  - change (digits (S (S k')) n) with (((n / 128 ^ (N.of_nat (S k'))) mod 128 + 128) :: digits (S k') n).
    cbn [app read7_from].
    set (P := 128 ^ N.of_nat (S k')) in *.
    assert (HP : 128 ^ N.of_nat (S (S k')) = P * 128).
    { unfold P. rewrite (Nnat.Nat2N.inj_succ (S k')), N.pow_succ_r'. apply N.mul_comm. }
    assert (Ppos : P <> 0) by (unfold P; apply N.pow_nonzero; lia).
    set (q := (n / P) mod 128).
    assert (Hq : q < 128) by (apply N.mod_lt; lia).
    replace ((q + 128) mod 128) with q.
    2:{ rewrite N.add_mod by lia. rewrite N.mod_same by lia. rewrite N.add_0_r, N.mod_mod by lia.
        symmetry; apply N.mod_small; exact Hq. }
    destruct (q + 128 <? 128) eqn:E; [lia|].
    assert (Hsplit : n mod (P * 128) = P * q + n mod P).
    { rewrite N.mod_mul_r by lia. fold q. lia. }
    rewrite HP, Hsplit in Hb.
    assert (Hsmall : acc * 128 + q < two64).
    { apply N.le_lt_trans with (acc * (P * 128) + (P * q + n mod P)); [|exact Hb].
      assert (H1 : 1 * 128 <= P * 128) by (apply N.mul_le_mono_r; lia).
      assert (H2 : acc * 128 <= acc * (P * 128)) by (apply N.mul_le_mono_l; lia).
      assert (H3 : 1 * q <= P * q) by (apply N.mul_le_mono_r; lia).
      lia. }
    rewrite (N.mod_small (acc * 128 + q)) by exact Hsmall.
    rewrite IH; [|lia|fold P; lia].
    fold P. f_equal. f_equal; [|lia].
    rewrite HP, Hsplit. lia.
Qed.

Lemma lengthOf7w_pos n : (0 < lengthOf7w n)%nat.
Proof.
  unfold lengthOf7w. destruct w7_thresholds as [|t r]; cbn [count7]; [lia|].
  destruct (n <? t); lia.
Qed.

Lemma lengthOf7w_bound n : n < 2 ^ 63 -> n < 128 ^ N.of_nat (lengthOf7w n).
Proof.
  intros H. unfold lengthOf7w. rewrite w7_thresholds_ok. cbn [count7].
  repeat match goal with |- context [if ?a <? ?b then _ else _] => destruct (N.ltb_spec a b) end;
  cbn [N.of_nat Pos.of_succ_nat Pos.succ]; lia.
Qed.

Theorem read7_write7 n rest : n < 2 ^ 63 ->
  read7 (write7 n ++ rest) = Some (n, lengthOf7w n).
Proof.
  intros H. unfold read7, write7.
  pose proof (lengthOf7w_bound n H) as Hb.
  rewrite read7_digits.
  - rewrite N.mod_small by exact Hb. f_equal.
  - apply lengthOf7w_pos.
  - rewrite N.mod_small by exact Hb. unfold two64. cbn [N.mul]. lia.
Qed.

(* lengthOf7Code agrees with the number of bytes write7Code emits below 2^63 - 1 *)
Lemma lengthOf7_agree n : n < 2 ^ 63 - 1 -> lengthOf7 n = lengthOf7w n.
Proof.
  intros H. unfold lengthOf7, lengthOf7w. rewrite w7_thresholds_ok, l7_thresholds_ok. cbn [count7].
  repeat match goal with |- context [if ?a <? ?b then _ else _] => destruct (N.ltb_spec a b) end;
  try reflexivity; lia.
Qed.

Lemma lengthOf7w_le9 n : (lengthOf7w n <= 9)%nat.
Proof.
  unfold lengthOf7w. rewrite w7_thresholds_ok. cbn [count7].
  repeat match goal with |- context [if ?a <? ?b then _ else _] => destruct (a <? b) end; lia.
Qed.
