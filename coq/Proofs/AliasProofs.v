From Coq Require Import List NArith Arith Bool Lia.
Import ListNotations.
From Syz Require Import Alias.

Lemma observe_copy_stable : forall bs m h, observe (mrun m h) (Copy bs) = observe m (Copy bs).
Proof. reflexivity. Qed.

Lemma current_stable : forall s m off len h,
  observe (mrun m h) (ret_current s m off len) = observe m (ret_current s m off len).
Proof. reflexivity. Qed.

Lemma current_fresh : forall s m off len,
  observe m (ret_current s m off len) = Bytes (slice off len (m_img m)).
Proof. reflexivity. Qed.

(* a window of an open mapping is readable when handed out ... *)
Lemma view_now : forall m off len, m_open m = true -> off + len <= length (m_img m) ->
  observe m (View (m_gen m) off len) = Bytes (slice off len (m_img m)).
Proof.
  intros m off len Ho Hl. unfold observe. rewrite Ho, Nat.eqb_refl.
  destruct (Nat.leb_spec (off + len) (length (m_img m))); [reflexivity | lia].
Qed.

(* ... and every window is lost by one later Close, growth or reopen *)
Lemma gen_neq : forall g, Nat.eqb g (S g) = false.
Proof. intro g. apply Nat.eqb_neq. lia. Qed.

Lemma view_faults_after_close : forall m off len,
  observe (mstep m MClose) (View (m_gen m) off len) = Fault.
Proof. intros. unfold observe, mstep; simpl. reflexivity. Qed.

Lemma view_faults_after_grow : forall m off len extra, m_open m = true ->
  observe (mstep m (MGrow extra)) (View (m_gen m) off len) = Fault.
Proof. intros m off len extra Ho. unfold observe, mstep. rewrite Ho. simpl. rewrite gen_neq. reflexivity. Qed.

(* a non-empty window of an open mapping is changed by one later in-place write *)
Definition flip (b : N) : N := if N.eqb b 0 then 1%N else 0%N.
Lemma flip_neq : forall b, flip b <> b.
Proof. intro b. unfold flip. destruct (N.eqb_spec b 0); subst; [discriminate|]. intro H. apply n. symmetry. exact H. Qed.

Lemma skipn_cons_nth : forall (l : list N) off, off < length l ->
  exists x r, skipn off l = x :: r.
Proof.
  induction l as [|a l IH]; intros off H; simpl in H; [lia|].
  destruct off; simpl; [eauto|]. apply IH. lia.
Qed.

Lemma skipn_succ_tail : forall off (l : list N) x r, skipn off l = x :: r -> skipn (off + 1) l = r.
Proof.
  induction off as [|off IH]; intros l x r H; simpl in *.
  - subst l. reflexivity.
  - destruct l as [|a l]; [discriminate|]. simpl. apply (IH l x r H).
Qed.

Lemma splice_skipn_head : forall (l : list N) off x r b, skipn off l = x :: r ->
  skipn off (splice off [b] l) = b :: r.
Proof.
  intros l off x r b H. unfold splice. simpl length.
  assert (Hlen : off <= length l).
  { destruct (Nat.le_gt_cases off (length l)) as [Hle|Hgt]; [exact Hle|].
    rewrite skipn_all2 in H by lia. discriminate. }
  rewrite skipn_app. rewrite skipn_firstn_comm. rewrite Nat.sub_diag. simpl firstn. simpl app.
  rewrite firstn_length_le by exact Hlen. rewrite Nat.sub_diag. simpl skipn at 1.
  rewrite (skipn_succ_tail _ _ _ _ H). reflexivity.
Qed.

Lemma view_changed_by_write : forall m off len, m_open m = true -> 0 < len -> off + len <= length (m_img m) ->
  exists o, observe (mstep m o) (View (m_gen m) off len) <> observe m (View (m_gen m) off len).
Proof.
  intros m off len Ho Hlen Hin.
  destruct (skipn_cons_nth (m_img m) off) as [x [r Hs]]; [lia|].
  exists (MWrite off [flip x]).
  rewrite view_now by assumption.
  unfold mstep. rewrite Ho. simpl length.
  destruct (Nat.leb_spec (off + 1) (length (m_img m))) as [Hle|Hgt]; [|lia]. simpl andb.
  unfold observe. cbn [m_open m_gen m_img]. rewrite Nat.eqb_refl. simpl andb.
  assert (Hl2 : length (splice off [flip x] (m_img m)) = length (m_img m)).
  { unfold splice. rewrite !app_length, firstn_length_le, skipn_length by lia. simpl length. lia. }
  rewrite Hl2. destruct (Nat.leb_spec (off + len) (length (m_img m))) as [_|Hbad]; [|lia].
  unfold slice. rewrite (splice_skipn_head _ _ _ _ _ Hs), Hs.
  destruct len as [|len']; [lia|]. simpl. intro E. inversion E as [E1]. exact (flip_neq x E1).
Qed.

(* ---- caller-supplied slices ---- *)
Lemma kept_stable : forall c i h, kobserve (crun c h) (keep_current c i) = nth i c [].
Proof. reflexivity. Qed.

Lemma nth_set_nth : forall c i x, i < length c -> nth i (set_nth i x c) [] = x.
Proof.
  induction c as [|y c IH]; intros i x Hi; cbn [length] in Hi; [lia|].
  destruct i as [|i]; cbn [set_nth nth]; [reflexivity|]. apply IH. lia.
Qed.

(* a retained slice is refuted by ONE later write of the caller into its own buffer *)
Lemma ref_changed_by_caller : forall c i, i < length c -> nth i c [] <> [] ->
  exists o, kobserve (cstep c o) (keep_ref c i) <> kobserve c (keep_ref c i).
Proof.
  intros c i Hi Hne. destruct (nth i c []) as [|x xs] eqn:E; [congruence|].
  exists (CWrite i 0 [N.succ x]). cbn [cstep keep_ref kobserve]. rewrite nth_set_nth by exact Hi.
  rewrite E. unfold splice. cbn [firstn app length Nat.add skipn]. intro H. inversion H as [H1].
  apply N.neq_succ_diag_l in H1. exact H1.
Qed.

(* operations of the collection leave the caller's buffers as they are, and writes of the caller into its own
   buffers leave the mapping (and so every stored document) as it is — for every interleaving of the two *)
Lemma joint_independent : forall h m c,
  snd (joint_run (m, c) h) = crun c (flat_map (fun o => match o with inr co => [co] | inl _ => [] end) h)
  /\ fst (joint_run (m, c) h) = mrun m (flat_map (fun o => match o with inl mo => [mo] | inr _ => [] end) h).
Proof.
  unfold joint_run, crun, mrun. induction h as [|o h IH]; intros m c; [split; reflexivity|].
  destruct o as [mo|co]; cbn [fold_left flat_map joint_step fst snd app]; apply IH.
Qed.
