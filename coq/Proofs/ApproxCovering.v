(* ApproxCovering.v — a default-precision radius search returns EVERY live document accepted by the filter that the
   index holds, provided the radius covers them (each is within the radius) and no hyperplane lies farther from the
   query than the radius (for a separating plane this is geometry: the plane is at most as far as any point beyond
   it).  Then nothing is pruned, nothing is merely "checked", the early-stop counter never runs, and the queue —
   in whatever order — hands out every leaf. *)
From Coq Require Import ZArith Floats List Bool Lia Sorting.Permutation.
From Syz Require Import Quant Dist Search SearchProofs Lsh ApproxProofs HeapPerm ApproxNonEmpty.
Import ListNotations.
Open Scope Z_scope.

Section Cover.
Variable cosine : bool.
Variable q : list float.
Variable qlen : float.
Variable K : nat.
Variable R : float.
Variable docs : list sdoc.
Hypothesis HR : PrimFloat.ltb 0 R = true.          (* radius mode *)
(* the radius covers every accepted document *)
Hypothesis Hcover : forall d, In d docs -> sd_ok d = true -> PrimFloat.leb (distance cosine q (sd_vec d)) R = true.

Definition not_far (p : float) : Prop := PrimFloat.ltb R (- p)%float = false.

Fixpoint tree_okr (t : tree) : Prop :=
  match t with
  | Leaf ids => Forall (live docs) ids
  | Node n b l r =>
      (let (d, _) := dist_to_hyperplane cosine q qlen n b in not_far d /\ not_far (- d)%float)
      /\ tree_okr l /\ tree_okr r
  | Nil => False
  end.

Definition ids_of (s : sstate) : list Z := map fst (st_res s).

Record cinv (s : sstate) : Prop := {
  ci_stop : st_stop s = false;
  ci_kc : st_kc s = 0;
  ci_rad : st_radius s = R;
  ci_seen : forall x, wanted docs x -> In x (st_visited s) -> In x (ids_of s) }.

Lemma find_in id d : find (fun x => sd_id x =? id) docs = Some d -> In d docs.
Proof. intros H. apply find_some in H. tauto. Qed.

Lemma in_insert (x : hit) l y : In y (map fst (insert_asc PrimFloat.ltb x l)) <-> y = fst x \/ In y (map fst l).
Proof.
  pose proof (insert_perm _ PrimFloat.ltb x l) as P. split; intros H.
  - apply (Permutation_in _ (Permutation_map fst P)) in H. cbn [map] in H. destruct H as [<-|H]; auto.
  - apply (Permutation_in _ (Permutation_sym (Permutation_map fst P))). cbn [map]. destruct H as [->|H]; [left; reflexivity|right; exact H].
Qed.

Lemma visit_cover : forall ids s, cinv s -> Forall (live docs) ids ->
  let s' := visit_ids cosine q K R docs ids s in
  cinv s' /\ (forall x, In x (ids_of s) -> In x (ids_of s')) /\
  (forall x, In x (st_visited s') <-> In x (st_visited s) \/ In x ids).
Proof.
  induction ids as [|id r IH]; intros s Hi Hl; cbn zeta; cbn [visit_ids].
  - split; [exact Hi|]. split; [auto|]. intros x. cbn [In]. tauto.
  - inversion Hl as [|? ? Hid Hr]; subst. rewrite (ci_stop s Hi).
    destruct (existsb (fun x => x =? id) (st_visited s)) eqn:Ev.
    + destruct (IH s Hi Hr) as (A1 & A2 & A3). split; [exact A1|]. split; [exact A2|].
      intros x. rewrite A3. cbn [In]. split; [intros [H|H]; auto|]. intros [H|[<-|H]]; auto.
      left. apply existsb_exists in Ev. destruct Ev as [y [Hy E]]. apply Z.eqb_eq in E. subst. exact Hy.
    + destruct Hid as [d Hd]. unfold consider_approx. cbn [st_res st_radius st_pts st_kc st_acc st_visited st_stop]. rewrite Hd.
      assert (Hstep : forall s1, cinv s1 -> (forall x, In x (ids_of s) -> In x (ids_of s1)) ->
                (forall x, In x (st_visited s1) <-> id = x \/ In x (st_visited s)) ->
                let s' := visit_ids cosine q K R docs r s1 in
                cinv s' /\ (forall x, In x (ids_of s) -> In x (ids_of s')) /\
                (forall x, In x (st_visited s') <-> In x (st_visited s) \/ In x (id :: r))).
      { intros s1 H1 Hmono Hv. destruct (IH s1 H1 Hr) as (A1 & A2 & A3). split; [exact A1|]. split; [intros x Hx; apply A2, Hmono, Hx|].
        intros x. rewrite A3, Hv. cbn [In]. tauto. }
      destruct (sd_ok d) eqn:Eok; cbn [negb].
      * (* accepted by the filter: within the radius by Hcover, so it enters the result list *)
        rewrite HR. rewrite (Hcover d (find_in id d Hd) Eok).
        apply Hstep.
        { constructor; cbn [st_stop st_kc st_radius st_res st_visited ids_of]; try reflexivity; [exact (ci_rad s Hi)|].
          intros x Hw [<-|Hv]; unfold ids_of; cbn [st_res]; apply in_insert; [left; reflexivity|right; apply (ci_seen s Hi); assumption]. }
        { intros x Hx. unfold ids_of. cbn [st_res]. apply in_insert. right. exact Hx. }
        { intros x. cbn [st_visited In]. split; intros [H|H]; auto. }
      * (* rejected by the filter *)
        apply Hstep.
        { destruct Hi as [I1 I2 I3 I4]. constructor; cbn [st_stop st_kc st_radius st_res st_visited]; try assumption; try reflexivity.
          intros x Hw [<-|Hv]; [|apply I4; assumption].
          destruct Hw as [d' [Hd' Hok']]. rewrite Hd in Hd'. inversion Hd'; subst. congruence. }
        { intros x Hx. exact Hx. }
        { intros x. cbn [st_visited In]. split; intros [H|H]; auto. }
Qed.

Definition item_okr (it : qitem) : Prop := not_far (fst it) /\ tree_okr (snd it).

Theorem loop_covers : forall fuel nq s id, (qsize nq <= fuel)%nat -> cinv s -> Forall item_okr nq ->
  wanted docs id ->
  (In id (ids_of s) \/ (~ In id (st_visited s) /\ exists it, In it nq /\ In id (leaf_ids (snd it)))) ->
  In id (ids_of (search_loop fuel cosine q qlen K R docs nq s)).
Proof.
  assert (Hkeep : forall fuel nq s x, cinv s -> Forall item_okr nq -> In x (ids_of s) ->
            In x (ids_of (search_loop fuel cosine q qlen K R docs nq s))).
  { induction fuel as [|f IH]; intros nq s x Hi Hok Hx; cbn [search_loop]; [exact Hx|].
    destruct (hpop fst (0%float, Nil) nq) as [[[pr node] nq']|] eqn:Ep; [|exact Hx].
    pose proof (hpop_perm _ _ _ _ _ _ Ep) as P.
    assert (Hok' : Forall item_okr ((pr, node) :: nq')) by (eapply Permutation_Forall; eauto).
    inversion Hok' as [|? ? [Hpr Htok] Hoknq]; subst. cbn [fst snd] in Hpr, Htok.
    destruct (_ && _ && _); [apply IH; assumption|]. destruct (search_k <=? st_kc s); [exact Hx|].
    destruct node as [ids|n b l r|]; [| |exact Hx].
    - destruct (visit_cover ids s Hi Htok) as (A1 & A2 & A3). rewrite (ci_stop _ A1). apply IH; [exact A1|exact Hoknq|apply A2; exact Hx].
    - cbn [tree_okr] in Htok. destruct Htok as (Hd & Hl & Hr). destruct (dist_to_hyperplane cosine q qlen n b) as [d right]. destruct Hd as [Hd1 Hd2].
      destruct right; (apply IH; [exact Hi| |exact Hx]);
        (eapply Permutation_Forall; [apply Permutation_sym; eapply Permutation_trans; [apply hpush_perm|constructor; apply hpush_perm]|]);
        (constructor; [split; assumption|]; constructor; [split; assumption|exact Hoknq]). }
  induction fuel as [|f IH]; intros nq s id Hfuel Hi Hok Hw [Hin|(Hnv & it & Hit & Hid)].
  - exact Hin.
  - exfalso. pose proof (qsize_pos nq it Hit). lia.
  - apply Hkeep; assumption.
  - cbn [search_loop]. destruct (hpop fst (0%float, Nil) nq) as [[[pr node] nq']|] eqn:Ep.
    2:{ apply hpop_none in Ep. subst. contradiction. }
    pose proof (hpop_perm _ _ _ _ _ _ Ep) as P.
    assert (Hsz : qsize nq = (tree_size node + qsize nq')%nat) by (rewrite (qsize_perm _ _ P); reflexivity).
    assert (Hok' : Forall item_okr ((pr, node) :: nq')) by (eapply Permutation_Forall; eauto).
    inversion Hok' as [|? ? [Hpr Htok] Hoknq]; subst. cbn [fst snd] in Hpr, Htok.
    rewrite (ci_rad s Hi). unfold not_far in Hpr. rewrite Hpr, andb_false_r. cbn [andb].
    rewrite (ci_kc s Hi). change (search_k <=? 0) with false.
    assert (Hwhere : In it ((pr, node) :: nq')) by (eapply Permutation_in; eauto).
    destruct node as [ids|n b l r|]; [| |contradiction].
    + destruct (visit_cover ids s Hi Htok) as (A1 & A2 & A3). rewrite (ci_stop _ A1).
      destruct Hwhere as [<-|Hin'].
      * cbn [snd leaf_ids] in Hid. apply Hkeep; [exact A1|exact Hoknq|].
        apply (ci_seen _ A1 id Hw). apply A3. right. exact Hid.
      * apply (IH nq' _ id); [unfold qsize in *; cbn [tree_size] in Hsz; lia|exact A1|exact Hoknq|exact Hw|].
        destruct (in_dec Z.eq_dec id ids) as [Hi'|Hni].
        { left. apply (ci_seen _ A1 id Hw). apply A3. right. exact Hi'. }
        right. split; [|exists it; auto]. intros Hv. apply A3 in Hv. destruct Hv; contradiction.
    + cbn [tree_okr] in Htok. destruct Htok as (Hd & Hl & Hr).
      destruct (dist_to_hyperplane cosine q qlen n b) as [d right]. destruct Hd as [Hd1 Hd2].
      assert (Hpush : forall (a b0 : qitem) h, Permutation (hpush fst (0%float, Nil) (hpush fst (0%float, Nil) h a) b0) (b0 :: a :: h)).
      { intros a b0 h. eapply Permutation_trans; [apply hpush_perm|]. constructor. apply hpush_perm. }
      destruct right.
      * pose proof (Hpush (d, r) ((- d)%float, l) nq') as Pq.
        apply (IH _ s id); [rewrite (qsize_perm _ _ Pq); unfold qsize in *; cbn [fold_right snd tree_size] in *; lia|exact Hi| |exact Hw|].
        { eapply Permutation_Forall; [apply Permutation_sym; exact Pq|]. constructor; [split; assumption|]. constructor; [split; assumption|exact Hoknq]. }
        right. split; [exact Hnv|]. destruct Hwhere as [<-|Hin'].
        { cbn [snd leaf_ids] in Hid. apply in_app_or in Hid. destruct Hid as [Hx|Hx].
          - exists ((- d)%float, l). split; [eapply Permutation_in; [apply Permutation_sym; exact Pq|left; reflexivity]|exact Hx].
          - exists (d, r). split; [eapply Permutation_in; [apply Permutation_sym; exact Pq|right; left; reflexivity]|exact Hx]. }
        exists it. split; [eapply Permutation_in; [apply Permutation_sym; exact Pq|right; right; exact Hin']|exact Hid].
      * pose proof (Hpush (d, l) ((- d)%float, r) nq') as Pq.
        apply (IH _ s id); [rewrite (qsize_perm _ _ Pq); unfold qsize in *; cbn [fold_right snd tree_size] in *; lia|exact Hi| |exact Hw|].
        { eapply Permutation_Forall; [apply Permutation_sym; exact Pq|]. constructor; [split; assumption|]. constructor; [split; assumption|exact Hoknq]. }
        right. split; [exact Hnv|]. destruct Hwhere as [<-|Hin'].
        { cbn [snd leaf_ids] in Hid. apply in_app_or in Hid. destruct Hid as [Hx|Hx].
          - exists (d, l). split; [eapply Permutation_in; [apply Permutation_sym; exact Pq|right; left; reflexivity]|exact Hx].
          - exists ((- d)%float, r). split; [eapply Permutation_in; [apply Permutation_sym; exact Pq|left; reflexivity]|exact Hx]. }
        exists it. split; [eapply Permutation_in; [apply Permutation_sym; exact Pq|right; right; exact Hin']|exact Hid].
Qed.
End Cover.

(* 0 < R implies not (R < -0) *)
From Coq Require Import SpecFloat.
Lemma pos_not_below_negzero R : PrimFloat.ltb 0 R = true -> PrimFloat.ltb R (- 0)%float = false.
Proof.
  rewrite !ltb_spec. unfold SFltb.
  change (Prim2SF (- 0)%float) with (S754_zero true). change (Prim2SF 0%float) with (S754_zero false).
  destruct (Prim2SF R) as [s|s| |s m e]; cbn [SFcompare]; try discriminate; try reflexivity;
    destruct s; try discriminate; reflexivity.
Qed.

Theorem approx_covering cosine q K R docs forest id : PrimFloat.ltb 0 R = true ->
  (forall d, In d docs -> sd_ok d = true -> PrimFloat.leb (distance cosine q (sd_vec d)) R = true) ->
  Forall (tree_okr cosine q (vector_length q) R docs) forest ->
  wanted docs id -> (exists t, In t forest /\ In id (leaf_ids t)) ->
  In id (map fst (fst (fst (search_approx cosine q K R docs forest)))).
Proof.
  intros HR Hcover Hok Hw (t & Ht & Hid). unfold search_approx. cbn [fst]. rewrite HR.
  set (nq := fold_left _ forest []).
  pose proof (init_queue_perm forest []) as P. fold nq in P. rewrite app_nil_r in P.
  apply (loop_covers cosine q (vector_length q) K R docs HR Hcover).
  - rewrite (qsize_perm _ _ P), qsize_map, fold_left_size. lia.
  - constructor; cbn; try reflexivity. intros x _ [].
  - eapply Permutation_Forall; [apply Permutation_sym; exact P|].
    rewrite Forall_forall in *. intros it Hin. apply in_map_iff in Hin. destruct Hin as (t0 & <- & Ht0).
    split; [apply pos_not_below_negzero; exact HR|apply Hok; exact Ht0].
  - exact Hw.
  - right. split; [intros []|]. exists (0%float, t). split; [|exact Hid].
    eapply Permutation_in; [apply Permutation_sym; exact P|]. apply in_map. exact Ht.
Qed.
