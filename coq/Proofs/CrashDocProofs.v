(* CrashDocProofs.v — crash points of the document operations: the recovered collection satisfies the
   collection invariant and holds the pre- or the post-operation contents. *)
From Coq Require Import ZArith Lia.
From Syz Require Import Coll ListLemmas SpanProofs ScanProofs StoreProofs ReopenProofs CrashProofs DecimalProofs CollProofs HistoryProofs.
Open Scope N_scope.

Lemma coll_inv_same s s_r : CollInv s -> Inv s_r -> same_as s_r s ->
  CollInv s_r /\ forall id, id < two64 -> doc_of s_r id = doc_of s id.
Proof.
  intros [HI Ho Hr Hsh] HIr Hs. unfold same_as in Hs.
  assert (Hrid : forall r, In r (active_rids (tiles s_r)) <-> In r (active_rids (tiles s))).
  { intros r. rewrite !in_rids_lookup by assumption. now rewrite Hs. }
  split.
  - constructor.
    + exact HIr.
    + now apply Hrid.
    + intros rid H. apply Hrid in H. now apply Hr.
    + intros id ss Hid E. rewrite Hs in E. now apply (Hsh id).
  - intros id Hid. unfold doc_of. now rewrite Hs.
Qed.

Lemma coll_inv_written s s_r id vec meta : CollInv s -> Inv s_r -> id < two64 ->
  written s_r s (doc_rid id) (doc_streams meta vec) ->
  CollInv s_r /\ forall id', id' < two64 ->
     doc_of s_r id' = if id =? id' then Some (meta, vec) else doc_of s id'.
Proof.
  intros [HI Ho Hr Hsh] HIr Hid Hl. unfold written in Hl.
  pose proof (rids_after_write s s_r _ _ HI HIr Hl) as Hrid.
  split.
  - constructor.
    + exact HIr.
    + apply Hrid. now right.
    + intros rid H. apply Hrid in H. destruct H as [->|H]; [right; eauto|now apply Hr].
    + intros id' ss Hid' E. rewrite Hl in E. rewrite doc_rid_eqb in E by assumption.
      destruct (id =? id'); [inversion E; unfold doc_streams; eauto|now apply (Hsh id')].
  - intros id' Hid'. unfold doc_of. rewrite Hl, doc_rid_eqb by assumption.
    destruct (id =? id'); reflexivity.
Qed.

(* AddDocument (insert or overwrite) and, through it, UpdateDocument: every image between two storage
   steps recovers to a collection that holds either the old or the new contents *)
Theorem crash_add s id vec meta exp st : CollInv s -> fits_doc s id vec meta exp ->
  write_stages (tiles s) (nseq s) (doc_rid id) (doc_streams meta vec) exp = Some st ->
  forall stage, In stage (map snd st) ->
  exists s_r, open_image true (flatten stage) = Ok s_r /\ CollInv s_r
     /\ ((forall id', id' < two64 -> doc_of s_r id' = doc_of s id')
         \/ (forall id', id' < two64 -> doc_of s_r id' = if id =? id' then Some (meta, vec) else doc_of s id')).
Proof.
  intros HC [Hid Hfit] Hst stage Hin.
  destruct (crash_write s _ _ _ _ (ci_inv s HC) Hfit Hst stage Hin) as (s_r & Ho & Hi & [Hs|Hw]).
  - destruct (coll_inv_same s s_r HC Hi Hs) as [HC' Hd]. exists s_r. split; [exact Ho|]. split; [exact HC'|now left].
  - destruct (coll_inv_written s s_r id vec meta HC Hi Hid Hw) as [HC' Hd]. exists s_r.
    split; [exact Ho|]. split; [exact HC'|now right].
Qed.

Theorem crash_remove_doc s id steps s' : CollInv s -> id < two64 ->
  remove_document s id = Ok (steps, s') ->
  (exists s_r, open_image true (flatten (tiles s)) = Ok s_r /\ CollInv s_r
               /\ forall id', id' < two64 -> doc_of s_r id' = doc_of s id')
  /\ (exists s_r, open_image true (flatten (tiles s')) = Ok s_r /\ CollInv s_r
               /\ forall id', id' < two64 -> doc_of s_r id' = if id =? id' then None else doc_of s id').
Proof.
  intros HC Hid Hr. unfold remove_document in Hr.
  pose proof (remove_doc_refines s id HC Hid) as R. unfold remove_document in R. rewrite Hr in R.
  destruct R as (_ & HC' & Hd).
  destruct (crash_remove s _ _ _ (ci_inv s HC) Hr) as [(r1 & Ho1 & Hi1 & Hs1) (r2 & Ho2 & Hi2 & Hs2)].
  split.
  - destruct (coll_inv_same s r1 HC Hi1 Hs1) as [H1 H2]. exists r1. split; [exact Ho1|]. split; assumption.
  - destruct (coll_inv_same s' r2 HC' Hi2 Hs2) as [H1 H2]. exists r2. split; [exact Ho2|]. split; [exact H1|].
    intros id' Hid'. rewrite H2 by exact Hid'. now apply Hd.
Qed.
