(* ConstsOk.v — the literals regenerated from the Go source have the values the proofs rely on.
   A literal edited in /repo changes Gen/Consts.v and one of these lemmas stops compiling. *)
From Coq Require Import NArith List Lia.
From Syz Require Import Consts.
Import ListNotations.
Open Scope N_scope.

Lemma w7_thresholds_ok :
  w7_thresholds = [127; 16383; 2097151; 268435455; 34359738367; 4398046511103; 562949953421311; 72057594037927935].
Proof. reflexivity. Qed.

Lemma l7_thresholds_ok :
  l7_thresholds = [127; 16383; 2097151; 268435455; 34359738367; 4398046511103; 562949953421311; 72057594037927935; 9223372036854775807].
Proof. reflexivity. Qed.

Lemma minSpanLength_ok : minSpanLength = 15.
Proof. reflexivity. Qed.

Lemma magic_ok : activeMagic = 1397768526 /\ freeMagic = 1179796805.
Proof. split; reflexivity. Qed.

(* growMin (the growth quantum found in allocateSpan) is only recorded: the growth amount is an oracle argument of
   the model, every theorem holds for any amount >= the record *)
