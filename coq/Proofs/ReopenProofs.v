(* ReopenProofs.v — closing and opening a clean file again gives the same tiles, hence the same
   index, free map and contents. *)
From Coq Require Import ZArith Lia ZifyN ZifyBool ZifyNat.
From Syz Require Import Store Consts ConstsOk ListLemmas VarintProofs CrcBound SpanProofs ScanProofs StoreProofs.
Open Scope N_scope.

Lemma best_seq_notin ts rid m : ~ In rid (active_rids ts) -> best_seq ts rid m = m.
Proof.
  revert m. induction ts as [|t ts IH]; intros m H; [reflexivity|].
  unfold active_rids in H. cbn [flat_map] in H. fold (active_rids ts) in H.
  destruct t as [img seq r|len junk|bs|bs]; cbn [best_seq tile_rid app] in *; try (apply IH; exact H).
  destruct (bytes_eqb r rid) eqn:E.
  - apply bytes_eqb_eq in E. subst. exfalso. apply H. now left.
  - apply IH. intros H1. apply H. now right.
Qed.

Lemma best_seq_unique a img seq rid b :
  ~ In rid (active_rids a) -> ~ In rid (active_rids b) ->
  best_seq (a ++ TA img seq rid :: b) rid None = Some seq.
Proof.
  intros Ha Hb. induction a as [|t a IH].
  - cbn [app best_seq]. rewrite bytes_eqb_refl. apply best_seq_notin. exact Hb.
  - unfold active_rids in Ha. cbn [flat_map] in Ha. fold (active_rids a) in Ha.
    destruct t as [img' seq' r|len junk|bs|bs]; cbn [app best_seq tile_rid] in *; try (apply IH; exact Ha).
    destruct (bytes_eqb r rid) eqn:E.
    + apply bytes_eqb_eq in E. subst. exfalso. apply Ha. now left.
    + apply IH. intros H1. apply Ha. now right.
Qed.

Lemma mem_bytes_false x l : ~ In x l -> mem_bytes x l = false.
Proof.
  induction l as [|y l IH]; intros H; [reflexivity|]. cbn [mem_bytes].
  destruct (bytes_eqb y x) eqn:E.
  - apply bytes_eqb_eq in E. subst. exfalso. apply H. now left.
  - cbn [orb]. apply IH. intros H1. apply H. now right.
Qed.

Lemma dedup_clean rw : forall ts pre done,
  NoDup (active_rids (pre ++ ts)) -> (forall r, In r done -> In r (active_rids pre)) ->
  dedup_go rw (pre ++ ts) ts done = ts.
Proof.
  induction ts as [|t ts IH]; intros pre done Hnd Hdone; [reflexivity|].
  assert (Hassoc : pre ++ t :: ts = (pre ++ [t]) ++ ts) by (rewrite <- app_assoc; reflexivity).
  destruct t as [img seq rid|len junk|bs|bs]; cbn [dedup_go].
  - rewrite active_rids_app in Hnd. unfold active_rids at 2 in Hnd. cbn [flat_map tile_rid app] in Hnd.
    fold (active_rids ts) in Hnd.
    assert (Hpre : ~ In rid (active_rids pre)).
    { intros H. apply NoDup_remove_2 in Hnd. apply Hnd. apply in_or_app. now left. }
    assert (Hts : ~ In rid (active_rids ts)).
    { intros H. apply NoDup_remove_2 in Hnd. apply Hnd. apply in_or_app. now right. }
    rewrite best_seq_unique by assumption. rewrite N.eqb_refl.
    rewrite mem_bytes_false by (intros H; apply Hpre; apply Hdone; exact H).
    cbn [andb negb]. f_equal. rewrite Hassoc. apply IH.
    + rewrite <- Hassoc. rewrite active_rids_app. unfold active_rids at 2. cbn [flat_map tile_rid app].
      fold (active_rids ts). exact Hnd.
    + intros r [H|H]; rewrite active_rids_app; apply in_or_app.
      * right. subst. now left.
      * left. apply Hdone. exact H.
  - f_equal. rewrite Hassoc. apply IH.
    + rewrite <- Hassoc. exact Hnd.
    + intros r H. rewrite active_rids_app. apply in_or_app. left. apply Hdone. exact H.
  - f_equal. rewrite Hassoc. apply IH.
    + rewrite <- Hassoc. exact Hnd.
    + intros r H. rewrite active_rids_app. apply in_or_app. left. apply Hdone. exact H.
  - f_equal. rewrite Hassoc. apply IH.
    + rewrite <- Hassoc. exact Hnd.
    + intros r H. rewrite active_rids_app. apply in_or_app. left. apply Hdone. exact H.
Qed.

Lemma stamp_tail_clean ts : Forall wf_tile ts -> stamp_tail ts = ts.
Proof.
  intros H. induction H as [|t ts Ht _ IH]; [reflexivity|].
  destruct Ht; cbn [stamp_tail]; now rewrite IH.
Qed.

Lemma recover_clean rw ts : Forall wf_tile ts -> NoDup (active_rids ts) -> recover rw ts = ts.
Proof.
  intros Hw Hnd. unfold recover.
  pose proof (dedup_clean rw ts [] [] Hnd (fun r (H : In r []) => match H with end)) as Hd.
  cbn [app] in Hd. rewrite Hd.
  destruct rw; [apply stamp_tail_clean; exact Hw|reflexivity].
Qed.

Lemma max_seq_bound ts n : Forall (seq_below n) ts -> forall m, m < n -> max_seq ts m < n.
Proof.
  intros H. induction H as [|t ts Ht _ IH]; intros m Hm; [exact Hm|].
  destruct t as [img seq r|len junk|bs|bs]; cbn [max_seq]; try (apply IH; exact Hm).
  apply IH. cbn [seq_below] in Ht. lia.
Qed.

Lemma max_seq_ge ts : forall m, m <= max_seq ts m.
Proof.
  induction ts as [|t ts IH]; intros m; [cbn; lia|].
  destruct t as [img seq r|len junk|bs|bs]; cbn [max_seq]; try apply IH.
  eapply N.le_trans; [|apply IH]. lia.
Qed.

Lemma max_seq_above ts : forall m, Forall (seq_below (max_seq ts m + 1)) ts.
Proof.
  induction ts as [|t ts IH]; intros m; [constructor|].
  destruct t as [img seq r|len junk|bs|bs]; cbn [max_seq]; constructor; try exact I; try apply IH.
  cbn [seq_below]. pose proof (max_seq_ge ts (N.max m seq)). lia.
Qed.

Lemma first_word ts : Forall wf_tile ts -> ts <> [] ->
  rd32 (flatten ts) = Some activeMagic \/ rd32 (flatten ts) = Some freeMagic.
Proof.
  intros H Hne. destruct H as [|t ts Ht _]; [contradiction|].
  unfold flatten. cbn [flat_map]. destruct Ht as [seq rid ss pad Hs Hp|len junk Hl H15 Hlt].
  - left. cbn [timg]. apply ta_img_magic.
  - right. cbn [timg]. rewrite <- !app_assoc. apply rd32_be32. destruct magic_ok as [_ ->]. lia.
Qed.

(* OpenFile on the image of a clean state: same tiles, a sequence number that is still above every
   stored one, invariant re-established — in every open mode *)
Theorem reopen_clean rw s : Inv s ->
  exists s', open_image rw (flatten (tiles s)) = Ok s'
             /\ tiles s' = tiles s /\ nseq s' <= nseq s /\ Inv s'.
Proof.
  intros [Hwf Hnd Hseq Hne Hsz [Hpos Hlt]].
  unfold open_image.
  assert (Hm : (max_seq (tiles s) 0 + 1) mod 4294967296 = max_seq (tiles s) 0 + 1).
  { apply N.mod_small. pose proof (max_seq_bound _ _ Hseq 0 Hpos). lia. }
  exists {| tiles := tiles s; nseq := max_seq (tiles s) 0 + 1 |}.
  split; [|split; [reflexivity|split]].
  - destruct (first_word _ Hwf Hne) as [-> | ->].
    + rewrite N.eqb_refl. cbn [orb negb]. rewrite scan_flatten by exact Hwf. cbn [bind].
      rewrite recover_clean by assumption. now rewrite Hm.
    + rewrite N.eqb_refl. rewrite orb_true_r. cbn [negb]. rewrite scan_flatten by exact Hwf. cbn [bind].
      rewrite recover_clean by assumption. now rewrite Hm.
  - cbn [nseq]. pose proof (max_seq_bound _ _ Hseq 0 Hpos). lia.
  - constructor; cbn [tiles nseq]; try assumption.
    + apply max_seq_above.
    + pose proof (max_seq_bound _ _ Hseq 0 Hpos). lia.
Qed.

(* consequently every record reads the same before and after, and index and free map are equal *)
Corollary reopen_same_contents rw s : Inv s ->
  exists s', open_image rw (flatten (tiles s)) = Ok s'
             /\ (forall rid, read_record s' rid = read_record s rid)
             /\ index_of (tiles s') = index_of (tiles s) /\ fm_of (tiles s') = fm_of (tiles s).
Proof.
  intros H. destruct (reopen_clean rw s H) as (s' & Ho & Ht & _ & _).
  exists s'. split; [exact Ho|]. unfold read_record. rewrite Ht. repeat split.
Qed.
