(* QParseProofs.v — acceptance means the whole token stream was consumed; null is consumed. *)
From Coq Require Import ZArith Lia.
From Syz Require Import QParse.
Open Scope N_scope.

Section P.
Variable pf : bytes -> option N.

(* an accepted filter was parsed up to the end of the input: the parser's current token is EOF
   when Parse returns, i.e. every token before it was consumed by a production of the grammar *)
Theorem accept_reaches_eof fuel input e : parse_with_fuel pf fuel input = POk e ->
  exists s', p_or pf fuel (init_pst input) = POk (e, s') /\ ttyp (cur s') = TEOF.
Proof.
  unfold parse_with_fuel. destruct (p_or pf fuel (init_pst input)) as [[n s']| |]; cbn [pbind]; try discriminate.
  cbn [fst snd]. destruct (cur_is s' TEOF) eqn:Ec; [|discriminate].
  intros H. inversion H. subst. exists s'. split; [reflexivity|].
  unfold cur_is, ttype_eqb in Ec. destruct (ttyp (cur s')); cbn in Ec; try discriminate. reflexivity.
Qed.

(* ... and conversely anything left over makes Parse fail *)
Theorem leftover_rejected fuel input e s' : p_or pf fuel (init_pst input) = POk (e, s') ->
  ttyp (cur s') <> TEOF -> parse_with_fuel pf fuel input = PErr.
Proof.
  intros H Hne. unfold parse_with_fuel. rewrite H. cbn [pbind snd fst].
  unfold cur_is, ttype_eqb. destruct (ttyp (cur s')); cbn; try reflexivity. contradiction.
Qed.

(* the null literal is a primary like any other: it is consumed *)
Theorem null_consumed f s : ttyp (cur s) = TNull ->
  p_primary pf (S f) s = POk (NVal LNull, advance s).
Proof. intros H. cbn [p_primary]. rewrite H. reflexivity. Qed.
End P.

(* concrete instances, by computation (number literals of these texts resolved by a small table) *)
Definition pf_small (lit : bytes) : option N :=
  if bytes_eqb lit [49] then Some 4607182418800017408          (* "1" *)
  else if bytes_eqb lit [50] then Some 4611686018427387904     (* "2" *)
  else if bytes_eqb lit [51] then Some 4613937818241073152     (* "3" *)
  else None.

Definition txt (s : list N) := s.
(* "x == null AND a == 2" *)
Definition t_null_and : bytes := [120;32;61;61;32;110;117;108;108;32;65;78;68;32;97;32;61;61;32;50].
(* "a == 1 b == 2" *)
Definition t_two_exprs : bytes := [97;32;61;61;32;49;32;98;32;61;61;32;50].
(* "a == 1 and zzz" *)
Definition t_lower_and : bytes := [97;32;61;61;32;49;32;97;110;100;32;122;122;122].
(* "a == 1 OR b == 2 AND c == 3" *)
Definition t_prec : bytes := [97;32;61;61;32;49;32;79;82;32;98;32;61;61;32;50;32;65;78;68;32;99;32;61;61;32;51].
(* "x DOES NOT" *)
Definition t_does_not : bytes := [120;32;68;79;69;83;32;78;79;84].

Definition eqn (name : N) (bits : N) : node := NExpr [61;61] (Some (NIdent [name])) (NVal (LNum bits)).

Example null_and_is_a_conjunction :
  parse pf_small t_null_and
  = POk (NExpr s_AND (Some (NExpr [61;61] (Some (NIdent [120])) (NVal LNull))) (eqn 97 4611686018427387904)).
Proof. vm_compute. reflexivity. Qed.

Example second_expression_rejected : parse pf_small t_two_exprs = PErr.
Proof. vm_compute. reflexivity. Qed.

Example lower_case_and_rejected : parse pf_small t_lower_and = PErr.
Proof. vm_compute. reflexivity. Qed.

Example and_binds_tighter_than_or :
  parse pf_small t_prec
  = POk (NExpr s_OR (Some (eqn 97 4607182418800017408))
               (NExpr s_AND (Some (eqn 98 4611686018427387904)) (eqn 99 4613937818241073152))).
Proof. vm_compute. reflexivity. Qed.

Example does_not_at_end_is_an_error_not_a_panic : parse pf_small t_does_not = PErr.
Proof. vm_compute. reflexivity. Qed.
