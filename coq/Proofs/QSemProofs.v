(* QSemProofs.v — a reference semantics of the documented filter language and the proof that the
   evaluator of compiler.go computes it on well-typed inputs. *)
From Coq Require Import ZArith Lia.
From Syz Require Import QEval.
Open Scope N_scope.

(* ---------- the reference semantics (README, "Query Filter Language") ---------- *)

(* field paths: name, p.name, p[i] *)
Inductive path : Type :=
| PField (name : bytes)
| PDot (p : path) (name : bytes)
| PIdx (p : path) (ibits : N).       (* the index literal as binary64 bits *)

(* the value a path leads to, None when some step is absent *)
Fixpoint lookup_path (p : path) (d : jv) : option jv :=
  match p with
  | PField name => match d with JObj m => obj_get m name | _ => None end
  | PDot q name =>
      match lookup_path q d with
      | Some (JObj m) => obj_get m name
      | Some (JArr items) => if bytes_eqb name s_length then Some (JNum (f_of_N (N.of_nat (length items)))) else None
      | Some (JStr s) => if bytes_eqb name s_length then Some (JNum (f_of_N (blen s))) else None
      | _ => None
      end
  | PIdx q b =>
      match lookup_path q d with
      | Some (JArr items) =>
          match f_round_index b with Some i => nth_error items (N.to_nat i) | None => None end
      | _ => None
      end
  end.

Inductive cmpop : Type := OEq | ONe | OLt | OLe | OGt | OGe.
Inductive strop : Type := SContains | SStartsWith | SEndsWith | SMatches.

Inductive cond : Type :=
| CCmp (o : cmpop) (p : path) (v : lit)
| CStr (k : strop) (p : path) (s : bytes)
| CIn (neg : bool) (p : path) (items : list lit)
| CExists (neg : bool) (p : path).

Inductive wexpr : Type :=
| WCond (c : cond)
| WAnd (a b : wexpr)
| WOr (a b : wexpr)
| WNot (a : wexpr).

Section Sem.
Variable re_match : bytes -> bytes -> option bool.

Definition is_some {A} (o : option A) : bool := match o with Some _ => true | None => false end.

(* None = the condition is outside the well-typed fragment for this document: the compared field
   is absent, or its type is not the one the operator expects *)
Definition sem_cond (c : cond) (d : jv) : option bool :=
  match c with
  | CExists neg p => Some (xorb neg (is_some (lookup_path p d)))
  | CCmp o p v =>
      match lookup_path p d with
      | None => None
      | Some x =>
          match o with
          | OEq => Some (deq x (lit_value v))
          | ONe => Some (negb (deq x (lit_value v)))
          | _ =>
              match x, v with
              | JNum a, LNum b =>
                  Some (match o with OLt => f_ltb a b | OLe => f_leb a b | OGt => f_ltb b a | _ => f_leb b a end)
              | JStr a, LStr b =>
                  Some (match o with
                        | OLt => bytes_ltb a b | OLe => negb (bytes_ltb b a)
                        | OGt => bytes_ltb b a | _ => negb (bytes_ltb a b) end)
              | _, _ => None
              end
          end
      end
  | CStr k p s =>
      match lookup_path p d with
      | Some (JStr x) =>
          match k with
          | SContains => Some (contains x s)
          | SStartsWith => Some (is_prefix s x)
          | SEndsWith => Some (is_suffix s x)
          | SMatches => re_match s x
          end
      | _ => None
      end
  | CIn neg p items =>
      match lookup_path p d with
      | Some x => Some (xorb neg (existsb (fun y => deq x y) (map lit_value items)))
      | None => None
      end
  end.

Fixpoint sem (e : wexpr) (d : jv) : option bool :=
  match e with
  | WCond c => sem_cond c d
  | WAnd a b => match sem a d, sem b d with Some x, Some y => Some (x && y) | _, _ => None end
  | WOr a b => match sem a d, sem b d with Some x, Some y => Some (x || y) | _, _ => None end
  | WNot a => match sem a d with Some x => Some (negb x) | None => None end
  end.

(* ---------- the syntax tree the parser builds for such an expression ---------- *)

Fixpoint path_node (p : path) : node :=
  match p with
  | PField name => NIdent name
  | PDot q name => NExpr s_DOT (Some (path_node q)) (NIdent name)
  | PIdx q b => NExpr s_IDX (Some (path_node q)) (NVal (LNum b))
  end.

Definition cmp_bytes (o : cmpop) : bytes :=
  match o with
  | OEq => [61; 61] | ONe => [33; 61] | OLt => [60] | OLe => [60; 61] | OGt => [62] | OGe => [62; 61]
  end.

Definition strop_bytes (k : strop) : bytes :=
  match k with
  | SContains => [67; 79; 78; 84; 65; 73; 78; 83]
  | SStartsWith => [83; 84; 65; 82; 84; 83; 95; 87; 73; 84; 72]
  | SEndsWith => [69; 78; 68; 83; 95; 87; 73; 84; 72]
  | SMatches => [77; 65; 84; 67; 72; 69; 83]
  end.

Definition cond_node (c : cond) : node :=
  match c with
  | CCmp o p v => NExpr (cmp_bytes o) (Some (path_node p)) (NVal v)
  | CStr k p s => NExpr (strop_bytes k) (Some (path_node p)) (NVal (LStr s))
  | CIn neg p items => NExpr (if neg then s_NOT_IN else s_IN) (Some (path_node p)) (NArr (map NVal items))
  | CExists neg p => NFunc (if neg then s_DOES_NOT_EXIST else s_EXISTS) [path_node p]
  end.

Fixpoint to_node (e : wexpr) : node :=
  match e with
  | WCond c => cond_node c
  | WAnd a b => NExpr s_AND (Some (to_node a)) (to_node b)
  | WOr a b => NExpr s_OR (Some (to_node a)) (to_node b)
  | WNot a => NExpr s_NOT None (to_node a)
  end.

(* ---------- evaluation of paths ---------- *)

Lemma eval_op_dot l r : eval_op re_match s_DOT l r =
  match l, r with
  | JObj m, JStr k => match obj_get m k with Some v => EOk v | None => EErr end
  | JArr items, JStr k => if bytes_eqb k s_length then EOk (JNum (f_of_N (N.of_nat (length items)))) else EErr
  | JStr s, JStr k => if bytes_eqb k s_length then EOk (JNum (f_of_N (blen s))) else EErr
  | _, _ => EErr
  end.
Proof. reflexivity. Qed.

Lemma eval_op_idx l r : eval_op re_match s_IDX l r =
  match l, r with
  | JArr items, JNum b =>
      match f_round_index b with
      | Some i => match nth_error items (N.to_nat i) with Some v => EOk v | None => EOk JNull end
      | None => EOk JNull
      end
  | _, _ => EErr
  end.
Proof. reflexivity. Qed.

Lemma eval_path p d v : lookup_path p d = Some v -> eval re_match (path_node p) d = EOk v.
Proof.
  revert v. induction p as [name|q IH name|q IH b]; intros v H; cbn [path_node lookup_path] in *.
  - cbn [eval]. unfold get_field. destruct d; try discriminate. now rewrite H.
  - cbn [eval]. destruct (lookup_path q d) as [lv|]; [|discriminate].
    rewrite (IH lv eq_refl). cbn [ebind].
    change (op_is s_DOT s_DOT) with true. cbn iota. cbn [ebind]. rewrite eval_op_dot.
    destruct lv; try discriminate.
    + destruct (bytes_eqb name s_length); [now inversion H|discriminate].
    + destruct (bytes_eqb name s_length); [now inversion H|discriminate].
    + now rewrite H.
  - cbn [eval]. destruct (lookup_path q d) as [lv|]; [|discriminate].
    rewrite (IH lv eq_refl). cbn [ebind].
    change (op_is s_IDX s_DOT) with false. cbn iota. cbn [eval lit_value ebind]. rewrite eval_op_idx.
    destruct lv; try discriminate.
    destruct (f_round_index b); [|discriminate]. now rewrite H.
Qed.

Lemma resolve_value_path p d : resolve_value re_match (path_node p) d = Some (lookup_path p d).
Proof.
  induction p as [name|q IH name|q IH b]; cbn [path_node lookup_path resolve_value].
  - destruct d; reflexivity.
  - change (op_is s_DOT s_DOT) with true. cbn iota. rewrite IH.
    destruct (lookup_path q d) as [lv|]; [|reflexivity].
    destruct lv; try reflexivity.
    + destruct (bytes_eqb name s_length); reflexivity.
    + destruct (bytes_eqb name s_length); reflexivity.
  - change (op_is s_IDX s_DOT) with false. change (op_is s_IDX s_IDX) with true. cbn iota. rewrite IH.
    destruct (lookup_path q d) as [lv|]; [|reflexivity].
    destruct lv; try reflexivity.
    cbn [eval lit_value]. destruct (f_round_index b); reflexivity.
Qed.

(* EXISTS is true exactly when the path is present, DOES NOT EXIST is its negation — for every
   document, top-level and nested paths, present or absent (no typing assumption) *)
Theorem exists_sem neg p d :
  eval re_match (cond_node (CExists neg p)) d = EOk (JBool (xorb neg (is_some (lookup_path p d)))).
Proof.
  cbn [cond_node eval].
  destruct neg.
  - change (op_is s_DOES_NOT_EXIST s_EXISTS) with false. change (op_is s_DOES_NOT_EXIST s_DOES_NOT_EXIST) with true.
    cbn [orb]. rewrite resolve_value_path. destruct (lookup_path p d); reflexivity.
  - change (op_is s_EXISTS s_EXISTS) with true. cbn [orb]. rewrite resolve_value_path.
    destruct (lookup_path p d); reflexivity.
Qed.

Lemma eval_literals items d :
  eval re_match (NArr (map NVal items)) d = EOk (JArr (map lit_value items)).
Proof.
  cbn [eval]. induction items as [|v items IH]; [reflexivity|].
  cbn [map]. cbn [eval ebind]. rewrite IH. reflexivity.
Qed.

Lemma eval_cond c d b : sem_cond c d = Some b -> eval re_match (cond_node c) d = EOk (JBool b).
Proof.
  destruct c as [o p v|k p s|neg p items|neg p]; intros H.
  - cbn [sem_cond] in H. destruct (lookup_path p d) as [x|] eqn:El; [|discriminate].
    cbn [cond_node eval]. rewrite (eval_path p d x El). cbn [ebind].
    destruct o; (match goal with |- context [op_is ?a s_DOT] => change (op_is a s_DOT) with false end);
      cbn iota; cbn [eval lit_value ebind].
    + inversion H. reflexivity.
    + inversion H. reflexivity.
    + destruct x, v; try discriminate; inversion H; reflexivity.
    + destruct x, v; try discriminate; inversion H; reflexivity.
    + destruct x, v; try discriminate; inversion H; reflexivity.
    + destruct x, v; try discriminate; inversion H; reflexivity.
  - cbn [sem_cond] in H. destruct (lookup_path p d) as [x|] eqn:El; [|discriminate].
    destruct x; try discriminate.
    cbn [cond_node eval]. rewrite (eval_path p d _ El). cbn [ebind].
    destruct k; (match goal with |- context [op_is ?a s_DOT] => change (op_is a s_DOT) with false end);
      cbn iota; cbn [eval lit_value ebind].
    + inversion H. reflexivity.
    + inversion H. reflexivity.
    + inversion H. reflexivity.
    + change (eval_op re_match (strop_bytes SMatches) (JStr s0) (JStr s))
        with (match re_match s s0 with Some m => EOk (JBool m) | None => EErr end).
      now rewrite H.
  - cbn [sem_cond] in H. destruct (lookup_path p d) as [x|] eqn:El; [|discriminate].
    inversion H; subst b. clear H.
    cbn [cond_node]. cbn [eval]. rewrite (eval_path p d x El). cbn [ebind].
    destruct neg.
    + change (op_is s_NOT_IN s_DOT) with false. cbn iota.
      change (ebind (eval re_match (NArr (map NVal items)) d) (fun rv => eval_op re_match s_NOT_IN x rv)
              = EOk (JBool (xorb true (existsb (fun y => deq x y) (map lit_value items))))).
      rewrite eval_literals. reflexivity.
    + change (op_is s_IN s_DOT) with false. cbn iota.
      change (ebind (eval re_match (NArr (map NVal items)) d) (fun rv => eval_op re_match s_IN x rv)
              = EOk (JBool (xorb false (existsb (fun y => deq x y) (map lit_value items))))).
      rewrite eval_literals, Bool.xorb_false_l. reflexivity.
  - cbn [sem_cond] in H. inversion H. apply exists_sem.
Qed.

(* the evaluator computes the documented meaning on every well-typed (expression, document) pair:
   AND, OR, NOT are the boolean connectives; IN is membership and NOT IN its negation *)
Theorem eval_sem e d b : sem e d = Some b -> eval re_match (to_node e) d = EOk (JBool b).
Proof.
  revert b. induction e as [c|a IHa b0 IHb|a IHa b0 IHb|a IHa]; intros b H; cbn [sem to_node] in *.
  - now apply eval_cond.
  - destruct (sem a d) as [x|]; [|discriminate]. destruct (sem b0 d) as [y|]; [|discriminate].
    inversion H. cbn [eval]. rewrite (IHa x eq_refl). cbn [ebind].
    change (op_is s_AND s_DOT) with false. cbn iota. rewrite (IHb y eq_refl). reflexivity.
  - destruct (sem a d) as [x|]; [|discriminate]. destruct (sem b0 d) as [y|]; [|discriminate].
    inversion H. cbn [eval]. rewrite (IHa x eq_refl). cbn [ebind].
    change (op_is s_OR s_DOT) with false. cbn iota. rewrite (IHb y eq_refl). cbn [ebind].
    destruct x; reflexivity.
  - destruct (sem a d) as [x|]; [|discriminate]. inversion H.
    cbn [eval ebind]. change (op_is s_NOT s_DOT) with false. cbn iota. rewrite (IHa x eq_refl). reflexivity.
Qed.

(* a built filter returns a boolean or an error for every syntax tree and every document, and its
   answer is a function of the two (the model has no other input) *)
Theorem apply_filter_total n doc : exists r : option bool, apply_filter re_match n doc = r.
Proof. eauto. Qed.
End Sem.
