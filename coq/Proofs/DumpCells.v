(* DumpCells.v — for 4/8/16-bit collections a printed component may be off by 10^-6 and is still
   stored as the same level: certificates over all codes, lifted to all values by monotonicity. *)
From Coq Require Import ZArith Floats List Lia Bool.
From Syz Require Import Quant QuantCert QuantMono QuantCells.
Import ListNotations.
Open Scope Z_scope.

Definition eps6 : float := 1e-6%float.
Definition lo6 (bits k : Z) : float :=
  let a := (level bits k - eps6)%float in if PrimFloat.ltb a (-1)%float then (-1)%float else a.
Definition hi6 (bits k : Z) : float :=
  let a := (level bits k + eps6)%float in if PrimFloat.ltb 1%float a then 1%float else a.

Definition coarse_ok (bits k : Z) : bool :=
  in_rng (lo6 bits k) && in_rng (hi6 bits k) && (quantize bits (lo6 bits k) =? k) && (quantize bits (hi6 bits k) =? k)
  && PrimFloat.leb (lo6 bits k) (level bits k) && PrimFloat.leb (level bits k) (hi6 bits k).
Definition coarse_all (bits : Z) : bool := forallb (coarse_ok bits) (zrange (Z.to_nat (2 ^ bits)) 0).

Lemma coarse4 : coarse_all 4 = true. Proof. vm_compute. reflexivity. Qed.
Lemma coarse8 : coarse_all 8 = true. Proof. vm_compute. reflexivity. Qed.
Lemma coarse16 : coarse_all 16 = true. Proof. vm_compute. reflexivity. Qed.

Theorem six_decimals bits k y : bits = 4 \/ bits = 8 \/ bits = 16 -> 0 <= k < 2 ^ bits ->
  in_rng y = true -> PrimFloat.leb (lo6 bits k) y = true -> PrimFloat.leb y (hi6 bits k) = true ->
  quantize bits y = k.
Proof.
  intros Hb Hk Hy Hlo Hhi.
  assert (H : coarse_all bits = true) by (destruct Hb as [->|[->| ->]]; [apply coarse4|apply coarse8|apply coarse16]).
  unfold coarse_all in H. rewrite forallb_forall in H.
  assert (C : coarse_ok bits k = true).
  { apply H. apply in_zrange. rewrite Z2Nat.id by (destruct Hb as [->|[->| ->]]; cbn; lia). lia. }
  unfold coarse_ok in C. rewrite !andb_true_iff in C. destruct C as [[[[[C1 C2] C3] C4] _] _].
  apply Z.eqb_eq in C3, C4.
  destruct (in_rng_spec _ Hy) as (Ny & Ly & Uy).
  destruct (in_rng_spec _ C1) as (N1 & L1 & U1). destruct (in_rng_spec _ C2) as (N2 & L2 & U2).
  pose proof (quantize_mono_core bits _ _ Hb N1 Ny L1 U1 Ly Uy Hlo) as M1.
  pose proof (quantize_mono_core bits _ _ Hb Ny N2 Ly Uy L2 U2 Hhi) as M2. lia.
Qed.
