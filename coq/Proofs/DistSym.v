(* DistSym.v — both distance functions are symmetric bit for bit on finite vectors: (x - y)^2 and (y - x)^2 are
   the same binary64 number (also when the difference overflows), products commute, and the sums are taken in the
   same order. *)
From Coq Require Import Floats ZArith Reals Lia Lra Psatz Bool List.
From Flocq Require Import Core BinarySingleNaN PrimFloat.
From Syz Require Import Quant Dist QuantMono DistProofs.
Import ListNotations.
Local Open Scope R_scope.

#[local] Existing Instance Hprec.
#[local] Existing Instance Hmax.

Notation RN := (round radix2 (FLT_exp (3 - emax - prec) prec) ZnearestE).

(* multiplication commutes as a function on binary64 values *)
Lemma Bmult_comm (x y : B) : Bmult mode_NE x y = Bmult mode_NE y x.
Proof.
  pose proof (Bmult_correct prec emax Hprec Hmax mode_NE x y) as C1.
  pose proof (Bmult_correct prec emax Hprec Hmax mode_NE y x) as C2.
  rewrite (Rmult_comm (B2R y) (B2R x)) in C2.
  destruct (Rlt_bool _ _).
  - destruct C1 as (R1 & F1 & S1). destruct C2 as (R2 & F2 & S2).
    assert (Hfin : is_finite (Bmult mode_NE y x) = is_finite (Bmult mode_NE x y)) by (rewrite F1, F2; apply andb_comm).
    destruct (is_finite x && is_finite y) eqn:Efxy.
    + apply B2R_Bsign_inj; [exact F1|rewrite Hfin; exact F1|congruence|].
      rewrite S1 by (apply fin_not_nan; exact F1).
      rewrite S2 by (apply fin_not_nan; rewrite Hfin; exact F1). apply xorb_comm.
    + (* a non-finite operand: the product is computed by cases, symmetrically *)
      clear - Efxy. destruct x as [sx|sx| |sx mx ex Hx], y as [sy|sy| |sy my ey Hy]; cbn in *; try discriminate; try reflexivity;
        try (rewrite xorb_comm; reflexivity).
  - apply B2SF_inj. rewrite C1, C2, xorb_comm. reflexivity.
Qed.

(* squares of the two differences *)
Lemma sq_diff_sym (x y : B) : is_finite x = true -> is_finite y = true ->
  Bmult mode_NE (Bminus mode_NE x y) (Bminus mode_NE x y) = Bmult mode_NE (Bminus mode_NE y x) (Bminus mode_NE y x).
Proof.
  intros Fx Fy.
  pose proof (Bminus_correct prec emax Hprec Hmax mode_NE x y Fx Fy) as C1.
  pose proof (Bminus_correct prec emax Hprec Hmax mode_NE y x Fy Fx) as C2.
  replace (B2R y - B2R x) with (- (B2R x - B2R y)) in C2 by lra.
  cbn [round_mode] in C1, C2. rewrite round_NE_opp, Rabs_Ropp in C2.
  set (u := Bminus mode_NE x y) in *. set (v := Bminus mode_NE y x) in *.
  destruct (Rlt_bool _ _).
  - destruct C1 as (R1 & F1 & _). destruct C2 as (R2 & F2 & _).
    assert (Hv : B2R v = - B2R u) by (rewrite R1, R2; reflexivity).
    pose proof (Bmult_correct prec emax Hprec Hmax mode_NE u u) as M1.
    pose proof (Bmult_correct prec emax Hprec Hmax mode_NE v v) as M2.
    replace (B2R v * B2R v) with (B2R u * B2R u) in M2 by (rewrite Hv; ring).
    destruct (Rlt_bool _ _).
    + destruct M1 as (A1 & B1 & S1). destruct M2 as (A2 & B2 & S2).
      rewrite F1 in B1. rewrite F2 in B2. cbn [andb] in B1, B2.
      apply B2R_Bsign_inj; [exact B1|exact B2|congruence|].
      rewrite S1 by (apply fin_not_nan; exact B1). rewrite S2 by (apply fin_not_nan; exact B2).
      rewrite !xorb_nilpotent. reflexivity.
    + apply B2SF_inj. rewrite M1, M2, !xorb_nilpotent. reflexivity.
  - (* the difference itself overflows: both are infinities of opposite sign, the squares are +infinity *)
    destruct C1 as [O1 S1]. destruct C2 as [O2 S2].
    assert (Eu : u = B754_infinity (Bsign x)).
    { apply B2SF_inj. rewrite O1. reflexivity. }
    assert (Ev : v = B754_infinity (Bsign y)).
    { apply B2SF_inj. rewrite O2. reflexivity. }
    rewrite Eu, Ev. cbn. rewrite !xorb_nilpotent. reflexivity.
Qed.

Lemma euclid_acc_sym : forall a b s, Forall finite_f a -> Forall finite_f b -> length a = length b ->
  euclid_acc a b s = euclid_acc b a s.
Proof.
  induction a as [|x a IH]; intros [|y b] s Ha Hb Hl; try discriminate; [reflexivity|].
  cbn [euclid_acc]. inversion Ha as [|? ? Fx Ha']; inversion Hb as [|? ? Fy Hb']; subst.
  replace (s + (y - x) * (y - x))%float with (s + (x - y) * (x - y))%float.
  - apply IH; try assumption. cbn in Hl. lia.
  - apply Prim2B_inj. rewrite !add_equiv, !mul_equiv, !sub_equiv. rewrite (sq_diff_sym _ _ Fx Fy). reflexivity.
Qed.

(* the Euclidean distance is symmetric, bit for bit, on finite vectors of equal dimension *)
Theorem euclid_sym a b : Forall finite_f a -> Forall finite_f b -> length a = length b -> euclid a b = euclid b a.
Proof. intros Ha Hb Hl. unfold euclid. rewrite (euclid_acc_sym a b _ Ha Hb Hl). reflexivity. Qed.

Lemma mul_comm_prim (x y : PrimFloat.float) : (x * y)%float = (y * x)%float.
Proof. apply Prim2B_inj. rewrite !mul_equiv. apply Bmult_comm. Qed.

Lemma dot_acc_sym : forall a b s, length a = length b -> dot_acc a b s = dot_acc b a s.
Proof.
  induction a as [|x a IH]; intros [|y b] s Hl; try discriminate; [reflexivity|].
  cbn [dot_acc]. rewrite (mul_comm_prim x y). apply IH. cbn in Hl. lia.
Qed.

Lemma ang_acc_sym : forall a b d m1 m2, length a = length b ->
  ang_acc b a d m2 m1 = (let '(d', x1, x2) := ang_acc a b d m1 m2 in (d', x2, x1)).
Proof.
  induction a as [|x a IH]; intros [|y b] d m1 m2 Hl; try discriminate; [reflexivity|].
  cbn [ang_acc]. rewrite (mul_comm_prim y x). apply IH. cbn in Hl. lia.
Qed.

(* the cosine distance is symmetric, bit for bit, for all vectors of equal dimension and every acos *)
Theorem angular_sym acosf a b : length a = length b -> angular_with acosf a b = angular_with acosf b a.
Proof.
  intros Hl. unfold angular_with. rewrite (ang_acc_sym a b 0%float 0%float 0%float Hl).
  destruct (ang_acc a b 0 0 0) as [[d m1] m2].
  rewrite (orb_comm (m2 =? 0)%float). rewrite (mul_comm_prim (PrimFloat.sqrt m2)). reflexivity.
Qed.
