(* QParseWhole.v — an accepted filter has used its whole text (C15 at the level of bytes, not of tokens).
   The lexer produces the end-of-input token only when nothing but white space is left (eof_only_at_end);
   the parser state keeps that fact: once the current token is end-of-input, no text remains. *)
From Coq Require Import ZArith Lia List Bool.
From Syz Require Import QEval QLexProofs QParseProofs.
Import ListNotations.
Close Scope N_scope.
Open Scope nat_scope.

Section Whole.
Variable pf : bytes -> option N.

(* the text behind an end-of-input token is empty *)
Definition Iv (s : pst) : Prop :=
  (ttyp (cur s) = TEOF -> ttyp (pk s) = TEOF) /\ (ttyp (pk s) = TEOF -> inp s = []).

Lemma next_token_nil : next_token [] = (tok TEOF [], []).
Proof. reflexivity. Qed.

Lemma eof_rest_nil input t r : next_token input = (t, r) -> ttyp t = TEOF -> r = [].
Proof.
  intros E Ht. pose proof (eof_only_at_end _ _ _ E Ht) as Hs.
  unfold next_token in E. rewrite Hs in E. inversion E. reflexivity.
Qed.

Lemma advance_Iv s : Iv s -> Iv (advance s).
Proof.
  intros [H1 H2]. unfold advance. destruct (next_token (inp s)) as [t r] eqn:E. unfold Iv. cbn [cur pk inp]. split.
  - intros Hp. specialize (H2 Hp). rewrite H2 in E. rewrite next_token_nil in E. inversion E. reflexivity.
  - intros Ht. exact (eof_rest_nil _ _ _ E Ht).
Qed.

Lemma init_Iv input : Iv (init_pst input).
Proof.
  unfold init_pst. apply advance_Iv. apply advance_Iv. unfold Iv. cbn [cur pk inp ttyp]. split; discriminate.
Qed.

Definition good {A} (r : pres (A * pst)) : Prop :=
  match r with POk x => Iv (snd x) | _ => True end.

Lemma good_bind {A B} (r : pres (A * pst)) (f : A * pst -> pres (B * pst)) :
  good r -> (forall x, Iv (snd x) -> good (f x)) -> good (pbind r f).
Proof. intros H Hf. destruct r as [x| |]; cbn in *; [apply Hf; exact H|exact I|exact I]. Qed.

Lemma p_number_good s : Iv s -> good (p_number pf s).
Proof. intros H. unfold p_number. destruct (pf (tlit (cur s))); cbn; [apply advance_Iv; exact H|exact I]. Qed.

Lemma p_array_elem_good s : Iv s -> good (p_array_elem pf s).
Proof. intros H. unfold p_array_elem. destruct (ttyp (cur s)); cbn; try exact I; [apply advance_Iv; exact H|apply p_number_good; exact H]. Qed.

Lemma p_array_rest_good : forall fuel s acc, Iv s -> good (p_array_rest pf fuel s acc).
Proof.
  induction fuel as [|f IH]; intros s acc H; [exact I|]. cbn [p_array_rest].
  destruct (cur_is s TComma); [|cbn; exact H].
  apply good_bind; [apply p_array_elem_good; apply advance_Iv; exact H|].
  intros [x s1] H1. cbn [fst snd] in *. apply IH. exact H1.
Qed.

Lemma p_array_lit_good fuel s : Iv s -> good (p_array_lit pf fuel s).
Proof.
  intros H. unfold p_array_lit. pose proof (advance_Iv s H) as Ha.
  apply good_bind.
  - destruct (cur_is (advance s) TRBracket); [cbn; exact Ha|].
    apply good_bind; [apply p_array_elem_good; exact Ha|].
    intros [x s1] H1. cbn [fst snd] in *. apply p_array_rest_good. exact H1.
  - intros [l s1] H1. cbn [fst snd] in *. destruct (cur_is s1 TRBracket); cbn; [|exact I]. apply advance_Iv. exact H1.
Qed.

Lemma p_in_good fuel e s : Iv s -> good (p_in pf fuel e s).
Proof.
  intros H. unfold p_in. pose proof (advance_Iv s H) as Ha. pose proof (advance_Iv _ Ha) as Ha2.
  set (s2 := if cur_is s TNot && cur_is (advance s) TIN then advance (advance s) else advance s).
  assert (Hs2 : Iv s2) by (unfold s2; destruct (cur_is s TNot && cur_is (advance s) TIN); assumption).
  destruct (cur_is s2 TLBracket); [|exact I].
  apply good_bind; [apply p_array_lit_good; exact Hs2|].
  intros [x s3] H3. cbn. exact H3.
Qed.

Definition Q (fuel : nat) : Prop :=
  (forall s, Iv s -> good (p_or pf fuel s)) /\
  (forall l s, Iv s -> good (p_or_rest pf fuel l s)) /\
  (forall s, Iv s -> good (p_and pf fuel s)) /\
  (forall l s, Iv s -> good (p_and_rest pf fuel l s)) /\
  (forall s, Iv s -> good (p_cmp pf fuel s)) /\
  (forall s, Iv s -> good (p_not pf fuel s)) /\
  (forall s, Iv s -> good (p_primary pf fuel s)) /\
  (forall s, Iv s -> good (p_ident_or_func pf fuel s)) /\
  (forall e s, Iv s -> good (p_path pf fuel e s)) /\
  (forall s acc, Iv s -> good (p_args pf fuel s acc)).

Lemma all_good : forall fuel, Q fuel.
Proof.
  induction fuel as [|f IH]; [unfold Q; repeat split; intros; exact I|].
  destruct IH as (Hor & Horr & Hand & Handr & Hcmp & Hnot & Hprim & Hiof & Hpath & Hargs).
  unfold Q. repeat split.
  - intros s H. cbn [p_or]. apply good_bind; [apply Hand; exact H|].
    intros [x s1] H1. cbn [fst snd] in *. apply Horr. exact H1.
  - intros l s H. cbn [p_or_rest]. destruct (cur_is s TOr); [|cbn; exact H].
    apply good_bind; [apply Hand; apply advance_Iv; exact H|].
    intros [x s1] H1. cbn [fst snd] in *. apply Horr. exact H1.
  - intros s H. cbn [p_and]. apply good_bind; [apply Hcmp; exact H|].
    intros [x s1] H1. cbn [fst snd] in *. apply Handr. exact H1.
  - intros l s H. cbn [p_and_rest]. destruct (cur_is s TAnd); [|cbn; exact H].
    apply good_bind; [apply Hcmp; apply advance_Iv; exact H|].
    intros [x s1] H1. cbn [fst snd] in *. apply Handr. exact H1.
  - intros s H. cbn [p_cmp]. apply good_bind; [apply Hnot; exact H|].
    intros [x s1] H1. cbn [fst snd] in *.
    destruct (is_cmp_op (ttyp (cur s1))); [|cbn; exact H1].
    apply good_bind; [apply Hnot; apply advance_Iv; exact H1|].
    intros [y s2] H2. cbn [fst snd] in *. cbn. exact H2.
  - intros s H. cbn [p_not]. destruct (cur_is s TNot).
    + apply good_bind; [apply Hprim; apply advance_Iv; exact H|]. intros [x s1] H1. cbn [fst snd] in *. cbn. exact H1.
    + apply Hprim. exact H.
  - intros s H. cbn [p_primary]. pose proof (advance_Iv s H) as Ha.
    destruct (ttyp (cur s)) eqn:Et; try exact I.
    + apply Hiof. exact H.
    + cbn. exact Ha.
    + apply p_number_good. exact H.
    + cbn. exact Ha.
    + cbn. exact Ha.
    + apply good_bind; [apply Hor; exact Ha|].
      intros [x s1] H1. cbn [fst snd] in *. destruct (cur_is s1 TRParen); cbn; [|exact I]. apply advance_Iv. exact H1.
    + apply p_array_lit_good. exact H.
    + destruct (cur_is (advance s) TIdent); cbn; [|exact I]. apply advance_Iv. exact Ha.
  - intros s H. cbn [p_ident_or_func]. pose proof (advance_Iv s H) as Ha.
    apply good_bind; [apply Hpath; exact Ha|].
    intros [e s1] H1. cbn [fst snd] in *.
    destruct (cur_is s1 TIN || cur_is s1 TNot).
    { apply p_in_good. exact H1. }
    destruct (cur_is s1 TLParen).
    { destruct e; try exact I.
      apply good_bind.
      - destruct (cur_is (advance s1) TRParen); [cbn; apply advance_Iv; exact H1|].
        apply good_bind; [apply Hor; apply advance_Iv; exact H1|].
        intros [a s3] H3. cbn [fst snd] in *. apply Hargs. exact H3.
      - intros [l s3] H3. cbn [fst snd] in *. destruct (cur_is s3 TRParen); cbn; [|exact I]. apply advance_Iv. exact H3. }
    destruct (cur_is s1 TEXISTS); [cbn; apply advance_Iv; exact H1|].
    destruct (cur_is s1 TDNE); [cbn; apply advance_Iv; exact H1|].
    cbn. exact H1.
  - intros e s H. cbn [p_path].
    destruct (cur_is s TLBracket).
    { apply good_bind; [apply Hor; apply advance_Iv; exact H|].
      intros [x s1] H1. cbn [fst snd] in *. destruct (cur_is s1 TRBracket); [|exact I].
      apply Hpath. apply advance_Iv. exact H1. }
    destruct (cur_is s TDot); [|cbn; exact H].
    destruct (cur_is (advance s) TIdent); [|exact I].
    apply Hpath. apply advance_Iv. apply advance_Iv. exact H.
  - intros s acc H. cbn [p_args].
    destruct (cur_is s TComma); [|cbn; exact H].
    apply good_bind; [apply Hor; apply advance_Iv; exact H|].
    intros [x s1] H1. cbn [fst snd] in *. apply Hargs. exact H1.
Qed.

(* an accepted text: the expression ends at a state whose current token is end-of-input and behind which no text is left *)
Theorem accepted_uses_whole_text fuel input e :
  parse_with_fuel pf fuel input = POk e ->
  exists s', p_or pf fuel (init_pst input) = POk (e, s') /\ ttyp (cur s') = TEOF /\ ttyp (pk s') = TEOF /\ inp s' = [].
Proof.
  intros Hp. destruct (accept_reaches_eof pf fuel input e Hp) as (s' & Hor & He).
  exists s'. split; [exact Hor|]. split; [exact He|].
  destruct (all_good fuel) as (Hg & _). specialize (Hg (init_pst input) (init_Iv input)).
  rewrite Hor in Hg. cbn in Hg. destruct Hg as [H1 H2]. split; [exact (H1 He)|exact (H2 (H1 He))].
Qed.
End Whole.
