(* QuantCells.v — every value is stored as the nearer of the two levels around it: midpoint
   certificates over all codes, lifted to all values by monotonicity. *)
From Coq Require Import ZArith Floats List Lia Bool.
From Syz Require Import Quant QuantCert QuantMono.
Import ListNotations.
Open Scope Z_scope.

Definition level (bits k : Z) : float := dequantize bits k.
Definition eps50 : float := 0x1p-50%float.
Definition mid (bits k : Z) : float := ((level bits k + level bits (k + 1)) / 2)%float.
Definition mid_lo (bits k : Z) : float := (mid bits k - eps50)%float.
Definition mid_hi (bits k : Z) : float := (mid bits k + eps50)%float.

(* a float usable with quantize_mono_core *)
Definition in_rng (x : float) : bool :=
  negb (PrimFloat.is_nan x) && negb (PrimFloat.ltb x (-1)%float) && negb (PrimFloat.ltb 1%float x).

Definition cell_ok (bits k : Z) : bool :=
  in_rng (level bits k) && in_rng (level bits (k + 1)) && in_rng (mid_lo bits k) && in_rng (mid_hi bits k)
  && PrimFloat.leb (level bits k) (mid_lo bits k) && PrimFloat.leb (mid_hi bits k) (level bits (k + 1))
  && (quantize bits (level bits k) =? k) && (quantize bits (mid_lo bits k) =? k)
  && (quantize bits (mid_hi bits k) =? k + 1) && (quantize bits (level bits (k + 1)) =? k + 1).

Definition cells_ok (bits : Z) : bool := forallb (cell_ok bits) (zrange (Z.to_nat (2 ^ bits - 1)) 0).

Lemma cells4 : cells_ok 4 = true. Proof. vm_compute. reflexivity. Qed.
Lemma cells8 : cells_ok 8 = true. Proof. vm_compute. reflexivity. Qed.
Lemma cells16 : cells_ok 16 = true. Proof. vm_compute. reflexivity. Qed.

Lemma cell_cert bits k : bits = 4 \/ bits = 8 \/ bits = 16 -> 0 <= k < 2 ^ bits - 1 -> cell_ok bits k = true.
Proof.
  intros Hb Hk.
  assert (H : cells_ok bits = true) by (destruct Hb as [->|[->| ->]]; [apply cells4|apply cells8|apply cells16]).
  unfold cells_ok in H. rewrite forallb_forall in H. apply H. apply in_zrange.
  rewrite Z2Nat.id by (destruct Hb as [->|[->| ->]]; cbn; lia). lia.
Qed.

Lemma in_rng_spec x : in_rng x = true ->
  PrimFloat.is_nan x = false /\ PrimFloat.ltb x (-1)%float = false /\ PrimFloat.ltb 1%float x = false.
Proof.
  unfold in_rng. rewrite !andb_true_iff, !negb_true_iff. tauto.
Qed.

(* between level k and the midpoint (minus 2^-50) the stored level is k; between the midpoint
   (plus 2^-50) and level k+1 it is k+1 *)
Theorem nearest_level bits k x : bits = 4 \/ bits = 8 \/ bits = 16 -> 0 <= k < 2 ^ bits - 1 ->
  in_rng x = true ->
  (PrimFloat.leb (level bits k) x = true -> PrimFloat.leb x (mid_lo bits k) = true -> quantize bits x = k)
  /\ (PrimFloat.leb (mid_hi bits k) x = true -> PrimFloat.leb x (level bits (k + 1)) = true -> quantize bits x = k + 1).
Proof.
  intros Hb Hk Hx. pose proof (cell_cert bits k Hb Hk) as C. unfold cell_ok in C.
  rewrite !andb_true_iff in C.
  destruct C as [[[[[[[[[C1 C2] C3] C4] C5] C6] C7] C8] C9] C10].
  apply Z.eqb_eq in C7, C8, C9, C10.
  destruct (in_rng_spec _ Hx) as (Nx & Lx & Ux).
  destruct (in_rng_spec _ C1) as (N1 & L1 & U1). destruct (in_rng_spec _ C2) as (N2 & L2 & U2).
  destruct (in_rng_spec _ C3) as (N3 & L3 & U3). destruct (in_rng_spec _ C4) as (N4 & L4 & U4).
  split; intros Ha Hb'.
  - pose proof (quantize_mono_core bits _ _ Hb N1 Nx L1 U1 Lx Ux Ha) as M1.
    pose proof (quantize_mono_core bits _ _ Hb Nx N3 Lx Ux L3 U3 Hb') as M2. lia.
  - pose proof (quantize_mono_core bits _ _ Hb N4 Nx L4 U4 Lx Ux Ha) as M1.
    pose proof (quantize_mono_core bits _ _ Hb Nx N2 Lx Ux L2 U2 Hb') as M2. lia.
Qed.
