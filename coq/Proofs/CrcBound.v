(* CrcBound.v — the CRC register stays a 32-bit word. *)
From Coq Require Import ZArith Lia ZifyN ZifyBool ZifyNat.
From Syz Require Import Crc.
Open Scope N_scope.

Lemma lt_pow2_log2 a n : a < 2 ^ n -> a = 0 \/ N.log2 a < n.
Proof.
  intros H. destruct (N.eq_dec a 0) as [->|Hne]; [now left|right].
  apply N.log2_lt_pow2; lia.
Qed.

Lemma lxor_bound a b n : a < 2 ^ n -> b < 2 ^ n -> N.lxor a b < 2 ^ n.
Proof.
  intros Ha Hb.
  destruct (N.eq_dec (N.lxor a b) 0) as [->|Hne].
  - destruct n; [cbn in *; lia|]. apply N.neq_0_lt_0. apply N.pow_nonzero. lia.
  - apply N.log2_lt_pow2; [lia|].
    eapply N.le_lt_trans; [apply N.log2_lxor|].
    destruct (lt_pow2_log2 _ _ Ha) as [->|Ha']; destruct (lt_pow2_log2 _ _ Hb) as [->|Hb'];
      try (rewrite N.lxor_0_l in Hne); try (rewrite N.lxor_0_r in Hne); cbn [N.log2];
      try lia.
Qed.

Definition w32 : N := 4294967296.

Lemma crc_bit_bound r b : r < w32 -> crc_bit r b < w32.
Proof.
  intros H. unfold crc_bit.
  assert (Hd : N.div2 r < 2147483648).
  { rewrite N.div2_div. unfold w32 in H. Ltac Zify.zify_post_hook ::= Z.div_mod_to_equations. lia. }
  destruct (xorb (N.odd r) b).
  - change w32 with (2 ^ 32). apply lxor_bound; [change (2^32) with 4294967296; lia|reflexivity].
  - unfold w32. lia.
Qed.

Lemma crc_byte_bound r d : r < w32 -> crc_byte r d < w32.
Proof. intros H. unfold crc_byte. repeat apply crc_bit_bound. exact H. Qed.

Lemma crc_update_bound bs : forall r, r < w32 -> crc_update r bs < w32.
Proof.
  unfold crc_update. induction bs as [|d bs IH]; intros r H; cbn [fold_left]; [exact H|].
  apply IH. apply crc_byte_bound. exact H.
Qed.

Theorem crc32_bound bs : crc32 bs < w32.
Proof.
  unfold crc32. change w32 with (2 ^ 32). apply lxor_bound; [|reflexivity].
  change (2 ^ 32) with w32. apply crc_update_bound. reflexivity.
Qed.
