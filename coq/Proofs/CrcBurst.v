(* CrcBurst.v — CRC-32 (reflected, as hash/crc32 computes it) detects every error pattern confined to a
   window of at most 32 consecutive bits, in the order in which the bits enter the register (byte by byte,
   least significant bit first).  No polynomial algebra: the register update is GF(2)-linear, injective for a
   fixed input bit, and a register that has just absorbed a feedback 1 has its top bit set, which 31 further
   steps can only shift down to bit 0. *)
From Coq Require Import ZArith Lia ZifyN ZifyBool ZifyNat List Bool.
From Syz Require Import Crc CrcBound.
Import ListNotations.
Open Scope N_scope.
Ltac Zify.zify_post_hook ::= Z.div_mod_to_equations.

Definition crc_bits (r : N) (bs : list bool) : N := fold_left crc_bit bs r.

Lemma crc_bits_app r a b : crc_bits r (a ++ b) = crc_bits (crc_bits r a) b.
Proof. unfold crc_bits. apply fold_left_app. Qed.

Lemma crc_bits_bound bs : forall r, r < w32 -> crc_bits r bs < w32.
Proof.
  induction bs as [|b bs IH]; intros r H; [exact H|]. cbn [crc_bits fold_left]. apply IH. apply crc_bit_bound. exact H.
Qed.

(* ---------- linearity ---------- *)
Definition sel (x : bool) : N := if x then poly else 0.

Lemma crc_bit_sel r b : crc_bit r b = N.lxor (N.div2 r) (sel (xorb (N.odd r) b)).
Proof. unfold crc_bit, sel. destruct (xorb (N.odd r) b); [reflexivity|]. rewrite N.lxor_0_r. reflexivity. Qed.

Lemma odd_lxor a b : N.odd (N.lxor a b) = xorb (N.odd a) (N.odd b).
Proof. rewrite <- !N.bit0_odd. apply N.lxor_spec. Qed.

Lemma div2_lxor a b : N.div2 (N.lxor a b) = N.lxor (N.div2 a) (N.div2 b).
Proof. rewrite !N.div2_spec. apply N.shiftr_lxor. Qed.

Lemma sel_xorb x y : sel (xorb x y) = N.lxor (sel x) (sel y).
Proof. destruct x, y; reflexivity. Qed.

Lemma crc_bit_linear r1 r2 b1 b2 :
  crc_bit (N.lxor r1 r2) (xorb b1 b2) = N.lxor (crc_bit r1 b1) (crc_bit r2 b2).
Proof.
  rewrite !crc_bit_sel, odd_lxor, div2_lxor.
  replace (xorb (xorb (N.odd r1) (N.odd r2)) (xorb b1 b2)) with (xorb (xorb (N.odd r1) b1) (xorb (N.odd r2) b2))
    by (destruct (N.odd r1), (N.odd r2), b1, b2; reflexivity).
  rewrite sel_xorb.
  rewrite !N.lxor_assoc. f_equal. rewrite <- !N.lxor_assoc. f_equal. apply N.lxor_comm.
Qed.

Fixpoint zipx (a b : list bool) : list bool :=
  match a, b with
  | x :: a', y :: b' => xorb x y :: zipx a' b'
  | _, _ => []
  end.

Lemma crc_bits_linear : forall a b r1 r2, length a = length b ->
  crc_bits (N.lxor r1 r2) (zipx a b) = N.lxor (crc_bits r1 a) (crc_bits r2 b).
Proof.
  induction a as [|x a IH]; intros [|y b] r1 r2 H; try discriminate; [reflexivity|].
  cbn [zipx crc_bits fold_left]. fold (crc_bits (crc_bit (N.lxor r1 r2) (xorb x y)) (zipx a b)).
  rewrite crc_bit_linear. apply IH. simpl in H. lia.
Qed.

(* ---------- injectivity of one step for a fixed input bit ---------- *)
Lemma poly_val : poly = 3988292384. Proof. reflexivity. Qed.

Lemma testbit31_small a : a < 2147483648 -> N.testbit a 31 = false.
Proof. intros H. apply N.testbit_false. change (2 ^ 31) with 2147483648. rewrite N.div_small by exact H. reflexivity. Qed.

Lemma div2_small r : r < w32 -> N.div2 r < 2147483648.
Proof. intros H. rewrite N.div2_div. unfold w32 in H. lia. Qed.

(* bit 31 of the new register is the feedback bit *)
Lemma crc_bit_top r b : r < w32 -> N.testbit (crc_bit r b) 31 = xorb (N.odd r) b.
Proof.
  intros H. rewrite crc_bit_sel, N.lxor_spec, (testbit31_small _ (div2_small r H)).
  destruct (xorb (N.odd r) b); reflexivity.
Qed.

Lemma div2_odd_inj a b : N.div2 a = N.div2 b -> N.odd a = N.odd b -> a = b.
Proof.
  intros Hd Ho. rewrite (N.div2_odd a), (N.div2_odd b), Hd, Ho. reflexivity.
Qed.

Lemma crc_bit_inj r1 r2 b : r1 < w32 -> r2 < w32 -> crc_bit r1 b = crc_bit r2 b -> r1 = r2.
Proof.
  intros H1 H2 E.
  assert (Ho : N.odd r1 = N.odd r2).
  { pose proof (crc_bit_top r1 b H1) as T1. pose proof (crc_bit_top r2 b H2) as T2. rewrite E in T1.
    rewrite T1 in T2. destruct (N.odd r1), (N.odd r2), b; try reflexivity; discriminate. }
  apply div2_odd_inj; [|exact Ho].
  rewrite !crc_bit_sel, Ho in E.
  apply (f_equal (fun x => N.lxor x (sel (xorb (N.odd r2) b)))) in E.
  rewrite !N.lxor_assoc, !N.lxor_nilpotent, !N.lxor_0_r in E. exact E.
Qed.

Lemma crc_bits_inj bs : forall r1 r2, r1 < w32 -> r2 < w32 -> crc_bits r1 bs = crc_bits r2 bs -> r1 = r2.
Proof.
  induction bs as [|b bs IH]; intros r1 r2 H1 H2 E; [exact E|].
  cbn [crc_bits fold_left] in E. apply (crc_bit_inj r1 r2 b H1 H2).
  apply IH; [apply crc_bit_bound; exact H1 | apply crc_bit_bound; exact H2 | exact E].
Qed.

(* ---------- a register holding a recent feedback 1 cannot reach zero within 31 steps ---------- *)
Lemma testbit_lower a k : N.testbit a k = true -> 2 ^ k <= a.
Proof.
  intros H. apply N.testbit_true in H.
  destruct (N.lt_ge_cases a (2 ^ k)) as [Hlt|Hge]; [|exact Hge].
  rewrite N.div_small in H by exact Hlt. discriminate.
Qed.

Lemma crc_bit_lower r b e : r < w32 -> 1 <= e -> e <= 31 -> 2 ^ e <= r -> 2 ^ (e - 1) <= crc_bit r b.
Proof.
  intros Hr He1 He Hlow.
  destruct (xorb (N.odd r) b) eqn:X.
  - pose proof (crc_bit_top r b Hr) as T. rewrite X in T. apply testbit_lower in T.
    apply N.le_trans with (2 ^ 31); [|exact T]. apply N.pow_le_mono_r; lia.
  - rewrite crc_bit_sel, X. cbn [sel]. rewrite N.lxor_0_r, N.div2_div.
    replace e with (N.succ (e - 1)) in Hlow by lia. rewrite N.pow_succ_r' in Hlow.
    apply N.div_le_lower_bound; lia.
Qed.

Lemma crc_bits_lower bs : forall r e, r < w32 -> e <= 31 -> N.of_nat (length bs) <= e -> 2 ^ e <= r ->
  2 ^ (e - N.of_nat (length bs)) <= crc_bits r bs.
Proof.
  induction bs as [|b bs IH]; intros r e Hr He Hlen Hlow.
  - cbn. rewrite N.sub_0_r. exact Hlow.
  - cbn [crc_bits fold_left length] in *. fold (crc_bits (crc_bit r b) bs).
    replace (e - N.of_nat (S (length bs))) with ((e - 1) - N.of_nat (length bs)) by lia.
    apply IH; [apply crc_bit_bound; exact Hr | lia | lia |].
    apply crc_bit_lower; [exact Hr | lia | exact He | exact Hlow].
Qed.

Lemma crc_bits_zero_false n : crc_bits 0 (repeat false n) = 0.
Proof. induction n as [|n IH]; [reflexivity|]. cbn [repeat crc_bits fold_left]. exact IH. Qed.

(* a non-zero pattern of at most 32 bits fed into the zero register leaves a non-zero register *)
Lemma split_first_true : forall d, existsb (fun x => x) d = true ->
  exists n rest, d = repeat false n ++ true :: rest.
Proof.
  induction d as [|x d IH]; intros H; [discriminate|]. destruct x.
  - exists O, d. reflexivity.
  - cbn in H. destruct (IH H) as (n & rest & ->). exists (S n), rest. reflexivity.
Qed.

Lemma pattern_nonzero d : (length d <= 32)%nat -> existsb (fun x => x) d = true -> crc_bits 0 d <> 0.
Proof.
  intros Hlen Hnz. destruct (split_first_true d Hnz) as (n & rest & ->).
  rewrite crc_bits_app, crc_bits_zero_false. cbn [crc_bits fold_left]. fold (crc_bits (crc_bit 0 true) rest).
  change (crc_bit 0 true) with poly.
  rewrite app_length, repeat_length in Hlen. cbn [length] in Hlen.
  assert (Hp : 2 ^ 31 <= poly) by (rewrite poly_val; cbn; lia).
  assert (Hpw : poly < w32) by (rewrite poly_val; unfold w32; lia).
  pose proof (crc_bits_lower rest poly 31 Hpw (N.le_refl _) ltac:(lia) Hp) as L.
  assert (0 < 2 ^ (31 - N.of_nat (length rest))) by (apply N.neq_0_lt_0, N.pow_nonzero; lia). lia.
Qed.

(* ---------- the burst theorem, on bits ---------- *)
Lemma zipx_nonzero : forall a b, length a = length b -> a <> b -> existsb (fun x => x) (zipx a b) = true.
Proof.
  induction a as [|x a IH]; intros [|y b] Hl Hne; try discriminate; [contradiction|].
  cbn [zipx existsb]. destruct (xorb x y) eqn:X; [reflexivity|]. cbn.
  apply IH; [simpl in Hl; lia|]. intro E. apply Hne. destruct x, y; try discriminate; rewrite E; reflexivity.
Qed.

Lemma zipx_length : forall a b, length a = length b -> length (zipx a b) = length a.
Proof. induction a as [|x a IH]; intros [|y b] H; try discriminate; [reflexivity|]. cbn. f_equal. apply IH. simpl in H. lia. Qed.

Theorem burst_bits pre w w' post r : r < w32 -> length w = length w' -> (length w <= 32)%nat -> w <> w' ->
  crc_bits r (pre ++ w ++ post) <> crc_bits r (pre ++ w' ++ post).
Proof.
  intros Hr Hl H32 Hne E. rewrite !crc_bits_app in E.
  set (r1 := crc_bits r pre) in *.
  assert (Hr1 : r1 < w32) by (apply crc_bits_bound; exact Hr).
  apply crc_bits_inj in E; try (apply crc_bits_bound; exact Hr1).
  pose proof (crc_bits_linear w w' r1 r1 Hl) as L.
  rewrite N.lxor_nilpotent, E, N.lxor_nilpotent in L.
  apply (pattern_nonzero (zipx w w')); [rewrite zipx_length by exact Hl; exact H32 | apply zipx_nonzero; assumption | exact L].
Qed.
