(* F32Proofs.v — what a 32-bit and a 64-bit collection read back (C12, b = 32 and b = 64). *)
From Coq Require Import ZArith Reals Floats List Lia Lra.
From Flocq Require Import Core.Core IEEE754.BinarySingleNaN IEEE754.Binary IEEE754.Bits IEEE754.PrimFloat.
From Syz Require Import F32.
Open Scope Z_scope.

Local Notation fexp32 := (FLT_exp (-149) 24).
Local Notation fexp64 := (FLT_exp (-1074) 53).
Local Notation R32 := (round radix2 fexp32 ZnearestE).

Lemma to32_correct (X : bf64) :
  BinarySingleNaN.is_finite X = true ->
  (Rabs (R32 (BinarySingleNaN.B2R X)) < bpow radix2 128)%R ->
  BinarySingleNaN.B2R (to32 X) = R32 (BinarySingleNaN.B2R X) /\ BinarySingleNaN.is_finite (to32 X) = true.
Proof.
  destruct X as [s|s| |s m e Hb]; cbn [BinarySingleNaN.is_finite to32]; try discriminate; intros _ Hlt.
  - cbn [BinarySingleNaN.B2R]. rewrite round_0 by apply valid_rnd_N. split; reflexivity.
  - pose proof (BinarySingleNaN.binary_normalize_correct 24 128 eq_refl eq_refl mode_NE (cond_Zopp s (Zpos m)) e s) as H.
    cbn [BinarySingleNaN.B2R] in Hlt |- *. cbn [round_mode] in H.
    change (FLT_exp (3 - 128 - 24) 24) with fexp32 in H.
    rewrite Rlt_bool_true in H by exact Hlt.
    destruct H as (H1 & H2 & _). split; [exact H1|exact H2].
Qed.

Lemma fexp_incl : forall e, (fexp64 e <= fexp32 e)%Z.
Proof. intros e. unfold FLT_exp. lia. Qed.

Lemma to64_exact (y : bf32) : BinarySingleNaN.is_finite y = true ->
  BinarySingleNaN.B2R (to64 y) = BinarySingleNaN.B2R y /\ BinarySingleNaN.is_finite (to64 y) = true.
Proof.
  destruct y as [s|s| |s m e Hb] eqn:Ey; cbn [BinarySingleNaN.is_finite to64]; try discriminate; intros _.
  - split; reflexivity.
  - pose proof (BinarySingleNaN.binary_normalize_correct 53 1024 eq_refl eq_refl mode_NE (cond_Zopp s (Zpos m)) e s) as H.
    cbn [round_mode] in H. change (FLT_exp (3 - 1024 - 53) 53) with fexp64 in H.
    assert (Hg : generic_format radix2 fexp64 (F2R (Float radix2 (cond_Zopp s (Zpos m)) e))).
    { pose proof (BinarySingleNaN.generic_format_B2R 24 128 (BinarySingleNaN.B754_finite s m e Hb)) as Hg32.
      cbn [BinarySingleNaN.B2R] in Hg32. change (FLT_exp (3 - 128 - 24) 24) with fexp32 in Hg32.
      revert Hg32. apply generic_inclusion_mag. intros _. apply fexp_incl. }
    rewrite round_generic in H by (try apply valid_rnd_N; exact Hg).
    pose proof (BinarySingleNaN.abs_B2R_lt_emax 24 128 (BinarySingleNaN.B754_finite s m e Hb)) as Hlt.
    cbn [BinarySingleNaN.B2R] in Hlt.
    rewrite Rlt_bool_true in H.
    + destruct H as (H1 & H2 & _). cbn [BinarySingleNaN.B2R]. split; [exact H1|exact H2].
    + eapply Rlt_le_trans; [exact Hlt|]. apply bpow_le. lia.
Qed.

Lemma decode_encode32 (y : bf32) :
  B2BSN 24 128 (binary_float_of_bits 23 8 eq_refl eq_refl eq_refl (bits_of_binary_float 23 8 (BSN2B 24 128 nan32 y))) = y.
Proof. rewrite binary_float_of_bits_of_binary_float. apply B2BSN_BSN2B. Qed.

(* what is read back from a 32-bit collection is float32(x) *)
Lemma load_store32 x : of_bits32 (bits32 x) = B2Prim (to64 (to32 (Prim2B x))).
Proof. unfold of_bits32, bits32. rewrite decode_encode32. reflexivity. Qed.

(* ... and float32(x) is the binary32 value nearest to x (ties to even), unless that overflows *)
Theorem f32_nearest x :
  BinarySingleNaN.is_finite (Prim2B x) = true ->
  (Rabs (R32 (BinarySingleNaN.B2R (Prim2B x))) < bpow radix2 128)%R ->
  BinarySingleNaN.B2R (Prim2B (of_bits32 (bits32 x))) = R32 (BinarySingleNaN.B2R (Prim2B x))
  /\ BinarySingleNaN.is_finite (Prim2B (of_bits32 (bits32 x))) = true.
Proof.
  intros Hf Hlt. rewrite load_store32, Prim2B_B2Prim.
  destruct (to32_correct _ Hf Hlt) as [H1 H2]. destruct (to64_exact _ H2) as [H3 H4].
  split; [etransitivity; [exact H3|exact H1]|exact H4].
Qed.

(* consequently the error is at most half a unit in the last place of binary32 *)
Theorem f32_error x :
  BinarySingleNaN.is_finite (Prim2B x) = true ->
  (Rabs (R32 (BinarySingleNaN.B2R (Prim2B x))) < bpow radix2 128)%R ->
  (Rabs (BinarySingleNaN.B2R (Prim2B (of_bits32 (bits32 x))) - BinarySingleNaN.B2R (Prim2B x))
   <= / 2 * ulp radix2 fexp32 (BinarySingleNaN.B2R (Prim2B x)))%R.
Proof.
  intros Hf Hlt. destruct (f32_nearest x Hf Hlt) as [H _]. rewrite H.
  apply error_le_half_ulp. apply FLT_exp_valid. reflexivity.
Qed.


Lemma to32_to64 (y : bf32) : BinarySingleNaN.is_nan y = false -> to32 (to64 y) = y.
Proof.
  destruct y as [s|s| |s m e Hb] eqn:Ey; try reflexivity; try discriminate. intros _.
  rewrite <- Ey.
  assert (Hfin : BinarySingleNaN.is_finite y = true) by (rewrite Ey; reflexivity).
  destruct (to64_exact y Hfin) as [H1 H2].
  assert (Hg : R32 (BinarySingleNaN.B2R y) = BinarySingleNaN.B2R y).
  { apply round_generic; [apply valid_rnd_N|]. exact (BinarySingleNaN.generic_format_B2R 24 128 y). }
  assert (Hlt : (Rabs (R32 (BinarySingleNaN.B2R (to64 y))) < bpow radix2 128)%R).
  { rewrite H1, Hg. exact (BinarySingleNaN.abs_B2R_lt_emax 24 128 y). }
  destruct (to32_correct (to64 y) H2 Hlt) as [H3 H4]. rewrite H1, Hg in H3.
  assert (Hnz : BinarySingleNaN.B2R y <> 0%R).
  { rewrite Ey. cbn [BinarySingleNaN.B2R]. intros H0. apply eq_0_F2R in H0. destruct s; discriminate. }
  apply BinarySingleNaN.B2R_inj; [| rewrite Ey; reflexivity | exact H3].
  destruct (to32 (to64 y)) as [s'|s'| |s' m' e' Hb']; try discriminate; [|reflexivity].
  exfalso. apply Hnz. rewrite <- H3. reflexivity.
Qed.

(* a value read from a 32-bit collection is stored unchanged (idempotence at 32 bits) *)
Theorem f32_idempotent k : of_bits32 (bits32 (of_bits32 k)) = of_bits32 k.
Proof.
  rewrite load_store32. unfold of_bits32. rewrite Prim2B_B2Prim.
  set (y := B2BSN 24 128 (binary_float_of_bits 23 8 eq_refl eq_refl eq_refl k)).
  destruct (BinarySingleNaN.is_nan y) eqn:En.
  - destruct y; try discriminate. reflexivity.
  - rewrite (to32_to64 y En). reflexivity.
Qed.

Theorem b64_exact x : of_bits64 (bits64 x) = x.
Proof.
  unfold of_bits64, bits64. rewrite binary_float_of_bits_of_binary_float, B2BSN_BSN2B. apply B2Prim_Prim2B.
Qed.


(* storing at 32 bits is monotone: a larger component is never read back smaller *)
Theorem f32_monotone x y :
  BinarySingleNaN.is_finite (Prim2B x) = true -> BinarySingleNaN.is_finite (Prim2B y) = true ->
  (Rabs (R32 (BinarySingleNaN.B2R (Prim2B x))) < bpow radix2 128)%R ->
  (Rabs (R32 (BinarySingleNaN.B2R (Prim2B y))) < bpow radix2 128)%R ->
  (BinarySingleNaN.B2R (Prim2B x) <= BinarySingleNaN.B2R (Prim2B y))%R ->
  (BinarySingleNaN.B2R (Prim2B (of_bits32 (bits32 x))) <= BinarySingleNaN.B2R (Prim2B (of_bits32 (bits32 y))))%R.
Proof.
  intros Hx Hy Lx Ly Hle.
  destruct (f32_nearest x Hx Lx) as [Ex _]. destruct (f32_nearest y Hy Ly) as [Ey _].
  rewrite Ex, Ey. apply round_le; [apply FLT_exp_valid; reflexivity|apply valid_rnd_N|exact Hle].
Qed.
