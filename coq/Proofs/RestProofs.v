From Coq Require Import List NArith ZArith Bool Lia.
From Syz Require Import Coll Rest.
Import ListNotations.
Open Scope N_scope.

Ltac brk :=
  repeat match goal with
         | |- context [match ?x with _ => _ end] => destruct x eqn:?
         | |- context [if ?x then _ else _] => destruct x eqn:?
         end.

(* ---------- lookups ---------- *)
Lemma slookup_sset_same : forall s n c, slookup n (sset n c s) = Some c.
Proof.
  induction s as [|[m d] r IH]; intros n c; simpl.
  - rewrite N.eqb_refl. reflexivity.
  - destruct (N.eqb_spec m n) as [->|Hne]; simpl.
    + rewrite N.eqb_refl. reflexivity.
    + destruct (N.eqb_spec m n); [contradiction|]. apply IH.
Qed.

Lemma slookup_sset_other : forall s n n' c, n <> n' -> slookup n' (sset n c s) = slookup n' s.
Proof.
  induction s as [|[m d] r IH]; intros n n' c Hne; simpl.
  - destruct (N.eqb_spec n n'); [contradiction|reflexivity].
  - destruct (N.eqb_spec m n) as [->|Hmn]; simpl.
    + destruct (N.eqb_spec n n'); [contradiction|reflexivity].
    + destruct (N.eqb_spec m n'); [reflexivity|]. apply IH. exact Hne.
Qed.

Lemma slookup_sdrop_other : forall s n n', n <> n' -> slookup n' (sdrop n s) = slookup n' s.
Proof.
  induction s as [|[m d] r IH]; intros n n' Hne; simpl; [reflexivity|].
  destruct (N.eqb_spec m n) as [->|Hmn]; simpl.
  - destruct (N.eqb_spec n n'); [contradiction|reflexivity].
  - destruct (N.eqb_spec m n'); [reflexivity|]. apply IH. exact Hne.
Qed.

(* ---------- well-formedness ---------- *)
Lemma wf_lookup : forall s n c, server_wf s = true -> slookup n s = Some c -> coll_wf c = true.
Proof.
  induction s as [|[m d] r IH]; intros n c Hwf Hl; simpl in *; [discriminate|].
  apply andb_true_iff in Hwf. destruct Hwf as [Hd Hr].
  destruct (m =? n); [inversion Hl; subst; exact Hd | eapply IH; eauto].
Qed.

Lemma wf_sset : forall s n c, server_wf s = true -> coll_wf c = true -> server_wf (sset n c s) = true.
Proof.
  induction s as [|[m d] r IH]; intros n c Hwf Hc; simpl in *.
  - rewrite Hc. reflexivity.
  - apply andb_true_iff in Hwf. destruct Hwf as [Hd Hr].
    destruct (m =? n); simpl; [rewrite Hc, Hr; reflexivity | rewrite Hd; simpl; apply IH; assumption].
Qed.

Lemma wf_sdrop : forall s n, server_wf s = true -> server_wf (sdrop n s) = true.
Proof.
  induction s as [|[m d] r IH]; intros n Hwf; simpl in *; [reflexivity|].
  apply andb_true_iff in Hwf. destruct Hwf as [Hd Hr].
  destruct (m =? n); simpl; [exact Hr | rewrite Hd; simpl; apply IH; exact Hr].
Qed.

Lemma coll_add_ok : forall c id vt vl meta, coll_wf c = true -> vl = c_dim c ->
  exists c', coll_add c id vt vl meta = Ok c' /\ coll_wf c' = true /\ c_dim c' = c_dim c.
Proof.
  intros c id vt vl meta Hwf ->. unfold coll_wf in Hwf. apply andb_true_iff in Hwf. destruct Hwf as [Hd Hq].
  unfold coll_add. rewrite Z.eqb_refl. simpl. rewrite Hq. simpl.
  destruct (Z.ltb_spec (c_dim c) 1) as [Hlt|_]; [apply Z.leb_le in Hd; lia|].
  eexists. split; [reflexivity|]. split; [|reflexivity]. unfold coll_wf. simpl. rewrite Hd, Hq. reflexivity.
Qed.

Lemma wrong_size_dim : forall c c' rs, c_dim c' = c_dim c -> existsb (wrong_size c') rs = existsb (wrong_size c) rs.
Proof.
  intros c c' rs H. induction rs as [|r rest IH]; simpl; [reflexivity|].
  rewrite IH. unfold wrong_size. rewrite H. reflexivity.
Qed.

Lemma add_all_ok : forall rs c, coll_wf c = true ->
  existsb no_vector rs = false -> existsb (wrong_size c) rs = false ->
  exists c', add_all c rs = Ok c' /\ coll_wf c' = true.
Proof.
  induction rs as [|r rest IH]; intros c Hwf Hnv Hws; simpl in *.
  - eauto.
  - apply orb_false_iff in Hnv. destruct Hnv as [Hnv1 Hnv2].
    apply orb_false_iff in Hws. destruct Hws as [Hws1 Hws2].
    unfold no_vector in Hnv1. unfold wrong_size in Hws1.
    destruct (r_vec r) as [[vt vl]|] eqn:Ev; [|discriminate].
    apply negb_false_iff in Hws1. apply Z.eqb_eq in Hws1.
    destruct (coll_add_ok c (r_id r) vt vl (r_meta r) Hwf Hws1) as [c' [Ha [Hwf' Hdim]]].
    rewrite Ha. simpl. apply IH; [exact Hwf'|exact Hnv2|].
    rewrite (wrong_size_dim c c' rest Hdim). exact Hws2.
Qed.

(* ---------- C18: every request is answered; the server stays well-formed ---------- *)
Theorem handle_wf : forall s rq, server_wf s = true -> server_wf (fst (handle s rq)) = true.
Proof.
  intros s rq Hwf. destruct rq; simpl.
  - (* Create *)
    destruct body_ok; [|exact Hwf]. destruct name_ok; [|exact Hwf]. destruct metric as [m|]; [|exact Hwf]. simpl.
    destruct ((dim <? 1)%Z || negb (supported_q (if (q =? 0)%Z then 64%Z else q))) eqn:Ev; [exact Hwf|].
    destruct (slookup name s); [exact Hwf|]. simpl. apply wf_sset; [exact Hwf|].
    unfold coll_wf. simpl. apply orb_false_iff in Ev. destruct Ev as [Hd Hq].
    apply Z.ltb_ge in Hd. apply negb_false_iff in Hq. rewrite Hq. apply Z.leb_le in Hd. rewrite Hd. reflexivity.
  - exact Hwf.
  - brk; exact Hwf.
  - brk; simpl; [apply wf_sdrop|]; exact Hwf.
  - brk; exact Hwf.
  - (* Insert *) destruct (slookup n s) as [c|] eqn:El; [|exact Hwf].
    destruct body as [rs|]; [|exact Hwf].
    destruct (existsb wants_embedding rs); [exact Hwf|].
    destruct (existsb no_vector rs) eqn:Env; [exact Hwf|].
    destruct (existsb (wrong_size c) rs) eqn:Ews; [exact Hwf|].
    destruct (add_all_ok rs c (wf_lookup _ _ _ Hwf El) Env Ews) as [c' [Ha Hwf']]. rewrite Ha. simpl.
    apply wf_sset; assumption.
  - (* Update *) destruct id as [i|]; [|exact Hwf]. destruct (slookup n s) as [c|] eqn:El; [|exact Hwf].
    destruct body as [meta|]; [|exact Hwf]. unfold coll_update. destruct (dlookup i (c_docs c)) as [[v m]|]; [|exact Hwf].
    simpl. apply wf_sset; [exact Hwf|]. exact (wf_lookup _ _ _ Hwf El).
  - (* DeleteRec *) destruct id as [i|]; [|exact Hwf]. destruct (slookup n s) as [c|] eqn:El; [|exact Hwf].
    unfold coll_remove. destruct (dlookup i (c_docs c)) as [x|]; [|exact Hwf].
    simpl. apply wf_sset; [exact Hwf|]. exact (wf_lookup _ _ _ Hwf El).
  - brk; exact Hwf.
  - exact Hwf.
Qed.

Theorem handle_total : forall s rq, server_wf s = true -> snd (handle s rq) <> Dropped.
Proof.
  intros s rq Hwf. destruct rq; simpl; try (brk; simpl; discriminate).
  destruct (slookup n s) as [c|] eqn:El; [|simpl; discriminate].
  destruct body as [rs|]; [|simpl; discriminate].
  destruct (existsb wants_embedding rs); [simpl; discriminate|].
  destruct (existsb no_vector rs) eqn:Env; [simpl; discriminate|].
  destruct (existsb (wrong_size c) rs) eqn:Ews; [simpl; discriminate|].
  destruct (add_all_ok rs c (wf_lookup _ _ _ Hwf El) Env Ews) as [c' [Ha _]]. rewrite Ha. simpl. discriminate.
Qed.

(* ---------- C18: a request answered with 4xx/5xx changes nothing ---------- *)
Theorem handle_rollback : forall s rq st b, snd (handle s rq) = Resp st b -> 400 <= st -> fst (handle s rq) = s.
Proof.
  intros s rq st b. destruct rq; simpl; brk; simpl; intros H Hst; try reflexivity;
    inversion H; subst; try lia.
Qed.

(* ---------- C17: collections do not influence each other ---------- *)
Definition addressed (rq : request) : option N :=
  match rq with
  | Create _ name _ _ _ _ => Some name
  | _ => target rq
  end.

Theorem handle_frame : forall s rq n n', addressed rq = Some n -> n <> n' ->
  slookup n' (fst (handle s rq)) = slookup n' s.
Proof.
  intros s rq n n' Ha Hne. destruct rq; simpl in Ha; inversion Ha; subst; simpl; brk; simpl;
    try reflexivity; try (apply slookup_sset_other; exact Hne); try (apply slookup_sdrop_other; exact Hne).
Qed.

Theorem handle_frame_untargeted : forall s rq, addressed rq = None -> fst (handle s rq) = s.
Proof. intros s rq Ha. destruct rq; simpl in Ha; try discriminate; reflexivity. Qed.

(* ---------- C17: documented status classes ---------- *)
Ltac rw_all := repeat match goal with H : ?x = _ |- context [?x] => rewrite H end.
Ltac fin := simpl; rw_all; simpl; rewrite ?orb_true_r, ?andb_false_r, ?orb_false_r; try reflexivity; try discriminate; try lia; auto.

Theorem status_set : forall s rq st b, snd (handle s rq) = Resp st b ->
  st = 200 \/ st = 201 \/ st = 400 \/ st = 404 \/ st = 500.
Proof.
  intros s rq st b. destruct rq; simpl; brk; simpl; intros H; inversion H; subst; auto 10; discriminate.
Qed.

Theorem status_400 : forall s rq b, snd (handle s rq) = Resp 400 b -> malformed s rq = true.
Proof.
  intros s rq b. destruct rq; simpl; brk; simpl; intros H; inversion H; subst; fin.
Qed.

Theorem status_404 : forall s rq b, snd (handle s rq) = Resp 404 b ->
  unknown_collection s rq = true \/ unknown_record s rq = true.
Proof.
  intros s rq b. destruct rq; simpl; brk; simpl; intros H; inversion H; subst;
    unfold unknown_collection, unknown_record, coll_update, coll_remove in *; simpl; rw_all; auto;
    repeat match goal with H : match ?x with _ => _ end = None |- _ => destruct x as [[? ?]|] eqn:?; try discriminate end;
    rw_all; auto.
Qed.

Theorem status_500 : forall s rq b, snd (handle s rq) = Resp 500 b -> needs_embedding rq = true.
Proof.
  intros s rq b. destruct rq; simpl; brk; simpl; intros H; inversion H; subst; fin.
Qed.

Theorem status_2xx : forall s rq st b, snd (handle s rq) = Resp st b -> st < 400 ->
  malformed s rq = false /\ needs_embedding rq = false /\ unknown_record s rq = false /\
  (unknown_collection s rq = true -> exists n, rq = Drop n).
Proof.
  intros s rq st b. destruct rq; simpl; brk; simpl; intros H Hst; inversion H; subst; try lia;
    unfold unknown_collection, unknown_record, coll_update, coll_remove in *; simpl;
    repeat match goal with H : match ?x with _ => _ end = Some _ |- _ => destruct x as [[? ?]|] eqn:?; try discriminate end;
    rw_all; simpl; rewrite ?orb_false_r;
    repeat split; try reflexivity; try discriminate; eauto;
    repeat match goal with H : (_ || _) = false |- _ => apply orb_false_iff in H; destruct H end;
    repeat match goal with H : negb _ = false |- _ => apply negb_false_iff in H end;
    rw_all; simpl; try reflexivity; try discriminate; eauto.
Qed.

(* ---------- histories ---------- *)
Lemma run_app : forall rqs s out,
  fold_left (fun acc rq => let '(st, o) := acc in let '(st', r) := handle st rq in (st', o ++ [r])) rqs (s, out)
  = (fst (run s rqs), out ++ snd (run s rqs)).
Proof.
  induction rqs as [|rq rest IH]; intros s out; simpl.
  - rewrite app_nil_r. reflexivity.
  - unfold run. simpl. destruct (handle s rq) as [s' r] eqn:Eh. rewrite (IH s' (out ++ [r])). rewrite (IH s' [r]).
    simpl. rewrite <- app_assoc. reflexivity.
Qed.

Lemma run_cons : forall rq rest s,
  run s (rq :: rest) = (fst (run (fst (handle s rq)) rest), snd (handle s rq) :: snd (run (fst (handle s rq)) rest)).
Proof.
  intros rq rest s. unfold run at 1. simpl. destruct (handle s rq) as [s' r] eqn:Eh. simpl. rewrite run_app. reflexivity.
Qed.

Theorem run_total : forall rqs s, server_wf s = true ->
  server_wf (fst (run s rqs)) = true /\ ~ In Dropped (snd (run s rqs)).
Proof.
  induction rqs as [|rq rest IH]; intros s Hwf.
  - split; [exact Hwf|intros []].
  - rewrite run_cons. simpl. destruct (IH (fst (handle s rq)) (handle_wf s rq Hwf)) as [H1 H2].
    split; [exact H1|]. intros [E|Hin]; [exact (handle_total s rq Hwf E)|exact (H2 Hin)].
Qed.

(* a history of requests none of which is accepted (all answered 4xx/5xx) leaves the server as it was *)
Theorem run_rejected : forall rqs s,
  Forall (fun r => exists st b, r = Resp st b /\ 400 <= st) (snd (run s rqs)) -> fst (run s rqs) = s.
Proof.
  induction rqs as [|rq rest IH]; intros s H; [reflexivity|].
  rewrite run_cons in *. simpl in *. inversion H as [|? ? [st [b [E Hst]]] Hrest]; subst.
  rewrite (handle_rollback s rq st b E Hst) in *. apply IH. exact Hrest.
Qed.

(* ---------- effect of an accepted insert: AddDocument (C01 specification) for every record, in order ---------- *)
Definition put (d : list (N * (N * N))) (r : rec) : list (N * (N * N)) :=
  match r_vec r with Some (vt, _) => dupsert (r_id r) (vt, r_meta r) d | None => d end.

Lemma add_all_docs : forall rs c c', add_all c rs = Ok c' ->
  c_docs c' = fold_left put rs (c_docs c) /\ c_dim c' = c_dim c /\ c_q c' = c_q c /\ c_metric c' = c_metric c.
Proof.
  induction rs as [|r rest IH]; intros c c' H; simpl in *.
  - inversion H; subst. auto.
  - destruct (r_vec r) as [[vt vl]|] eqn:Ev; [|discriminate].
    unfold coll_add in H.
    destruct (negb (vl =? c_dim c)%Z); [discriminate|]. destruct (negb (supported_q (c_q c))); [discriminate|].
    destruct (c_dim c <? 1)%Z; [discriminate|]. simpl in H.
    destruct (IH _ _ H) as [H1 [H2 [H3 H4]]]. simpl in *. unfold put at 2. rewrite Ev. auto.
Qed.

Theorem insert_effect : forall s n rs c b, slookup n s = Some c ->
  snd (handle s (Insert n (Some rs))) = Resp 201 b ->
  exists c', slookup n (fst (handle s (Insert n (Some rs)))) = Some c' /\
             c_docs c' = fold_left put rs (c_docs c) /\ c_dim c' = c_dim c /\ c_q c' = c_q c /\ c_metric c' = c_metric c.
Proof.
  intros s n rs c b Hl. simpl. rewrite Hl.
  destruct (existsb wants_embedding rs); [discriminate|]. destruct (existsb no_vector rs); [discriminate|].
  destruct (existsb (wrong_size c) rs); [discriminate|].
  destruct (add_all c rs) as [c'| |] eqn:Ea; simpl; try discriminate.
  intros _. exists c'. split; [apply slookup_sset_same|]. apply add_all_docs. exact Ea.
Qed.

(* ---------- restarts inside histories ---------- *)
Definition is_restart (rq : request) : bool := match rq with Restart => true | _ => false end.
Definition no_restarts (rqs : list request) : list request := filter (fun r => negb (is_restart r)) rqs.

Lemma run_append : forall a b s,
  run s (a ++ b) = (fst (run (fst (run s a)) b), snd (run s a) ++ snd (run (fst (run s a)) b)).
Proof.
  induction a as [|rq a IH]; intros b s.
  - change (run s []) with (s, @nil response). cbn [app fst snd]. destruct (run s b); reflexivity.
  - rewrite <- app_comm_cons, !run_cons. cbn [fst snd]. rewrite IH. cbn [fst snd]. reflexivity.
Qed.

(* restarting the server at any points of a history, any number of times, changes neither the final state nor any
   response to the other requests *)
Theorem restarts_transparent : forall rqs s,
  fst (run s rqs) = fst (run s (no_restarts rqs))
  /\ map snd (filter (fun p => negb (is_restart (fst p))) (combine rqs (snd (run s rqs)))) = snd (run s (no_restarts rqs)).
Proof.
  induction rqs as [|rq rest IH]; intros s; [split; reflexivity|].
  rewrite run_cons. cbn [fst snd combine filter no_restarts]. fold (no_restarts rest).
  destruct (is_restart rq) eqn:E; cbn [negb].
  - destruct rq; try discriminate. cbn [handle fst snd]. apply IH.
  - rewrite run_cons. cbn [fst snd map]. destruct (IH (fst (handle s rq))) as [H1 H2]. rewrite H1, H2. split; reflexivity.
Qed.
