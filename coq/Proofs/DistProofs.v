(* DistProofs.v — the Euclidean distance is never NaN and never negative, is exactly 0 from a vector
   to itself; the cosine distance (after the clamp) lies in [0, 1] relative to the contract of acos. *)
From Coq Require Import Floats ZArith Reals Lia Lra Psatz Bool List.
From Flocq Require Import Core BinarySingleNaN PrimFloat.
From Syz Require Import Quant Dist QuantMono.
Import ListNotations.
Local Open Scope R_scope.

#[local] Existing Instance Hprec.
#[local] Existing Instance Hmax.

(* non-NaN with a clear sign bit: +0, a positive finite number or +infinity *)
Definition nn (b : B) : Prop := is_nan b = false /\ Bsign b = false.

Lemma fin_not_nan (b : B) : is_finite b = true -> is_nan b = false.
Proof. now destruct b. Qed.

Lemma overflow_pos_nn (b : B) : B2SF b = binary_overflow prec emax mode_NE false -> nn b.
Proof. destruct b as [s|s| |s m e H]; cbn; intros E; inversion E; subst; split; reflexivity. Qed.

Lemma overflow_not_nan (b : B) s : B2SF b = binary_overflow prec emax mode_NE s -> is_nan b = false.
Proof. destruct b as [s'|s'| |s' m e H]; cbn; intros E; try reflexivity; discriminate. Qed.

Lemma sign_false_R (b : B) : Bsign b = false -> 0 <= B2R b.
Proof.
  destruct b as [s|s| |s m e H]; cbn; intros E; try lra. subst s.
  apply F2R_ge_0. cbn. lia.
Qed.

Lemma sq_nn (d : B) : is_nan d = false -> nn (Bmult mode_NE d d).
Proof.
  intros Hn. destruct d as [s|s| |s m e H]; try discriminate.
  - cbn. destruct s; split; reflexivity.
  - cbn. destruct s; split; reflexivity.
  - pose proof (Bmult_correct prec emax Hprec Hmax mode_NE (B754_finite s m e H) (B754_finite s m e H)) as C.
    destruct (Rlt_bool _ _).
    + destruct C as (_ & Hf & Hs). cbn [is_finite andb] in Hf.
      pose proof (fin_not_nan _ Hf) as Hnn. split; [exact Hnn|]. rewrite (Hs Hnn). cbn. now destruct s.
    + cbn [Bsign] in C. rewrite xorb_nilpotent in C. now apply overflow_pos_nn.
Qed.

Lemma plus_nn (a b : B) : nn a -> nn b -> nn (Bplus mode_NE a b).
Proof.
  intros [Na Sa] [Nb Sb].
  destruct (is_finite a) eqn:Fa; destruct (is_finite b) eqn:Fb.
  - pose proof (Bplus_correct prec emax Hprec Hmax mode_NE a b Fa Fb) as C.
    destruct (Rlt_bool _ _).
    + destruct C as (_ & Hf & Hs). split; [now apply fin_not_nan|]. rewrite Hs.
      pose proof (sign_false_R a Sa). pose proof (sign_false_R b Sb).
      destruct (Rcompare_spec (B2R a + B2R b) 0); [lra| |reflexivity].
      now rewrite Sa, Sb.
    + destruct C as [C _]. rewrite Sa in C. now apply overflow_pos_nn.
  - destruct a as [sa|sa| |sa ma ea Ha], b as [sb|sb| |sb mb eb Hb]; try discriminate; cbn in *; subst; split; reflexivity.
  - destruct a as [sa|sa| |sa ma ea Ha], b as [sb|sb| |sb mb eb Hb]; try discriminate; cbn in *; subst; split; reflexivity.
  - destruct a as [sa|sa| |sa ma ea Ha], b as [sb|sb| |sb mb eb Hb]; try discriminate; cbn in *; subst; split; reflexivity.
Qed.

Lemma minus_not_nan (x y : B) : is_finite x = true -> is_finite y = true -> is_nan (Bminus mode_NE x y) = false.
Proof.
  intros Fx Fy. pose proof (Bminus_correct prec emax Hprec Hmax mode_NE x y Fx Fy) as C.
  destruct (Rlt_bool _ _).
  - destruct C as (_ & Hf & _). now apply fin_not_nan.
  - destruct C as [C _]. now apply overflow_not_nan in C.
Qed.

Lemma sqrt_nn (a : B) : nn a -> nn (Bsqrt mode_NE a).
Proof.
  intros [Na Sa]. destruct a as [s|s| |s m e H]; try discriminate; cbn in Sa; subst.
  - cbn. split; reflexivity.
  - cbn. split; reflexivity.
  - destruct (Bsqrt_correct prec emax Hprec Hmax mode_NE (B754_finite false m e H)) as (_ & Hf & Hs).
    pose proof (fin_not_nan _ Hf) as Hn. split; [exact Hn|]. now rewrite (Hs Hn).
Qed.

Definition finite_f (x : PrimFloat.float) : Prop := is_finite (Prim2B x) = true.

Lemma zero_nn : nn (Prim2B 0%float).
Proof.
  assert (E : Prim2B 0%float = B754_zero false).
  { apply B2Prim_inj. rewrite B2Prim_Prim2B. symmetry. exact zero_equiv. }
  rewrite E. split; reflexivity.
Qed.

Lemma euclid_acc_nn : forall a b s, Forall finite_f a -> Forall finite_f b -> nn (Prim2B s) ->
  nn (Prim2B (euclid_acc a b s)).
Proof.
  induction a as [|x a IH]; intros b s Ha Hb Hs; [exact Hs|].
  destruct b as [|y b]; [exact Hs|]. cbn [euclid_acc].
  inversion Ha as [|? ? Fx Ha']; subst. inversion Hb as [|? ? Fy Hb']; subst.
  apply IH; try assumption.
  rewrite add_equiv, mul_equiv, sub_equiv. apply plus_nn; [exact Hs|].
  apply sq_nn. now apply minus_not_nan.
Qed.

(* the Euclidean distance of finite vectors is never NaN and never negative, whatever the
   magnitudes (on overflow it is +infinity) *)
Theorem euclid_total a b : Forall finite_f a -> Forall finite_f b ->
  PrimFloat.is_nan (euclid a b) = false /\ PrimFloat.get_sign (euclid a b) = false.
Proof.
  intros Ha Hb. unfold euclid.
  assert (H : nn (Prim2B (PrimFloat.sqrt (euclid_acc a b 0)))).
  { rewrite sqrt_equiv. apply sqrt_nn. apply euclid_acc_nn; try assumption. exact zero_nn. }
  destruct H as [H1 H2]. split; [now rewrite is_nan_equiv|now rewrite get_sign_equiv].
Qed.

(* ---------- distance of a vector to itself ---------- *)

Lemma finite_zero_R (b : B) : is_finite b = true -> B2R b = 0 -> b = B754_zero (Bsign b).
Proof.
  destruct b as [s|s| |s m e H]; cbn; intros F E; try discriminate; try reflexivity.
  exfalso. apply eq_0_F2R in E. cbn in E. destruct s; discriminate.
Qed.

Lemma minus_self (x : B) : is_finite x = true -> Bminus mode_NE x x = B754_zero false.
Proof.
  intros Fx. pose proof (Bminus_correct prec emax Hprec Hmax mode_NE x x Fx Fx) as C.
  replace (B2R x - B2R x) with 0 in C by lra.
  rewrite round_0 in C by auto with typeclass_instances.
  rewrite Rabs_R0 in C. rewrite Rlt_bool_true in C by apply bpow_gt_0.
  destruct C as (Hr & Hf & Hs). rewrite Rcompare_Eq in Hs by reflexivity.
  rewrite (finite_zero_R _ Hf Hr). rewrite Hs. now destruct (Bsign x).
Qed.

Lemma euclid_acc_self : forall a, Forall finite_f a -> Prim2B (euclid_acc a a 0%float) = B754_zero false.
Proof.
  assert (Z0 : Prim2B 0%float = B754_zero false).
  { apply B2Prim_inj. rewrite B2Prim_Prim2B. symmetry. exact zero_equiv. }
  assert (G : forall a s, Forall finite_f a -> Prim2B s = B754_zero false -> Prim2B (euclid_acc a a s) = B754_zero false).
  { induction a as [|x a IH]; intros s Ha Hs; [exact Hs|]. cbn [euclid_acc].
    inversion Ha as [|? ? Fx Ha']; subst. apply IH; [exact Ha'|].
    rewrite add_equiv, mul_equiv, sub_equiv, Hs. rewrite (minus_self _ Fx). reflexivity. }
  intros a Ha. now apply G.
Qed.

(* exactly zero, for every finite vector *)
Theorem euclid_self a : Forall finite_f a -> euclid a a = 0%float.
Proof.
  intros Ha. unfold euclid. apply Prim2B_inj. rewrite sqrt_equiv, (euclid_acc_self a Ha).
  assert (Z0 : Prim2B 0%float = B754_zero false).
  { apply B2Prim_inj. rewrite B2Prim_Prim2B. symmetry. exact zero_equiv. }
  rewrite Z0. reflexivity.
Qed.

(* ---------- the cosine distance ---------- *)

(* after the clamp the argument of acos is in [-1, 1] (unless the cosine itself is NaN) *)
Theorem clamp_unit_range c : PrimFloat.is_nan c = false ->
  PrimFloat.is_nan (clamp_unit c) = false
  /\ PrimFloat.ltb (clamp_unit c) (-1)%float = false /\ PrimFloat.ltb 1%float (clamp_unit c) = false.
Proof.
  intros Hn. unfold clamp_unit.
  destruct (PrimFloat.ltb 1%float c) eqn:E1; [repeat split; reflexivity|].
  destruct (PrimFloat.ltb c (-1)%float) eqn:E2; [repeat split; reflexivity|].
  repeat split; assumption.
Qed.

Lemma pi_R : is_finite (Prim2B Pi) = true /\ 3 <= B2R (Prim2B Pi) <= 4.
Proof.
  destruct (prim_const Pi false 7074237752028440 (-51) eq_refl) as [H1 H2]. split; [exact H2|].
  rewrite H1. unfold F2R. simpl. lra.
Qed.

Lemma zero_R : B2R (Prim2B 0%float) = 0 /\ is_finite (Prim2B 0%float) = true.
Proof.
  assert (E : Prim2B 0%float = B754_zero false).
  { apply B2Prim_inj. rewrite B2Prim_Prim2B. symmetry. exact zero_equiv. }
  rewrite E. split; reflexivity.
Qed.

Lemma leb_true_R x y : is_finite (Prim2B x) = true -> is_finite (Prim2B y) = true ->
  B2R (Prim2B x) <= B2R (Prim2B y) -> PrimFloat.leb x y = true.
Proof.
  intros Fx Fy H. rewrite leb_equiv, Bleb_correct by assumption. now apply Rle_bool_true.
Qed.

(* a non-NaN float between 0 and Pi is finite *)
Lemma between_finite v : PrimFloat.is_nan v = false -> PrimFloat.leb 0%float v = true -> PrimFloat.leb v Pi = true ->
  is_finite (Prim2B v) = true /\ 0 <= B2R (Prim2B v) <= B2R (Prim2B Pi).
Proof.
  intros Hn H0 Hp. rewrite is_nan_equiv in Hn. rewrite leb_equiv in H0, Hp.
  destruct zero_R as [Rz Fz]. destruct pi_R as [Fp _].
  destruct (Prim2B v) as [s|s| |s m e H] eqn:Ev; try discriminate.
  - split; [reflexivity|]. change (B2R (B754_zero s)) with 0. destruct pi_R as [_ Hpi]. lra.
  - exfalso. destruct s.
    + unfold Bleb in H0. rewrite B2SF_Prim2B in H0. cbn in H0. discriminate.
    + unfold Bleb in Hp. rewrite B2SF_Prim2B in Hp. cbn in Hp. discriminate.
  - split; [reflexivity|].
    rewrite Bleb_correct in H0 by (try exact Fz; reflexivity).
    rewrite Bleb_correct in Hp by (try exact Fp; reflexivity).
    rewrite Rz in H0.
    match type of H0 with Rle_bool ?a ?b = true => destruct (Rle_bool_spec a b) as [A|A]; [|discriminate] end.
    match type of Hp with Rle_bool ?a ?b = true => destruct (Rle_bool_spec a b) as [B'|B']; [|discriminate] end.
    lra.
Qed.

Section Angular.
Variable acosf : PrimFloat.float -> PrimFloat.float.
(* what the property assumes of math.Acos on [-1, 1]; tested on the implementation, not proved *)
Hypothesis acos_contract : forall c,
  PrimFloat.is_nan c = false -> PrimFloat.ltb c (-1)%float = false -> PrimFloat.ltb 1%float c = false ->
  PrimFloat.is_nan (acosf c) = false /\ PrimFloat.leb 0%float (acosf c) = true /\ PrimFloat.leb (acosf c) Pi = true.

Lemma div_pi_range v : is_finite (Prim2B v) = true -> 0 <= B2R (Prim2B v) <= B2R (Prim2B Pi) ->
  is_finite (Prim2B (v / Pi)%float) = true /\ 0 <= B2R (Prim2B (v / Pi)%float) <= 1.
Proof.
  intros Fv Rv. destruct pi_R as [Fp Rp]. rewrite div_equiv.
  assert (Hp0 : B2R (Prim2B Pi) <> 0) by lra.
  pose proof (Bdiv_correct prec emax Hprec Hmax mode_NE (Prim2B v) (Prim2B Pi) Hp0) as C.
  assert (Hq : 0 <= B2R (Prim2B v) / B2R (Prim2B Pi) <= 1).
  { split; [apply Rmult_le_pos; [lra|]; apply Rlt_le, Rinv_0_lt_compat; lra|].
    apply Rmult_le_reg_r with (B2R (Prim2B Pi)); [lra|]. unfold Rdiv. rewrite Rmult_assoc, Rinv_l by lra. lra. }
  assert (Hr : 0 <= RN (B2R (Prim2B v) / B2R (Prim2B Pi)) <= 1).
  { split; [apply RN_nonneg; lra|].
    replace 1 with (RN 1); [apply RN_le; lra|].
    apply round_generic; [auto with typeclass_instances|].
    replace 1 with (bpow radix2 0) by reflexivity. apply generic_format_bpow. unfold fexp, FLT_exp, emin, emax, prec. lia. }
  rewrite Rlt_bool_true in C.
  - destruct C as (H1 & H2 & _). rewrite H2, Fv. split; [reflexivity|]. rewrite H1. exact Hr.
  - apply Rle_lt_trans with 1; [rewrite Rabs_pos_eq; lra|]. apply (bpow_lt radix2 0 emax). unfold emax. lia.
Qed.

(* cosine distance: a number in [0, 1], never NaN, whenever the cosine itself is a number *)
Theorem angular_range a b : PrimFloat.is_nan (cosine_of a b) = false ->
  let r := angular_with acosf a b in
  PrimFloat.is_nan r = false /\ PrimFloat.leb 0%float r = true /\ PrimFloat.leb r 1%float = true.
Proof.
  intros Hc. cbn zeta. unfold angular_with, cosine_of in *.
  destruct (ang_acc a b 0 0 0) as [[d m1] m2].
  destruct (orb (PrimFloat.eqb m1 0) (PrimFloat.eqb m2 0)); [repeat split; reflexivity|].
  destruct (clamp_unit_range _ Hc) as (N1 & L1 & U1).
  destruct (acos_contract _ N1 L1 U1) as (N2 & L2 & U2).
  destruct (between_finite _ N2 L2 U2) as (Fv & Rv).
  destruct (div_pi_range _ Fv Rv) as (Fq & Rq).
  destruct zero_R as [Rz Fz]. destruct one_R as [Ro Fo].
  repeat split.
  - rewrite is_nan_equiv. now apply fin_not_nan.
  - apply leb_true_R; try assumption. rewrite Rz. lra.
  - apply leb_true_R; try assumption. rewrite Ro. lra.
Qed.
End Angular.
