(* ListingProofs.v — the listing loop of Search returns exactly a slice of the filtered listing. *)
From Coq Require Import Lia Arith PeanoNat.
From Syz Require Import Coll.
Open Scope N_scope.

Definition accepts (flt : filter_fn) (d : N * bytes) : bool := flt (fst d) (snd d).

(* "limit 0 means to the end" *)
Definition take_lim {A} (lim : N) (l : list A) : list A :=
  if lim =? 0 then l else firstn (N.to_nat lim) l.

Definition slice {A} (off lim : N) (l : list A) : list A := take_lim lim (skipn (N.to_nat off) l).

Lemma collect_phase : forall docs flt off lim count acc_rev,
  off <= count ->
  (lim = 0 \/ N.of_nat (length acc_rev) < lim) ->
  listing_loop docs flt off lim count acc_rev =
  rev acc_rev ++ (if lim =? 0 then filter (accepts flt) docs
                  else firstn (N.to_nat lim - length acc_rev) (filter (accepts flt) docs)).
Proof.
  induction docs as [|[id md] docs IH]; intros flt off lim count acc_rev Hc Hl.
  - cbn [listing_loop filter]. destruct (lim =? 0); [now rewrite app_nil_r|].
    rewrite firstn_nil. now rewrite app_nil_r.
  - cbn [listing_loop filter]. change (accepts flt (id, md)) with (flt id md).
    destruct (flt id md) eqn:Ef; cbn [negb].
    + assert (Hs : ((0 <? off) && (count + 1 <=? off)) = false).
      { destruct (N.leb_spec (count + 1) off); [lia|]. apply andb_false_r. }
      rewrite Hs.
      destruct (N.eqb_spec lim 0) as [->|Hne].
      * cbn [N.ltb N.compare andb]. rewrite IH by (auto; lia).
        rewrite N.eqb_refl. cbn [rev length]. rewrite <- app_assoc. reflexivity.
      * destruct Hl as [Hl|Hl]; [contradiction|].
        assert (H0 : (0 <? lim) = true) by (apply N.ltb_lt; lia). rewrite H0. cbn [andb].
        cbn [length].
        destruct (N.leb_spec lim (N.of_nat (S (length acc_rev)))) as [Hfull|Hmore].
        -- (* limit reached with this document *)
           assert (Hk : (N.to_nat lim - length acc_rev = 1)%nat) by lia.
           rewrite Hk. cbn [firstn rev]. reflexivity.
        -- rewrite IH; [|lia|right; cbn [length]; lia].
           destruct (N.eqb_spec lim 0); [contradiction|].
           cbn [rev length]. rewrite <- app_assoc. cbn [app].
           assert (Hk : (N.to_nat lim - length acc_rev = S (N.to_nat lim - S (length acc_rev)))%nat) by lia.
           rewrite Hk. reflexivity.
    + apply IH; assumption.
Qed.

Lemma skip_phase : forall docs flt off lim count,
  count <= off ->
  listing_loop docs flt off lim count [] =
  take_lim lim (skipn (N.to_nat (off - count)) (filter (accepts flt) docs)).
Proof.
  induction docs as [|[id md] docs IH]; intros flt off lim count Hc.
  - cbn [listing_loop filter]. rewrite skipn_nil. unfold take_lim.
    destruct (lim =? 0); [reflexivity|now rewrite firstn_nil].
  - destruct (N.eq_dec count off) as [->|Hlt].
    + rewrite collect_phase; [|lia|].
      * replace (N.to_nat (off - off)) with 0%nat by lia. cbn [skipn rev app length].
        unfold take_lim. rewrite Nat.sub_0_r. reflexivity.
      * destruct (N.eq_dec lim 0); [left; assumption|right; cbn [length]; lia].
    + cbn [listing_loop filter]. change (accepts flt (id, md)) with (flt id md).
      destruct (flt id md) eqn:Ef; cbn [negb].
      * assert (Hs : ((0 <? off) && (count + 1 <=? off)) = true).
        { apply andb_true_intro; split; [apply N.ltb_lt|apply N.leb_le]; lia. }
        rewrite Hs. rewrite IH by lia.
        replace (N.to_nat (off - count)) with (S (N.to_nat (off - (count + 1)))) by lia.
        reflexivity.
      * apply IH; assumption.
Qed.

Theorem listing_loop_slice : forall docs flt off lim,
  listing_loop docs flt off lim 0 [] = slice off lim (filter (accepts flt) docs).
Proof.
  intros. rewrite skip_phase by lia. unfold slice. now rewrite N.sub_0_r.
Qed.

Corollary listing_loop_full : forall docs flt,
  listing_loop docs flt 0 0 0 [] = filter (accepts flt) docs.
Proof. intros. rewrite listing_loop_slice. reflexivity. Qed.

Lemma skipn_skipn' {A} : forall (y x : nat) (l : list A), skipn x (skipn y l) = skipn (x + y) l.
Proof.
  induction y as [|y IH]; intros x l.
  - now rewrite Nat.add_0_r.
  - rewrite Nat.add_succ_r. destruct l as [|a l]; [now rewrite !skipn_nil|]. cbn [skipn]. apply IH.
Qed.

(* pages of a fixed size tile the listing *)
Lemma slice_tiling {A} : forall (l : list A) off lim, 0 < lim ->
  slice off lim l ++ slice (off + lim) 0 l = slice off 0 l.
Proof.
  intros l off lim Hl. unfold slice, take_lim.
  destruct (N.eqb_spec lim 0); [lia|]. cbn [N.eqb].
  replace (N.to_nat (off + lim)) with (N.to_nat lim + N.to_nat off)%nat by lia.
  rewrite <- skipn_skipn'. apply firstn_skipn.
Qed.

(* an offset at or beyond the end gives an empty page, whatever the limit *)
Lemma slice_beyond {A} : forall (l : list A) off lim, (length l <= N.to_nat off)%nat -> slice off lim l = [].
Proof.
  intros l off lim H. unfold slice, take_lim. rewrite skipn_all2 by exact H.
  destruct (lim =? 0); [reflexivity|apply firstn_nil].
Qed.

(* a limit at least as large as what is left returns all that is left *)
Lemma slice_large {A} : forall (l : list A) off lim, (length l <= N.to_nat off + N.to_nat lim)%nat ->
  slice off lim l = slice off 0 l.
Proof.
  intros l off lim H. unfold slice, take_lim. cbn [N.eqb].
  destruct (lim =? 0); [reflexivity|]. apply firstn_all2. rewrite skipn_length. lia.
Qed.

Lemma pages_prefix {A} : forall (l : list A) lim, 0 < lim -> forall n off,
  concat (map (fun i => slice (off + N.of_nat i * lim) lim l) (seq 0 n)) ++ slice (off + N.of_nat n * lim) 0 l
  = slice off 0 l.
Proof.
  intros l lim Hl. induction n as [|n IH]; intros off.
  - cbn [seq map concat app]. f_equal. lia.
  - rewrite seq_S, map_app, concat_app. cbn [map concat plus]. rewrite app_nil_r, <- app_assoc.
    replace (off + N.of_nat (S n) * lim) with (off + N.of_nat n * lim + lim) by lia.
    rewrite slice_tiling by exact Hl. apply IH.
Qed.

(* reading the listing page by page with a fixed positive limit returns every matching document exactly once, in order:
   the concatenation of the first n pages is the whole listing as soon as n pages reach its end *)
Theorem pages_cover {A} : forall (l : list A) lim n, 0 < lim -> (length l <= n * N.to_nat lim)%nat ->
  concat (map (fun i => slice (N.of_nat i * lim) lim l) (seq 0 n)) = l.
Proof.
  intros l lim n Hl Hn. pose proof (pages_prefix l lim Hl n 0) as H.
  rewrite (slice_beyond l (0 + N.of_nat n * lim) 0) in H by lia. rewrite app_nil_r in H.
  rewrite <- (map_ext (fun i => slice (0 + N.of_nat i * lim) lim l)) by (intros; f_equal; lia).
  rewrite H. reflexivity.
Qed.

Theorem listing_order : forall s flt docs,
  sorted_docs s = Ok docs ->
  listing s flt 0 0 = Ok (filter (accepts flt) docs).
Proof.
  intros s flt docs H. unfold listing. rewrite H. cbn [bind]. now rewrite listing_loop_full.
Qed.

Theorem listing_page : forall s flt off lim full,
  listing s flt 0 0 = Ok full ->
  listing s flt off lim = Ok (slice off lim full).
Proof.
  intros s flt off lim full H. unfold listing in *.
  destruct (sorted_docs s) as [docs| |]; cbn [bind] in *; try discriminate.
  inversion H; subst. rewrite listing_loop_full. now rewrite listing_loop_slice.
Qed.

(* the same about the listing operation itself: asking for page 0, 1, 2, ... with one positive limit and concatenating
   the answers gives the full filtered listing *)
Theorem listing_pages_cover : forall s flt lim n full, listing s flt 0 0 = Ok full -> 0 < lim ->
  (length full <= n * N.to_nat lim)%nat ->
  concat (map (fun i => match listing s flt (N.of_nat i * lim) lim with Ok p => p | _ => [] end) (seq 0 n)) = full.
Proof.
  intros s flt lim n full Hf Hl Hn.
  rewrite (map_ext _ (fun i => slice (N.of_nat i * lim) lim full)).
  - apply pages_cover; assumption.
  - intros i. rewrite (listing_page s flt (N.of_nat i * lim) lim full Hf). reflexivity.
Qed.
