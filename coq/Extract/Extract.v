(* Extraction of the integer/byte models to OCaml.
   Directives used: those of ExtrOcamlBasic only (bool, option, unit, list, prod, sumbool -> OCaml;
   no numeric extraction: N/positive stay Coq's binary numbers). *)
From Coq Require Import Extraction ExtrOcamlBasic.
From Syz Require Import Wire.
Extraction Language OCaml.
Extraction "oracle_model.ml" oracle_main4.
