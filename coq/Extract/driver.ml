(* glue: stdin bytes -> list N -> Oracle_model.oracle_main4 -> list N -> stdout bytes.
   N/positive stay Coq's binary numbers; only byte values (< 256) cross this boundary. *)
open Oracle_model

let rec pos_of_int (i : int) : positive =
  if i = 1 then XH else if i land 1 = 0 then XO (pos_of_int (i lsr 1)) else XI (pos_of_int (i lsr 1))
let n_of_int (i : int) : n = if i = 0 then N0 else Npos (pos_of_int i)
let rec int_of_pos (p : positive) : int =
  match p with XH -> 1 | XO q -> 2 * int_of_pos q | XI q -> 2 * int_of_pos q + 1
let int_of_n (x : n) : int = match x with N0 -> 0 | Npos p -> int_of_pos p

let () =
  let buf = Buffer.create 65536 in
  let chunk = Bytes.create 65536 in
  let rec slurp () =
    let k = input stdin chunk 0 65536 in
    if k > 0 then (Buffer.add_string buf (Bytes.sub_string chunk 0 k); slurp ()) in
  slurp ();
  let s = Buffer.contents buf in
  let l = ref [] in
  for i = String.length s - 1 downto 0 do l := n_of_int (Char.code s.[i]) :: !l done;
  let out = oracle_main4 !l in
  let ob = Buffer.create 65536 in
  List.iter (fun x -> Buffer.add_char ob (Char.chr (int_of_n x land 255))) out;
  print_string (Buffer.contents ob)
