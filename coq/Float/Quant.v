(* Quant.v — quantization.go on Coq's primitive binary64 floats (the code's own arithmetic).
   Executable definitions only; evaluated with vm_compute by the correspondence run. *)
From Coq Require Import ZArith Floats List.
From Syz Require F32.
Import ListNotations.
Open Scope float_scope.

(* math.Round on a finite float, from its mantissa and exponent: round half away from zero *)
Definition round_away_sf (f : SpecFloat.spec_float) : Z :=
  match f with
  | SpecFloat.S754_finite s m e =>
      let mz := Z.pos m in
      let r := (if (0 <=? e)%Z then Z.shiftl mz e
                else let d := Z.shiftl 1 (- e) in (2 * mz + d) / (2 * d))%Z in
      if s then (- r)%Z else r
  | _ => 0%Z
  end.

Definition round_away (q : float) : Z := round_away_sf (Prim2SF q).

Definition clamp (x : float) : float :=
  if x <? (-1) then (-1) else if 1 <? x then 1 else x.

Definition of_Z (z : Z) : float := PrimFloat.of_uint63 (Uint63.of_Z z).

Definition max_int (bits : Z) : Z := (2 ^ bits - 1)%Z.

(* quantize for bits in {4, 8, 16} *)
Definition scaled (maxf x : float) : float := (clamp x + 1) / 2 * maxf.
Definition quantize (bits : Z) (x : float) : Z := round_away (scaled (of_Z (max_int bits)) x).

Definition dequantize (bits : Z) (k : Z) : float := of_Z k / of_Z (max_int bits) * 2 - 1.

(* ---------- bit patterns ---------- *)

(* math.Float64bits, math.Float64frombits, math.Float32bits(float32(x)), float64(math.Float32frombits(k)):
   defined in F32.v on Flocq's IEEE 754 formalisation (conversion = binary_normalize, round to nearest even;
   bit patterns = Flocq's Bits); NaN is one canonical pattern on each width, as Go produces it *)
Definition bits64 (x : float) : Z := F32.bits64 x.
Definition of_bits64 (b : Z) : float := F32.of_bits64 b.
Definition bits32 (x : float) : Z := F32.bits32 x.
Definition of_bits32 (b : Z) : float := F32.of_bits32 b.

(* the stored code of one component, and the value read back *)
Definition store_code (bits : Z) (x : float) : Z :=
  if (bits =? 64)%Z then bits64 x
  else if (bits =? 32)%Z then bits32 x
  else quantize bits x.

Definition load_code (bits : Z) (k : Z) : float :=
  if (bits =? 64)%Z then of_bits64 k
  else if (bits =? 32)%Z then of_bits32 k
  else dequantize bits k.

(* ---------- encodeDocument / decodeVector on codes ---------- *)

Fixpoint be_bytes (n : nat) (k : Z) : list Z :=
  match n with
  | O => []
  | S m => ((k / 256 ^ Z.of_nat m) mod 256)%Z :: be_bytes m k
  end.

Fixpoint pack4 (codes : list Z) : list Z :=
  match codes with
  | [] => []
  | [a] => [((a * 16) mod 256)%Z]
  | a :: b :: r => (((a * 16) mod 256) + (b mod 16))%Z :: pack4 r
  end.

Definition encode_codes (bits : Z) (codes : list Z) : list Z :=
  if (bits =? 4)%Z then pack4 codes
  else flat_map (be_bytes (Z.to_nat (bits / 8))) codes.

Fixpoint be_value (l : list Z) (acc : Z) : Z :=
  match l with [] => acc | b :: r => be_value r (acc * 256 + b)%Z end.

Fixpoint unpack4 (n : nat) (bytes : list Z) : list Z :=
  match n, bytes with
  | O, _ => []
  | S O, b :: _ => [(b / 16)%Z]
  | S (S m), b :: r => (b / 16)%Z :: (b mod 16)%Z :: unpack4 m r
  | _, [] => []
  end.

Fixpoint chunks (n : nat) (k : nat) (bytes : list Z) : list Z :=
  match n with
  | O => []
  | S m => be_value (firstn k bytes) 0 :: chunks m k (skipn k bytes)
  end.

Definition decode_codes (bits : Z) (dim : nat) (bytes : list Z) : list Z :=
  if (bits =? 4)%Z then unpack4 dim bytes
  else chunks dim (Z.to_nat (bits / 8)) bytes.
