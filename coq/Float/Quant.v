(* Quant.v — quantization.go on Coq's primitive binary64 floats (the code's own arithmetic).
   Executable definitions only; evaluated with vm_compute by the correspondence run. *)
From Coq Require Import ZArith Floats List.
Import ListNotations.
Open Scope float_scope.

(* math.Round on a finite float, from its mantissa and exponent: round half away from zero *)
Definition round_away_sf (f : SpecFloat.spec_float) : Z :=
  match f with
  | SpecFloat.S754_finite s m e =>
      let mz := Z.pos m in
      let r := (if (0 <=? e)%Z then Z.shiftl mz e
                else let d := Z.shiftl 1 (- e) in (2 * mz + d) / (2 * d))%Z in
      if s then (- r)%Z else r
  | _ => 0%Z
  end.

Definition round_away (q : float) : Z := round_away_sf (Prim2SF q).

Definition clamp (x : float) : float :=
  if x <? (-1) then (-1) else if 1 <? x then 1 else x.

Definition of_Z (z : Z) : float := PrimFloat.of_uint63 (Uint63.of_Z z).

Definition max_int (bits : Z) : Z := (2 ^ bits - 1)%Z.

(* quantize for bits in {4, 8, 16} *)
Definition scaled (maxf x : float) : float := (clamp x + 1) / 2 * maxf.
Definition quantize (bits : Z) (x : float) : Z := round_away (scaled (of_Z (max_int bits)) x).

Definition dequantize (bits : Z) (k : Z) : float := of_Z k / of_Z (max_int bits) * 2 - 1.

(* ---------- bit patterns ---------- *)

(* math.Float64bits *)
Definition bits64 (x : float) : Z :=
  match Prim2SF x with
  | SpecFloat.S754_zero s => if s then 9223372036854775808%Z else 0%Z
  | SpecFloat.S754_infinity s => ((if s then 9223372036854775808 else 0) + 9218868437227405312)%Z
  | SpecFloat.S754_nan => 9221120237041090561%Z
  | SpecFloat.S754_finite s m e =>
      let sg := (if s then 9223372036854775808 else 0)%Z in
      if (Z.pos m <? 4503599627370496)%Z then (sg + Z.pos m)%Z       (* subnormal: e = -1074 *)
      else (sg + (e + 1075) * 4503599627370496 + (Z.pos m - 4503599627370496))%Z
  end.

(* math.Float64frombits for a non-NaN pattern *)
Definition of_bits64 (b : Z) : float :=
  let s := (9223372036854775808 <=? b)%Z in
  let r := (b mod 9223372036854775808)%Z in
  let ex := (r / 4503599627370496)%Z in
  let mn := (r mod 4503599627370496)%Z in
  let mag :=
      if (ex =? 2047)%Z then (if (mn =? 0)%Z then infinity else nan)
      else if (ex =? 0)%Z then
        (if (mn =? 0)%Z then 0 else SF2Prim (SpecFloat.S754_finite false (Z.to_pos mn) (-1074)))
      else SF2Prim (SpecFloat.S754_finite false (Z.to_pos (mn + 4503599627370496)) (ex - 1075)) in
  if s then - mag else mag.

(* float32(x) as bits (math.Float32bits(float32(x))): round to nearest even on 24 bits *)
Definition bits32 (x : float) : Z :=
  match Prim2SF x with
  | SpecFloat.S754_zero s => if s then 2147483648%Z else 0%Z
  | SpecFloat.S754_infinity s => ((if s then 2147483648 else 0) + 2139095040)%Z
  | SpecFloat.S754_nan => 2143289344%Z
  | SpecFloat.S754_finite s m e =>
      let sg := (if s then 2147483648 else 0)%Z in
      let mz := Z.pos m in
      (* value = mz * 2^e, mz has 53 bits when normal (e >= -1074) *)
      let nb := (Z.log2 mz + 1)%Z in                 (* number of bits of mz *)
      let top := (nb + e)%Z in                   (* value in [2^(top-1), 2^top) *)
      (* target exponent of the float32 ulp: max(top - 24, -149) *)
      let ue := Z.max (top - 24) (-149) in
      let sh := (ue - e)%Z in                    (* bits to drop (>= 0 for 53-bit mantissas) *)
      let q := if (sh <=? 0)%Z then Z.shiftl mz (- sh)
               else
                 let d := Z.shiftl 1 sh in
                 let fl := (mz / d)%Z in
                 let rem := (mz mod d)%Z in
                 let half := Z.shiftl 1 (sh - 1) in
                 if (rem <? half)%Z then fl
                 else if (half <? rem)%Z then (fl + 1)%Z
                 else (if Z.even fl then fl else fl + 1)%Z in
      (* q * 2^ue, q <= 2^24 *)
      if (q =? 0)%Z then sg
      else
        let q2 := if (q =? 16777216)%Z then 8388608%Z else q in
        let ue2 := if (q =? 16777216)%Z then (ue + 1)%Z else ue in
        if (q2 <? 8388608)%Z then (sg + q2)%Z        (* subnormal float32 (ue = -149) *)
        else
          let bexp := (ue2 + 150)%Z in               (* biased exponent: ue2 = exp - 23 - 127 *)
          if (255 <=? bexp)%Z then (sg + 2139095040)%Z
          else (sg + bexp * 8388608 + (q2 - 8388608))%Z
  end.

(* float64(math.Float32frombits(b)) for a non-NaN pattern *)
Definition of_bits32 (b : Z) : float :=
  let s := (2147483648 <=? b)%Z in
  let r := (b mod 2147483648)%Z in
  let ex := (r / 8388608)%Z in
  let mn := (r mod 8388608)%Z in
  let mag :=
      if (ex =? 255)%Z then (if (mn =? 0)%Z then infinity else nan)
      else if (ex =? 0)%Z then
        (if (mn =? 0)%Z then 0 else SF2Prim (SpecFloat.S754_finite false (Z.to_pos mn) (-149)))
      else SF2Prim (SpecFloat.S754_finite false (Z.to_pos (mn + 8388608)) (ex - 150)) in
  if s then - mag else mag.

(* the stored code of one component, and the value read back *)
Definition store_code (bits : Z) (x : float) : Z :=
  if (bits =? 64)%Z then bits64 x
  else if (bits =? 32)%Z then bits32 x
  else quantize bits x.

Definition load_code (bits : Z) (k : Z) : float :=
  if (bits =? 64)%Z then of_bits64 k
  else if (bits =? 32)%Z then of_bits32 k
  else dequantize bits k.

(* ---------- encodeDocument / decodeVector on codes ---------- *)

Fixpoint be_bytes (n : nat) (k : Z) : list Z :=
  match n with
  | O => []
  | S m => ((k / 256 ^ Z.of_nat m) mod 256)%Z :: be_bytes m k
  end.

Fixpoint pack4 (codes : list Z) : list Z :=
  match codes with
  | [] => []
  | [a] => [((a * 16) mod 256)%Z]
  | a :: b :: r => (((a * 16) mod 256) + (b mod 16))%Z :: pack4 r
  end.

Definition encode_codes (bits : Z) (codes : list Z) : list Z :=
  if (bits =? 4)%Z then pack4 codes
  else flat_map (be_bytes (Z.to_nat (bits / 8))) codes.

Fixpoint be_value (l : list Z) (acc : Z) : Z :=
  match l with [] => acc | b :: r => be_value r (acc * 256 + b)%Z end.

Fixpoint unpack4 (n : nat) (bytes : list Z) : list Z :=
  match n, bytes with
  | O, _ => []
  | S O, b :: _ => [(b / 16)%Z]
  | S (S m), b :: r => (b / 16)%Z :: (b mod 16)%Z :: unpack4 m r
  | _, [] => []
  end.

Fixpoint chunks (n : nat) (k : nat) (bytes : list Z) : list Z :=
  match n with
  | O => []
  | S m => be_value (firstn k bytes) 0 :: chunks m k (skipn k bytes)
  end.

Definition decode_codes (bits : Z) (dim : nat) (bytes : list Z) : list Z :=
  if (bits =? 4)%Z then unpack4 dim bytes
  else chunks dim (Z.to_nat (bits / 8)) bytes.
