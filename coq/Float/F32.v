(* F32.v — bit patterns of binary64 and binary32 values and the conversions float32(x) / float64(y), on Flocq's
   formalisation of IEEE 754 (math.Float64bits / Float64frombits / Float32bits(float32(x)) / float64(Float32frombits(k))).
   Executable definitions only; Quant.v uses them qualified (Flocq's Core redefines the name "float"). *)
From Coq Require Import ZArith Reals Floats List Lia Lra.
From Flocq Require Import Core.Core IEEE754.BinarySingleNaN IEEE754.Binary IEEE754.Bits IEEE754.PrimFloat.
Import ListNotations.
Open Scope Z_scope.

Notation bf32 := (BinarySingleNaN.binary_float 24 128).
Notation bf64 := (BinarySingleNaN.binary_float 53 1024).

(* float32(x): the binary64 value rounded into binary32, round to nearest even *)
Definition to32 (x : bf64) : bf32 :=
  match x with
  | BinarySingleNaN.B754_zero s => BinarySingleNaN.B754_zero s
  | BinarySingleNaN.B754_infinity s => BinarySingleNaN.B754_infinity s
  | BinarySingleNaN.B754_nan => BinarySingleNaN.B754_nan
  | BinarySingleNaN.B754_finite s m e _ =>
      BinarySingleNaN.binary_normalize 24 128 eq_refl eq_refl mode_NE (cond_Zopp s (Zpos m)) e s
  end.

(* float64(y): exact *)
Definition to64 (y : bf32) : bf64 :=
  match y with
  | BinarySingleNaN.B754_zero s => BinarySingleNaN.B754_zero s
  | BinarySingleNaN.B754_infinity s => BinarySingleNaN.B754_infinity s
  | BinarySingleNaN.B754_nan => BinarySingleNaN.B754_nan
  | BinarySingleNaN.B754_finite s m e _ =>
      BinarySingleNaN.binary_normalize 53 1024 eq_refl eq_refl mode_NE (cond_Zopp s (Zpos m)) e s
  end.

(* Go's NaN after a conversion: quiet bit only *)
Definition nan32 : { x : Binary.binary_float 24 128 | Binary.is_nan 24 128 x = true } :=
  exist _ (Binary.B754_nan 24 128 false 4194304 eq_refl) eq_refl.

Definition bits32 (x : PrimFloat.float) : Z :=
  bits_of_binary_float 23 8 (BSN2B 24 128 nan32 (to32 (Prim2B x))).

Definition of_bits32 (k : Z) : PrimFloat.float :=
  B2Prim (to64 (B2BSN 24 128 (binary_float_of_bits 23 8 eq_refl eq_refl eq_refl k))).



(* ---- 64 bits: the exact value *)
Definition nan64 : { x : Binary.binary_float 53 1024 | Binary.is_nan 53 1024 x = true } :=
  exist _ (Binary.B754_nan 53 1024 false 2251799813685249 eq_refl) eq_refl.

Definition bits64 (x : PrimFloat.float) : Z := bits_of_binary_float 52 11 (BSN2B 53 1024 nan64 (Prim2B x)).
Definition of_bits64 (k : Z) : PrimFloat.float := B2Prim (B2BSN 53 1024 (binary_float_of_bits 52 11 eq_refl eq_refl eq_refl k)).

