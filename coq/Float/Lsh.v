(* Lsh.v — lshtree.go: the forest of random-hyperplane trees, insertion with leaf split, removal,
   and the approximate search with its node queue (a transcription of container/heap on a list).
   Random choices of the implementation (the split plane) enter as an oracle: the tree observed
   after the operation.  Executable definitions only. *)
From Coq Require Import ZArith Floats List Bool.
From Syz Require Import Quant Dist Search.
Import ListNotations.
Open Scope Z_scope.

Inductive tree : Type :=
| Leaf (ids : list Z)
| Node (normal : list float) (b : float) (l r : tree)
| Nil.                                  (* a nil child pointer (never produced by the fixed code) *)

Definition threshold : nat := 100.

Definition vec_of (docs : list (Z * list float)) (id : Z) : option (list float) :=
  match find (fun d => fst d =? id) docs with Some (_, v) => Some v | None => None end.

Definition side (cosine : bool) (v : list float) (normal : list float) (b : float) : bool :=
  snd (dist_to_hyperplane cosine v (vector_length v) normal b).

(* split of an over-full leaf along a given plane; None when a listed id has no document (log.Panicf) *)
Fixpoint partition_ids (cosine : bool) (docs : list (Z * list float)) (normal : list float) (b : float)
         (ids : list Z) : option (list Z * list Z) :=
  match ids with
  | [] => Some ([], [])
  | id :: r =>
      match vec_of docs id, partition_ids cosine docs normal b r with
      | Some v, Some (ls, rs) => if side cosine v normal b then Some (ls, id :: rs) else Some (id :: ls, rs)
      | _, _ => None
      end
  end.

(* insert: oracle = the tree observed after the insertion (supplies the plane of a new split) *)
Fixpoint insert (cosine : bool) (docs : list (Z * list float)) (t oracle : tree) (id : Z) (v : list float)
  : option tree :=
  match t with
  | Leaf ids =>
      let ids' := ids ++ [id] in
      if Nat.ltb threshold (length ids') then
        match oracle with
        | Node n b _ _ =>
            match partition_ids cosine docs n b ids' with
            | Some (ls, rs) =>
                (match ls, rs with
                 | [], _ => Some (Leaf ids')
                 | _, [] => Some (Leaf ids')
                 | _, _ => Some (Node n b (Leaf ls) (Leaf rs))
                 end)
            | None => None
            end
        | _ => Some (Leaf ids')
        end
      else Some (Leaf ids')
  | Node n b l r =>
      let (ol, or) := match oracle with Node _ _ ol or => (ol, or) | _ => (Nil, Nil) end in
      if side cosine v n b
      then match insert cosine docs r or id v with Some r' => Some (Node n b l r') | None => None end
      else match insert cosine docs l ol id v with Some l' => Some (Node n b l' r) | None => None end
  | Nil => None                       (* nil dereference *)
  end.

Fixpoint remove_first (id : Z) (ids : list Z) : list Z :=
  match ids with
  | [] => []
  | x :: r => if x =? id then r else x :: remove_first id r
  end.

Fixpoint remove (cosine : bool) (t : tree) (id : Z) (v : list float) : option tree :=
  match t with
  | Leaf ids => Some (Leaf (remove_first id ids))
  | Node n b l r =>
      if side cosine v n b
      then match remove cosine r id v with Some r' => Some (Node n b l r') | None => None end
      else match remove cosine l id v with Some l' => Some (Node n b l' r) | None => None end
  | Nil => None
  end.

Fixpoint leaf_ids (t : tree) : list Z :=
  match t with
  | Leaf ids => ids
  | Node _ _ l r => leaf_ids l ++ leaf_ids r
  | Nil => []
  end.

(* ---------- container/heap on a list, max-heap on the priority ---------- *)

Section Heap.
Variable A : Type.
Variable prio : A -> float.
Variable dflt : A.

Definition hless (h : list A) (i j : nat) : bool :=
  PrimFloat.ltb (prio (nth j h dflt)) (prio (nth i h dflt)).      (* h[i].priority > h[j].priority *)

Fixpoint set_nth (h : list A) (i : nat) (x : A) : list A :=
  match h, i with
  | [], _ => []
  | _ :: r, O => x :: r
  | y :: r, S k => y :: set_nth r k x
  end.

Definition hswap (h : list A) (i j : nat) : list A :=
  set_nth (set_nth h i (nth j h dflt)) j (nth i h dflt).

Fixpoint hup (fuel : nat) (h : list A) (j : nat) : list A :=
  match fuel with
  | O => h
  | S f =>
      let i := Nat.div (j - 1) 2 in
      if Nat.eqb i j || Nat.eqb j 0 || negb (hless h j i) then h
      else hup f (hswap h i j) i
  end.

Fixpoint hdown (fuel : nat) (h : list A) (i n : nat) : list A :=
  match fuel with
  | O => h
  | S f =>
      let j1 := (2 * i + 1)%nat in
      if Nat.leb n j1 then h
      else
        let j2 := S j1 in
        let j := if Nat.ltb j2 n && hless h j2 j1 then j2 else j1 in
        if negb (hless h j i) then h
        else hdown f (hswap h i j) j n
  end.

Definition hpush (h : list A) (x : A) : list A :=
  let h' := h ++ [x] in hup (length h') h' (length h' - 1).

Definition hpop (h : list A) : option (A * list A) :=
  match h with
  | [] => None
  | _ =>
      let n := (length h - 1)%nat in
      let h1 := hswap h 0 n in
      let h2 := hdown (length h) h1 0 n in
      Some (nth n h2 dflt, firstn n h2)
  end.
End Heap.

Arguments hpush {A}.
Arguments hpop {A}.

(* ---------- Search, default precision ---------- *)

Inductive signal : Type := SStop | SAcc | SChk | SIgn.

Record sstate := {
  st_res : list hit;          (* result heap, ascending *)
  st_radius : float;
  st_pts : Z;
  st_kc : Z;
  st_acc : bool;
  st_visited : list Z;
  st_stop : bool }.

Definition max_float : float := 0x1.fffffffffffffp+1023%float.

(* the callback `consider` *)
Definition consider_approx (cosine : bool) (q : list float) (K : nat) (R : float)
           (docs : list sdoc) (s : sstate) (id : Z) : signal * sstate :=
  match find (fun d => sd_id d =? id) docs with
  | None => (SStop, s)
  | Some d =>
      let s1 := {| st_res := st_res s; st_radius := st_radius s; st_pts := st_pts s + 1; st_kc := st_kc s;
                   st_acc := st_acc s; st_visited := st_visited s; st_stop := st_stop s |} in
      if negb (sd_ok d) then (SIgn, s1)
      else
        let dist := distance cosine q (sd_vec d) in
        let with_res (l : list hit) (rad : float) :=
            {| st_res := l; st_radius := rad; st_pts := st_pts s1; st_kc := st_kc s1; st_acc := st_acc s1;
               st_visited := st_visited s1; st_stop := st_stop s1 |} in
        if PrimFloat.ltb 0 R then
          (if PrimFloat.leb dist R
           then (SAcc, with_res (insert_asc PrimFloat.ltb (id, dist) (st_res s1)) (st_radius s1))
           else (SChk, s1))
        else if Nat.ltb 0 K then
          let l := st_res s1 in
          let better := match rev l with worst :: _ => PrimFloat.ltb dist (snd worst) | [] => true end in
          if Nat.ltb (length l) K || better then
            let l1 := insert_asc PrimFloat.ltb (id, dist) l in
            let l2 := if Nat.ltb K (length l1) then firstn K l1 else l1 in
            let rad := match rev l2 with worst :: _ => snd worst | [] => st_radius s1 end in
            (SAcc, with_res l2 rad)
          else (SChk, s1)
        else (SChk, s1)
  end.

Fixpoint visit_ids (cosine : bool) (q : list float) (K : nat) (R : float) (docs : list sdoc)
         (ids : list Z) (s : sstate) : sstate :=
  match ids with
  | [] => s
  | id :: r =>
      if st_stop s then s
      else if existsb (fun x => x =? id) (st_visited s) then visit_ids cosine q K R docs r s
      else
        let s0 := {| st_res := st_res s; st_radius := st_radius s; st_pts := st_pts s; st_kc := st_kc s;
                     st_acc := st_acc s; st_visited := id :: st_visited s; st_stop := false |} in
        let (sig, s1) := consider_approx cosine q K R docs s0 id in
        let upd (kc : Z) (acc stop : bool) :=
            {| st_res := st_res s1; st_radius := st_radius s1; st_pts := st_pts s1; st_kc := kc;
               st_acc := acc; st_visited := st_visited s1; st_stop := stop |} in
        match sig with
        | SStop => upd (st_kc s1) (st_acc s1) true
        | SAcc => visit_ids cosine q K R docs r (upd 0 true false)
        | SChk => visit_ids cosine q K R docs r (upd (if st_acc s1 then st_kc s1 + 1 else st_kc s1) (st_acc s1) false)
        | SIgn => visit_ids cosine q K R docs r s1
        end
  end.

Definition qitem := (float * tree)%type.
Definition search_k : Z := 200.

Fixpoint search_loop (fuel : nat) (cosine : bool) (q : list float) (qlen : float) (K : nat) (R : float)
         (docs : list sdoc) (nq : list qitem) (s : sstate) : sstate :=
  match fuel with
  | O => s
  | S f =>
      match hpop fst (0%float, Nil) nq with
      | None => s
      | Some ((pr, node), nq') =>
          let is_leaf := match node with Leaf _ => true | _ => false end in
          if PrimFloat.ltb pr 0 && PrimFloat.ltb (st_radius s) (- pr)%float && is_leaf
          then search_loop f cosine q qlen K R docs nq' s
          else if search_k <=? st_kc s then s
          else
            match node with
            | Leaf ids =>
                let s' := visit_ids cosine q K R docs ids s in
                if st_stop s' then s' else search_loop f cosine q qlen K R docs nq' s'
            | Node n b l r =>
                let (d, right) := dist_to_hyperplane cosine q qlen n b in
                let nq1 := if right
                           then hpush fst (0%float, Nil) (hpush fst (0%float, Nil) nq' (d, r)) ((- d)%float, l)
                           else hpush fst (0%float, Nil) (hpush fst (0%float, Nil) nq' (d, l)) ((- d)%float, r) in
                search_loop f cosine q qlen K R docs nq1 s
            | Nil => s     (* nil dereference: the implementation would crash *)
            end
      end
  end.

Fixpoint tree_size (t : tree) : nat :=
  match t with Node _ _ l r => S (tree_size l + tree_size r) | _ => 1%nat end.

(* returns results, points searched, and the order in which ids were considered *)
Definition search_approx (cosine : bool) (q : list float) (K : nat) (R : float) (docs : list sdoc)
           (forest : list tree) : list hit * Z * list Z :=
  let s0 := {| st_res := []; st_radius := if PrimFloat.ltb 0 R then R else max_float; st_pts := 0; st_kc := 0;
               st_acc := false; st_visited := []; st_stop := false |} in
  let nq := fold_left (fun h t => hpush fst (0%float, Nil) h (0%float, t)) forest [] in
  let fuel := (2 * fold_left (fun a t => a + tree_size t)%nat forest 0%nat + 10)%nat in
  let s := search_loop fuel cosine q (vector_length q) K R docs nq s0 in
  (st_res s, st_pts s, rev (st_visited s)).

Definition percent (pts ndocs : Z) : float :=
  if ndocs =? 0 then 0%float else (of_Z pts / of_Z ndocs * 100)%float.

(* ---------- interface for the correspondence run: trees with bit patterns ---------- *)

Inductive ztree : Type :=
| ZLeaf (ids : list Z)
| ZNode (normal : list Z) (b : Z) (l r : ztree)
| ZNil.

Fixpoint of_ztree (t : ztree) : tree :=
  match t with
  | ZLeaf ids => Leaf ids
  | ZNode n b l r => Node (map of_bits64 n) (of_bits64 b) (of_ztree l) (of_ztree r)
  | ZNil => Nil
  end.

Fixpoint zlist_eqb (a b : list Z) : bool :=
  match a, b with
  | [], [] => true
  | x :: a', y :: b' => (x =? y) && zlist_eqb a' b'
  | _, _ => false
  end.

Fixpoint tree_eqb (a b : tree) : bool :=
  match a, b with
  | Leaf x, Leaf y => zlist_eqb x y
  | Node n1 b1 l1 r1, Node n2 b2 l2 r2 =>
      zlist_eqb (map bits64 n1) (map bits64 n2) && (bits64 b1 =? bits64 b2) && tree_eqb l1 l2 && tree_eqb r1 r2
  | Nil, Nil => true
  | _, _ => false
  end.

(* one index update of Collection.AddDocument / removeDocument on one tree, checked against the
   tree observed afterwards: kind 0 = insert, 1 = remove *)
Definition step_ok (cosine : bool) (docs : list (Z * list Z)) (before after : ztree) (kind id : Z) (v : list Z) : bool :=
  let dv := map (fun d => (fst d, map of_bits64 (snd d))) docs in
  let fv := map of_bits64 v in
  let t := of_ztree before in
  let o := of_ztree after in
  match (if kind =? 0 then insert cosine dv t o id fv else remove cosine t id fv) with
  | Some t' => tree_eqb t' o
  | None => false
  end.
