(* Dist.v — euclideanDistance, angularDistance (collection.go), dotProduct, vectorLength,
   distanceToHyperplane (lshtree.go) and Go's pure-Go math.Acos (src/math/asin.go, atan.go) on
   Coq's primitive binary64 floats.  Executable definitions only. *)
From Coq Require Import ZArith Floats List.
Import ListNotations.
Open Scope float_scope.

Definition Pi : float := 0x1.921fb54442d18p+1.

(* atan.go *)
Definition xatan (x : float) : float :=
  let P0 := -0x1.c007fa1f72594p-1 in
  let P1 := -0x1.028545b6b807ap+4 in
  let P2 := -0x1.2c08c36880273p+6 in
  let P3 := -0x1.eb8bf2d05ba25p+6 in
  let P4 := -0x1.03669fd28ec8ep+6 in
  let Q0 := 0x1.8dbc45b14603cp+4 in
  let Q1 := 0x1.4a0dd43b8fa25p+7 in
  let Q2 := 0x1.b0e18d2e2be3bp+8 in
  let Q3 := 0x1.e563f13b049eap+8 in
  let Q4 := 0x1.8519efbbd62ecp+7 in
  let z := x * x in
  let z := z * ((((P0 * z + P1) * z + P2) * z + P3) * z + P4) / (((((z + Q0) * z + Q1) * z + Q2) * z + Q3) * z + Q4) in
  x * z + x.

Definition satan (x : float) : float :=
  let Morebits := 0x1.1a62633145c07p-54 in
  let Tan3pio8 := 0x1.3504f333f9de6p+1 in
  if x <=? 0x1.51eb851eb851fp-1 then xatan x
  else if Tan3pio8 <? x then Pi / 2 - xatan (1 / x) + Morebits
  else Pi / 4 + xatan ((x - 1) / (x + 1)) + 0.5 * Morebits.

(* asin.go *)
Definition asin (x : float) : float :=
  if x =? 0 then x
  else
    let sign := x <? 0 in
    let x := if sign then - x else x in
    if 1 <? x then nan
    else
      let t := PrimFloat.sqrt (1 - x * x) in
      let t := if 0x1.6666666666666p-1 <? x then Pi / 2 - satan (t / x) else satan (x / t) in
      if sign then - t else t.

Definition acos (x : float) : float := Pi / 2 - asin x.

Fixpoint dot_acc (a b : list float) (s : float) : float :=
  match a, b with
  | x :: a', y :: b' => dot_acc a' b' (s + x * y)
  | _, _ => s
  end.
Definition dot (a b : list float) : float := dot_acc a b 0.

Fixpoint sq_acc (a : list float) (s : float) : float :=
  match a with x :: a' => sq_acc a' (s + x * x) | [] => s end.
Definition vector_length (a : list float) : float := PrimFloat.sqrt (sq_acc a 0).

Fixpoint euclid_acc (a b : list float) (s : float) : float :=
  match a, b with
  | x :: a', y :: b' => let d := x - y in euclid_acc a' b' (s + d * d)
  | _, _ => s
  end.
Definition euclid (a b : list float) : float := PrimFloat.sqrt (euclid_acc a b 0).

Fixpoint ang_acc (a b : list float) (d m1 m2 : float) : float * float * float :=
  match a, b with
  | x :: a', y :: b' => ang_acc a' b' (d + x * y) (m1 + x * x) (m2 + y * y)
  | _, _ => (d, m1, m2)
  end.

Definition clamp_unit (c : float) : float := if 1 <? c then 1 else if c <? (-1) then (-1) else c.

Definition cosine_of (a b : list float) : float :=
  let '(d, m1, m2) := ang_acc a b 0 0 0 in d / (PrimFloat.sqrt m1 * PrimFloat.sqrt m2).

Definition angular_with (acosf : float -> float) (a b : list float) : float :=
  let '(d, m1, m2) := ang_acc a b 0 0 0 in
  if orb (m1 =? 0) (m2 =? 0) then 1
  else acosf (clamp_unit (d / (PrimFloat.sqrt m1 * PrimFloat.sqrt m2))) / Pi.

Definition angular (a b : list float) : float := angular_with acos a b.

(* distanceToHyperplane: (distance, right side?) *)
Definition dist_to_hyperplane (cosine_method : bool) (v : list float) (len : float) (normal : list float) (b : float)
  : float * bool :=
  let d := dot v normal - b in
  if negb cosine_method then (if 0 <? d then (d, true) else (- d, false))
  else
    let d := acos (d / len) / Pi in
    if 0.5 <? d then (1 - d, true) else (d, false).
