(* Search.v — Collection.Search, exact precision: the callback `consider`, the bounded result heap
   and the extraction of results.  The heap is modelled by an ascending list kept at most K long;
   which of several equally distant documents survives at the cut-off is the only thing
   container/heap can change, and the theorems leave it open.  Executable definitions only. *)
From Coq Require Import ZArith Floats List Bool.
From Syz Require Import Quant Dist.
Import ListNotations.
Open Scope Z_scope.

(* a result: document id and distance *)
Definition hit := (Z * float)%type.

Section Generic.
(* keys with a comparison; instantiated with binary64 distances below *)
Variable A : Type.
Variable lt : A -> A -> bool.          (* strictly smaller *)

(* insert after all elements that are not greater: ascending, stable *)
Fixpoint insert_asc (x : Z * A) (l : list (Z * A)) : list (Z * A) :=
  match l with
  | [] => [x]
  | y :: r => if lt (snd x) (snd y) then x :: l else y :: insert_asc x r
  end.

(* consider in K mode: push if fewer than K results or strictly better than the worst, then pop the worst *)
Definition consider_k (K : nat) (l : list (Z * A)) (x : Z * A) : list (Z * A) :=
  if Nat.ltb (length l) K then insert_asc x l
  else match rev l with
       | worst :: _ => if lt (snd x) (snd worst) then firstn K (insert_asc x l) else l
       | [] => l
       end.

Definition knn (K : nat) (cands : list (Z * A)) : list (Z * A) := fold_left (consider_k K) cands [].
End Generic.

Arguments insert_asc {A}.
Arguments consider_k {A}.
Arguments knn {A}.

Record sdoc := { sd_id : Z; sd_vec : list float; sd_ok : bool (* accepted by the filter *) }.

Definition distance (cosine : bool) (q v : list float) : float := if cosine then angular q v else euclid q v.

Definition candidates (cosine : bool) (q : list float) (docs : list sdoc) : list hit :=
  map (fun d => (sd_id d, distance cosine q (sd_vec d))) (filter sd_ok docs).

(* K nearest (Radius = 0, K > 0) *)
Definition search_knn (cosine : bool) (q : list float) (K : nat) (docs : list sdoc) : list hit :=
  knn PrimFloat.ltb K (candidates cosine q docs).

(* within radius (Radius > 0): every accepted document with distance <= Radius, ascending *)
Definition search_radius (cosine : bool) (q : list float) (R : float) (docs : list sdoc) : list hit :=
  fold_left (fun l x => insert_asc PrimFloat.ltb x l)
            (filter (fun h => PrimFloat.leb (snd h) R) (candidates cosine q docs)) [].

(* PercentSearched: every document is considered (filtered ones are counted too) *)
Definition percent_exact (ndocs : Z) : float :=
  if ndocs =? 0 then 0%float else (of_Z ndocs / of_Z ndocs * 100)%float.

(* ---------- comparison with an observed answer, up to ties ---------- *)

Definition hit_key (h : hit) : Z * Z := (bits64 (snd h), fst h).

Fixpoint strip_last_group (l : list (Z * Z)) (last : Z) : list (Z * Z) :=
  match l with
  | [] => []
  | (d, i) :: r => if d =? last then (if forallb (fun p => fst p =? last) r then [] else (d, i) :: strip_last_group r last)
                   else (d, i) :: strip_last_group r last
  end.

Definition last_dist (l : list (Z * Z)) : Z := match rev l with (d, _) :: _ => d | [] => -1 end.

Fixpoint sort_pairs (l : list (Z * Z)) : list (Z * Z) :=
  match l with
  | [] => []
  | x :: r =>
      (fix ins (x : Z * Z) (s : list (Z * Z)) : list (Z * Z) :=
         match s with
         | [] => [x]
         | y :: t => if (fst x <? fst y) || ((fst x =? fst y) && (snd x <=? snd y)) then x :: s else y :: ins x t
         end) x (sort_pairs r)
  end.

Definition pairs_eqb (a b : list (Z * Z)) : bool :=
  Nat.eqb (length a) (length b) && forallb (fun p => (fst (fst p) =? fst (snd p)) && (snd (fst p) =? snd (snd p))) (combine a b).

(* same distances position by position; same ids outside the last distance group; the ids of the
   last group are documents at exactly that distance *)
Definition same_answer (model : list hit) (observed : list (Z * Z)) (all : list hit) : bool :=
  let m := map hit_key model in
  let md := map fst m in
  let od := map fst observed in
  Nat.eqb (length md) (length od)
  && forallb (fun p => fst p =? snd p) (combine md od)
  && pairs_eqb (sort_pairs (strip_last_group m (last_dist m))) (sort_pairs (strip_last_group observed (last_dist observed)))
  && forallb (fun o => existsb (fun h => (fst h =? snd o) && (bits64 (snd h) =? fst o)) all) observed.
