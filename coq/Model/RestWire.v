(* RestWire.v — flat integer encoding of model responses, for the correspondence runs (lib/props_rest.py). *)
From Coq Require Import List NArith ZArith Bool.
From Syz Require Import Coll Rest.
Import ListNotations.
Open Scope Z_scope.

Definition zn (n : N) : Z := Z.of_N n.

Definition enc_body (b : body) : list Z :=
  match b with
  | BNone => [0]
  | BIds l => 1 :: Z.of_nat (length l) :: map zn l
  | BInfo c d q m => [2; zn c; d; q; zn m]
  | BList l => 3 :: Z.of_nat (length l) :: flat_map (fun p => [zn (fst p); zn (snd p)]) (sort_by (fun a b => N.ltb (fst a) (fst b)) l)
  | BOpaque => [4]
  | BDocs l => 5 :: Z.of_nat (length l) :: flat_map (fun p => [zn (fst p); zn (snd p)]) l
  end.

Definition enc_resp (r : response) : list Z :=
  match r with
  | Resp st b => zn st :: enc_body b ++ [-7]
  | Dropped => [-2; -7]
  end.

Definition enc_run (rqs : list request) : list Z := flat_map enc_resp (snd (run [] rqs)) ++ [-9].
