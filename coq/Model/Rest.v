(* Rest.v — the REST handlers of rest.go / main.go over the document-store specification of C01.
   Requests are what the handlers see after routing and encoding/json decoding; names, vectors and
   metadata are opaque tokens (their contents are the business of C01/C12/C19), only what the
   handlers branch on is kept: validity flags, presence, lengths.
   Executable definitions only. *)
From Coq Require Import List NArith ZArith Bool.
From Syz Require Import Coll.
Import ListNotations.
Open Scope N_scope.

(* ---------- a collection as the specification of C01: id -> (vector token, metadata token) ---------- *)
Record coll := { c_dim : Z; c_q : Z; c_metric : N; c_docs : list (N * (N * N)) }.

Fixpoint dlookup (id : N) (d : list (N * (N * N))) : option (N * N) :=
  match d with
  | [] => None
  | (i, x) :: r => if i =? id then Some x else dlookup id r
  end.
Fixpoint dupsert (id : N) (x : N * N) (d : list (N * (N * N))) : list (N * (N * N)) :=
  match d with
  | [] => [(id, x)]
  | (i, y) :: r => if i =? id then (i, x) :: r else (i, y) :: dupsert id x r
  end.
Fixpoint dremove (id : N) (d : list (N * (N * N))) : list (N * (N * N)) :=
  match d with
  | [] => []
  | (i, y) :: r => if i =? id then r else (i, y) :: dremove id r
  end.

Definition supported_q (q : Z) : bool := ((q =? 4) || (q =? 8) || (q =? 16) || (q =? 32) || (q =? 64))%Z.

(* Collection.AddDocument: log.Panicf on a vector of the wrong size; getVectorSize panics on an
   unsupported quantisation; a dimension below 1 cannot store anything *)
Definition coll_add (c : coll) (id vtok : N) (vlen : Z) (meta : N) : res coll :=
  if negb (vlen =? c_dim c)%Z then Panic
  else if negb (supported_q (c_q c)) then Panic
  else if (c_dim c <? 1)%Z then Panic
  else Ok {| c_dim := c_dim c; c_q := c_q c; c_metric := c_metric c; c_docs := dupsert id (vtok, meta) (c_docs c) |}.

Definition coll_update (c : coll) (id meta : N) : option coll :=
  match dlookup id (c_docs c) with
  | Some (v, _) => Some {| c_dim := c_dim c; c_q := c_q c; c_metric := c_metric c; c_docs := dupsert id (v, meta) (c_docs c) |}
  | None => None
  end.
Definition coll_remove (c : coll) (id : N) : option coll :=
  match dlookup id (c_docs c) with
  | Some _ => Some {| c_dim := c_dim c; c_q := c_q c; c_metric := c_metric c; c_docs := dremove id (c_docs c) |}
  | None => None
  end.

Definition coll_ids (c : coll) : list N := sort_by N.ltb (map fst (c_docs c)).
(* listing order of Search (K = 0, Radius = 0): record ids sorted as decimal strings (C16) *)
Definition coll_listing (c : coll) : list (N * N) :=
  map (fun id => (id, match dlookup id (c_docs c) with Some (_, m) => m | None => 0 end))
      (sort_by (fun a b => bytes_ltb (dec_string a) (dec_string b)) (map fst (c_docs c))).
Definition page {A} (off lim : N) (l : list A) : list A :=
  let r := skipn (N.to_nat off) l in if lim =? 0 then r else firstn (N.to_nat lim) r.

(* ---------- server ---------- *)
Definition server := list (N * coll).     (* collection name token -> collection *)

Fixpoint slookup (n : N) (s : server) : option coll :=
  match s with
  | [] => None
  | (m, c) :: r => if m =? n then Some c else slookup n r
  end.
Fixpoint sset (n : N) (c : coll) (s : server) : server :=
  match s with
  | [] => [(n, c)]
  | (m, d) :: r => if m =? n then (m, c) :: r else (m, d) :: sset n c r
  end.
Fixpoint sdrop (n : N) (s : server) : server :=
  match s with
  | [] => []
  | (m, d) :: r => if m =? n then r else (m, d) :: sdrop n r
  end.

(* one element of the body of POST .../records *)
Record rec := { r_id : N; r_vec : option (N * Z) (* token, length *); r_text : bool; r_meta : N }.

Inductive request :=
| Create (body_ok : bool) (name : N) (name_ok : bool) (metric : option N) (dim q : Z)
| ListC
| Info (n : N)
| Drop (n : N)
| Ids (n : N)
| Insert (n : N) (body : option (list rec))
| Update (n : N) (id : option N) (body : option N)
| DeleteRec (n : N) (id : option N)
| Search (n : N) (body_ok filter_ok text : bool) (k_zero r_zero : bool) (vlen : Z) (flt : bool) (off lim : N)
| Restart.

Inductive body :=
| BNone
| BIds (l : list N)
| BDocs (l : list (N * N))      (* listing page: id, metadata token *)
| BInfo (count : N) (dim q : Z) (metric : N)
| BList (l : list (N * N))       (* name, document count *)
| BOpaque.                       (* search results with a vector or a filter: judged by C03/C04/C13 *)

Inductive response := Resp (status : N) (b : body) | Dropped.

Definition count (c : coll) : N := N.of_nat (length (c_docs c)).

(* text-only records need the embedding service, which does not exist here: embedText fails -> 500 *)
Definition wants_embedding (r : rec) : bool := r_text r && match r_vec r with None => true | Some _ => false end.
Definition no_vector (r : rec) : bool := match r_vec r with None => true | Some _ => false end.
Definition wrong_size (c : coll) (r : rec) : bool :=
  match r_vec r with Some (_, l) => negb (l =? c_dim c)%Z | None => false end.

Fixpoint add_all (c : coll) (rs : list rec) : res coll :=
  match rs with
  | [] => Ok c
  | r :: rest =>
      match r_vec r with
      | None => Panic          (* AddDocument(nil vector) on a collection of dimension >= 1 *)
      | Some (vt, vl) => bind (coll_add c (r_id r) vt vl (r_meta r)) (fun c' => add_all c' rest)
      end
  end.

Definition handle (s : server) (rq : request) : server * response :=
  match rq with
  | Create body_ok name name_ok metric dim q =>
      if negb body_ok then (s, Resp 400 BNone)
      else if negb name_ok then (s, Resp 400 BNone)
      else match metric with
           | None => (s, Resp 400 BNone)
           | Some m =>
               (* quantisation 0 means "default" = 64 (NewCollection) *)
               let q' := if (q =? 0)%Z then 64%Z else q in
               if (dim <? 1)%Z || negb (supported_q q') then (s, Resp 400 BNone)
               else match slookup name s with
                    | Some _ => (s, Resp 400 BNone)
                    | None => (sset name {| c_dim := dim; c_q := q'; c_metric := m; c_docs := [] |} s, Resp 201 BNone)
                    end
           end
  | ListC => (s, Resp 200 (BList (map (fun nc => (fst nc, count (snd nc))) s)))
  | Info n =>
      match slookup n s with
      | None => (s, Resp 404 BNone)
      | Some c => (s, Resp 200 (BInfo (count c) (c_dim c) (c_q c) (c_metric c)))
      end
  | Drop n =>
      match slookup n s with
      | None => (s, Resp 200 BNone)            (* "Collection did not exist." — recorded finding D12 *)
      | Some _ => (sdrop n s, Resp 200 BNone)
      end
  | Ids n =>
      match slookup n s with
      | None => (s, Resp 404 BNone)
      | Some c => (s, Resp 200 (BIds (coll_ids c)))
      end
  | Insert n body =>
      match slookup n s with
      | None => (s, Resp 404 BNone)
      | Some c =>
          match body with
          | None => (s, Resp 400 BNone)
          | Some rs =>
              if existsb wants_embedding rs then (s, Resp 500 BNone)
              else if existsb no_vector rs then (s, Resp 400 BNone)
              else if existsb (wrong_size c) rs then (s, Resp 400 BNone)
              else match add_all c rs with
                   | Ok c' => (sset n c' s, Resp 201 BNone)
                   | _ => (s, Dropped)
                   end
          end
      end
  | Update n id body =>
      match id with
      | None => (s, Resp 400 BNone)
      | Some i =>
          match slookup n s with
          | None => (s, Resp 404 BNone)
          | Some c =>
              match body with
              | None => (s, Resp 400 BNone)
              | Some meta =>
                  match coll_update c i meta with
                  | Some c' => (sset n c' s, Resp 200 BNone)
                  | None => (s, Resp 404 BNone)
                  end
              end
          end
      end
  | DeleteRec n id =>
      match id with
      | None => (s, Resp 400 BNone)
      | Some i =>
          match slookup n s with
          | None => (s, Resp 404 BNone)
          | Some c =>
              match coll_remove c i with
              | Some c' => (sset n c' s, Resp 200 BNone)
              | None => (s, Resp 404 BNone)
              end
          end
      end
  | Search n body_ok filter_ok text k_zero r_zero vlen flt off lim =>
      match slookup n s with
      | None => (s, Resp 404 BNone)
      | Some c =>
          if negb body_ok then (s, Resp 400 BNone)
          else if negb filter_ok then (s, Resp 400 BNone)
          else if text then (s, Resp 500 BNone)
          else if k_zero && r_zero then
            (s, Resp 200 (if flt then BOpaque else BDocs (page off lim (coll_listing c))))
          else if negb (vlen =? c_dim c)%Z then (s, Resp 400 BNone)
          else (s, Resp 200 BOpaque)
      end
  | Restart => (s, Resp 200 BNone)          (* RunServer reopens every *.dat: C02 *)
  end.

Definition run (s : server) (rqs : list request) : server * list response :=
  fold_left (fun acc rq => let '(st, out) := acc in let '(st', r) := handle st rq in (st', out ++ [r])) rqs (s, []).

(* ---------- the documented status classes (specification side) ---------- *)
Definition target (rq : request) : option N :=
  match rq with
  | Info n | Drop n | Ids n | Insert n _ | Update n _ _ | DeleteRec n _ | Search n _ _ _ _ _ _ _ _ _ => Some n
  | _ => None
  end.

Definition unknown_collection (s : server) (rq : request) : bool :=
  match target rq with
  | Some n => match slookup n s with None => true | Some _ => false end
  | None => false
  end.

Definition unknown_record (s : server) (rq : request) : bool :=
  match rq with
  | Update n (Some i) _ | DeleteRec n (Some i) =>
      match slookup n s with
      | Some c => match dlookup i (c_docs c) with None => true | Some _ => false end
      | None => false
      end
  | _ => false
  end.

Definition malformed (s : server) (rq : request) : bool :=
  match rq with
  | Create body_ok name name_ok metric dim q =>
      negb body_ok || negb name_ok || match metric with None => true | Some _ => false end
      || ((dim <? 1)%Z || negb (supported_q (if (q =? 0)%Z then 64%Z else q)))
      || match slookup name s with Some _ => true | None => false end      (* the name is taken *)
  | Insert n body =>
      match body with
      | None => true
      | Some rs => existsb no_vector rs
                   || match slookup n s with Some c => existsb (wrong_size c) rs | None => false end
      end
  | Update _ id body => match id, body with Some _, Some _ => false | _, _ => true end
  | DeleteRec _ id => match id with Some _ => false | None => true end
  | Search n body_ok filter_ok _ k_zero r_zero vlen _ _ _ =>
      negb body_ok || negb filter_ok
      || (negb (k_zero && r_zero) && match slookup n s with Some c => negb (vlen =? c_dim c)%Z | None => false end)
  | _ => false
  end.

(* needs the embedding service (absent): the only 5xx of the model *)
Definition needs_embedding (rq : request) : bool :=
  match rq with
  | Insert _ (Some rs) => existsb wants_embedding rs
  | Search _ _ _ text _ _ _ _ _ _ => text
  | _ => false
  end.

Definition status_of (r : response) : option N := match r with Resp st _ => Some st | Dropped => None end.

(* every collection of the server can store documents *)
Definition coll_wf (c : coll) : bool := (1 <=? c_dim c)%Z && supported_q (c_q c).
Definition server_wf (s : server) : bool := forallb (fun nc => coll_wf (snd nc)) s.
