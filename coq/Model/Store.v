(* Store.v — the span file of spanfile.go/freemap.go as a list of tiles.
   Executable definitions only.

   The file image is [flatten tiles].  The index (record id -> offset) and the free map
   (merged free ranges) are *derived* from the tiles; the correspondence check compares them
   with the implementation's in-memory index and free map after every operation. *)
From Syz Require Export Bytes Varint Crc.
From Syz Require Import Consts.
Open Scope N_scope.

Definition stream := (N * bytes)%type.

Inductive tile : Type :=
| TA (img : bytes) (seq : N) (rid : bytes)  (* active span: raw image; parsed sequence number and id *)
| TF (len : N) (junk : bytes)               (* FREE magic, length field, remaining bytes *)
| TZ (bs : bytes)                           (* free raw bytes: zero magic / short tail / unreachable rest *)
| TX (bs : bytes).                          (* skipped region: unknown magic, or SPAN failing checksum/parse *)

Definition tlen (t : tile) : N :=
  match t with
  | TA img _ _ => blen img
  | TF _ junk => 8 + blen junk
  | TZ bs => blen bs
  | TX bs => blen bs
  end.

Definition timg (t : tile) : bytes :=
  match t with
  | TA img _ _ => img
  | TF len junk => be32 freeMagic ++ be32 len ++ junk
  | TZ bs => bs
  | TX bs => bs
  end.

Definition flatten (ts : list tile) : bytes := flat_map timg ts.
Definition tiles_len (ts : list tile) : N := fold_right (fun t a => tlen t + a) 0 ts.

Definition is_free (t : tile) : bool :=
  match t with TF _ _ => true | TZ _ => true | _ => false end.

Definition firstn_N (n : N) (l : bytes) : bytes := firstn (N.to_nat n) l.
Definition skipn_N (n : N) (l : bytes) : bytes := skipn (N.to_nat n) l.

(* ---------- span image (serializeSpan + padding + checksum, as WriteRecord builds it) ---------- *)

Definition stream_img (s : stream) : bytes := fst s :: write7 (blen (snd s)) ++ snd s.

Definition span_body (seq : N) (rid : bytes) (ss : list stream) : bytes :=
  write7 seq ++ write7 (blen rid) ++ rid ++ [N.of_nat (length ss) mod 256] ++ flat_map stream_img ss.

(* len(spanBytes)+4 : what allocateSpan is asked for *)
Definition span_size (seq : N) (rid : bytes) (ss : list stream) : N :=
  8 + blen (span_body seq rid ss) + 4.

(* the length serializeSpan computes with lengthOf7Code and stores in the header *)
Definition span_field (seq : N) (rid : bytes) (ss : list stream) : N :=
  8 + N.of_nat (lengthOf7 seq) + N.of_nat (lengthOf7 (blen rid)) + blen rid + 1 + 4
  + fold_right (fun s a => 1 + N.of_nat (lengthOf7 (blen (snd s))) + blen (snd s) + a) 0 ss.

Definition ta_img (seq : N) (rid : bytes) (ss : list stream) (pad : N) : bytes :=
  let field := if pad =? 0 then span_field seq rid ss else span_size seq rid ss + pad in
  let pre := be32 activeMagic ++ be32 field ++ span_body seq rid ss ++ nzeros pad in
  pre ++ be32 (crc32 pre).

(* ---------- parseSpan ---------- *)

Record span := { sp_seq : N; sp_rid : bytes; sp_streams : list stream }.

Definition verify_checksum (d : bytes) : bool :=
  let l := length d in
  if Nat.ltb l 4 then false
  else match rd32 (skipn (l - 4) d) with
       | Some c => crc32 (firstn (l - 4) d) =? c
       | None => false
       end.

Definition two63 : N := 9223372036854775808.

Fixpoint parse_streams (n : nat) (rest : bytes) (acc : list stream) : res (list stream * bytes) :=
  match n with
  | O => Ok (rev acc, rest)
  | S k =>
      match rest with
      | [] => Err
      | sid :: r1 =>
          match read7 r1 with
          | None => Err
          | Some (slen, c) =>
              let r2 := skipn c r1 in
              if two63 <=? slen then Panic
              else if blen r2 <? slen then Err
              else parse_streams k (skipn_N slen r2) ((sid, firstn_N slen r2) :: acc)
          end
      end
  end.

(* data = the slice handed to parseSpan (its len is what the Go code calls len(data)) *)
Definition parse_span (data : bytes) : res span :=
  if blen data <? minSpanLength then Err else
  match rd32 data, rd32 (skipn 4 data) with
  | Some m, Some l =>
      if negb (m =? activeMagic) then Err else
      if blen data <? l then Err else
      if negb (verify_checksum (firstn_N l data)) then Err else
      let r0 := skipn 8 data in
      match read7 r0 with
      | None => Err
      | Some (seq, c1) =>
          let r1 := skipn c1 r0 in
          match read7 r1 with
          | None => Err
          | Some (idlen, c2) =>
              let r2 := skipn c2 r1 in
              if (two63 <=? idlen) || (blen r2 <=? idlen) then Panic else
              let rid := firstn_N idlen r2 in
              match skipn_N idlen r2 with
              | [] => Panic
              | ns :: r4 =>
                  bind (parse_streams (N.to_nat ns) r4 [])
                       (fun p => if blen (snd p) <? 4 then Err
                                 else Ok {| sp_seq := seq mod 4294967296; sp_rid := rid; sp_streams := fst p |})
              end
          end
      end
  | _, _ => Err
  end.

(* ---------- derived index and free map ---------- *)

(* A model state never holds two active tiles for one record id (recovery removes superseded
   duplicates, see [recover]); the index is therefore just the active tiles with their offsets. *)
Definition index := list (bytes * N).   (* rid -> offset *)

Fixpoint index_from (ts : list tile) (off : N) : index :=
  match ts with
  | [] => []
  | t :: r =>
      (match t with TA _ _ rid => [(rid, off)] | _ => [] end) ++ index_from r (off + tlen t)
  end.
Definition index_of (ts : list tile) : index := index_from ts 0.

Fixpoint lookup (idx : index) (rid : bytes) : option N :=
  match idx with
  | [] => None
  | (r, o) :: rest => if bytes_eqb r rid then Some o else lookup rest rid
  end.

(* the active tile of a record: its image and the bytes that follow it in the file *)
Fixpoint find_active (ts : list tile) (rid : bytes) : option (bytes * bytes) :=
  match ts with
  | [] => None
  | TA img _ r :: rest => if bytes_eqb r rid then Some (img, flatten rest) else find_active rest rid
  | _ :: rest => find_active rest rid
  end.

Fixpoint fm_from (ts : list tile) (off : N) (cur : option (N * N)) : list (N * N) :=
  match ts with
  | [] => match cur with Some r => [r] | None => [] end
  | t :: r =>
      if is_free t then
        (if tlen t =? 0 then fm_from r off cur
         else fm_from r (off + tlen t)
                      (match cur with Some (s, l) => Some (s, l + tlen t) | None => Some (off, tlen t) end))
      else (match cur with Some x => [x] | None => [] end) ++ fm_from r (off + tlen t) None
  end.
Definition fm_of (ts : list tile) : list (N * N) := fm_from ts 0 None.

Fixpoint max_seq (ts : list tile) (m : N) : N :=
  match ts with
  | [] => m
  | TA _ seq _ :: r => max_seq r (N.max m seq)
  | _ :: r => max_seq r m
  end.

(* ---------- scanFile ---------- *)

Fixpoint scan_fuel (fuel : nat) (rest : bytes) (acc : list tile) : res (list tile) :=
  match fuel with
  | O => Err
  | S f =>
      match rest with
      | [] => Ok (rev acc)
      | _ =>
          let n := blen rest in
          if n <? minSpanLength then Ok (rev (TZ rest :: acc)) else
          match rd32 rest, rd32 (skipn 4 rest) with
          | Some m, Some l =>
              if m =? 0 then Ok (rev (TZ rest :: acc)) else
              if n <? l then Ok (rev (TZ rest :: acc)) else
              if l =? 0 then Err else
              let cur := firstn_N l rest in
              let next := skipn_N l rest in
              if m =? activeMagic then
                match parse_span cur with
                | Ok sp => scan_fuel f next (TA cur (sp_seq sp) (sp_rid sp) :: acc)
                | Err => scan_fuel f next (TX cur :: acc)
                | Panic => Panic
                end
              else if m =? freeMagic then
                scan_fuel f next ((if l <? 8 then TZ cur else TF l (skipn 8 cur)) :: acc)
              else scan_fuel f next (TX cur :: acc)
          | _, _ => Ok (rev (TZ rest :: acc))
          end
      end
  end.

Definition scan (file : bytes) : res (list tile) := scan_fuel (S (length file)) file [].

Record sf := { tiles : list tile; nseq : N }.

Definition initial_image : bytes := ta_img 0 [] [] 0.

(* markSpanAsFreed: the magic word becomes FREE, everything else stays *)
Definition freed (t : tile) : tile :=
  match t with
  | TA img _ _ => match rd32 (skipn 4 img) with Some l => TF l (skipn 8 img) | None => t end
  | _ => t
  end.

(* ---------- recovery after the scan ---------- *)

Fixpoint best_seq (ts : list tile) (rid : bytes) (m : option N) : option N :=
  match ts with
  | [] => m
  | TA _ seq r :: rest =>
      best_seq rest rid (if bytes_eqb r rid
                         then (match m with Some x => Some (N.max x seq) | None => Some seq end)
                         else m)
  | _ :: rest => best_seq rest rid m
  end.

Fixpoint mem_bytes (x : bytes) (l : list bytes) : bool :=
  match l with [] => false | y :: r => bytes_eqb y x || mem_bytes x r end.

(* a superseded older version: freed in a writable file, merely ignored in a read-only one *)
Definition supersede (rw : bool) (t : tile) : tile :=
  if rw then freed t else match t with TA img _ _ => TX img | _ => t end.

Fixpoint dedup_go (rw : bool) (all : list tile) (ts : list tile) (done : list bytes) : list tile :=
  match ts with
  | [] => []
  | TA img seq rid :: r =>
      if (match best_seq all rid None with Some b => seq =? b | None => false end) && negb (mem_bytes rid done)
      then TA img seq rid :: dedup_go rw all r (rid :: done)
      else supersede rw (TA img seq rid) :: dedup_go rw all r done
  | t :: r => t :: dedup_go rw all r done
  end.

(* a trailing region that starts with a zero magic word gets a FREE header in a writable file *)
Fixpoint stamp_tail (ts : list tile) : list tile :=
  match ts with
  | [] => []
  | [TZ bs] =>
      if (minSpanLength <=? blen bs) && (match rd32 bs with Some 0 => true | _ => false end)
      then [TF (blen bs mod 4294967296) (skipn 8 bs)] else [TZ bs]
  | t :: r => t :: stamp_tail r
  end.

Definition recover (rw : bool) (ts : list tile) : list tile :=
  let ts1 := dedup_go rw ts ts [] in
  if rw then stamp_tail ts1 else ts1.

(* OpenFile on an existing image (size > 0): magic check of the first word, scan, recovery *)
Definition open_image (rw : bool) (file : bytes) : res sf :=
  match rd32 file with
  | Some m =>
      if negb ((m =? activeMagic) || (m =? freeMagic)) then Err
      else bind (scan file) (fun ts =>
             Ok {| tiles := recover rw ts; nseq := (max_seq ts 0 + 1) mod 4294967296 |})
  | None => Err
  end.

(* ---------- allocation: first maximal free run that fits ---------- *)

Fixpoint find_run (ts pre_rev run_rev : list tile) (runlen size : N)
  : option (list tile * list tile * list tile) :=
  match ts with
  | [] => if (0 <? runlen) && (size <=? runlen) then Some (rev pre_rev, rev run_rev, []) else None
  | t :: r =>
      if is_free t then find_run r pre_rev (t :: run_rev) (runlen + tlen t) size
      else if (0 <? runlen) && (size <=? runlen) then Some (rev pre_rev, rev run_rev, ts)
      else find_run r (t :: run_rev ++ pre_rev) [] 0 size
  end.

(* tiles that replace an allocated run of [old] bytes, rem = bytes left over *)
Definition place (seq : N) (rid : bytes) (ss : list stream) (size rem : N) (old : bytes) : list tile :=
  if rem =? 0 then [TA (ta_img seq rid ss 0) seq rid]
  else if rem <? minSpanLength then [TA (ta_img seq rid ss rem) seq rid]
  else [TA (ta_img seq rid ss 0) seq rid; TF rem (skipn_N (size + 8) old)].

(* freeing the active version(s) of a record *)
Definition free_rid (rid : bytes) (ts : list tile) : list tile :=
  map (fun t => match t with
                | TA _ _ r => if bytes_eqb r rid then freed t else t
                | _ => t
                end) ts.

(* storage steps as the hook reports them *)
Inductive step : Type :=
| SGrow (n : N)
| SWrite (off len : N)
| SFreed (off : N).

(* WriteRecord: returns the tile lists after each storage step, with the step descriptions.
   [exp] is the growth amount chosen when no free run fits (any value >= the record size). *)
Definition write_stages (ts : list tile) (seq : N) (rid : bytes) (ss : list stream) (exp : N)
  : option (list (step * list tile)) :=
  let size := span_size seq rid ss in
  let old := lookup (index_of ts) rid in
  let finish (pre placed post : list tile) :=
      match old with
      | Some o => [(SFreed o, free_rid rid pre ++ placed ++ free_rid rid post)]
      | None => []
      end in
  let wlen (placed : list tile) (rem : N) :=
      tiles_len placed - (if minSpanLength <=? rem then rem - 8 else 0) in
  match find_run ts [] [] 0 size with
  | Some (pre, run, post) =>
      let rem := tiles_len run - size in
      let placed := place seq rid ss size rem (flatten run) in
      Some ((SWrite (tiles_len pre) (wlen placed rem), pre ++ placed ++ post) :: finish pre placed post)
  | None =>
      if exp <? size then None else
      let placed := place seq rid ss size (exp - size) (nzeros exp) in
      Some ((SGrow exp, ts ++ [TZ (nzeros exp)])
            :: (SWrite (tiles_len ts) (wlen placed (exp - size)), ts ++ placed)
            :: finish ts placed [])
  end.

Definition last_tiles (dflt : list tile) (l : list (step * list tile)) : list tile :=
  match rev l with (_, ts) :: _ => ts | [] => dflt end.

Definition write_record (s : sf) (rid : bytes) (ss : list stream) (exp : N) : option (list step * sf) :=
  match write_stages (tiles s) (nseq s) rid ss exp with
  | Some st => Some (map fst st, {| tiles := last_tiles (tiles s) st; nseq := (nseq s + 1) mod 4294967296 |})
  | None => None
  end.

(* deterministic growth as allocateSpan computes it (int(float64(len)*0.05) = len/20 below 2^40) *)
Definition grow_amount (cur size : N) : N := N.max growMin (N.max size (cur / 20)).

Definition remove_record (s : sf) (rid : bytes) : res (list step * sf) :=
  match lookup (index_of (tiles s)) rid with
  | None => Err
  | Some o => Ok ([SFreed o], {| tiles := free_rid rid (tiles s); nseq := nseq s |})
  end.

Definition read_record (s : sf) (rid : bytes) : res span :=
  match find_active (tiles s) rid with
  | None => Err
  | Some (img, rest) => parse_span (img ++ rest)
  end.
