(* QEval.v — query/compiler.go: evaluation of a parsed filter on decoded JSON.
   Numbers are binary64 bit patterns (every number comes from strconv.ParseFloat, through the
   lexer or through encoding/json; the model never does float arithmetic, only comparison,
   rounding of an index and conversion of a length).  Executable definitions only. *)
From Syz Require Export QParse.
From Coq Require Import ZArith.
Open Scope N_scope.

Inductive jv : Type :=
| JNull
| JBool (b : bool)
| JNum (bits : N)
| JStr (s : bytes)
| JArr (l : list jv)
| JObj (m : list (bytes * jv)).

(* ---------- binary64 on bit patterns ---------- *)

Definition f_sign (b : N) : bool := N.testbit b 63.
Definition f_exp (b : N) : N := (b / 4503599627370496) mod 2048.
Definition f_man (b : N) : N := b mod 4503599627370496.
Definition f_is_nan (b : N) : bool := (f_exp b =? 2047) && negb (f_man b =? 0).
Definition f_mag (b : N) : N := b mod 9223372036854775808.

(* order key: sign-magnitude to a signed integer; both zeros map to 0 *)
Definition f_key (b : N) : Z := if f_sign b then (- Z.of_N (f_mag b))%Z else Z.of_N (f_mag b).

Definition f_eqb (a b : N) : bool := negb (f_is_nan a) && negb (f_is_nan b) && (f_key a =? f_key b)%Z.
Definition f_ltb (a b : N) : bool := negb (f_is_nan a) && negb (f_is_nan b) && (f_key a <? f_key b)%Z.
Definition f_leb (a b : N) : bool := negb (f_is_nan a) && negb (f_is_nan b) && (f_key a <=? f_key b)%Z.

(* int(math.Round(x)): None when the result is negative, not a number or beyond int64 *)
Definition f_round_index (b : N) : option N :=
  if f_is_nan b then None
  else
    let e := f_exp b in
    let m := if e =? 0 then f_man b else 4503599627370496 + f_man b in
    let e' := if e =? 0 then 1 else e in
    (* value = m * 2^(e' - 1075) *)
    let r := if 1075 <=? e' then
               (if 1086 <=? e' then 18446744073709551616 else N.shiftl m (e' - 1075))
             else
               let k := 1075 - e' in
               if 60 <=? k then 0 else (m + N.shiftl 1 (k - 1)) / N.shiftl 1 k in
    if 9223372036854775808 <=? r then None
    else if f_sign b then (if r =? 0 then Some 0 else None)
    else Some r.

(* float64(n) for a length *)
Definition f_of_N (n : N) : N :=
  if n =? 0 then 0
  else let e := N.log2 n in
       (e + 1023) * 4503599627370496 + (N.shiftl n (52 - e) - 4503599627370496).

(* ---------- reflect.DeepEqual on decoded JSON ---------- *)

Fixpoint obj_get (m : list (bytes * jv)) (k : bytes) : option jv :=
  match m with
  | [] => None
  | (k', v) :: r => if bytes_eqb k' k then Some v else obj_get r k
  end.

Fixpoint deq (a b : jv) {struct a} : bool :=
  match a, b with
  | JNull, JNull => true
  | JBool x, JBool y => Bool.eqb x y
  | JNum x, JNum y => f_eqb x y
  | JStr x, JStr y => bytes_eqb x y
  | JArr la, JArr lb =>
      (fix go (la lb : list jv) {struct la} : bool :=
         match la, lb with
         | [], [] => true
         | x :: la', y :: lb' => deq x y && go la' lb'
         | _, _ => false
         end) la lb
  | JObj ma, JObj mb =>
      (length ma =? length mb)%nat
      && (fix go (ma : list (bytes * jv)) {struct ma} : bool :=
            match ma with
            | [] => true
            | (k, v) :: ma' =>
                match obj_get mb k with Some w => deq v w | None => false end && go ma'
            end) ma
  | _, _ => false
  end.

(* ---------- strings ---------- *)

Fixpoint is_prefix (p s : bytes) : bool :=
  match p, s with
  | [], _ => true
  | x :: p', y :: s' => (x =? y) && is_prefix p' s'
  | _ :: _, [] => false
  end.

Fixpoint contains (s sub : bytes) : bool :=
  is_prefix sub s || match s with [] => false | _ :: s' => contains s' sub end.

Definition is_suffix (p s : bytes) : bool := is_prefix (rev p) (rev s).

(* ---------- evaluation ---------- *)

Inductive eres : Type := EOk (v : jv) | EErr.

Definition ebind (r : eres) (f : jv -> eres) : eres := match r with EOk v => f v | EErr => EErr end.

Definition lit_value (l : lit) : jv :=
  match l with LNull => JNull | LBool b => JBool b | LNum n => JNum n | LStr s => JStr s end.

Definition s_length : bytes := [108; 101; 110; 103; 116; 104].
Definition op_is (op : bytes) (s : list N) : bool := bytes_eqb op s.

Section Eval.
(* regexp.MatchString pattern subject: None for an invalid pattern *)
Variable re_match : bytes -> bytes -> option bool.

Definition compare_values (op : bytes) (l r : jv) : eres :=
  let pick (lt le gt ge : bool) :=
      if op_is op [62] then EOk (JBool gt)
      else if op_is op [62; 61] then EOk (JBool ge)
      else if op_is op [60] then EOk (JBool lt)
      else EOk (JBool le) in
  match l, r with
  | JNum a, JNum b => pick (f_ltb a b) (f_leb a b) (f_ltb b a) (f_leb b a)
  | JStr a, JStr b =>
      pick (bytes_ltb a b) (negb (bytes_ltb b a)) (bytes_ltb b a) (negb (bytes_ltb a b))
  | _, _ => EErr
  end.

Definition eval_in (l r : jv) : option bool :=
  match r with
  | JArr items => Some (existsb (fun x => deq l x) items)
  | _ => None
  end.

Definition eval_op (op : bytes) (l r : jv) : eres :=
  if op_is op [61; 61] then EOk (JBool (deq l r))
  else if op_is op [33; 61] then EOk (JBool (negb (deq l r)))
  else if op_is op [62] || op_is op [62; 61] || op_is op [60] || op_is op [60; 61] then compare_values op l r
  else if op_is op s_AND then
    match l, r with JBool a, JBool b => EOk (JBool (a && b)) | _, _ => EErr end
  else if op_is op s_OR then
    match l with
    | JBool true => EOk (JBool true)
    | JBool false => match r with JBool b => EOk (JBool b) | _ => EErr end
    | _ => EErr
    end
  else if op_is op s_NOT then
    match r with JBool b => EOk (JBool (negb b)) | _ => EErr end
  else if op_is op s_IN then
    match eval_in l r with Some b => EOk (JBool b) | None => EErr end
  else if op_is op s_NOT_IN then
    match eval_in l r with Some b => EOk (JBool (negb b)) | None => EErr end
  else if op_is op [67; 79; 78; 84; 65; 73; 78; 83] then
    match l, r with JStr a, JStr b => EOk (JBool (contains a b)) | _, _ => EErr end
  else if op_is op [83; 84; 65; 82; 84; 83; 95; 87; 73; 84; 72] then
    match l, r with JStr a, JStr b => EOk (JBool (is_prefix b a)) | _, _ => EErr end
  else if op_is op [69; 78; 68; 83; 95; 87; 73; 84; 72] then
    match l, r with JStr a, JStr b => EOk (JBool (is_suffix b a)) | _, _ => EErr end
  else if op_is op [77; 65; 84; 67; 72; 69; 83] then
    match l, r with
    | JStr a, JStr b => match re_match b a with Some m => EOk (JBool m) | None => EErr end
    | _, _ => EErr
    end
  else if op_is op s_DOT then
    match l, r with
    | JObj m, JStr k => match obj_get m k with Some v => EOk v | None => EErr end
    | JArr items, JStr k => if bytes_eqb k s_length then EOk (JNum (f_of_N (N.of_nat (length items)))) else EErr
    | JStr s, JStr k => if bytes_eqb k s_length then EOk (JNum (f_of_N (blen s))) else EErr
    | _, _ => EErr
    end
  else if op_is op s_IDX then
    match l, r with
    | JArr items, JNum b =>
        match f_round_index b with
        | Some i => match nth_error items (N.to_nat i) with Some v => EOk v | None => EOk JNull end
        | None => EOk JNull
        end
    | _, _ => EErr
    end
  else EErr.

(* getField(data, [name]) *)
Definition get_field (data : jv) (name : bytes) : eres :=
  match data with
  | JObj m => match obj_get m name with Some v => EOk v | None => EOk JNull end
  | _ => EErr
  end.

Fixpoint eval (n : node) (data : jv) {struct n} : eres :=
  match n with
  | NVal v => EOk (lit_value v)
  | NIdent name => get_field data name
  | NParam name =>
      match data with
      | JObj m => match obj_get m name with Some v => EOk v | None => EErr end
      | _ => EErr
      end
  | NArr els =>
      (fix go (els : list node) : eres :=
         match els with
         | [] => EOk (JArr [])
         | e :: r =>
             ebind (eval e data) (fun v =>
             match go r with EOk (JArr vs) => EOk (JArr (v :: vs)) | _ => EErr end)
         end) els
  | NExpr op l r =>
      ebind (match l with Some ln => eval ln data | None => EOk JNull end) (fun lv =>
      ebind (if op_is op s_DOT
             then match r with NIdent name => EOk (JStr name) | _ => EErr end
             else eval r data) (fun rv =>
      eval_op op lv rv))
  | NFunc name args =>
      match args with
      | [arg] =>
          if op_is name s_EXISTS || op_is name s_DOES_NOT_EXIST then
            match resolve_value arg data with
            | Some found =>
                EOk (JBool (Bool.eqb (match found with Some _ => true | None => false end) (op_is name s_EXISTS)))
            | None =>
                if op_is name s_EXISTS
                then EOk (JBool (match eval arg data with EOk _ => true | EErr => false end))
                else EErr
            end
          else EErr
      | _ => EErr
      end
  end
(* resolvePath: None when the node is not a field path, Some None when a step is absent,
   Some (Some v) when the path leads to v *)
with resolve_value (n : node) (data : jv) {struct n} : option (option jv) :=
  match n with
  | NIdent name =>
      match data with
      | JObj m => Some (obj_get m name)
      | _ => Some None
      end
  | NExpr op (Some l) r =>
      if op_is op s_DOT then
        match r with
        | NIdent name =>
            match resolve_value l data with
            | None => None
            | Some None => Some None
            | Some (Some lv) =>
                match lv with
                | JObj m => Some (obj_get m name)
                | JArr items => if bytes_eqb name s_length then Some (Some (JNum (f_of_N (N.of_nat (length items))))) else Some None
                | JStr s => if bytes_eqb name s_length then Some (Some (JNum (f_of_N (blen s)))) else Some None
                | _ => Some None
                end
            end
        | _ => None
        end
      else if op_is op s_IDX then
        match resolve_value l data with
        | None => None
        | Some None => Some None
        | Some (Some lv) =>
            match lv with
            | JArr items =>
                match eval r data with
                | EOk (JNum b) =>
                    match f_round_index b with
                    | Some i => Some (nth_error items (N.to_nat i))
                    | None => Some None
                    end
                | _ => Some None
                end
            | _ => Some None
            end
        end
      else None
  | _ => None
  end.

(* CreateFilterFunction on decoded metadata (None = JSON decode error): Some verdict or None = error *)
Definition apply_filter (n : node) (doc : option jv) : option bool :=
  match doc with
  | None => None
  | Some d => match eval n d with EOk (JBool b) => Some b | _ => None end
  end.
End Eval.
