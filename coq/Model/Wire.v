(* Wire.v — text protocol of the extracted oracle: decimal numbers in, decimal numbers out.
   Both the Go harness and this model print one line per operation in the same format;
   the driver compares the two outputs line by line.  Executable definitions only. *)
From Syz Require Export Coll.
Open Scope N_scope.

(* linear-time reversal for the protocol plumbing (List.rev is quadratic) *)
Definition frev {A} (l : list A) : list A := rev_append l [].

(* ---------- tokens ---------- *)

Fixpoint tokenize (cs : list N) (cur : option N) (acc : list N) : list N :=
  match cs with
  | [] => frev (match cur with Some n => n :: acc | None => acc end)
  | c :: r =>
      if (48 <=? c) && (c <=? 57)
      then tokenize r (Some (match cur with Some n => n * 10 + (c - 48) | None => c - 48 end)) acc
      else tokenize r None (match cur with Some n => n :: acc | None => acc end)
  end.

Definition show_line (l : list N) : list N :=
  flat_map (fun n => dec_fuel 80 n [] ++ [32]) l ++ [10].

(* ---------- readers ---------- *)

Fixpoint take_n (n : nat) (l : list N) (acc : list N) : option (list N * list N) :=
  match n with
  | O => Some (frev acc, l)
  | S k => match l with [] => None | x :: r => take_n k r (x :: acc) end
  end.

Definition rd_bytes (l : list N) : option (bytes * list N) :=
  match l with
  | n :: r => take_n (N.to_nat n) r []
  | [] => None
  end.

(* payload: 0 len b1..bn | 1 seed len *)
Definition rd_payload (l : list N) : option (bytes * list N) :=
  match l with
  | 0 :: r => rd_bytes r
  | 1 :: seed :: len :: r => Some (gen_bytes seed len, r)
  | _ => None
  end.

Fixpoint rd_streams (n : nat) (l : list N) (acc : list stream) : option (list stream * list N) :=
  match n with
  | O => Some (frev acc, l)
  | S k =>
      match l with
      | sid :: r => match rd_payload r with
                    | Some (d, r') => rd_streams k r' ((sid, d) :: acc)
                    | None => None
                    end
      | [] => None
      end
  end.

(* ---------- printing ---------- *)

Definition hash_bytes (b : bytes) : N :=
  fold_left (fun h x => (h * 257 + x + 1) mod 4294967291) b 0.

Definition show_step (s : step) : list N :=
  match s with
  | SGrow n => [1; n; 0]
  | SWrite o l => [2; o; l]
  | SFreed o => [3; o; 0]
  end.

Definition show_steps (ss : list step) : list N :=
  N.of_nat (length ss) :: flat_map show_step ss.

Definition show_state (s : sf) : list N :=
  let idx := sort_by (fun a b => bytes_ltb (fst a) (fst b)) (index_of (tiles s)) in
  let fm := fm_of (tiles s) in
  [tiles_len (tiles s); nseq s; N.of_nat (length idx)]
  ++ flat_map (fun e => blen (fst e) :: fst e ++ [snd e]) idx
  ++ [N.of_nat (length fm)]
  ++ flat_map (fun r => [fst r; snd r]) fm.

(* kind + 16: the harness also passes a query vector with the listing request; a listing does not look at it *)
Definition flt_of (kind0 a b : N) : filter_fn :=
  let kind := kind0 mod 16 in
  fun id md =>
    if kind =? 1 then (id mod a =? b)
    else if kind =? 2 then (blen md mod a =? b)
    else if kind =? 3 then ((match md with x :: _ => x | [] => 0 end) mod a =? b)
    else true.

Definition exp_for (s : sf) (rid : bytes) (ss : list stream) (exp : N) : N :=
  if exp =? 0 then grow_amount (tiles_len (tiles s)) (span_size (nseq s) rid ss) else exp.

Definition show_mut (code : N) (s : sf) (r : res (option (list step * sf))) : list N * sf :=
  match r with
  | Ok (Some (steps, s')) => (code :: 0 :: show_steps steps, s')
  | Ok None => ([code; 3], s)
  | Err => ([code; 1], s)
  | Panic => ([code; 2], s)
  end.

(* tile lists after each storage step of the next mutating operation, and the remaining tokens *)
(* damage: xor the byte at an offset with a mask; patches as a flat list off1 mask1 off2 mask2 ... *)
Fixpoint xor_at (img : bytes) (off : nat) (mask : N) : bytes :=
  match img, off with
  | [], _ => []
  | b :: r, O => N.lxor b mask :: r
  | b :: r, S k => b :: xor_at r k mask
  end.
Fixpoint patch_all (img : bytes) (ps : list N) : bytes :=
  match ps with
  | off :: mask :: r => patch_all (xor_at img (N.to_nat off) mask) r
  | _ => img
  end.

Definition stages_of (s : sf) (l : list N) : option (list (list tile) * list N) :=
  let of_write (rid : bytes) (ss : list stream) (exp : N) (r : list N) :=
      match write_stages (tiles s) (nseq s) rid ss (exp_for s rid ss exp) with
      | Some st => Some (map snd st, r)
      | None => None
      end in
  match l with
  | 10 :: r =>
      match rd_bytes r with
      | Some (rid, n :: r1) =>
          match rd_streams (N.to_nat n) r1 [] with
          | Some (ss, exp :: r2) => of_write rid ss exp r2
          | _ => None
          end
      | _ => None
      end
  | 11 :: r =>
      match rd_bytes r with
      | Some (rid, r1) =>
          match remove_record s rid with
          | Ok (_, s') => Some ([tiles s'], r1)
          | _ => Some ([], r1)
          end
      | None => None
      end
  | 20 :: id :: r =>
      match rd_payload r with
      | Some (vec, r1) =>
          match rd_payload r1 with
          | Some (meta, exp :: r2) => of_write (doc_rid id) [(0, meta); (1, vec)] exp r2
          | _ => None
          end
      | None => None
      end
  | 21 :: id :: r =>
      match rd_payload r with
      | Some (meta, exp :: r1) =>
          match get_document s id with
          | Ok (_, vec) => of_write (doc_rid id) [(0, meta); (1, vec)] exp r1
          | _ => Some ([], r1)
          end
      | _ => None
      end
  | 22 :: id :: r =>
      match remove_document s id with
      | Ok (_, s') => Some ([tiles s'], r)
      | _ => Some ([], r)
      end
  | _ => None
  end.

(* ---------- one operation ---------- *)

Definition run_op (s : sf) (l : list N) : option (list N * sf * list N) :=
  match l with
  | 10 :: r =>
      match rd_bytes r with
      | Some (rid, n :: r1) =>
          match rd_streams (N.to_nat n) r1 [] with
          | Some (ss, exp :: r2) =>
              let (out, s') := show_mut 10 s (Ok (write_record s rid ss (exp_for s rid ss exp))) in
              Some (out, s', r2)
          | _ => None
          end
      | _ => None
      end
  | 11 :: r =>
      match rd_bytes r with
      | Some (rid, r1) =>
          let (out, s') := show_mut 11 s (bind (remove_record s rid) (fun x => Ok (Some x))) in
          Some (out, s', r1)
      | None => None
      end
  | 12 :: r =>
      match rd_bytes r with
      | Some (rid, r1) =>
          let out := match read_record s rid with
                     | Ok sp => [12; 0; sp_seq sp; blen (sp_rid sp); N.of_nat (length (sp_streams sp))]
                                ++ flat_map (fun st => [fst st; blen (snd st); hash_bytes (snd st)]) (sp_streams sp)
                     | Err => [12; 1]
                     | Panic => [12; 2]
                     end in
          Some (out, s, r1)
      | None => None
      end
  | 20 :: id :: r =>
      match rd_payload r with
      | Some (vec, r1) =>
          match rd_payload r1 with
          | Some (meta, exp :: r2) =>
              let ss := [(0, meta); (1, vec)] in
              let (out, s') := show_mut 20 s (Ok (add_document s id vec meta (exp_for s (doc_rid id) ss exp))) in
              Some (out, s', r2)
          | _ => None
          end
      | None => None
      end
  | 21 :: id :: r =>
      match rd_payload r with
      | Some (meta, exp :: r1) =>
          let e := match get_document s id with
                   | Ok (_, vec) => exp_for s (doc_rid id) [(0, meta); (1, vec)] exp
                   | _ => exp
                   end in
          let (out, s') := show_mut 21 s (update_document s id meta e) in
          Some (out, s', r1)
      | _ => None
      end
  | 22 :: id :: r =>
      let (out, s') := show_mut 22 s (bind (remove_document s id) (fun x => Ok (Some x))) in
      Some (out, s', r)
  | 23 :: id :: r =>
      let out := match get_document s id with
                 | Ok (meta, vec) => [23; 0; blen meta; hash_bytes meta; blen vec; hash_bytes vec]
                 | Err => [23; 1]
                 | Panic => [23; 2]
                 end in
      Some (out, s, r)
  | 24 :: r => let ids := all_ids s in Some (24 :: N.of_nat (length ids) :: ids, s, r)
  | 25 :: r => Some ([25; doc_count s], s, r)
  | 26 :: kind :: a :: b :: off :: lim :: r =>
      let out := match listing s (flt_of kind a b) off lim with
                 | Ok l => [26; 0; N.of_nat (length l)]
                           ++ flat_map (fun d => [fst d; blen (snd d); hash_bytes (snd d)]) l
                 | Err => [26; 1]
                 | Panic => [26; 2]
                 end in
      Some (out, s, r)
  | 30 :: _mode :: _ :: _ :: _ :: r =>
      match open_image (negb (_mode =? 2)) (flatten (tiles s)) with
      | Ok s' => Some ([30; 0], s', r)
      | Err => Some ([30; 1], s, r)
      | Panic => Some ([30; 2], s, r)
      end
  | 31 :: r => Some (31 :: show_state s, s, r)
  | 40 :: _ :: _ :: _ :: exp :: r =>
      match rd_bytes r with
      | Some (json, r1) =>
          let ss := [(0, json)] in
          let (out, s') := show_mut 40 s (Ok (write_record s [] ss (exp_for s [] ss exp))) in
          Some (out, s', r1)
      | None => None
      end
  | 41 :: r => Some ([41; 0], s, r)
  | 50 :: j :: r =>
      (* the next operation is cut after j storage steps; the file is then opened again (read-write) *)
      match stages_of s r with
      | Some (stages, r') =>
          let ts := match j with
                    | 0 => tiles s
                    | _ => match nth_error stages (N.to_nat j - 1) with
                           | Some t => t
                           | None => last stages (tiles s)
                           end
                    end in
          match open_image true (flatten ts) with
          | Ok s' => Some ([50; 0], s', r')
          | Err => Some ([50; 1], s, r')
          | Panic => Some ([50; 2], s, r')
          end
      | None => None
      end
  | 32 :: r => let img := flatten (tiles s) in Some ([32; blen img; hash_bytes img], s, r)
  | 60 :: mode :: coll :: n :: r =>
      (* damage: n patches (offset, xor mask) applied to the image, which is then opened again;
         a collection (coll = 1) also needs its options record "" to be readable *)
      match take_n (2 * N.to_nat n) r [] with
      | Some (ps, r') =>
          let img := patch_all (flatten (tiles s)) ps in
          match open_image (negb (mode =? 2)) img with
          | Ok s' =>
              if coll =? 1 then
                match read_record s' [] with
                | Ok _ => Some ([60; 0], s', r')
                | Err => Some ([60; 1], s, r')
                | Panic => Some ([60; 2], s, r')
                end
              else Some ([60; 0], s', r')
          | Err => Some ([60; 1], s, r')
          | Panic => Some ([60; 2], s, r')
          end
      | None => None
      end
  | _ => None
  end.

(* a collection opened read-only (mode 2): a write attempted through it faults in the mapping — the harness reports the
   panic — and the stored documents do not change; what the handle keeps in memory afterwards is not modelled *)
Definition mutating (l : list N) : bool :=
  match l with
  | c :: _ => (c =? 10) || (c =? 11) || (c =? 20) || (c =? 21) || (c =? 22)
  | [] => false
  end.

(* the storage steps as printed by show_steps: triples (kind, a, b); kind 1 = the file grows *)
Fixpoint has_growth (l : list N) : bool :=
  match l with
  | k :: _ :: _ :: r => (k =? 1) || has_growth r
  | _ => false
  end.

Definition mode_after (ro : bool) (l out : list N) : bool :=
  match l, out with
  | 30 :: mode :: _, [30; 0] => mode =? 2
  | 60 :: mode :: _, [60; 0] => mode =? 2
  | 50 :: _, _ => false
  | 40 :: _, _ => false
  | _, _ => ro
  end.

Fixpoint run_ops (fuel : nat) (ro : bool) (s : sf) (l : list N) (out_rev : list (list N)) : list (list N) :=
  match l with
  | [] => frev out_rev
  | _ =>
      match fuel with
      | O => frev ([999] :: out_rev)
      | S f =>
          match run_op s l with
          | Some (out, s', r) =>
              if ro && mutating l then
                match out with
                | code :: 0 :: _ :: steps =>
                    (* UpdateDocument hands back the error of the refused file growth; everything else faults in the mapping *)
                    run_ops f ro s r ([code; if (code =? 21) && has_growth steps then 1 else 2] :: out_rev)
                | code :: 0 :: _ => run_ops f ro s r ([code; 2] :: out_rev)
                | _ => run_ops f ro s r (out :: out_rev)
                end
              else run_ops f (mode_after ro l out) s' r (out :: out_rev)
          | None => frev ([998] :: out_rev)
          end
      end
  end.

Definition initial_sf : sf :=
  match open_image true initial_image with
  | Ok s => s
  | _ => {| tiles := []; nseq := 0 |}
  end.

(* engine 1: a history on a fresh span file.  Input and output are character codes. *)
Definition run_store (toks : list N) : list N :=
  flat_map show_line (run_ops (length toks) false initial_sf toks []).

Definition oracle_main (input : list N) : list N :=
  match tokenize input None [] with
  | 1 :: toks => run_store toks
  | _ => show_line [997]
  end.

(* ---------- engine 2: filters ---------- *)
From Syz Require Import QEval.

Fixpoint rd_jv (fuel : nat) (l : list N) : option (jv * list N) :=
  match fuel with
  | O => None
  | S f =>
      match l with
      | 0 :: r => Some (JNull, r)
      | 1 :: b :: r => Some (JBool (negb (b =? 0)), r)
      | 2 :: bits :: r => Some (JNum bits, r)
      | 3 :: r => match rd_bytes r with Some (s, r') => Some (JStr s, r') | None => None end
      | 4 :: n :: r =>
          (fix go (k : nat) (r : list N) (acc : list jv) : option (jv * list N) :=
             match k with
             | O => Some (JArr (frev acc), r)
             | S k' => match rd_jv f r with Some (v, r') => go k' r' (v :: acc) | None => None end
             end) (N.to_nat n) r []
      | 5 :: n :: r =>
          (fix go (k : nat) (r : list N) (acc : list (bytes * jv)) : option (jv * list N) :=
             match k with
             | O => Some (JObj (frev acc), r)
             | S k' =>
                 match rd_bytes r with
                 | Some (key, r1) =>
                     match rd_jv f r1 with Some (v, r') => go k' r' ((key, v) :: acc) | None => None end
                 | None => None
                 end
             end) (N.to_nat n) r []
      | _ => None
      end
  end.

Fixpoint rd_pf_table (n : nat) (l : list N) (acc : list (bytes * option N)) : option (list (bytes * option N) * list N) :=
  match n with
  | O => Some (acc, l)
  | S k =>
      match rd_bytes l with
      | Some (lit, ok :: bits :: r) => rd_pf_table k r ((lit, if ok =? 0 then None else Some bits) :: acc)
      | _ => None
      end
  end.

Fixpoint rd_re_table (n : nat) (l : list N) (acc : list (bytes * bytes * option bool))
  : option (list (bytes * bytes * option bool) * list N) :=
  match n with
  | O => Some (acc, l)
  | S k =>
      match rd_bytes l with
      | Some (pat, r1) =>
          match rd_bytes r1 with
          | Some (subj, res :: r2) =>
              rd_re_table k r2 ((pat, subj, if res =? 2 then None else Some (res =? 1)) :: acc)
          | _ => None
          end
      | None => None
      end
  end.

Definition pf_of (tbl : list (bytes * option N)) (lit : bytes) : option N :=
  match find (fun e => bytes_eqb (fst e) lit) tbl with Some (_, v) => v | None => None end.

Definition re_of (tbl : list (bytes * bytes * option bool)) (pat subj : bytes) : option bool :=
  match find (fun e => bytes_eqb (fst (fst e)) pat && bytes_eqb (snd (fst e)) subj) tbl with
  | Some (_, v) => v
  | None => None
  end.

Fixpoint rd_docs (n : nat) (l : list N) (acc : list (option jv)) : option (list (option jv) * list N) :=
  match n with
  | O => Some (frev acc, l)
  | S k =>
      match l with
      | 0 :: r => rd_docs k r (None :: acc)
      | 1 :: r => match rd_jv 200 r with Some (v, r') => rd_docs k r' (Some v :: acc) | None => None end
      | _ => None
      end
  end.

Definition show_lit (v : lit) : list N :=
  match v with
  | LNull => [0]
  | LBool b => [1; if b then 1 else 0]
  | LNum n => [2; n]
  | LStr s => 3 :: blen s :: s
  end.

Fixpoint show_node (n : node) : list N :=
  match n with
  | NExpr op l r =>
      1 :: blen op :: op ++ (match l with Some ln => 1 :: show_node ln | None => [0] end) ++ show_node r
  | NIdent name => 2 :: blen name :: name
  | NVal v => 3 :: show_lit v
  | NFunc name args => 4 :: blen name :: name ++ N.of_nat (length args) :: flat_map show_node args
  | NParam name => 5 :: blen name :: name
  | NArr els => 6 :: N.of_nat (length els) :: flat_map show_node els
  end.

Definition run_filter (toks : list N) : list N :=
  match rd_bytes toks with
  | Some (text, npf :: r1) =>
      match rd_pf_table (N.to_nat npf) r1 [] with
      | Some (pft, nre :: r2) =>
          match rd_re_table (N.to_nat nre) r2 [] with
          | Some (ret, nd :: r3) =>
              match rd_docs (N.to_nat nd) r3 [] with
              | Some (docs, _) =>
                  let toks_line :=
                      match lex_all (S (length text)) text with
                      | Some ts => 1 :: N.of_nat (length ts)
                                   :: flat_map (fun t => ttype_code (ttyp t) :: blen (tlit t) :: tlit t) ts
                      | None => [1; 999]
                      end in
                  let ast := parse (pf_of pft) text in
                  let ast_line :=
                      match ast with
                      | POk n => 2 :: 0 :: show_node n
                      | PErr => [2; 1]
                      | PFuel => [2; 3]
                      end in
                  let verdict_line :=
                      match ast with
                      | POk n => 3 :: N.of_nat (length docs)
                                 :: map (fun d => match apply_filter (re_of ret) n d with
                                                  | Some true => 1 | Some false => 0 | None => 2 end) docs
                      | _ => [3; 9]
                      end in
                  show_line toks_line ++ show_line ast_line ++ show_line verdict_line
              | None => show_line [996]
              end
          | _ => show_line [996]
          end
      | _ => show_line [996]
      end
  | _ => show_line [996]
  end.

Definition oracle_main2 (input : list N) : list N :=
  match tokenize input None [] with
  | 1 :: toks => run_store toks
  | 2 :: toks => run_filter toks
  | _ => show_line [997]
  end.

(* batch: 3 ncases {count tokens...}: each case is a complete engine input *)
Fixpoint run_batch (n : nat) (l : list N) (acc : list N) : list N :=
  match n with
  | O => acc
  | S k =>
      match l with
      | cnt :: r =>
          match take_n (N.to_nat cnt) r [] with
          | Some (case, r') =>
              let out := match case with
                         | 1 :: toks => run_store toks
                         | 2 :: toks => run_filter toks
                         | _ => show_line [997]
                         end in
              run_batch k r' (acc ++ out ++ show_line [777])
          | None => acc ++ show_line [995]
          end
      | [] => acc ++ show_line [995]
      end
  end.

Definition oracle_main3 (input : list N) : list N :=
  match tokenize input None [] with
  | 1 :: toks => run_store toks
  | 2 :: toks => run_filter toks
  | 3 :: n :: toks => run_batch (N.to_nat n) toks []
  | _ => show_line [997]
  end.

(* ---------- engine 4: collection file names ---------- *)
From Syz Require Import PathClean.

Definition run_path (toks : list N) : list N :=
  match rd_bytes toks with
  | Some (df, r) =>
      match rd_bytes r with
      | Some (name, _) =>
          let p := collection_file df name in
          show_line ((if valid_name name then 1 else 0) :: blen p :: p)
      | None => show_line [996]
      end
  | None => show_line [996]
  end.

Fixpoint run_batch4 (n : nat) (l : list N) (acc : list N) : list N :=
  match n with
  | O => acc
  | S k =>
      match l with
      | cnt :: r =>
          match take_n (N.to_nat cnt) r [] with
          | Some (case, r') =>
              let out := match case with
                         | 1 :: toks => run_store toks
                         | 2 :: toks => run_filter toks
                         | 4 :: toks => run_path toks
                         | _ => show_line [997]
                         end in
              run_batch4 k r' (acc ++ out ++ show_line [777])
          | None => acc ++ show_line [995]
          end
      | [] => acc ++ show_line [995]
      end
  end.

Definition oracle_main4 (input : list N) : list N :=
  match tokenize input None [] with
  | 1 :: toks => run_store toks
  | 2 :: toks => run_filter toks
  | 3 :: n :: toks => run_batch4 (N.to_nat n) toks []
  | 4 :: toks => run_path toks
  | _ => show_line [997]
  end.
