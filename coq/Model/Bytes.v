(* Bytes.v — byte strings as lists of N, big-endian words, results with Go panics as values.
   Executable definitions only (no proofs). *)
From Coq Require Export NArith List Bool.
Export ListNotations.
Open Scope N_scope.

Definition bytes := list N.

Definition blen (b : bytes) : N := N.of_nat (length b).

(* Go results: a value, an ordinary error, or a run-time panic *)
Inductive res (A : Type) : Type :=
| Ok (a : A)
| Err
| Panic.
Arguments Ok {A} a.
Arguments Err {A}.
Arguments Panic {A}.

Definition bind {A B} (r : res A) (f : A -> res B) : res B :=
  match r with Ok a => f a | Err => Err | Panic => Panic end.

Definition be32 (n : N) : bytes :=
  [ (n / 16777216) mod 256; (n / 65536) mod 256; (n / 256) mod 256; n mod 256 ].

(* first four bytes of a list as a big-endian word *)
Definition rd32 (b : bytes) : option N :=
  match b with
  | a :: b :: c :: d :: _ => Some (((a * 256 + b) * 256 + c) * 256 + d)
  | _ => None
  end.

Fixpoint zeros (n : nat) : bytes :=
  match n with O => [] | S k => 0 :: zeros k end.

(* n-fold repeat usable with large N counts without building a unary nat from a literal *)
Definition nzeros (n : N) : bytes := zeros (N.to_nat n).

Fixpoint bytes_eqb (a b : bytes) : bool :=
  match a, b with
  | [], [] => true
  | x :: a', y :: b' => (x =? y) && bytes_eqb a' b'
  | _, _ => false
  end.

(* deterministic payload generator shared with the harness:
   byte i of payload (seed, len) is (seed*31 + i*7 + i/251) mod 256 *)
Fixpoint gen_from (seed : N) (i : N) (n : nat) : bytes :=
  match n with
  | O => []
  | S k => ((seed * 31 + i * 7 + i / 251) mod 256) :: gen_from seed (i + 1) k
  end.
Definition gen_bytes (seed len : N) : bytes := gen_from seed 0 (N.to_nat len).

(* decimal digits of n (ASCII codes), as fmt.Sprintf("%d") prints a uint64 *)
Fixpoint dec_fuel (fuel : nat) (n : N) (acc : bytes) : bytes :=
  match fuel with
  | O => acc
  | S f => let acc' := (48 + n mod 10) :: acc in
           if n <? 10 then acc' else dec_fuel f (n / 10) acc'
  end.
Definition dec_string (n : N) : bytes := dec_fuel 40 n [].

(* lexicographic comparison of byte strings (Go string <) *)
Fixpoint bytes_ltb (a b : bytes) : bool :=
  match a, b with
  | [], [] => false
  | [], _ :: _ => true
  | _ :: _, [] => false
  | x :: a', y :: b' => if x <? y then true else if y <? x then false else bytes_ltb a' b'
  end.
