(* Alias.v — provenance of the byte slices handed out by a collection (C11).
   collection.go/spanfile.go hand out []byte values; such a value is either a private
   copy or a window into the file mapping (mmapData).  The mapping is replaced when the
   file grows (appendToFile unmaps and remaps) and disappears on Close.
   Executable definitions only. *)
From Coq Require Import List NArith Arith Bool.
Import ListNotations.

Inductive value :=
| Copy (bs : list N)                   (* private memory of the caller *)
| View (gen : nat) (off len : nat).    (* window [off, off+len) of mapping number gen *)

Record mem := { m_gen : nat; m_open : bool; m_img : list N }.

Inductive obs := Bytes (bs : list N) | Fault.

Definition slice (off len : nat) (l : list N) : list N := firstn len (skipn off l).

(* reading a value later *)
Definition observe (m : mem) (v : value) : obs :=
  match v with
  | Copy bs => Bytes bs
  | View g off len =>
      if m_open m && Nat.eqb g (m_gen m) && Nat.leb (off + len) (length (m_img m))
      then Bytes (slice off len (m_img m)) else Fault
  end.

(* what later operations do to the mapping *)
Inductive mop :=
| MWrite (off : nat) (bs : list N)    (* writeAt / markSpanAsFreed: bytes of the mapping overwritten in place *)
| MGrow (extra : list N)              (* appendToFile: unmap, extend, map again *)
| MClose                              (* Close: unmap *)
| MReopen (img : list N).             (* a new mapping of the file *)

Definition splice (off : nat) (bs l : list N) : list N :=
  firstn off l ++ bs ++ skipn (off + length bs) l.

Definition mstep (m : mem) (o : mop) : mem :=
  match o with
  | MWrite off bs =>
      if m_open m && Nat.leb (off + length bs) (length (m_img m))
      then {| m_gen := m_gen m; m_open := true; m_img := splice off bs (m_img m) |} else m
  | MGrow extra => if m_open m then {| m_gen := S (m_gen m); m_open := true; m_img := m_img m ++ extra |} else m
  | MClose => {| m_gen := S (m_gen m); m_open := false; m_img := m_img m |}
  | MReopen img => {| m_gen := S (m_gen m); m_open := true; m_img := img |}
  end.

Definition mrun (m : mem) (h : list mop) : mem := fold_left mstep h m.

(* the places where the collection hands bytes to its caller *)
Inductive site :=
| SGetMeta       (* GetDocument: Document.Metadata *)
| SGetVec        (* GetDocument: Document.Vector (decodeVector allocates) *)
| SExactMeta     (* Search, exact: SearchResult.Metadata *)
| SApproxMeta    (* Search, default precision: SearchResult.Metadata *)
| SListMeta.     (* Search, listing branch: SearchResult.Metadata *)

(* the current code: every site copies (getDocument copies the metadata, the listing branch copies
   what it keeps).  This table is what the address check of the harness validates on every run. *)
Definition ret_current (s : site) (m : mem) (off len : nat) : value :=
  Copy (slice off len (m_img m)).

(* the pinned tree: metadata were windows of the mapping *)
Definition ret_pinned (s : site) (m : mem) (off len : nat) : value :=
  match s with
  | SGetVec => Copy (slice off len (m_img m))
  | _ => View (m_gen m) off len
  end.

(* ---- the other direction: what the collection keeps of the slices its caller passes in (vector, metadata).
   AddDocument/UpdateDocument encode the document into the mapping before they return (encodeDocument, writeAt);
   Search reads the query vector during the call only.  A kept value is either a private copy or the caller's
   slice itself; the caller may re-use its buffers at any time after the call has returned. ---- *)
Inductive kept :=
| KCopy (bs : list N)      (* the bytes as they were when the call was made *)
| KRef (buf : nat).        (* the caller's slice number buf, retained *)

Definition cmem := list (list N).      (* the caller's buffers *)

Definition kobserve (c : cmem) (k : kept) : list N :=
  match k with KCopy bs => bs | KRef i => nth i c [] end.

Fixpoint set_nth (i : nat) (x : list N) (c : cmem) : cmem :=
  match c, i with
  | [], _ => []
  | _ :: c', O => x :: c'
  | y :: c', S i' => y :: set_nth i' x c'
  end.

(* the caller overwrites part of one of its buffers *)
Inductive cop := CWrite (buf off : nat) (bs : list N).

Definition cstep (c : cmem) (o : cop) : cmem :=
  match o with CWrite i off bs => set_nth i (splice off bs (nth i c [])) c end.

Definition crun (c : cmem) (h : list cop) : cmem := fold_left cstep h c.

(* the current code: what is stored is a copy made during the call (validated by the harness: after the call the
   caller's buffers are overwritten and the collection is re-read; no stored or returned slice shares their memory) *)
Definition keep_current (c : cmem) (i : nat) : kept := KCopy (nth i c []).
(* the alternative that the property excludes *)
Definition keep_ref (c : cmem) (i : nat) : kept := KRef i.

(* collection and caller side by side: operations of the collection act on the mapping only *)
Definition joint_step (st : mem * cmem) (o : mop + cop) : mem * cmem :=
  match o with inl mo => (mstep (fst st) mo, snd st) | inr co => (fst st, cstep (snd st) co) end.
Definition joint_run (st : mem * cmem) (h : list (mop + cop)) : mem * cmem := fold_left joint_step h st.
