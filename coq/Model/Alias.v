(* Alias.v — provenance of the byte slices handed out by a collection (C11).
   collection.go/spanfile.go hand out []byte values; such a value is either a private
   copy or a window into the file mapping (mmapData).  The mapping is replaced when the
   file grows (appendToFile unmaps and remaps) and disappears on Close.
   Executable definitions only. *)
From Coq Require Import List NArith Arith Bool.
Import ListNotations.

Inductive value :=
| Copy (bs : list N)                   (* private memory of the caller *)
| View (gen : nat) (off len : nat).    (* window [off, off+len) of mapping number gen *)

Record mem := { m_gen : nat; m_open : bool; m_img : list N }.

Inductive obs := Bytes (bs : list N) | Fault.

Definition slice (off len : nat) (l : list N) : list N := firstn len (skipn off l).

(* reading a value later *)
Definition observe (m : mem) (v : value) : obs :=
  match v with
  | Copy bs => Bytes bs
  | View g off len =>
      if m_open m && Nat.eqb g (m_gen m) && Nat.leb (off + len) (length (m_img m))
      then Bytes (slice off len (m_img m)) else Fault
  end.

(* what later operations do to the mapping *)
Inductive mop :=
| MWrite (off : nat) (bs : list N)    (* writeAt / markSpanAsFreed: bytes of the mapping overwritten in place *)
| MGrow (extra : list N)              (* appendToFile: unmap, extend, map again *)
| MClose                              (* Close: unmap *)
| MReopen (img : list N).             (* a new mapping of the file *)

Definition splice (off : nat) (bs l : list N) : list N :=
  firstn off l ++ bs ++ skipn (off + length bs) l.

Definition mstep (m : mem) (o : mop) : mem :=
  match o with
  | MWrite off bs =>
      if m_open m && Nat.leb (off + length bs) (length (m_img m))
      then {| m_gen := m_gen m; m_open := true; m_img := splice off bs (m_img m) |} else m
  | MGrow extra => if m_open m then {| m_gen := S (m_gen m); m_open := true; m_img := m_img m ++ extra |} else m
  | MClose => {| m_gen := S (m_gen m); m_open := false; m_img := m_img m |}
  | MReopen img => {| m_gen := S (m_gen m); m_open := true; m_img := img |}
  end.

Definition mrun (m : mem) (h : list mop) : mem := fold_left mstep h m.

(* the places where the collection hands bytes to its caller *)
Inductive site :=
| SGetMeta       (* GetDocument: Document.Metadata *)
| SGetVec        (* GetDocument: Document.Vector (decodeVector allocates) *)
| SExactMeta     (* Search, exact: SearchResult.Metadata *)
| SApproxMeta    (* Search, default precision: SearchResult.Metadata *)
| SListMeta.     (* Search, listing branch: SearchResult.Metadata *)

(* the current code: every site copies (getDocument copies the metadata, the listing branch copies
   what it keeps).  This table is what the address check of the harness validates on every run. *)
Definition ret_current (s : site) (m : mem) (off len : nat) : value :=
  Copy (slice off len (m_img m)).

(* the pinned tree: metadata were windows of the mapping *)
Definition ret_pinned (s : site) (m : mem) (off len : nat) : value :=
  match s with
  | SGetVec => Copy (slice off len (m_img m))
  | _ => View (m_gen m) off len
  end.
