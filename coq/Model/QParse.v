(* QParse.v — query/parser.go: recursive descent with two tokens of look-ahead.
   Explicit fuel; running out of fuel is its own result so that theorems can exclude it.
   Executable definitions only. *)
From Syz Require Export QLex.
Open Scope N_scope.

Inductive lit : Type := LNull | LBool (b : bool) | LNum (bits : N) | LStr (s : bytes).

Inductive node : Type :=
| NExpr (op : bytes) (l : option node) (r : node)
| NIdent (name : bytes)
| NVal (v : lit)
| NFunc (name : bytes) (args : list node)
| NParam (name : bytes)
| NArr (els : list node).

Inductive pres (A : Type) : Type := POk (a : A) | PErr | PFuel.
Arguments POk {A} a.
Arguments PErr {A}.
Arguments PFuel {A}.

Definition pbind {A B} (r : pres A) (f : A -> pres B) : pres B :=
  match r with POk a => f a | PErr => PErr | PFuel => PFuel end.

(* parser state: current token, peek token, remaining input *)
Record pst := { cur : token; pk : token; inp : bytes }.

Definition advance (s : pst) : pst :=
  let (t, r) := next_token (inp s) in {| cur := pk s; pk := t; inp := r |}.

Definition init_pst (input : bytes) : pst :=
  let z := {| ttyp := TIdent; tlit := [] |} in
  advance (advance {| cur := z; pk := z; inp := input |}).

Definition cur_is (s : pst) (t : ttype) : bool := ttype_eqb (ttyp (cur s)) t.

Definition is_cmp_op (t : ttype) : bool :=
  match t with
  | TEq | TNe | TGt | TGe | TLt | TLe | TIN | TNOTIN | TCONTAINS | TSW | TEW | TMATCHES | TEXISTS | TDNE => true
  | _ => false
  end.

(* ASCII operator names *)
Definition s_OR : bytes := [79; 82].
Definition s_AND : bytes := [65; 78; 68].
Definition s_IN : bytes := [73; 78].
Definition s_NOT_IN : bytes := [78; 79; 84; 95; 73; 78].
Definition s_EXISTS : bytes := [69; 88; 73; 83; 84; 83].
Definition s_DOES_NOT_EXIST : bytes := [68; 79; 69; 83; 95; 78; 79; 84; 95; 69; 88; 73; 83; 84].
Definition s_DOT : bytes := [46].
Definition s_IDX : bytes := [91; 93].
Definition s_true : bytes := [116; 114; 117; 101].

Section Parser.
(* strconv.ParseFloat on a number literal: the 64-bit pattern, or None for an error *)
Variable parse_float : bytes -> option N.

Definition p_number (s : pst) : pres (node * pst) :=
  match parse_float (tlit (cur s)) with
  | Some b => POk (NVal (LNum b), advance s)
  | None => PErr
  end.

Definition p_array_elem (s : pst) : pres (node * pst) :=
  match ttyp (cur s) with
  | TNumber => p_number s
  | TString => POk (NVal (LStr (tlit (cur s))), advance s)
  | _ => PErr
  end.

(* (',' elem)* *)
Fixpoint p_array_rest (fuel : nat) (s : pst) (acc_rev : list node) : pres (list node * pst) :=
  match fuel with
  | O => PFuel
  | S f =>
      if cur_is s TComma then
        pbind (p_array_elem (advance s)) (fun r => p_array_rest f (snd r) (fst r :: acc_rev))
      else POk (rev acc_rev, s)
  end.

(* parseArrayLiteral: current token is '[' *)
Definition p_array_lit (fuel : nat) (s : pst) : pres (node * pst) :=
  let s1 := advance s in
  pbind (if cur_is s1 TRBracket then POk ([], s1)
         else pbind (p_array_elem s1) (fun r => p_array_rest fuel (snd r) [fst r]))
        (fun r => if cur_is (snd r) TRBracket then POk (NArr (fst r), advance (snd r)) else PErr).

Definition p_in (fuel : nat) (expr : node) (s : pst) : pres (node * pst) :=
  let was_not := cur_is s TNot in
  let s1 := advance s in
  let notin := was_not && cur_is s1 TIN in
  let s2 := if notin then advance s1 else s1 in
  if cur_is s2 TLBracket then
    pbind (p_array_lit fuel s2) (fun r =>
      POk (NExpr (if notin then s_NOT_IN else s_IN) (Some expr) (fst r), snd r))
  else PErr.

Fixpoint p_or (fuel : nat) (s : pst) : pres (node * pst) :=
  match fuel with
  | O => PFuel
  | S f => pbind (p_and f s) (fun r => p_or_rest f (fst r) (snd r))
  end
with p_or_rest (fuel : nat) (left : node) (s : pst) : pres (node * pst) :=
  match fuel with
  | O => PFuel
  | S f =>
      if cur_is s TOr then
        pbind (p_and f (advance s)) (fun r => p_or_rest f (NExpr s_OR (Some left) (fst r)) (snd r))
      else POk (left, s)
  end
with p_and (fuel : nat) (s : pst) : pres (node * pst) :=
  match fuel with
  | O => PFuel
  | S f => pbind (p_cmp f s) (fun r => p_and_rest f (fst r) (snd r))
  end
with p_and_rest (fuel : nat) (left : node) (s : pst) : pres (node * pst) :=
  match fuel with
  | O => PFuel
  | S f =>
      if cur_is s TAnd then
        pbind (p_cmp f (advance s)) (fun r => p_and_rest f (NExpr s_AND (Some left) (fst r)) (snd r))
      else POk (left, s)
  end
with p_cmp (fuel : nat) (s : pst) : pres (node * pst) :=
  match fuel with
  | O => PFuel
  | S f =>
      pbind (p_not f s) (fun r =>
        let s1 := snd r in
        if is_cmp_op (ttyp (cur s1)) then
          pbind (p_not f (advance s1)) (fun r2 =>
            POk (NExpr (tlit (cur s1)) (Some (fst r)) (fst r2), snd r2))
        else POk r)
  end
with p_not (fuel : nat) (s : pst) : pres (node * pst) :=
  match fuel with
  | O => PFuel
  | S f =>
      if cur_is s TNot then
        pbind (p_primary f (advance s)) (fun r => POk (NExpr s_NOT None (fst r), snd r))
      else p_primary f s
  end
with p_primary (fuel : nat) (s : pst) : pres (node * pst) :=
  match fuel with
  | O => PFuel
  | S f =>
      match ttyp (cur s) with
      | TIdent => p_ident_or_func f s
      | TNumber => p_number s
      | TString => POk (NVal (LStr (tlit (cur s))), advance s)
      | TBool => POk (NVal (LBool (bytes_eqb (tlit (cur s)) s_true)), advance s)
      | TNull => POk (NVal LNull, advance s)
      | TLParen =>
          pbind (p_or f (advance s)) (fun r =>
            if cur_is (snd r) TRParen then POk (fst r, advance (snd r)) else PErr)
      | TLBracket => p_array_lit f s
      | TColon =>
          let s1 := advance s in
          if cur_is s1 TIdent then POk (NParam (tlit (cur s1)), advance s1) else PErr
      | _ => PErr
      end
  end
with p_ident_or_func (fuel : nat) (s : pst) : pres (node * pst) :=
  match fuel with
  | O => PFuel
  | S f =>
      (* parseIdentifier: the caller guarantees an identifier token *)
      let name := tlit (cur s) in
      pbind (p_path f (NIdent name) (advance s)) (fun r =>
        let expr := fst r in
        let s1 := snd r in
        if cur_is s1 TIN || cur_is s1 TNot then p_in f expr s1
        else if cur_is s1 TLParen then
          match expr with
          | NIdent fname =>
              let s2 := advance s1 in
              pbind (if cur_is s2 TRParen then POk ([], s2)
                     else pbind (p_or f s2) (fun a => p_args f (snd a) [fst a]))
                    (fun a => if cur_is (snd a) TRParen then POk (NFunc fname (fst a), advance (snd a)) else PErr)
          | _ => PErr
          end
        else if cur_is s1 TEXISTS then POk (NFunc s_EXISTS [expr], advance s1)
        else if cur_is s1 TDNE then POk (NFunc s_DOES_NOT_EXIST [expr], advance s1)
        else POk (expr, s1))
  end
with p_path (fuel : nat) (expr : node) (s : pst) : pres (node * pst) :=
  match fuel with
  | O => PFuel
  | S f =>
      if cur_is s TLBracket then
        pbind (p_or f (advance s)) (fun r =>
          if cur_is (snd r) TRBracket
          then p_path f (NExpr s_IDX (Some expr) (fst r)) (advance (snd r))
          else PErr)
      else if cur_is s TDot then
        let s1 := advance s in
        if cur_is s1 TIdent
        then p_path f (NExpr s_DOT (Some expr) (NIdent (tlit (cur s1)))) (advance s1)
        else PErr
      else POk (expr, s)
  end
with p_args (fuel : nat) (s : pst) (acc_rev : list node) : pres (list node * pst) :=
  match fuel with
  | O => PFuel
  | S f =>
      if cur_is s TComma then
        pbind (p_or f (advance s)) (fun r => p_args f (snd r) (fst r :: acc_rev))
      else POk (rev acc_rev, s)
  end.

(* Parser.Parse: one expression, then the end of the input *)
Definition parse_with_fuel (fuel : nat) (input : bytes) : pres node :=
  pbind (p_or fuel (init_pst input)) (fun r =>
    if cur_is (snd r) TEOF then POk (fst r) else PErr).

(* each recursive call consumes fuel; every loop iteration and every nesting level consumes a
   token, so a small multiple of the input length is enough *)
Definition parse (input : bytes) : pres node :=
  parse_with_fuel (12 * length input + 40) input.
End Parser.
