(* Crc.v — hash/crc32 IEEE (reflected, polynomial 0xEDB88320), bit-serial. *)
From Syz Require Export Bytes.
Open Scope N_scope.

Definition poly : N := 0xEDB88320.

(* one bit of input: register r (32 bits), input bit b *)
Definition crc_bit (r : N) (b : bool) : N :=
  let x := xorb (N.odd r) b in
  let r' := N.div2 r in
  if x then N.lxor r' poly else r'.

Definition crc_byte (r : N) (d : N) : N :=
  let r := crc_bit r (N.testbit d 0) in
  let r := crc_bit r (N.testbit d 1) in
  let r := crc_bit r (N.testbit d 2) in
  let r := crc_bit r (N.testbit d 3) in
  let r := crc_bit r (N.testbit d 4) in
  let r := crc_bit r (N.testbit d 5) in
  let r := crc_bit r (N.testbit d 6) in
  crc_bit r (N.testbit d 7).

Definition crc_update (r : N) (bs : bytes) : N := fold_left crc_byte bs r.

Definition crc32 (bs : bytes) : N := N.lxor (crc_update 0xFFFFFFFF bs) 0xFFFFFFFF.
