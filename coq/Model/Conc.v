(* Conc.v — the locking discipline of the library (C10).
   Part 1: a static check of the lock table regenerated from the Go sources (Gen/LockTable.v):
           every control-flow path of every function, with callees inlined, acquires mutexes in
           strictly increasing rank, never re-acquires one it holds (read locks included), and
           releases everything; the public Collection methods take Collection.mutex exactly once,
           mutators exclusively.
   Part 2: a small-step semantics of threads running such paths under Go's RWMutex rules
           (a pending writer blocks new readers).
   Executable definitions only. *)
From Coq Require Import List Arith Bool.
From Syz Require Import LockTable.
Import ListNotations.

Inductive mode := R | W.
Definition mode_eqb (a b : mode) : bool := match a, b with R, R | W, W => true | _, _ => false end.

Inductive act := Acq (m : nat) (md : mode) | Rel (m : nat) (md : mode).
Definition prog := list act.

(* ---------- Part 1: from the generated table to programs ---------- *)
Fixpoint lookup_fn (t : list (nat * String.string * list (list ev))) (f : nat) : list (list ev) :=
  match t with
  | [] => []
  | (i, _, ps) :: r => if Nat.eqb i f then ps else lookup_fn r f
  end.

(* one function path -> its own actions; deferred unlocks run when the function returns *)
Fixpoint deferred (p : list ev) : list act :=
  match p with
  | [] => []
  | DUnlock m :: r => deferred r ++ [Rel m W]
  | DRUnlock m :: r => deferred r ++ [Rel m R]
  | _ :: r => deferred r
  end.

(* all programs of function f: cartesian product over the callees' programs; None = out of fuel *)
Fixpoint cross (a b : list prog) : list prog := flat_map (fun x => map (fun y => x ++ y) b) a.

Fixpoint expand (t : list (nat * String.string * list (list ev))) (fuel : nat) (f : nat) : option (list prog) :=
  match fuel with
  | O => None
  | S k =>
      let expand_path := fix go (p : list ev) : option (list prog) :=
        match p with
        | [] => Some [[]]
        | e :: r =>
            match go r with
            | None => None
            | Some rest =>
                match e with
                | Lock m => Some (map (fun x => Acq m W :: x) rest)
                | RLock m => Some (map (fun x => Acq m R :: x) rest)
                | Unlock m => Some (map (fun x => Rel m W :: x) rest)
                | RUnlock m => Some (map (fun x => Rel m R :: x) rest)
                | DUnlock _ | DRUnlock _ | GoBegin | GoEnd => Some rest
                | Call g => match expand t k g with Some ps => Some (cross ps rest) | None => None end
                end
            end
        end in
      (fix paths (ps : list (list ev)) : option (list prog) :=
         match ps with
         | [] => Some []
         | p :: r =>
             match expand_path p, paths r with
             | Some a, Some b => Some (map (fun x => x ++ deferred p) a ++ b)
             | _, _ => None
             end
         end) (lookup_fn t f)
  end.

(* well-ranked: acquire only mutexes of rank above everything held (hence never one already held), release
   only what is held in that mode, hold nothing at the end *)
Definition held := list (nat * mode).
Fixpoint remove_held (m : nat) (md : mode) (h : held) : option held :=
  match h with
  | [] => None
  | (m', md') :: r => if Nat.eqb m m' && mode_eqb md md' then Some r
                      else match remove_held m md r with Some r' => Some ((m', md') :: r') | None => None end
  end.

Fixpoint wrb (h : held) (p : prog) : bool :=
  match p with
  | [] => match h with [] => true | _ => false end
  | Acq m md :: r => forallb (fun x => Nat.ltb (fst x) m) h && wrb ((m, md) :: h) r
  | Rel m md :: r => match remove_held m md h with Some h' => wrb h' r | None => false end
  end.

Definition starts_with (a : act) (p : prog) : bool :=
  match p, a with
  | Acq m md :: _, Acq m' md' => Nat.eqb m m' && mode_eqb md md'
  | _, _ => false
  end.
Definition count_acq (m : nat) (p : prog) : nat :=
  length (filter (fun a => match a with Acq m' _ => Nat.eqb m m' | _ => false end) p).
Definition ends_with (a : act) (p : prog) : bool :=
  match rev p, a with
  | Rel m md :: _, Rel m' md' => Nat.eqb m m' && mode_eqb md md'
  | _, _ => false
  end.

Definition fuel0 : nat := 12.
Definition all_functions (t : list (nat * String.string * list (list ev))) : list nat := map (fun x => fst (fst x)) t.

Definition progs_of (t : list (nat * String.string * list (list ev))) (f : nat) : list prog :=
  match expand t fuel0 f with Some ps => ps | None => [[Acq 0 W; Acq 0 W]] (* poisoned: fails every check *) end.

(* the Collection mutex *)
Definition cm : nat := 2.

Definition api_ok (t : list (nat * String.string * list (list ev))) (f : nat) : bool :=
  forallb (fun p => (starts_with (Acq cm R) p || starts_with (Acq cm W) p) && Nat.eqb (count_acq cm p) 1
                    && (ends_with (Rel cm R) p || ends_with (Rel cm W) p)) (progs_of t f).
Definition mutator_ok (t : list (nat * String.string * list (list ev))) (f : nat) : bool :=
  forallb (fun p => starts_with (Acq cm W) p && ends_with (Rel cm W) p) (progs_of t f).

Definition table_ok (t : list (nat * String.string * list (list ev))) : bool :=
  forallb (fun f => match expand t fuel0 f with Some ps => forallb (wrb []) ps | None => false end) (all_functions t)
  && forallb (api_ok t) collection_api
  && forallb (mutator_ok t) collection_mutators.

(* ---------- Part 2: threads under RWMutex semantics ---------- *)
Record thread := { t_held : held; t_rest : prog; t_announced : bool }.
Definition sys := list thread.

Definition holds (m : nat) (th : thread) : bool := existsb (fun x => Nat.eqb (fst x) m) (t_held th).
Definition holds_w (m : nat) (th : thread) : bool := existsb (fun x => Nat.eqb (fst x) m && mode_eqb (snd x) W) (t_held th).
Definition pending_w (m : nat) (th : thread) : bool :=
  t_announced th && match t_rest th with Acq m' W :: _ => Nat.eqb m m' | _ => false end.

(* can thread th (one of s) take its next step? *)
Definition enabled (s : sys) (th : thread) : bool :=
  match t_rest th with
  | [] => false
  | Rel _ _ :: _ => true
  | Acq m R :: _ => negb (existsb (holds_w m) s) && negb (existsb (pending_w m) s)
  | Acq m W :: _ => if t_announced th then negb (existsb (holds m) s) else true
  end.

Definition step_thread (th : thread) : thread :=
  match t_rest th with
  | [] => th
  | Rel m md :: r => {| t_held := match remove_held m md (t_held th) with Some h => h | None => t_held th end; t_rest := r; t_announced := false |}
  | Acq m R :: r => {| t_held := (m, R) :: t_held th; t_rest := r; t_announced := false |}
  | Acq m W :: r => if t_announced th then {| t_held := (m, W) :: t_held th; t_rest := r; t_announced := false |}
                    else {| t_held := t_held th; t_rest := Acq m W :: r; t_announced := true |}
  end.

(* the system step: thread number i moves, if it is enabled *)
Fixpoint step_at (s_all : sys) (s : sys) (i : nat) : option sys :=
  match s, i with
  | [], _ => None
  | th :: r, O => if enabled s_all th then Some (step_thread th :: r) else None
  | th :: r, S k => match step_at s_all r k with Some r' => Some (th :: r') | None => None end
  end.
Definition step (s : sys) (i : nat) : option sys := step_at s s i.

Definition done (s : sys) : bool := forallb (fun th => match t_rest th with [] => true | _ => false end) s.
Definition start (ps : list prog) : sys := map (fun p => {| t_held := []; t_rest := p; t_announced := false |}) ps.

(* a schedule: the thread chosen at every step; a choice that is not enabled is skipped *)
Fixpoint run_sched (s : sys) (sched : list nat) : sys :=
  match sched with
  | [] => s
  | i :: r => match step s i with Some s' => run_sched s' r | None => run_sched s r end
  end.

Definition measure (s : sys) : nat :=
  fold_right (fun th a => 2 * length (t_rest th) - (if t_announced th then 1 else 0) + a) 0 s.
