(* Varint.v — the 7-bit length code of spanfile.go (write7Code / read7Code / lengthOf7Code). *)
From Syz Require Export Bytes.
From Syz Require Import Consts.
Open Scope N_scope.

(* number of bytes chosen by write7Code: position of the first threshold with n < t *)
Fixpoint count7 (ths : list N) (n : N) : nat :=
  match ths with
  | [] => 1%nat
  | t :: r => if n <? t then 1%nat else S (count7 r n)
  end.
Definition lengthOf7w (n : N) : nat := count7 w7_thresholds n.   (* write7Code's own branching *)
Definition lengthOf7 (n : N) : nat := count7 l7_thresholds n.    (* lengthOf7Code *)

(* big-endian base-128 digits, k of them, continuation bit on all but the last *)
Fixpoint digits (k : nat) (n : N) : bytes :=
  match k with
  | O => []
  | S O => [n mod 128]
  | S k' => ((n / 128 ^ (N.of_nat k')) mod 128 + 128) :: digits k' n
  end.

Definition write7 (n : N) : bytes := digits (lengthOf7w n) n.

(* read7Code: accumulates in a uint64 (wraps mod 2^64); None = "buffer too short" *)
Fixpoint read7_from (buf : bytes) (acc : N) (consumed : nat) : option (N * nat) :=
  match buf with
  | [] => None
  | d :: rest =>
      let acc' := (acc * 128 + d mod 128) mod 18446744073709551616 in
      if d <? 128 then Some (acc', S consumed) else read7_from rest acc' (S consumed)
  end.
Definition read7 (buf : bytes) : option (N * nat) := read7_from buf 0 0%nat.
