(* Coll.v — the document layer of collection.go on top of the span file (vectors as stored bytes).
   Executable definitions only. *)
From Syz Require Export Store.
Open Scope N_scope.

Definition doc_rid (id : N) : bytes := dec_string id.

(* strconv.ParseUint(s, 10, 64): non-empty, digits only, value below 2^64 *)
Fixpoint parse_uint_from (s : bytes) (acc : N) : option N :=
  match s with
  | [] => Some acc
  | c :: r =>
      if (48 <=? c) && (c <=? 57)
      then let acc' := acc * 10 + (c - 48) in
           if 18446744073709551616 <=? acc' then None else parse_uint_from r acc'
      else None
  end.
Definition parse_uint (s : bytes) : option N :=
  match s with [] => None | _ => parse_uint_from s 0 end.

Definition add_document (s : sf) (id : N) (vec meta : bytes) (exp : N) : option (list step * sf) :=
  write_record s (doc_rid id) [(0, meta); (1, vec)] exp.

(* span.DataStreams[i].Data : index out of range panics *)
Definition stream_data (sp : span) (i : nat) : res bytes :=
  match nth_error (sp_streams sp) i with
  | Some (_, d) => Ok d
  | None => Panic
  end.

Definition get_document (s : sf) (id : N) : res (bytes * bytes) :=
  bind (read_record s (doc_rid id)) (fun sp =>
  bind (stream_data sp 0) (fun meta =>
  bind (stream_data sp 1) (fun vec => Ok (meta, vec)))).

Definition update_document (s : sf) (id : N) (meta : bytes) (exp : N) : res (option (list step * sf)) :=
  bind (read_record s (doc_rid id)) (fun sp =>
  bind (stream_data sp 1) (fun vec =>
  Ok (write_record s (doc_rid id) [(0, meta); (1, vec)] exp))).

Definition remove_document (s : sf) (id : N) : res (list step * sf) :=
  remove_record s (doc_rid id).

(* insertion sort, used for ids (numeric) and record ids (as strings) *)
Fixpoint insert_by {A} (lt : A -> A -> bool) (x : A) (l : list A) : list A :=
  match l with
  | [] => [x]
  | y :: r => if lt y x then y :: insert_by lt x r else x :: l
  end.
Definition sort_by {A} (lt : A -> A -> bool) (l : list A) : list A :=
  fold_right (insert_by lt) [] l.

Definition live_rids (s : sf) : list bytes :=
  filter (fun r => negb (bytes_eqb r [])) (map fst (index_of (tiles s))).

Definition all_ids (s : sf) : list N :=
  sort_by N.ltb (flat_map (fun r => match parse_uint r with Some n => [n] | None => [] end) (live_rids s)).

Definition doc_count (s : sf) : N := N.of_nat (length (index_of (tiles s))) - 1.

(* ---------- listing branch of Search (K = 0, Radius = 0) ---------- *)

Definition filter_fn := N -> bytes -> bool.

(* the loop body of the listing: docs in iteration order *)
Fixpoint listing_loop (docs : list (N * bytes)) (flt : filter_fn) (off lim count : N)
         (acc_rev : list (N * bytes)) : list (N * bytes) :=
  match docs with
  | [] => rev acc_rev
  | (id, md) :: r =>
      if negb (flt id md) then listing_loop r flt off lim count acc_rev
      else
        let count' := count + 1 in
        if (0 <? off) && (count' <=? off) then listing_loop r flt off lim count' acc_rev
        else
          let acc' := (id, md) :: acc_rev in
          if (0 <? lim) && (lim <=? N.of_nat (length acc')) then rev acc'
          else listing_loop r flt off lim count' acc'
  end.

(* documents in IterateSortedRecords order: record ids sorted as strings, id = ParseUint or 0 *)
Definition sorted_docs (s : sf) : res (list (N * bytes)) :=
  fold_right (fun rid acc =>
      bind acc (fun l =>
      bind (read_record s rid) (fun sp =>
      bind (stream_data sp 0) (fun md =>
      Ok ((match parse_uint rid with Some n => n | None => 0 end, md) :: l)))))
    (Ok []) (sort_by bytes_ltb (live_rids s)).

Definition listing (s : sf) (flt : filter_fn) (off lim : N) : res (list (N * bytes)) :=
  bind (sorted_docs s) (fun docs => Ok (listing_loop docs flt off lim 0 [])).
