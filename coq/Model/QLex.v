(* QLex.v — query/lexer.go. The lexer state is the remaining input; the current character is its
   head, 0 at the end of the input (so an embedded NUL byte also reads as the end).
   Executable definitions only. *)
From Syz Require Export Bytes.
Open Scope N_scope.

(* token types, numbered as the Go iota *)
Inductive ttype : Type :=
| TIdent | TString | TNumber | TBool | TNull | TOperator | TParenthesis | TLParen | TRParen | TComma
| TEq | TNe | TGt | TGe | TLt | TLe | TAnd | TOr | TNot | TIN | TNOTIN | TEXISTS | TDNE
| TCONTAINS | TSW | TEW | TMATCHES | TLENGTH | TANY | TALL | TEOF
| TLBracket | TRBracket | TColon | TDot | TArrayStar.

Definition ttype_code (t : ttype) : N :=
  match t with
  | TIdent => 0 | TString => 1 | TNumber => 2 | TBool => 3 | TNull => 4 | TOperator => 5
  | TParenthesis => 6 | TLParen => 7 | TRParen => 8 | TComma => 9 | TEq => 10 | TNe => 11
  | TGt => 12 | TGe => 13 | TLt => 14 | TLe => 15 | TAnd => 16 | TOr => 17 | TNot => 18
  | TIN => 19 | TNOTIN => 20 | TEXISTS => 21 | TDNE => 22 | TCONTAINS => 23 | TSW => 24
  | TEW => 25 | TMATCHES => 26 | TLENGTH => 27 | TANY => 28 | TALL => 29 | TEOF => 30
  | TLBracket => 31 | TRBracket => 32 | TColon => 33 | TDot => 34 | TArrayStar => 35
  end.

Definition ttype_eqb (a b : ttype) : bool := ttype_code a =? ttype_code b.

Record token := { ttyp : ttype; tlit : bytes }.

Definition hd0 (l : bytes) : N := match l with c :: _ => c | [] => 0 end.

Definition is_letter (c : N) : bool :=
  ((97 <=? c) && (c <=? 122)) || ((65 <=? c) && (c <=? 90)) || (c =? 95).
Definition is_digit (c : N) : bool := (48 <=? c) && (c <=? 57).
Definition is_hex_digit (c : N) : bool :=
  is_digit c || ((97 <=? c) && (c <=? 102)) || ((65 <=? c) && (c <=? 70)).
Definition is_space (c : N) : bool := (c =? 32) || (c =? 9) || (c =? 10) || (c =? 13).

(* longest prefix satisfying p, and the rest *)
Fixpoint span (p : N -> bool) (l : bytes) : bytes * bytes :=
  match l with
  | c :: r => if p c then let (a, b) := span p r in (c :: a, b) else ([], l)
  | [] => ([], [])
  end.

Fixpoint skip_ws (l : bytes) : bytes :=
  match l with
  | c :: r => if is_space c then skip_ws r else l
  | [] => []
  end.

(* ASCII literals *)
Definition s_DOES : bytes := [68; 79; 69; 83].
Definition s_NOT : bytes := [78; 79; 84].
Definition s_EXIST : bytes := [69; 88; 73; 83; 84].
Definition s_DNE : bytes := [68; 79; 69; 83; 32; 78; 79; 84; 32; 69; 88; 73; 83; 84].   (* "DOES NOT EXIST" *)

(* keyword table of lookupIdentifier *)
Definition keywords : list (bytes * ttype) :=
  [ ([65; 78; 68], TAnd); ([79; 82], TOr); (s_NOT, TNot); ([73; 78], TIN); (s_DNE, TDNE);
    ([69; 88; 73; 83; 84; 83], TEXISTS); ([67; 79; 78; 84; 65; 73; 78; 83], TCONTAINS);
    ([83; 84; 65; 82; 84; 83; 95; 87; 73; 84; 72], TSW); ([69; 78; 68; 83; 95; 87; 73; 84; 72], TEW);
    ([77; 65; 84; 67; 72; 69; 83], TMATCHES); ([76; 69; 78; 71; 84; 72], TLENGTH);
    ([65; 78; 89], TANY); ([65; 76; 76], TALL); ([110; 117; 108; 108], TNull);
    ([116; 114; 117; 101], TBool); ([102; 97; 108; 115; 101], TBool) ].

Fixpoint lookup_kw (tbl : list (bytes * ttype)) (w : bytes) : ttype :=
  match tbl with
  | [] => TIdent
  | (k, t) :: r => if bytes_eqb k w then t else lookup_kw r w
  end.

(* readString: r = input after the opening quote *)
Fixpoint read_string (q : N) (r : bytes) (acc_rev : bytes) : bytes * bytes :=
  match r with
  | [] => (rev acc_rev, [])
  | c :: r' =>
      if c =? q then (rev acc_rev, r')
      else if c =? 0 then (rev acc_rev, r)
      else if c =? 92 then
        match r' with
        | [] => (rev acc_rev, [])
        | e :: r'' =>
            if e =? 110 then read_string q r'' (10 :: acc_rev)
            else if e =? 116 then read_string q r'' (9 :: acc_rev)
            else if e =? 114 then read_string q r'' (13 :: acc_rev)
            else if e =? 92 then read_string q r'' (92 :: acc_rev)
            else if e =? 34 then read_string q r'' (34 :: acc_rev)
            else if e =? 0 then read_string q r'' acc_rev
            else read_string q r'' (e :: 92 :: acc_rev)
        end
      else read_string q r' (c :: acc_rev)
  end.

(* readIdentifierOrKeyword (with the bounds check added after "NOT") *)
Definition read_ident_or_kw (l : bytes) : bytes * bytes :=
  let (word, r1) := span (fun c => is_letter c || is_digit c) l in
  if bytes_eqb word s_DOES && (hd0 r1 =? 32) then
    let r2 := tl r1 in
    if hd0 r2 =? 78 then
      let (w2, r3) := span is_letter r2 in
      if bytes_eqb w2 s_NOT && (hd0 r3 =? 32) then
        let (w3, r5) := span is_letter (tl r3) in
        if bytes_eqb w3 s_EXIST then (s_DNE, r5) else (word, r1)
      else (word, r1)
    else (word, r1)
  else (word, r1).

(* digits with at most one '.' *)
Fixpoint read_dec (l : bytes) (seen_dot : bool) : bytes * bytes :=
  match l with
  | c :: r =>
      if is_digit c then let (a, b) := read_dec r seen_dot in (c :: a, b)
      else if (c =? 46) && negb seen_dot then let (a, b) := read_dec r true in (c :: a, b)
      else ([], l)
  | [] => ([], [])
  end.

(* the decimal branch of readNumber: digits with at most one '.', then an optional exponent *)
Definition read_number_dec (l : bytes) : bytes * bytes :=
  let (d, r1) := read_dec l false in
  if (hd0 r1 =? 101) || (hd0 r1 =? 69) then
    let r2 := tl r1 in
    let sign := if (hd0 r2 =? 43) || (hd0 r2 =? 45) then [hd0 r2] else [] in
    let r3 := if (hd0 r2 =? 43) || (hd0 r2 =? 45) then tl r2 else r2 in
    let (ex, r4) := span is_digit r3 in
    (d ++ [hd0 r1] ++ sign ++ ex, r4)
  else (d, r1).

Definition read_number (l : bytes) : bytes * bytes :=
  if (hd0 l =? 48) && ((hd0 (tl l) =? 120) || (hd0 (tl l) =? 88)) then
    let (h, r') := span is_hex_digit (tl (tl l)) in (48 :: hd0 (tl l) :: h, r')
  else read_number_dec l.

Definition tok (t : ttype) (l : bytes) : token := {| ttyp := t; tlit := l |}.

(* string(l.ch) for a byte: Go converts the byte to the rune of that number, whose UTF-8 form has two bytes from 128 on *)
Definition rune_bytes (c : N) : bytes := if c <? 128 then [c] else [192 + c / 64; 128 + c mod 64].

(* NextToken: the token and the remaining input *)
Definition next_token (input : bytes) : token * bytes :=
  let l := skip_ws input in
  match l with
  | [] => (tok TEOF [], l)
  | c :: r =>
      if c =? 40 then (tok TLParen [c], r)
      else if c =? 41 then (tok TRParen [c], r)
      else if c =? 44 then (tok TComma [c], r)
      else if c =? 61 then (if hd0 r =? 61 then (tok TEq [61; 61], tl r) else (tok TOperator [c], r))
      else if c =? 33 then (if hd0 r =? 61 then (tok TNe [33; 61], tl r) else (tok TIdent [], r))
      else if c =? 62 then (if hd0 r =? 61 then (tok TGe [62; 61], tl r) else (tok TGt [c], r))
      else if c =? 60 then (if hd0 r =? 61 then (tok TLe [60; 61], tl r) else (tok TLt [c], r))
      else if c =? 91 then
        (if (hd0 r =? 42) && (hd0 (tl r) =? 93) then (tok TArrayStar [91; 42; 93], tl (tl r))
         else (tok TLBracket [c], r))
      else if c =? 93 then (tok TRBracket [c], r)
      else if c =? 58 then (tok TColon [c], r)
      else if c =? 46 then (tok TDot [c], r)
      else if (c =? 34) || (c =? 39) then
        let (s, r') := read_string c r [] in (tok TString s, r')
      else if is_letter c then
        let (w, r') := read_ident_or_kw l in (tok (lookup_kw keywords w) w, r')
      else if is_digit c then
        let (n, r') := read_number l in (tok TNumber n, r')
      else (tok TOperator (rune_bytes c), r)
  end.

(* the whole token stream, EOF included; fuel = input length + 1 always suffices *)
Fixpoint lex_all (fuel : nat) (input : bytes) : option (list token) :=
  match fuel with
  | O => None
  | S f =>
      let (t, r) := next_token input in
      match ttyp t with
      | TEOF => Some [t]
      | _ => match lex_all f r with Some ts => Some (t :: ts) | None => None end
      end
  end.
