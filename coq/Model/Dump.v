(* Dump.v — ExportJSON / ImportJSON (dump.go): the indenter, the metadata block, and the
   record-level structure of export followed by import.  Executable definitions only. *)
From Coq Require Import List NArith Bool.
Import ListNotations.
Open Scope N_scope.

Definition bytes := list N.
Definition NL : N := 10.

(* bytes.Split(p, "\n"): always at least one element *)
Fixpoint split_nl_acc (p : bytes) (cur_rev : bytes) : list bytes :=
  match p with
  | [] => [rev cur_rev]
  | c :: r => if c =? NL then rev cur_rev :: split_nl_acc r [] else split_nl_acc r (c :: cur_rev)
  end.
Definition split_nl (p : bytes) : list bytes := split_nl_acc p [].

Definition nonempty (l : bytes) : bool := match l with [] => false | _ => true end.

(* indentWriter.Write, one call: for every line: if it is not empty, the prefix (when needIndent) and
   the line; between lines the newline, after which needIndent is set (and never cleared) *)
Fixpoint iw_lines (prefix : bytes) (need : bool) (ls : list bytes) : bytes :=
  match ls with
  | [] => []
  | l :: rest =>
      (if nonempty l then (if need then prefix else []) ++ l else [])
      ++ match rest with [] => [] | _ => NL :: iw_lines prefix true rest end
  end.
Definition indent_write (prefix : bytes) (need : bool) (p : bytes) : bytes :=
  iw_lines prefix need (split_nl p).

Definition spaces4 : bytes := [32; 32; 32; 32].

(* bytes.Index(metadataJSON, "\n") and the two branches of ExportJSON *)
Fixpoint take_line (p : bytes) (acc_rev : bytes) : option (bytes * bytes) :=
  match p with
  | [] => None
  | c :: r => if c =? NL then Some (rev (c :: acc_rev), r) else take_line r (c :: acc_rev)
  end.
Definition export_meta (mj : bytes) : bytes :=
  match take_line mj [] with
  | Some (first, rest) => first ++ indent_write spaces4 true rest
  | None => mj
  end.

(* ---------- record level ---------- *)
(* a collection, for export/import: ids ascending -> (vector components as stored, metadata as a JSON value) *)
Section Records.
  Context {V M : Type}.
  Definition coll := list (N * (V * M)).

  Fixpoint lookup (id : N) (c : coll) : option (V * M) :=
    match c with
    | [] => None
    | (i, d) :: r => if i =? id then Some d else lookup id r
    end.

  (* AddDocument on the abstract map (C01): insert or overwrite *)
  Fixpoint upsert (id : N) (d : V * M) (c : coll) : coll :=
    match c with
    | [] => [(id, d)]
    | (i, e) :: r => if i =? id then (i, d) :: r else (i, e) :: upsert id d r
    end.

  (* what the text does to one record: vector components printed and read back and stored under the
     quantisation (rv), metadata decoded and re-encoded and indented (rm) *)
  Context (rv : V -> V) (rm : M -> M).

  (* ImportJSON: AddDocument for every record of the array, in order, into a new collection *)
  Definition import_records (recs : coll) : coll :=
    fold_left (fun c r => upsert (fst r) (rv (fst (snd r)), rm (snd (snd r))) c) recs [].
End Records.
