(* PathClean.v — path/filepath.Join and Clean (Unix, purely lexical) and the collection file name of
   rest.go.  Executable definitions only. *)
From Syz Require Export Bytes.
Open Scope N_scope.

Definition slash : N := 47.

(* components between slashes, empty ones included *)
Fixpoint split_slash (s : bytes) (cur_rev : bytes) : list bytes :=
  match s with
  | [] => [rev cur_rev]
  | c :: r => if c =? slash then rev cur_rev :: split_slash r [] else split_slash r (c :: cur_rev)
  end.

Definition dot : bytes := [46].
Definition dotdot : bytes := [46; 46].

(* one step of Clean on the stack of kept components (top first) *)
Definition clean_step (rooted : bool) (stack_rev : list bytes) (c : bytes) : list bytes :=
  if bytes_eqb c [] || bytes_eqb c dot then stack_rev
  else if bytes_eqb c dotdot then
    match stack_rev with
    | top :: rest => if bytes_eqb top dotdot then c :: stack_rev else rest
    | [] => if rooted then [] else [c]
    end
  else c :: stack_rev.

Definition is_rooted (p : bytes) : bool := match p with c :: _ => c =? slash | [] => false end.

Fixpoint join_slash (l : list bytes) : bytes :=
  match l with
  | [] => []
  | [x] => x
  | x :: r => x ++ slash :: join_slash r
  end.

Definition render (rooted : bool) (stack_rev : list bytes) : bytes :=
  match stack_rev with
  | [] => if rooted then [slash] else dot
  | _ => (if rooted then [slash] else []) ++ join_slash (rev stack_rev)
  end.

Definition clean_stack (p : bytes) : list bytes :=
  fold_left (clean_step (is_rooted p)) (split_slash p []) [].

(* filepath.Clean *)
Definition clean (p : bytes) : bytes :=
  match p with [] => dot | _ => render (is_rooted p) (clean_stack p) end.

(* filepath.Join of two elements: empty elements are ignored, the rest is joined and cleaned *)
Definition join2 (a b : bytes) : bytes :=
  match a, b with
  | [], [] => []
  | [], _ => clean b
  | _, [] => clean a
  | _, _ => clean (a ++ slash :: b)
  end.

Definition dat : bytes := [46; 100; 97; 116].     (* ".dat" *)

(* validCollectionName *)
Definition valid_name (name : bytes) : bool :=
  match name with
  | [] => false
  | _ => forallb (fun c => negb ((c =? 47) || (c =? 92) || (c =? 0))) name
  end.

(* collectionNameToFileName *)
Definition collection_file (data_folder name : bytes) : bytes := join2 data_folder (name ++ dat).
