(* C01 — document store fidelity: every read returns exactly the last write. *)
From Coq Require Import ZArith Lia.
From Syz Require Import Coll Wire ListLemmas SpanProofs ScanProofs StoreProofs DecimalProofs CollProofs HistoryProofs.
Open Scope N_scope.

(* One step: on a state satisfying the invariant and agreeing with the specification map, every
   admissible operation (uint64 id; sizes, sequence number and growth amount inside the 32-bit
   format limits) returns what the specification returns and leads to an agreeing state.
   Errors return the unchanged state (dstep hands back s itself on DErr). *)
Theorem C01_step : forall s m o s' out, CollInv s -> agree s m -> fits_op s o ->
  dstep s o = Some (s', out) ->
  out = snd (sstep m o) /\ CollInv s' /\ agree s' (fst (sstep m o)).
Proof. exact dstep_refines. Qed.
Print Assumptions C01_step.

(* ... and such an operation never panics or gets stuck, whatever growth amount >= the record is chosen *)
Theorem C01_no_panic : forall s o, CollInv s -> fits_op s o -> exists s' out, dstep s o = Some (s', out).
Proof. exact dstep_total. Qed.
Print Assumptions C01_no_panic.

(* All finite histories (insert, overwrite, metadata update, removal down to zero documents, refill,
   reads, reopen in any mode): outputs equal the outputs of the finite-map specification. *)
Theorem C01_histories : forall ops s m s' outs, CollInv s -> agree s m -> Run s ops s' outs ->
  outs = snd (spec_run m ops) /\ CollInv s' /\ agree s' (fst (spec_run m ops)).
Proof. exact histories_refine. Qed.
Print Assumptions C01_histories.

(* GetAllIDs lists exactly the live ids, ascending and without repetition *)
Theorem C01_ids : forall s, CollInv s ->
  Sorted.StronglySorted N.le (all_ids s) /\ NoDup (all_ids s)
  /\ forall id, id < two64 -> (In id (all_ids s) <-> doc_of s id <> None).
Proof. exact ids_refines. Qed.
Print Assumptions C01_ids.

(* GetDocumentCount equals their number *)
Theorem C01_count : forall s, CollInv s -> doc_count s = N.of_nat (length (all_ids s)).
Proof. exact count_refines. Qed.
Print Assumptions C01_count.

(* a freshly created collection satisfies the invariant and holds no document *)
Theorem C01_new_collection : forall json exp steps s,
  fits initial_sf [] [(0, json)] exp ->
  write_record initial_sf [] [(0, json)] exp = Some (steps, s) ->
  CollInv s /\ forall id, id < two64 -> doc_of s id = None.
Proof. exact new_collection_inv. Qed.
Print Assumptions C01_new_collection.

(* supporting round trips, unbounded *)
Theorem C01_span_roundtrip : forall seq rid ss pad rest, wf_span seq rid ss pad ->
  parse_span (ta_img seq rid ss pad ++ rest) = Ok {| sp_seq := seq; sp_rid := rid; sp_streams := ss |}.
Proof. exact parse_span_img. Qed.
Print Assumptions C01_span_roundtrip.

Theorem C01_id_roundtrip : forall n, n < two64 -> parse_uint (dec_string n) = Some n.
Proof. exact parse_uint_dec_string. Qed.
Print Assumptions C01_id_roundtrip.

(* non-vacuity: a concrete history (insert, overwrite with a larger payload, update, delete-all,
   refill, read) meets every hypothesis *)
Definition ex_json : bytes := [123; 125].
Definition ex_ops : list dop :=
  [DAdd 7 [1;2;3] [10;11] 4096; DAdd 7 [4;5;6] (gen_bytes 5 200) 4096; DUpdate 7 [42] 4096;
   DGet 7; DRemove 7; DGet 7; DAdd 7 [9;9;9] [1] 4096; DReopen true; DGet 7].

Example C01_nonvacuous : exists s0 steps s outs,
  write_record initial_sf [] [(0, ex_json)] 4096 = Some (steps, s0)
  /\ fits initial_sf [] [(0, ex_json)] 4096
  /\ Run s0 ex_ops s outs
  /\ outs = [DOk; DOk; DOk; DDoc [42] [4;5;6]; DOk; DErr; DOk; DOk; DDoc [1] [9;9;9]].
Proof.
  destruct (write_record initial_sf [] [(0, ex_json)] 4096) as [[steps s0]|] eqn:Ew; [|vm_compute in Ew; discriminate].
  destruct (runb s0 ex_ops) as [[s outs]|] eqn:Er.
  - exists s0, steps, s, outs. split; [reflexivity|]. split; [apply fitsb_fits; vm_compute; reflexivity|].
    split; [now apply runb_Run|].
    revert Er. vm_compute in Ew. inversion Ew; subst. vm_compute. intros E. inversion E. reflexivity.
  - exfalso. revert Er. vm_compute in Ew. inversion Ew; subst. vm_compute. discriminate.
Qed.
