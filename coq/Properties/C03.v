(* C03 — exact search returns precisely the nearest matching documents. *)
From Coq Require Import ZArith List Sorting.Permutation.
From Coq Require Import Floats Sorting.Sorted.
From Syz Require Import Quant Search SearchProofs FloatBits SearchFloat DistProofs.
Import ListNotations.
Open Scope Z_scope.

(* The callback `consider` with its bounded heap, folded over the accepted candidates in ANY order
   (Go map iteration), leaves exactly min(K, m) of them, in non-decreasing distance order, and no
   candidate left out is closer than one returned; which of several equally distant candidates
   survives at the cut-off is not determined.  A is the distance type, lt its "<", key an integer
   key inducing it (for non-negative non-NaN binary64 distances: the bit pattern). *)
Theorem C03_knn : forall (A : Type) (lt : A -> A -> bool) (key : A -> Z),
  (forall x y, lt x y = (key x <? key y)) ->
  forall K cands,
  let res := knn lt K cands in
  exists rest,
    Permutation cands (res ++ rest) /\ sorted A key res
    /\ length res = Nat.min K (length cands)
    /\ forall y r, In y res -> In r rest -> kle A key y r.
Proof. exact knn_spec. Qed.
Print Assumptions C03_knn.

(* A radius search keeps exactly the candidates that pass the distance test and returns them in
   non-decreasing distance order (search_radius = this fold over the filtered candidates). *)
Theorem C03_radius : forall (A : Type) (lt : A -> A -> bool) (key : A -> Z),
  (forall x y, lt x y = (key x <? key y)) ->
  forall cands,
  let res := fold_left (fun l x => insert_asc lt x l) cands [] in
  Permutation res cands /\ sorted A key res.
Proof. exact sorted_fold. Qed.
Print Assumptions C03_radius.

(* only accepted documents are candidates, each with the distance to its stored vector *)
Theorem C03_candidates : forall cosine q docs,
  candidates cosine q docs = map (fun d => (sd_id d, distance cosine q (sd_vec d))) (filter sd_ok docs).
Proof. reflexivity. Qed.
Print Assumptions C03_candidates.

(* the order hypothesis above, discharged for the values the code compares: on non-negative, non-NaN binary64 values
   PrimFloat.ltb is the order of the bit patterns (math.Float64bits) *)
Theorem C03_order_is_bit_order : forall x y : PrimFloat.float, nonneg x -> nonneg y ->
  PrimFloat.ltb x y = (bits64 x <? bits64 y).
Proof. exact ltb_bits. Qed.
Print Assumptions C03_order_is_bit_order.

(* so the K-nearest answer of the model on binary64 distances (the function the correspondence run evaluates) is the
   K smallest candidates in ascending order, whenever the distances are non-negative and not NaN *)
Theorem C03_knn_floats : forall K (cands : list hit), Forall (fun h => nonneg (snd h)) cands ->
  let res := knn PrimFloat.ltb K cands in
  exists rest,
    Permutation cands (res ++ rest) /\ StronglySorted le_bits res
    /\ length res = Nat.min K (length cands)
    /\ forall y r, In y res -> In r rest -> le_bits y r.
Proof. exact knn_floats. Qed.
Print Assumptions C03_knn_floats.

(* Euclidean collections, no hypothesis left: for every query and all documents with finite components the exact
   K-nearest search returns min(K, m) accepted documents, ascending, none left out closer than one returned *)
Theorem C03_knn_euclid : forall q K docs,
  Forall finite_f q -> Forall (fun d => Forall finite_f (sd_vec d)) docs ->
  let cands := candidates false q docs in
  let res := search_knn false q K docs in
  exists rest,
    Permutation cands (res ++ rest) /\ StronglySorted le_bits res
    /\ length res = Nat.min K (length cands)
    /\ forall y r, In y res -> In r rest -> le_bits y r.
Proof. exact search_knn_euclid. Qed.
Print Assumptions C03_knn_euclid.

(* non-vacuity: integer keys *)
Example C03_nonvacuous :
  knn Z.ltb 2 [(1, 5); (2, 3); (3, 9); (4, 3); (5, 1)] = [(5, 1); (2, 3)].
Proof. reflexivity. Qed.
