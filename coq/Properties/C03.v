(* C03 — exact search returns precisely the nearest matching documents. *)
From Coq Require Import ZArith List Sorting.Permutation.
From Syz Require Import Search SearchProofs.
Import ListNotations.
Open Scope Z_scope.

(* The callback `consider` with its bounded heap, folded over the accepted candidates in ANY order
   (Go map iteration), leaves exactly min(K, m) of them, in non-decreasing distance order, and no
   candidate left out is closer than one returned; which of several equally distant candidates
   survives at the cut-off is not determined.  A is the distance type, lt its "<", key an integer
   key inducing it (for non-negative non-NaN binary64 distances: the bit pattern). *)
Theorem C03_knn : forall (A : Type) (lt : A -> A -> bool) (key : A -> Z),
  (forall x y, lt x y = (key x <? key y)) ->
  forall K cands,
  let res := knn lt K cands in
  exists rest,
    Permutation cands (res ++ rest) /\ sorted A key res
    /\ length res = Nat.min K (length cands)
    /\ forall y r, In y res -> In r rest -> kle A key y r.
Proof. exact knn_spec. Qed.
Print Assumptions C03_knn.

(* A radius search keeps exactly the candidates that pass the distance test and returns them in
   non-decreasing distance order (search_radius = this fold over the filtered candidates). *)
Theorem C03_radius : forall (A : Type) (lt : A -> A -> bool) (key : A -> Z),
  (forall x y, lt x y = (key x <? key y)) ->
  forall cands,
  let res := fold_left (fun l x => insert_asc lt x l) cands [] in
  Permutation res cands /\ sorted A key res.
Proof. exact sorted_fold. Qed.
Print Assumptions C03_radius.

(* only accepted documents are candidates, each with the distance to its stored vector *)
Theorem C03_candidates : forall cosine q docs,
  candidates cosine q docs = map (fun d => (sd_id d, distance cosine q (sd_vec d))) (filter sd_ok docs).
Proof. reflexivity. Qed.
Print Assumptions C03_candidates.

(* non-vacuity: integer keys *)
Example C03_nonvacuous :
  knn Z.ltb 2 [(1, 5); (2, 3); (3, 9); (4, 3); (5, 1)] = [(5, 1); (2, 3)].
Proof. reflexivity. Qed.
