(* C11 — returned documents and results are private, stable snapshots. *)
From Coq Require Import List NArith.
Import ListNotations.
From Syz Require Import Alias AliasProofs.

(* every value the (current) collection hands out, at any of its five return sites, reads the same
   after ANY later history of in-place writes (overwrite, removal, reuse of the space), file growth
   (remap), Close and reopen — and it is what was stored at the moment of the call *)
Theorem C11_stable : forall s m off len h,
  observe (mrun m h) (ret_current s m off len) = observe m (ret_current s m off len)
  /\ observe m (ret_current s m off len) = Bytes (slice off len (m_img m)).
Proof. intros; split; [apply current_stable | apply current_fresh]. Qed.
Print Assumptions C11_stable.

(* copying is necessary, not only sufficient: a site that hands out a window of the mapping is
   refuted by ONE later operation — Close and growth make it unreadable, an in-place write changes it.
   (This is the search the check performs when the address comparison finds such a site.) *)
Theorem C11_view_close : forall m off len, observe (mstep m MClose) (View (m_gen m) off len) = Fault.
Proof. exact view_faults_after_close. Qed.
Print Assumptions C11_view_close.

Theorem C11_view_growth : forall m off len extra, m_open m = true ->
  observe (mstep m (MGrow extra)) (View (m_gen m) off len) = Fault.
Proof. exact view_faults_after_grow. Qed.
Print Assumptions C11_view_growth.

Theorem C11_view_write : forall m off len, m_open m = true -> 0 < len -> off + len <= length (m_img m) ->
  exists o, observe (mstep m o) (View (m_gen m) off len) <> observe m (View (m_gen m) off len).
Proof. exact view_changed_by_write. Qed.
Print Assumptions C11_view_write.

(* the premises are satisfiable, and the pinned tree's GetDocument is an instance *)
Example C11_pinned_refuted :
  let m := {| m_gen := 0; m_open := true; m_img := [1; 2; 3; 4; 5]%N |} in
  observe m (ret_pinned SGetMeta m 1 3) = Bytes [2; 3; 4]%N /\
  observe (mrun m [MWrite 2 [9]%N]) (ret_pinned SGetMeta m 1 3) = Bytes [2; 9; 4]%N /\
  observe (mrun m [MGrow [0]%N]) (ret_pinned SGetMeta m 1 3) = Fault /\
  observe (mrun m [MWrite 2 [9]%N; MGrow [0]%N; MClose]) (ret_current SGetMeta m 1 3) = Bytes [2; 3; 4]%N.
Proof. repeat split. Qed.

(* ---- the other direction: the caller's vector and metadata slices ---- *)
(* what the collection keeps of a slice passed in is what the slice held when the call was made, whatever the
   caller writes into its buffers afterwards *)
Theorem C11_kept_stable : forall c i h, kobserve (crun c h) (keep_current c i) = nth i c [].
Proof. exact kept_stable. Qed.
Print Assumptions C11_kept_stable.

(* in every interleaving of collection operations and caller writes, the caller's buffers are what the caller's own
   writes made them and the mapping is what the collection's own operations made it *)
Theorem C11_independent : forall h m c,
  snd (joint_run (m, c) h) = crun c (flat_map (fun o => match o with inr co => [co] | inl _ => [] end) h)
  /\ fst (joint_run (m, c) h) = mrun m (flat_map (fun o => match o with inl mo => [mo] | inr _ => [] end) h).
Proof. exact joint_independent. Qed.
Print Assumptions C11_independent.

(* retaining the caller's slice instead is refuted by one later write of the caller *)
Theorem C11_ref_refuted : forall c i, i < length c -> nth i c [] <> [] ->
  exists o, kobserve (cstep c o) (keep_ref c i) <> kobserve c (keep_ref c i).
Proof. exact ref_changed_by_caller. Qed.
Print Assumptions C11_ref_refuted.

Example C11_caller_example :
  let c := [[1; 2; 3]; [7]]%N in
  kobserve (crun c [CWrite 0 1 [9]%N]) (keep_current c 0) = [1; 2; 3]%N
  /\ kobserve (crun c [CWrite 0 1 [9]%N]) (keep_ref c 0) = [1; 9; 3]%N.
Proof. split; reflexivity. Qed.
