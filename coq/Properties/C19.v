(* C19 — collection names cannot reach outside the data folder. *)
From Coq Require Import ZArith.
From Syz Require Import PathClean PathProofs.
Open Scope N_scope.

(* For every data folder (absolute, relative, ".", with redundant slashes or .. components) and
   every accepted name, filepath.Join(dataFolder, name + ".dat") is the entry <name>.dat directly
   inside filepath.Clean(dataFolder): the cleaned component stack of the file is that of the
   folder plus this one component, which contains no separator and is neither "." nor "..". *)
Theorem C19_confined : forall df name, valid_name name = true -> df <> [] ->
  collection_file df name = render (is_rooted df) ((name ++ dat) :: clean_stack df)
  /\ clean df = render (is_rooted df) (clean_stack df).
Proof. exact collection_file_confined. Qed.
Print Assumptions C19_confined.

Theorem C19_empty_folder : forall name, valid_name name = true -> collection_file [] name = name ++ dat.
Proof. exact collection_file_empty_folder. Qed.
Print Assumptions C19_empty_folder.

(* names containing a path separator or a NUL byte, and the empty name, are rejected *)
Theorem C19_rejected : valid_name [] = false
  /\ (forall a b, valid_name (a ++ 47 :: b) = false)
  /\ (forall a b, valid_name (a ++ 92 :: b) = false)
  /\ (forall a b, valid_name (a ++ 0 :: b) = false).
Proof. exact invalid_names. Qed.
Print Assumptions C19_rejected.

(* non-vacuity and the classic escapes, by computation: "../x" is rejected; "x" under "/data/../srv/" *)
Example C19_examples :
  valid_name [46; 46; 47; 120] = false
  /\ collection_file [47; 100; 47; 46; 46; 47; 115; 47] [120] = [47; 115; 47; 120; 46; 100; 97; 116].
Proof. split; reflexivity. Qed.
