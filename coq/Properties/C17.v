(* C17 — the REST server behaves as the document-store model, across restarts. *)
From Coq Require Import List NArith ZArith Bool.
From Syz Require Import Coll Rest RestProofs.
(* the path indices of the handlers are below the segment counts their guards establish (regenerated from rest.go on this run) *)
From Syz Require GenTablesOk.
Import ListNotations.
Open Scope N_scope.

(* documented status classes, every server state and every request: 400 only for a malformed request,
   404 only for an unknown collection or record, 5xx only where the (absent) embedding service is needed,
   and a request answered 2xx is well-formed and addresses existing things — with the single exception
   of dropping a collection that does not exist (see C17_drop_unknown below) *)
Theorem C17_status : forall s rq st b, snd (handle s rq) = Resp st b ->
  (st = 200 \/ st = 201 \/ st = 400 \/ st = 404 \/ st = 500) /\
  (st = 400 -> malformed s rq = true) /\
  (st = 404 -> unknown_collection s rq = true \/ unknown_record s rq = true) /\
  (st = 500 -> needs_embedding rq = true) /\
  (st < 400 -> malformed s rq = false /\ needs_embedding rq = false /\ unknown_record s rq = false /\
               (unknown_collection s rq = true -> exists n, rq = Drop n)).
Proof.
  intros s rq st b H. split; [exact (status_set s rq st b H)|].
  split; [intros ->; exact (status_400 s rq b H)|].
  split; [intros ->; exact (status_404 s rq b H)|].
  split; [intros ->; exact (status_500 s rq b H)|].
  exact (status_2xx s rq st b H).
Qed.
Print Assumptions C17_status.

(* collections do not influence each other: a request addressed to collection n leaves every other
   collection exactly as it was; a request addressed to no collection changes nothing *)
Theorem C17_frame : forall s rq n n', addressed rq = Some n -> n <> n' ->
  slookup n' (fst (handle s rq)) = slookup n' s.
Proof. exact handle_frame. Qed.
Print Assumptions C17_frame.

Theorem C17_frame_untargeted : forall s rq, addressed rq = None -> fst (handle s rq) = s.
Proof. exact handle_frame_untargeted. Qed.
Print Assumptions C17_frame_untargeted.

(* an accepted insert is AddDocument of the C01 specification for every record, in order *)
Theorem C17_insert : forall s n rs c b, slookup n s = Some c ->
  snd (handle s (Insert n (Some rs))) = Resp 201 b ->
  exists c', slookup n (fst (handle s (Insert n (Some rs)))) = Some c' /\
             c_docs c' = fold_left put rs (c_docs c) /\ c_dim c' = c_dim c /\ c_q c' = c_q c /\ c_metric c' = c_metric c.
Proof. exact insert_effect. Qed.
Print Assumptions C17_insert.

(* restarting the server changes nothing (every *.dat is reopened: C02) *)
Theorem C17_restart : forall s, handle s Restart = (s, Resp 200 BNone).
Proof. reflexivity. Qed.
Print Assumptions C17_restart.

(* ... at any points of a history and any number of times: the final state and every response to the other requests are
   those of the history without the restarts *)
Theorem C17_restarts_transparent : forall rqs s,
  fst (run s rqs) = fst (run s (no_restarts rqs))
  /\ map snd (filter (fun p => negb (is_restart (fst p))) (combine rqs (snd (run s rqs)))) = snd (run s (no_restarts rqs)).
Proof. exact restarts_transparent. Qed.
Print Assumptions C17_restarts_transparent.

(* the recorded deviation: dropping an unknown collection is answered 200, not 404 *)
Example C17_drop_unknown : snd (handle [] (Drop 7)) = Resp 200 BNone /\ unknown_collection [] (Drop 7) = true.
Proof. split; reflexivity. Qed.

(* non-vacuity: a history that creates, fills, lists, updates, deletes and drops *)
Example C17_history :
  let mk := {| r_id := 5; r_vec := Some (1, 2%Z); r_text := false; r_meta := 9 |} in
  snd (run [] [Create true 1 true (Some 0) 2%Z 0%Z; Insert 1 (Some [mk]); Ids 1; Update 1 (Some 5) (Some 3);
               DeleteRec 1 (Some 6); Insert 2 (Some [mk]); Search 1 true true false true true 0%Z false 0 0; Drop 1; Ids 1])
  = [Resp 201 BNone; Resp 201 BNone; Resp 200 (BIds [5]); Resp 200 BNone; Resp 404 BNone; Resp 404 BNone;
     Resp 200 (BDocs [(5, 3)]); Resp 200 BNone; Resp 404 BNone].
Proof. vm_compute. reflexivity. Qed.
