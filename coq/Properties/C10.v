(* C10 — concurrent use is deadlock-free (and every call returns) as far as the locking discipline goes. *)
From Coq Require Import List Arith Bool.
From Syz Require Import LockTable Conc ConcProofs ConcSafety.
Import ListNotations.

(* the lock table regenerated from the Go sources on this very run satisfies the discipline: on every
   control-flow path of every function, with callees inlined, mutexes are acquired in strictly increasing
   rank (Server.mutex < Collection.mutex < SpanFile.fileMutex < leaf mutexes), none is acquired while already
   held (read locks included: a second RLock deadlocks with a queued writer), everything is released; every
   public Collection method takes Collection.mutex exactly once, mutators exclusively and for their whole body.
   This theorem stops compiling when the sources break the discipline. *)
Theorem C10_table : table_ok lock_table = true.
Proof. vm_compute. reflexivity. Qed.
Print Assumptions C10_table.

Theorem C10_programs : forall f p, In f (all_functions lock_table) -> In p (progs_of lock_table f) -> wrb [] p = true.
Proof. intros f p. apply table_programs_ok. exact C10_table. Qed.
Print Assumptions C10_programs.

(* any number of threads, each running any well-ranked program (hence any mix of calls to the library), under
   Go's RWMutex rules (a pending writer blocks new readers), under EVERY schedule: the system is never stuck
   before all calls have returned *)
Theorem C10_deadlock_free : forall ps sched, forallb (wrb []) ps = true ->
  done (run_sched (start ps) sched) = true \/ exists i s', step (run_sched (start ps) sched) i = Some s'.
Proof. exact deadlock_free. Qed.
Print Assumptions C10_deadlock_free.

(* ... and every step makes progress on a bounded measure, so every execution ends with all calls returned *)
Theorem C10_every_call_returns : forall s i s', step s i = Some s' -> measure s' < measure s.
Proof. exact step_measure. Qed.
Print Assumptions C10_every_call_returns.

Theorem C10_completion : forall ps, forallb (wrb []) ps = true -> exists sched, done (run_sched (start ps) sched) = true.
Proof. intros ps H. apply (all_calls_return (measure (start ps))); [apply le_n | apply start_inv; exact H]. Qed.
Print Assumptions C10_completion.

(* safety of the same semantics: in every state reachable under any schedule, a mutex has at most one exclusive
   holder and an exclusive holder excludes every shared holder.  Since mutators hold Collection.mutex exclusively
   for their whole body and every other public method holds it shared (C10_table), the critical sections of one
   collection are serialisable in the order in which they obtain the mutex, and read-only sections commute *)
Theorem C10_mutual_exclusion : forall sched ps m,
  cnt W m (run_sched (start ps) sched) <= 1 /\ (cnt W m (run_sched (start ps) sched) = 1 -> cnt R m (run_sched (start ps) sched) = 0).
Proof. exact reachable_mutex_ok. Qed.
Print Assumptions C10_mutual_exclusion.

(* the pinned tree's ComputeStats as a model-level fact: a reader that re-acquires the read lock, a writer
   queued in between: nobody can move *)
Example C10_nested_rlock_deadlocks :
  let reader := [Acq 2 R; Acq 2 R; Rel 2 R; Rel 2 R] in
  let writer := [Acq 2 W; Rel 2 W] in
  wrb [] reader = false /\
  let s := run_sched (start [reader; writer]) [0; 1] in
  done s = false /\ step s 0 = None /\ step s 1 = None.
Proof. vm_compute. repeat split. Qed.
