(* C10 — concurrent use is deadlock-free (and every call returns) as far as the locking discipline goes. *)
From Coq Require Import List Arith Bool.
From Syz Require Import LockTable Conc ConcProofs ConcSafety.
From Syz Require ConcLin.
(* no method that takes the collection mutex shared writes through its receiver (regenerated from the sources on this run) *)
From Syz Require GenTablesOk.
Import ListNotations.

(* the lock table regenerated from the Go sources on this very run satisfies the discipline: on every
   control-flow path of every function, with callees inlined, mutexes are acquired in strictly increasing
   rank (Server.mutex < Collection.mutex < SpanFile.fileMutex < leaf mutexes), none is acquired while already
   held (read locks included: a second RLock deadlocks with a queued writer), everything is released; every
   public Collection method takes Collection.mutex exactly once, mutators exclusively and for their whole body.
   This theorem stops compiling when the sources break the discipline. *)
Theorem C10_table : table_ok lock_table = true.
Proof. vm_compute. reflexivity. Qed.
Print Assumptions C10_table.

Theorem C10_programs : forall f p, In f (all_functions lock_table) -> In p (progs_of lock_table f) -> wrb [] p = true.
Proof. intros f p. apply table_programs_ok. exact C10_table. Qed.
Print Assumptions C10_programs.

(* any number of threads, each running any well-ranked program (hence any mix of calls to the library), under
   Go's RWMutex rules (a pending writer blocks new readers), under EVERY schedule: the system is never stuck
   before all calls have returned *)
Theorem C10_deadlock_free : forall ps sched, forallb (wrb []) ps = true ->
  done (run_sched (start ps) sched) = true \/ exists i s', step (run_sched (start ps) sched) i = Some s'.
Proof. exact deadlock_free. Qed.
Print Assumptions C10_deadlock_free.

(* ... and every step makes progress on a bounded measure, so every execution ends with all calls returned *)
Theorem C10_every_call_returns : forall s i s', step s i = Some s' -> measure s' < measure s.
Proof. exact step_measure. Qed.
Print Assumptions C10_every_call_returns.

Theorem C10_completion : forall ps, forallb (wrb []) ps = true -> exists sched, done (run_sched (start ps) sched) = true.
Proof. intros ps H. apply (all_calls_return (measure (start ps))); [apply le_n | apply start_inv; exact H]. Qed.
Print Assumptions C10_completion.

(* safety of the same semantics: in every state reachable under any schedule, a mutex has at most one exclusive
   holder and an exclusive holder excludes every shared holder.  Since mutators hold Collection.mutex exclusively
   for their whole body and every other public method holds it shared (C10_table), the critical sections of one
   collection are serialisable in the order in which they obtain the mutex, and read-only sections commute *)
Theorem C10_mutual_exclusion : forall sched ps m,
  cnt W m (run_sched (start ps) sched) <= 1 /\ (cnt W m (run_sched (start ps) sched) = 1 -> cnt R m (run_sched (start ps) sched) = 0).
Proof. exact reachable_mutex_ok. Qed.
Print Assumptions C10_mutual_exclusion.

(* the pinned tree's ComputeStats as a model-level fact: a reader that re-acquires the read lock, a writer
   queued in between: nobody can move *)
Example C10_nested_rlock_deadlocks :
  let reader := [Acq 2 R; Acq 2 R; Rel 2 R; Rel 2 R] in
  let writer := [Acq 2 W; Rel 2 W] in
  wrb [] reader = false /\
  let s := run_sched (start [reader; writer]) [0; 1] in
  done s = false /\ step s 0 = None /\ step s 1 = None.
Proof. vm_compute. repeat split. Qed.

(* ---------- linearizability (the data half) ----------
   Calls that run under one readers-writer lock: a call takes the lock (exclusively if it is a mutator), runs its body
   one micro-step at a time (reads of the shared state into its own state; writes of the shared state only in
   mutators) and releases the lock.  The lock of this model admits a reader whenever no writer is inside, which is
   every behaviour of sync.RWMutex and more (Go also holds new readers back behind a waiting writer), so the theorem
   covers every schedule of the runtime.  For every interleaving, at every quiescent point: the shared state and every
   call's result are those of running the calls one after the other, each atomically, in the order in which they took
   the lock; and that order respects real time. *)
Theorem C10_linearizable : forall (S L : Type) (s0 : ConcLin.st S L),
  (forall i, ConcLin.ph S L (ConcLin.thr S L s0 i) = ConcLin.Idle S L
             /\ ConcLin.loc S L (ConcLin.thr S L s0 i) = ConcLin.l0 S L (ConcLin.cl S L (ConcLin.thr S L s0 i))) ->
  ConcLin.ord S L s0 = nil ->
  (forall i, ConcLin.call_ok S L (ConcLin.cl S L (ConcLin.thr S L s0 i))) ->
  forall s, ConcLin.reach S L s0 s -> ConcLin.quiescent S L s ->
  ConcLin.sh S L s = ConcLin.serial_sh S L (ConcLin.calls S L s0) (ConcLin.ord S L s) (ConcLin.sh S L s0)
  /\ forall i, List.In i (ConcLin.ord S L s) ->
       ConcLin.serial_res S L (ConcLin.calls S L s0) (ConcLin.ord S L s) (ConcLin.sh S L s0) i
       = Some (ConcLin.loc S L (ConcLin.thr S L s i)).
Proof. intros S L s0 H1 H2 H3 s. exact (ConcLin.linearizable S L s0 H1 H2 H3 s). Qed.
Print Assumptions C10_linearizable.

Theorem C10_real_time_order : forall (S L : Type) (s0 : ConcLin.st S L),
  (forall i, ConcLin.ph S L (ConcLin.thr S L s0 i) = ConcLin.Idle S L
             /\ ConcLin.loc S L (ConcLin.thr S L s0 i) = ConcLin.l0 S L (ConcLin.cl S L (ConcLin.thr S L s0 i))) ->
  ConcLin.ord S L s0 = nil ->
  (forall i, ConcLin.call_ok S L (ConcLin.cl S L (ConcLin.thr S L s0 i))) ->
  forall s s' a b, ConcLin.reach S L s0 s -> ConcLin.reach S L s s' ->
  ConcLin.ph S L (ConcLin.thr S L s a) = ConcLin.Done S L -> ConcLin.ph S L (ConcLin.thr S L s b) = ConcLin.Idle S L ->
  List.In b (ConcLin.ord S L s') ->
  exists l1 l2 l3, ConcLin.ord S L s' = (l1 ++ a :: l2 ++ b :: l3)%list.
Proof. intros S L s0 H1 H2 H3 s s' a b. exact (ConcLin.real_time_order S L s0 H1 H2 H3 s s' a b). Qed.
Print Assumptions C10_real_time_order.

(* the premises are met by a concrete system (a counter, an incrementing writer and a reader) with a concrete run *)
Example C10_linearizable_nonvacuous : exists s, ConcLin.reach nat nat ConcLin.ex_s0 s /\ ConcLin.quiescent nat nat s.
Proof. destruct ConcLin.ex_run as (s & Hr & _ & _ & _ & Hq). exists s. split; assumption. Qed.
