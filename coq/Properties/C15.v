(* C15 — a filter is accepted only if its whole text is one expression. *)
From Coq Require Import ZArith.
From Coq Require Import List.
From Syz Require Import QLex QParse QLexProofs QParseProofs QParseWhole.
(* the tables of the model are the ones regenerated from the Go sources on this run *)
From Syz Require GenTablesOk.
Open Scope N_scope.

(* acceptance implies that the parser stands on the EOF token: every token of the text was consumed
   by a production of the grammar, nothing is left over *)
Theorem C15_whole : forall pf fuel input e, parse_with_fuel pf fuel input = POk e ->
  exists s', p_or pf fuel (init_pst input) = POk (e, s') /\ ttyp (cur s') = TEOF.
Proof. exact accept_reaches_eof. Qed.
Print Assumptions C15_whole.

(* ... and no text is left behind that token: the lexer yields EOF only when nothing but white space remains
   (there is no sentinel byte that ends the text early), and the parser keeps that fact *)
Theorem C15_whole_text : forall pf fuel input e, parse_with_fuel pf fuel input = POk e ->
  exists s', p_or pf fuel (init_pst input) = POk (e, s') /\ ttyp (cur s') = TEOF /\ ttyp (pk s') = TEOF /\ inp s' = nil.
Proof. exact accepted_uses_whole_text. Qed.
Print Assumptions C15_whole_text.

Theorem C15_eof_only_at_end : forall input t r, next_token input = (t, r) -> ttyp t = TEOF ->
  forallb is_space input = true.
Proof. intros input t r E H. apply skip_ws_nil_all_space. exact (eof_only_at_end input t r E H). Qed.
Print Assumptions C15_eof_only_at_end.

(* whatever follows a complete expression — anything but the end of the input — makes Parse fail *)
Theorem C15_leftover : forall pf fuel input e s', p_or pf fuel (init_pst input) = POk (e, s') ->
  ttyp (cur s') <> TEOF -> parse_with_fuel pf fuel input = PErr.
Proof. exact leftover_rejected. Qed.
Print Assumptions C15_leftover.

(* the null literal is consumed like any other primary, so what follows it is parsed *)
Theorem C15_null : forall pf f s, ttyp (cur s) = TNull ->
  p_primary pf (S f) s = POk (NVal LNull, advance s).
Proof. exact null_consumed. Qed.
Print Assumptions C15_null.

Theorem C15_null_instance :
  parse pf_small t_null_and
  = POk (NExpr s_AND (Some (NExpr [61;61] (Some (NIdent [120])) (NVal LNull))) (eqn 97 4611686018427387904)).
Proof. exact null_and_is_a_conjunction. Qed.
Print Assumptions C15_null_instance.

Theorem C15_junk_instances : parse pf_small t_two_exprs = PErr /\ parse pf_small t_lower_and = PErr.
Proof. split; [exact second_expression_rejected|exact lower_case_and_rejected]. Qed.
Print Assumptions C15_junk_instances.
