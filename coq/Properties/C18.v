(* C18 — every request gets a response; rejected requests change nothing. *)
From Coq Require Import List NArith ZArith Bool.
From Syz Require Import Coll Rest RestProofs.
(* the path indices of the handlers are below the segment counts their guards establish (regenerated from rest.go on this run) *)
From Syz Require GenTablesOk.
Import ListNotations.
Open Scope N_scope.

(* the model keeps the panics of the code as values: AddDocument panics on a vector of the wrong size
   (log.Panicf), on an unsupported quantisation (getVectorSize) and on a dimension below 1; a panic in
   a handler is a dropped connection.  For every history of requests from an empty (or any well-formed)
   server no request is ever dropped, and every collection the server holds can store documents *)
Theorem C18_total : forall rqs s, server_wf s = true ->
  server_wf (fst (run s rqs)) = true /\ ~ In Dropped (snd (run s rqs)).
Proof. exact run_total. Qed.
Print Assumptions C18_total.

Theorem C18_step_total : forall s rq, server_wf s = true -> snd (handle s rq) <> Dropped.
Proof. exact handle_total. Qed.
Print Assumptions C18_step_total.

(* a request answered with 4xx or 5xx leaves the whole server state unchanged (equal, not just
   equivalent): in particular a batch insert is all-or-nothing *)
Theorem C18_rollback : forall s rq st b, snd (handle s rq) = Resp st b -> 400 <= st -> fst (handle s rq) = s.
Proof. exact handle_rollback. Qed.
Print Assumptions C18_rollback.

Theorem C18_rejected_history : forall rqs s,
  Forall (fun r => exists st b, r = Resp st b /\ 400 <= st) (snd (run s rqs)) -> fst (run s rqs) = s.
Proof. exact run_rejected. Qed.
Print Assumptions C18_rejected_history.

(* the constructor side: a collection that passes the validation of create can store every vector of its dimension *)
Theorem C18_ctor : forall c id vt meta, coll_wf c = true -> exists c', coll_add c id vt (c_dim c) meta = Ok c' /\ coll_wf c' = true.
Proof. intros c id vt meta H. destruct (coll_add_ok c id vt (c_dim c) meta H eq_refl) as [c' [A [B _]]]. eauto. Qed.
Print Assumptions C18_ctor.

(* non-vacuity, and the pinned tree's behaviour as a model-level fact: without validation the same
   batch would have been dropped by the panic in AddDocument *)
Example C18_batch :
  let good := {| r_id := 1; r_vec := Some (1, 2%Z); r_text := false; r_meta := 0 |} in
  let bad := {| r_id := 2; r_vec := Some (2, 3%Z); r_text := false; r_meta := 0 |} in
  let s := [(1, {| c_dim := 2%Z; c_q := 64%Z; c_metric := 0; c_docs := [] |})] in
  handle s (Insert 1 (Some [good; bad])) = (s, Resp 400 BNone) /\ add_all {| c_dim := 2%Z; c_q := 64%Z; c_metric := 0; c_docs := [] |} [good; bad] = Panic.
Proof. split; reflexivity. Qed.
