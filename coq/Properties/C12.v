(* C12 — quantisation contract: bounded error (nearest level), monotone, idempotent, clamped;
   components independent for every dimension and every position in a packed byte. *)
From Coq Require Import ZArith Floats List.
From Syz Require Import Quant QuantCert QuantMono QuantCells.
Open Scope Z_scope.

(* idempotent: storing a retrieved component retrieves the same component — all 2^b codes *)
Theorem C12_idempotent : forall bits k, bits = 4 \/ bits = 8 \/ bits = 16 -> 0 <= k < 2 ^ bits ->
  quantize bits (dequantize bits k) = k.
Proof. exact quantize_dequantize. Qed.
Print Assumptions C12_idempotent.

(* clamped: every value below -1 (including -infinity) goes to the lowest level, every value
   above 1 (including +infinity) to the highest *)
Theorem C12_clamp_low : forall bits x, bits = 4 \/ bits = 8 \/ bits = 16 ->
  PrimFloat.ltb x (-1)%float = true -> quantize bits x = 0.
Proof. exact quantize_clamp_low. Qed.
Print Assumptions C12_clamp_low.

Theorem C12_clamp_high : forall bits x, bits = 4 \/ bits = 8 \/ bits = 16 ->
  PrimFloat.ltb x (-1)%float = false -> PrimFloat.ltb 1%float x = true -> quantize bits x = 2 ^ bits - 1.
Proof. exact quantize_clamp_high. Qed.
Print Assumptions C12_clamp_high.

(* monotone on [-1, 1] (all binary64 values there, not a sample): x <= y implies code x <= code y *)
Theorem C12_monotone : forall bits x y, bits = 4 \/ bits = 8 \/ bits = 16 ->
  PrimFloat.is_nan x = false -> PrimFloat.is_nan y = false ->
  PrimFloat.ltb x (-1)%float = false -> PrimFloat.ltb 1%float x = false ->
  PrimFloat.ltb y (-1)%float = false -> PrimFloat.ltb 1%float y = false ->
  PrimFloat.leb x y = true ->
  quantize bits x <= quantize bits y.
Proof. exact quantize_mono_core. Qed.
Print Assumptions C12_monotone.

(* nearest level: between level k and level k+1 a value is stored as k up to the midpoint (minus
   2^-50) and as k+1 from the midpoint (plus 2^-50) on; so the error is at most half a step,
   1/(2^b-1), plus the stated slack *)
Theorem C12_nearest : forall bits k x, bits = 4 \/ bits = 8 \/ bits = 16 -> 0 <= k < 2 ^ bits - 1 ->
  in_rng x = true ->
  (PrimFloat.leb (level bits k) x = true -> PrimFloat.leb x (mid_lo bits k) = true -> quantize bits x = k)
  /\ (PrimFloat.leb (mid_hi bits k) x = true -> PrimFloat.leb x (level bits (k + 1)) = true -> quantize bits x = k + 1).
Proof. exact nearest_level. Qed.
Print Assumptions C12_nearest.

(* components are independent: decodeVector (encodeDocument v) returns the per-component codes for
   every dimension, odd dimensions under 4-bit packing included, every bit width *)
Theorem C12_pack : forall bits codes, bits = 4 \/ bits = 8 \/ bits = 16 \/ bits = 32 \/ bits = 64 ->
  Forall (fun k => 0 <= k < 2 ^ bits) codes ->
  decode_codes bits (length codes) (encode_codes bits codes) = codes.
Proof. exact decode_encode. Qed.
Print Assumptions C12_pack.

(* ---- b = 32: the nearest float32; b = 64: the exact value ---- *)
From Coq Require Import Reals.
From Flocq Require Import Core.Core IEEE754.BinarySingleNaN IEEE754.PrimFloat.
From Syz Require Import F32Proofs.

(* what a 32-bit collection reads back is the binary32 number nearest to the component (ties to even), for every
   finite component whose rounding does not overflow the binary32 range; in particular it is finite *)
Theorem C12_f32_nearest : forall x : PrimFloat.float,
  BinarySingleNaN.is_finite (Prim2B x) = true ->
  (Rabs (round radix2 (FLT_exp (-149) 24) ZnearestE (BinarySingleNaN.B2R (Prim2B x))) < bpow radix2 128)%R ->
  BinarySingleNaN.B2R (Prim2B (load_code 32 (store_code 32 x)))
    = round radix2 (FLT_exp (-149) 24) ZnearestE (BinarySingleNaN.B2R (Prim2B x))
  /\ BinarySingleNaN.is_finite (Prim2B (load_code 32 (store_code 32 x))) = true.
Proof. exact f32_nearest. Qed.
Print Assumptions C12_f32_nearest.

(* hence the error is at most half a unit in the last place of binary32 *)
Theorem C12_f32_error : forall x : PrimFloat.float,
  BinarySingleNaN.is_finite (Prim2B x) = true ->
  (Rabs (round radix2 (FLT_exp (-149) 24) ZnearestE (BinarySingleNaN.B2R (Prim2B x))) < bpow radix2 128)%R ->
  (Rabs (BinarySingleNaN.B2R (Prim2B (load_code 32 (store_code 32 x))) - BinarySingleNaN.B2R (Prim2B x))
   <= / 2 * ulp radix2 (FLT_exp (-149) 24) (BinarySingleNaN.B2R (Prim2B x)))%R.
Proof. exact f32_error. Qed.
Print Assumptions C12_f32_error.

(* idempotent at 32 bits: storing a retrieved component retrieves the same component — every bit pattern *)
Theorem C12_f32_idempotent : forall k, load_code 32 (store_code 32 (load_code 32 k)) = load_code 32 k.
Proof. exact f32_idempotent. Qed.
Print Assumptions C12_f32_idempotent.

(* b = 64: every component, NaN and infinities included, is read back exactly *)
Theorem C12_f64_exact : forall x : PrimFloat.float, load_code 64 (store_code 64 x) = x.
Proof. exact b64_exact. Qed.
Print Assumptions C12_f64_exact.

(* the finite 1e39 is beyond the binary32 range: it is stored as +infinity (recorded finding of C20 at 32 bits) *)
Example C12_f32_overflow : load_code 32 (store_code 32 1e39%float) = PrimFloat.infinity.
Proof. vm_compute. reflexivity. Qed.

(* monotone at 32 bits *)
Theorem C12_f32_monotone : forall x y : PrimFloat.float,
  BinarySingleNaN.is_finite (Prim2B x) = true -> BinarySingleNaN.is_finite (Prim2B y) = true ->
  (Rabs (round radix2 (FLT_exp (-149) 24) ZnearestE (BinarySingleNaN.B2R (Prim2B x))) < bpow radix2 128)%R ->
  (Rabs (round radix2 (FLT_exp (-149) 24) ZnearestE (BinarySingleNaN.B2R (Prim2B y))) < bpow radix2 128)%R ->
  (BinarySingleNaN.B2R (Prim2B x) <= BinarySingleNaN.B2R (Prim2B y))%R ->
  (BinarySingleNaN.B2R (Prim2B (load_code 32 (store_code 32 x))) <= BinarySingleNaN.B2R (Prim2B (load_code 32 (store_code 32 y))))%R.
Proof. exact f32_monotone. Qed.
Print Assumptions C12_f32_monotone.
