(* C04 — approximate search is sound: only live, matching, correctly ranked results. *)
From Coq Require Import ZArith Floats List Sorting.Sorted.
From Syz Require Import Quant Dist Search Lsh FloatOrder ApproxProofs.
Open Scope Z_scope.

(* For EVERY forest (it need not even satisfy the index invariant), every query, K, radius, filter
   (sd_ok) and every order in which the node queue hands out nodes, the default-precision search
   returns a duplicate-free list, in non-decreasing distance order, of live documents accepted by
   the filter, each with the distance to its stored vector; at most K of them in K mode, only
   within-radius ones in radius mode. *)
Theorem C04_sound : forall cosine q K R docs forest,
  let res := fst (fst (search_approx cosine q K R docs forest)) in
  Forall (good_hit cosine q docs) res /\ NoDup (map fst res) /\ LocallySorted not_smaller res
  /\ (PrimFloat.ltb 0 R = false -> (0 < K)%nat -> (length res <= K)%nat)
  /\ (PrimFloat.ltb 0 R = true -> Forall (fun h => PrimFloat.leb (snd h) R = true) res).
Proof. intros. apply approx_sound. exact ltb_asym. Qed.
Print Assumptions C04_sound.

(* "<" on binary64, as used by the result heap, is asymmetric *)
Theorem C04_ltb_asym : forall x y, PrimFloat.ltb x y = true -> PrimFloat.ltb y x = false.
Proof. exact ltb_asym. Qed.
Print Assumptions C04_ltb_asym.
