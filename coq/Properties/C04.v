(* C04 — approximate search is sound: only live, matching, correctly ranked results. *)
From Coq Require Import ZArith Floats List Sorting.Sorted.
From Syz Require Import Quant Dist Search Lsh FloatOrder ApproxProofs HeapPerm ApproxNonEmpty ApproxSingleLeaf.
(* the tables of the model are the ones regenerated from the Go sources on this run *)
From Syz Require GenTablesOk.
Open Scope Z_scope.

(* For EVERY forest (it need not even satisfy the index invariant), every query, K, radius, filter
   (sd_ok) and every order in which the node queue hands out nodes, the default-precision search
   returns a duplicate-free list, in non-decreasing distance order, of live documents accepted by
   the filter, each with the distance to its stored vector; at most K of them in K mode, only
   within-radius ones in radius mode. *)
Theorem C04_sound : forall cosine q K R docs forest,
  let res := fst (fst (search_approx cosine q K R docs forest)) in
  Forall (good_hit cosine q docs) res /\ NoDup (map fst res) /\ LocallySorted not_smaller res
  /\ (PrimFloat.ltb 0 R = false -> (0 < K)%nat -> (length res <= K)%nat)
  /\ (PrimFloat.ltb 0 R = true -> Forall (fun h => PrimFloat.leb (snd h) R = true) res).
Proof. intros. apply approx_sound. exact ltb_asym. Qed.
Print Assumptions C04_sound.

(* "<" on binary64, as used by the result heap, is asymmetric *)
Theorem C04_ltb_asym : forall x y, PrimFloat.ltb x y = true -> PrimFloat.ltb y x = false.
Proof. exact ltb_asym. Qed.
Print Assumptions C04_ltb_asym.

(* A K-nearest search (K >= 1, no radius) returns at least one result whenever some live document accepted by
   the filter is indexed — for every forest whose leaves hold only live ids (what C05 establishes), without nil
   children and with hyperplane distances that are not infinite, for every query and whatever order the node
   queue (the transcription of container/heap, proved to only permute) hands the nodes out: before the first
   acceptance nothing is pruned and the early-stop counter does not run, and the fuel 2*(nodes)+10 of the loop
   suffices to reach the leaf that holds the document. *)
Theorem C04_nonempty : forall cosine q K R docs forest id, (0 < K)%nat -> PrimFloat.ltb 0 R = false ->
  Forall (tree_ok cosine q (vector_length q) docs) forest ->
  wanted docs id -> (exists t, In t forest /\ In id (leaf_ids t)) ->
  fst (fst (search_approx cosine q K R docs forest)) <> nil.
Proof. exact approx_nonempty. Qed.
Print Assumptions C04_nonempty.

(* the node queue only permutes: push adds exactly the pushed node, pop removes exactly the popped one *)
Theorem C04_queue_is_a_bag : forall (h : list qitem) x h', hpop fst (0%float, Nil) h = Some (x, h') -> Permutation.Permutation h (x :: h').
Proof. intros h x h'. apply hpop_perm. Qed.
Print Assumptions C04_queue_is_a_bag.

(* On a collection small enough for a single index leaf per tree (every tree of the forest is one leaf; all leaves
   hold the same duplicate-free live ids — the state C05 maintains while the collection has at most 100 documents)
   the default-precision K-nearest search IS the exact search: its result is the bounded heap `knn` of C03 folded
   over the accepted candidates in the order of the leaf the queue hands out first, and C03_knn says what that is
   for every order (the min(K, m) nearest, sorted, ties free). *)
Theorem C04_single_leaf : forall cosine q K R docs forest, (0 < K)%nat -> PrimFloat.ltb 0 R = false ->
  forest <> nil ->
  (forall t, In t forest -> exists ids, t = Leaf ids /\ NoDup ids /\ Forall (live docs) ids) ->
  (forall t t' ids ids', In t forest -> In t' forest -> t = Leaf ids -> t' = Leaf ids' -> incl ids' ids) ->
  exists ids, In (Leaf ids) forest /\
    fst (fst (search_approx cosine q K R docs forest)) = knn PrimFloat.ltb K (cands_in_order cosine q docs ids).
Proof. exact approx_single_leaf. Qed.
Print Assumptions C04_single_leaf.
