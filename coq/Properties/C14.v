(* C14 — building and applying a filter never panics or hangs. *)
From Coq Require Import ZArith Lia.
From Syz Require Import QEval QLexProofs QSemProofs QParseProofs QParseFuel.
(* the tables of the model are the ones regenerated from the Go sources on this run *)
From Syz Require GenTablesOk.
Open Scope N_scope.

(* The lexer model has no partial operation left (the slice expressions of readIdentifierOrKeyword,
   readWord and readNumber are consumed-prefix computations; the one that could leave the input,
   after "DOES NOT", is guarded since the fix) and every token other than EOF consumes at least one
   character, so the token stream of any byte string is produced in at most |input|+1 steps. *)
Theorem C14_lex_progress : forall input t r, next_token input = (t, r) -> ttyp t <> TEOF ->
  (length r < length input)%nat.
Proof. exact next_token_progress. Qed.
Print Assumptions C14_lex_progress.

Theorem C14_lex_total : forall fuel input, (length input < fuel)%nat -> lex_all fuel input <> None.
Proof. exact lex_all_total. Qed.
Print Assumptions C14_lex_total.

(* A built filter is a total function of (syntax tree, decoded metadata): it returns true, false or
   an error (reject) — invalid JSON (doc = None), non-object JSON, missing fields, wrong types and
   invalid regular expressions (re = None) are ordinary values of the model, and the result
   depends on nothing else. *)
Theorem C14_apply_total : forall re n doc, exists r : option bool, apply_filter re n doc = r.
Proof. exact apply_filter_total. Qed.
Print Assumptions C14_apply_total.

(* The parser model runs on explicit fuel 12*|input|+40.  That bound is never exhausted, for every input
   and every number-literal oracle: each function of the recursive descent needs at most a constant plus
   8 units per remaining token, every loop iteration and every nesting level consumes a token, and a token
   consumes a character.  So building a filter terminates with a tree or an error after work bounded by the
   length of the text — no hang, no stack exhaustion in the model. *)
Theorem C14_parse_total : forall parse_float input, parse parse_float input <> PFuel.
Proof. exact parse_never_out_of_fuel. Qed.
Print Assumptions C14_parse_total.

(* The instance that used to panic: *)
Theorem C14_does_not_instance : parse pf_small t_does_not = PErr.
Proof. exact does_not_at_end_is_an_error_not_a_panic. Qed.
Print Assumptions C14_does_not_instance.
