(* C13 — metadata filters mean what the documented language says. *)
From Coq Require Import ZArith.
From Syz Require Import QEval QSemProofs QParseProofs.
Open Scope N_scope.

(* For every regular-expression oracle, every expression e of the documented operators
   (comparisons, CONTAINS/STARTS_WITH/ENDS_WITH/MATCHES, IN / NOT IN, EXISTS / DOES NOT EXIST on
   nested paths with array index and .length, AND, OR, NOT) and every document d on which e is
   well-typed (sem = Some b: compared fields present, operand types as the operator expects), the
   evaluator of compiler.go returns exactly the documented truth value. *)
Theorem C13_eval : forall re e d b, sem re e d = Some b -> eval re (to_node e) d = EOk (JBool b).
Proof. exact eval_sem. Qed.
Print Assumptions C13_eval.

(* EXISTS is true exactly when the path is present and DOES NOT EXIST is its negation, for
   top-level and nested paths, present or absent — with no typing assumption at all *)
Theorem C13_exists : forall re neg p d,
  eval re (cond_node (CExists neg p)) d = EOk (JBool (xorb neg (is_some (lookup_path p d)))).
Proof. exact exists_sem. Qed.
Print Assumptions C13_exists.

(* AND binds tighter than OR (instance, by computation on the parser model; the general
   parser round trip is not proved: see C13_parse_partial in DESIGN.md) *)
Theorem C13_precedence_instance :
  parse pf_small t_prec
  = POk (NExpr s_OR (Some (eqn 97 4607182418800017408))
               (NExpr s_AND (Some (eqn 98 4611686018427387904)) (eqn 99 4613937818241073152))).
Proof. exact and_binds_tighter_than_or. Qed.
Print Assumptions C13_precedence_instance.

(* non-vacuity: a well-typed pair *)
Example C13_nonvacuous :
  sem (fun _ _ => None)
      (WAnd (WCond (CCmp OGe (PField [97]) (LNum 4607182418800017408)))
            (WNot (WCond (CExists false (PDot (PField [117]) [120])))))
      (JObj [([97], JNum 4611686018427387904); ([117], JObj [])]) = Some true.
Proof. vm_compute. reflexivity. Qed.
