(* C13 — metadata filters mean what the documented language says. *)
From Coq Require Import ZArith.
From Syz Require Import QParseTree QLexRender QEval QSemProofs QParseProofs.
(* the tables of the model are the ones regenerated from the Go sources on this run *)
From Syz Require GenTablesOk.
Open Scope N_scope.

(* For every regular-expression oracle, every expression e of the documented operators
   (comparisons, CONTAINS/STARTS_WITH/ENDS_WITH/MATCHES, IN / NOT IN, EXISTS / DOES NOT EXIST on
   nested paths with array index and .length, AND, OR, NOT) and every document d on which e is
   well-typed (sem = Some b: compared fields present, operand types as the operator expects), the
   evaluator of compiler.go returns exactly the documented truth value. *)
Theorem C13_eval : forall re e d b, sem re e d = Some b -> eval re (to_node e) d = EOk (JBool b).
Proof. exact eval_sem. Qed.
Print Assumptions C13_eval.

(* EXISTS is true exactly when the path is present and DOES NOT EXIST is its negation, for
   top-level and nested paths, present or absent — with no typing assumption at all *)
Theorem C13_exists : forall re neg p d,
  eval re (cond_node (CExists neg p)) d = EOk (JBool (xorb neg (is_some (lookup_path p d)))).
Proof. exact exists_sem. Qed.
Print Assumptions C13_exists.

(* the parser half, for every text: if the token stream of the text (as the lexer model produces it on the fly) is the
   rendering of a documented expression e — OR of ANDs of comparisons, NOT ( ... ), parentheses anywhere, field paths
   with .name and [index], IN lists of numbers and strings — followed by the end of the input, then Parse returns
   exactly the tree of e: AND binds tighter than OR, both associate to the left, redundant parentheses change nothing *)
Theorem C13_parse_tree : forall pf text e t s',
  Renders pf LOr e t -> Follows t (init_pst text) s' -> ttyp (cur s') = TEOF ->
  parse pf text = POk (to_node e).
Proof. exact parse_builds_tree. Qed.
Print Assumptions C13_parse_tree.

(* both halves together: such a text, built into a filter, accepts a document on which it is well typed exactly
   when the expression is true *)
Theorem C13_filter_meaning : forall pf re text e t s' d b,
  Renders pf LOr e t -> Follows t (init_pst text) s' -> ttyp (cur s') = TEOF ->
  sem re e d = Some b ->
  exists n, parse pf text = POk n /\ eval re n d = EOk (JBool b).
Proof.
  intros pf re text e t s' d b Hr Hf He Hs. exists (to_node e). split.
  - exact (parse_builds_tree pf text e t s' Hr Hf He).
  - exact (eval_sem re e d b Hs).
Qed.
Print Assumptions C13_filter_meaning.

(* from bytes: a filter TEXT written as the tokens of a documented expression, each followed by one space (identifiers
   that are not keywords, decimal integers, strings without quote/backslash/NUL in either quote style, the documented
   operators and keywords), lexes back to exactly those tokens, so Parse returns the tree of the expression *)
Theorem C13_text_tree : forall pf e specs ps,
  Renders pf LOr e specs -> Forall pt_ok ps -> Forall2 (fun sp p => sp (tok_of p)) specs ps ->
  parse pf (render ps) = POk (to_node e).
Proof. exact text_builds_tree. Qed.
Print Assumptions C13_text_tree.

Example C13_text_tree_nonvacuous : parse pf_small (render ex_ps) = POk (to_node ex_expr).
Proof. exact ex_text_tree. Qed.

(* the premises are satisfiable: "a == 1 OR NOT (u.x EXISTS) AND (b IN [2, 'k'])" *)
Example C13_parse_tree_nonvacuous : parse pf_small ex_text = POk (to_node ex_expr).
Proof. exact ex_parse. Qed.

(* AND binds tighter than OR (the first instance, by computation on the parser model) *)
Theorem C13_precedence_instance :
  parse pf_small t_prec
  = POk (NExpr s_OR (Some (eqn 97 4607182418800017408))
               (NExpr s_AND (Some (eqn 98 4611686018427387904)) (eqn 99 4613937818241073152))).
Proof. exact and_binds_tighter_than_or. Qed.
Print Assumptions C13_precedence_instance.

(* non-vacuity: a well-typed pair *)
Example C13_nonvacuous :
  sem (fun _ _ => None)
      (WAnd (WCond (CCmp OGe (PField [97]) (LNum 4607182418800017408)))
            (WNot (WCond (CExists false (PDot (PField [117]) [120])))))
      (JObj [([97], JNum 4611686018427387904); ([117], JObj [])]) = Some true.
Proof. vm_compute. reflexivity. Qed.
