(* C08 — no silent corruption: damaged bytes lose data, never alter it. *)
From Coq Require Import List NArith.
From Syz Require Import Consts Store Crc CrcBound CrcBurst SpanProofs ScanProofs StoreProofs CorruptProofs.
Import ListNotations.
Open Scope N_scope.

(* 1. ANY image whatsoever (no assumption on the damage): every active record the scan reports is a
      window of the file that parses as a span with the reported fields — hence (C08_parsed_has_checksum)
      a window with SPAN magic whose checksum is valid; nothing is fabricated *)
Theorem C08_scan_sound : forall file ts, scan file = Ok ts -> Forall (ta_ok file) ts.
Proof. exact scan_sound. Qed.
Print Assumptions C08_scan_sound.

Theorem C08_parsed_has_checksum : forall img sp, parse_span img = Ok sp ->
  exists l, rd32 img = Some activeMagic /\ rd32 (skipn 4 img) = Some l /\ verify_checksum (firstn_N l img) = true.
Proof. exact parse_ok_checksum. Qed.
Print Assumptions C08_parsed_has_checksum.

(*    ... and the scan can panic only over a checksum-valid SPAN window that is not a serialised span *)
Theorem C08_panic_needs_valid_malformed : forall file, scan file = Panic ->
  exists img, from_file file img /\ parse_span img = Panic.
Proof. intros file H. exact (scan_fuel_panic _ _ _ H). Qed.
Print Assumptions C08_panic_needs_valid_malformed.

(* 2. CRC-32 as hash/crc32 computes it detects EVERY error pattern confined to a window of at most 32
      consecutive bits (bit order of the register: byte by byte, least significant bit first), for
      messages of every length *)
Theorem C08_crc_burst : forall a a', burst32 a a' -> bits_of a <> bits_of a' -> crc32 a <> crc32 a'.
Proof. exact crc32_burst. Qed.
Print Assumptions C08_crc_burst.

Theorem C08_bits_faithful : forall a a', Forall (fun d => d < 256) a -> Forall (fun d => d < 256) a' ->
  length a = length a' -> bits_of a = bits_of a' -> a = a'.
Proof. exact bits_of_inj. Qed.
Print Assumptions C08_bits_faithful.

(*    so a span whose checksummed bytes were hit by such a burst, or whose checksum field was altered
      in any way, fails its checksum *)
Theorem C08_body_burst_detected : forall pre pre', burst32 pre pre' -> bits_of pre <> bits_of pre' ->
  verify_checksum (pre' ++ be32 (crc32 pre)) = false.
Proof. exact burst_in_body_detected. Qed.
Print Assumptions C08_body_burst_detected.

Theorem C08_crc_field_detected : forall pre c', c' < 4294967296 -> c' <> crc32 pre ->
  verify_checksum (pre ++ be32 c') = false.
Proof. exact damage_in_crc_detected. Qed.
Print Assumptions C08_crc_field_detected.

(* 3. loss only: in a cleanly written file one active span is damaged (same size, magic and length words
      intact, checksum now failing — which by 2. covers every burst of <= 32 bits inside its checksummed
      bytes and every change of its checksum field); opening the file succeeds, every other tile comes back
      unchanged, and the readable documents are exactly those of the other spans, byte-identical *)
Theorem C08_loss_only : forall a b seq rid ss pad img', Forall wf_tile a -> Forall wf_tile b ->
  wf_span seq rid ss pad -> damaged (ta_img seq rid ss pad) img' ->
  scan (flatten a ++ img' ++ flatten b) = Ok (a ++ TX img' :: b) /\
  abs (a ++ TX img' :: b) = abs a ++ abs b /\
  abs (a ++ TA (ta_img seq rid ss pad) seq rid :: b) = abs a ++ (rid, ss) :: abs b.
Proof.
  intros a b seq rid ss pad img' Ha Hb Hw Hd. split; [apply (scan_damaged a b seq rid ss pad); assumption|].
  apply (contents_after_damage a b seq rid ss pad); assumption.
Qed.
Print Assumptions C08_loss_only.

Theorem C08_burst_is_damage : forall pre pre', (8 <= length pre)%nat -> length pre' = length pre ->
  firstn 8 pre' = firstn 8 pre -> burst32 pre pre' -> bits_of pre <> bits_of pre' ->
  damaged (pre ++ be32 (crc32 pre)) (pre' ++ be32 (crc32 pre)).
Proof. exact burst_damage. Qed.
Print Assumptions C08_burst_is_damage.

Theorem C08_crc_change_is_damage : forall pre c', (8 <= length pre)%nat -> c' < 4294967296 -> c' <> crc32 pre ->
  damaged (pre ++ be32 (crc32 pre)) (pre ++ be32 c').
Proof. exact crc_damage. Qed.
Print Assumptions C08_crc_change_is_damage.

(* non-vacuity: a one-bit flip in a 3-byte message changes the checksum; zlib's value for "abc" *)
Example C08_example : crc32 [97; 98; 99] = 891568578 /\ crc32 [97; 98; 99] <> crc32 [97; 106; 99].
Proof. split; [vm_compute; reflexivity | vm_compute; discriminate]. Qed.
