(* C16 — listing pages tile the filtered collection without gaps or repeats. *)
From Syz Require Import Coll ListingProofs.
Open Scope N_scope.

(* the page computed by the listing branch of Search is exactly the slice [off, off+lim) of the
   full filtered listing (limit 0 = to the end), for every collection state, filter, offset, limit *)
Theorem C16_page : forall s flt off lim full,
  listing s flt 0 0 = Ok full ->
  listing s flt off lim = Ok (slice off lim full).
Proof. exact listing_page. Qed.
Print Assumptions C16_page.

(* the full listing is the filtered list of documents in the fixed (string) order of their ids *)
Theorem C16_order : forall s flt docs,
  sorted_docs s = Ok docs ->
  listing s flt 0 0 = Ok (filter (accepts flt) docs).
Proof. exact listing_order. Qed.
Print Assumptions C16_order.

(* consecutive pages cover the listing: a page followed by the rest equals the rest from its offset *)
Theorem C16_tiling : forall (l : list (N * bytes)) off lim, 0 < lim ->
  slice off lim l ++ slice (off + lim) 0 l = slice off 0 l.
Proof. exact (@slice_tiling (N * bytes)). Qed.
Print Assumptions C16_tiling.

(* ... so reading page after page with one positive limit returns every matching document exactly once and in order:
   the first n pages concatenated are the whole listing as soon as n pages reach its end *)
Theorem C16_pages_cover : forall (l : list (N * bytes)) lim n, 0 < lim -> (length l <= n * N.to_nat lim)%nat ->
  concat (map (fun i => slice (N.of_nat i * lim) lim l) (seq 0 n)) = l.
Proof. exact (@pages_cover (N * bytes)). Qed.
Print Assumptions C16_pages_cover.

(* an offset at or beyond the end gives the empty page for every limit; a limit larger than what is left gives what is left *)
Theorem C16_beyond_end : forall (l : list (N * bytes)) off lim, (length l <= N.to_nat off)%nat -> slice off lim l = nil.
Proof. exact (@slice_beyond (N * bytes)). Qed.
Print Assumptions C16_beyond_end.

Theorem C16_large_limit : forall (l : list (N * bytes)) off lim, (length l <= N.to_nat off + N.to_nat lim)%nat ->
  slice off lim l = slice off 0 l.
Proof. exact (@slice_large (N * bytes)). Qed.
Print Assumptions C16_large_limit.

(* the same about the listing operation: the answers to pages 0, 1, 2, ... of one positive limit, concatenated, are
   the full filtered listing — every matching document once, none missing *)
Theorem C16_listing_pages_cover : forall s flt lim n full, listing s flt 0 0 = Ok full -> 0 < lim ->
  (length full <= n * N.to_nat lim)%nat ->
  concat (map (fun i => match listing s flt (N.of_nat i * lim) lim with Ok p => p | _ => nil end) (seq 0 n)) = full.
Proof. exact listing_pages_cover. Qed.
Print Assumptions C16_listing_pages_cover.
