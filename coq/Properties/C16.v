(* C16 — listing pages tile the filtered collection without gaps or repeats. *)
From Syz Require Import Coll ListingProofs.
Open Scope N_scope.

(* the page computed by the listing branch of Search is exactly the slice [off, off+lim) of the
   full filtered listing (limit 0 = to the end), for every collection state, filter, offset, limit *)
Theorem C16_page : forall s flt off lim full,
  listing s flt 0 0 = Ok full ->
  listing s flt off lim = Ok (slice off lim full).
Proof. exact listing_page. Qed.
Print Assumptions C16_page.

(* the full listing is the filtered list of documents in the fixed (string) order of their ids *)
Theorem C16_order : forall s flt docs,
  sorted_docs s = Ok docs ->
  listing s flt 0 0 = Ok (filter (accepts flt) docs).
Proof. exact listing_order. Qed.
Print Assumptions C16_order.

(* consecutive pages cover the listing: a page followed by the rest equals the rest from its offset *)
Theorem C16_tiling : forall (l : list (N * bytes)) off lim, 0 < lim ->
  slice off lim l ++ slice (off + lim) 0 l = slice off 0 l.
Proof. exact (@slice_tiling (N * bytes)). Qed.
Print Assumptions C16_tiling.
