(* C20 — export followed by import reproduces the collection. *)
From Coq Require Import List NArith ZArith Floats.
Import ListNotations.
From Syz Require Import Dump DumpProofs Quant QuantCert QuantCells DumpCells.

(* record level: ImportJSON (AddDocument for every record of the exported array, in order, into a new
   collection) rebuilds exactly the ids of the exported collection, in order, and each document is the
   exported one after the per-component text round trip rv and the metadata re-encoding rm *)
Theorem C20_roundtrip : forall (V M : Type) (rv : V -> V) (rm : M -> M) (c : @coll V M) id,
  NoDup (map fst c) ->
  map fst (import_records rv rm c) = map fst c /\
  lookup id (import_records rv rm c) = option_map (fun d => (rv (fst d), rm (snd d))) (lookup id c).
Proof. intros; split; [apply import_export_ids | apply import_export_lookup]; assumption. Qed.
Print Assumptions C20_roundtrip.

(* components, 4/8/16 bits, for ANY printer/reader pair rp: if the text round trip returns the
   exact value (the strconv contract of the shortest-round-trip format) the stored code is unchanged *)
Theorem C20_component_exact : forall bits k (rp : float -> float), bits = 4%Z \/ bits = 8%Z \/ bits = 16%Z ->
  (0 <= k < 2 ^ bits)%Z ->
  rp (dequantize bits k) = dequantize bits k ->
  quantize bits (rp (dequantize bits k)) = k.
Proof. intros bits k rp Hb Hk H. rewrite H. apply quantize_dequantize; assumption. Qed.
Print Assumptions C20_component_exact.

(* components, 4/8/16 bits, no contract on the printer beyond six correct decimals: every value
   within 10^-6 of level k (and inside [-1,1]) is stored as level k — all 2^b levels *)
Theorem C20_component_six_decimals : forall bits k y, bits = 4%Z \/ bits = 8%Z \/ bits = 16%Z ->
  (0 <= k < 2 ^ bits)%Z -> in_rng y = true ->
  PrimFloat.leb (lo6 bits k) y = true -> PrimFloat.leb y (hi6 bits k) = true ->
  quantize bits y = k.
Proof. exact six_decimals. Qed.
Print Assumptions C20_component_six_decimals.

(* text level: the hand-written indentation of the metadata block changes nothing but leading
   spaces of lines: line by line, the exported block is the encoder's output with the first line
   kept and every other non-empty line prefixed by four spaces *)
Theorem C20_metadata_block : forall mj,
  split_nl (export_meta mj) = match split_nl mj with first :: rest => first :: map (ind spaces4) rest | [] => [] end
  /\ map ltrim (split_nl (export_meta mj)) = map ltrim (split_nl mj).
Proof. intro mj; split; [apply export_meta_lines | apply export_meta_whitespace_only]. Qed.
Print Assumptions C20_metadata_block.

Theorem C20_indenter : forall prefix p, ~ In NL prefix ->
  split_nl (indent_write prefix true p) = map (ind prefix) (split_nl p).
Proof. exact indent_write_lines. Qed.
Print Assumptions C20_indenter.

(* non-vacuity: a two-line object *)
Example C20_block_example :
  export_meta [123; 10; 32; 32; 34; 97; 34; 58; 32; 49; 10; 125; 10]%N
  = [123; 10; 32; 32; 32; 32; 32; 32; 34; 97; 34; 58; 32; 49; 10; 32; 32; 32; 32; 125; 10]%N.
Proof. reflexivity. Qed.
