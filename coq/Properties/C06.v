(* C06 — distances are well-defined numbers. *)
From Coq Require Import Floats ZArith List.
From Syz Require Import Quant Dist DistProofs DistSym.
Import ListNotations.

(* Euclidean distance of finite vectors: never NaN, sign bit clear (so >= +0), for all magnitudes *)
Theorem C06_euclid_total : forall a b, Forall finite_f a -> Forall finite_f b ->
  PrimFloat.is_nan (euclid a b) = false /\ PrimFloat.get_sign (euclid a b) = false.
Proof. exact euclid_total. Qed.
Print Assumptions C06_euclid_total.

(* ... and exactly +0 from a finite vector to itself *)
Theorem C06_euclid_self : forall a, Forall finite_f a -> euclid a a = 0%float.
Proof. exact euclid_self. Qed.
Print Assumptions C06_euclid_self.

(* the argument handed to acos is always inside [-1, 1] *)
Theorem C06_clamp : forall c, PrimFloat.is_nan c = false ->
  PrimFloat.is_nan (clamp_unit c) = false
  /\ PrimFloat.ltb (clamp_unit c) (-1)%float = false /\ PrimFloat.ltb 1%float (clamp_unit c) = false.
Proof. exact clamp_unit_range. Qed.
Print Assumptions C06_clamp.

(* cosine distance: for every acos that maps [-1,1] into [0, Pi] without NaN (the documented contract of
   math.Acos; tested on the implementation, not proved) the result is a number in [0, 1] whenever the
   cosine itself is a number, i.e. whenever the squared norms and the dot product do not overflow *)
Theorem C06_cos_range : forall acosf : float -> float,
  (forall c, PrimFloat.is_nan c = false -> PrimFloat.ltb c (-1)%float = false -> PrimFloat.ltb 1%float c = false ->
     PrimFloat.is_nan (acosf c) = false /\ PrimFloat.leb 0%float (acosf c) = true /\ PrimFloat.leb (acosf c) Pi = true) ->
  forall a b, PrimFloat.is_nan (cosine_of a b) = false ->
  let r := angular_with acosf a b in
  PrimFloat.is_nan r = false /\ PrimFloat.leb 0%float r = true /\ PrimFloat.leb r 1%float = true.
Proof. exact angular_range. Qed.
Print Assumptions C06_cos_range.

(* the former counterexample: the cosine distance of [0.5; 0.25; 0.1] to itself is 0, not NaN *)
Example C06_former_nan : bits64 (angular [0.5; 0.25; 0.1] [0.5; 0.25; 0.1])%float = 0%Z.
Proof. vm_compute. reflexivity. Qed.

(* symmetry, bit for bit: the Euclidean distance on finite vectors of equal dimension ((x-y)^2 and (y-x)^2 are the
   same binary64 number even when the difference overflows), the cosine distance on all vectors of equal
   dimension and for every acos (products commute, sums are taken in the same order) *)
Theorem C06_euclid_symmetric : forall a b, Forall finite_f a -> Forall finite_f b -> length a = length b ->
  euclid a b = euclid b a.
Proof. exact euclid_sym. Qed.
Print Assumptions C06_euclid_symmetric.

Theorem C06_cosine_symmetric : forall a b, length a = length b -> angular a b = angular b a.
Proof. intros a b. apply angular_sym. Qed.
Print Assumptions C06_cosine_symmetric.

(* ---- real level: the ideal functions which the binary64 code approximates (DistReal.v: sqrt of the sum of squared
   differences; dot/(|a||b|); acos/PI over Coq's real numbers). The rounding error between these and the float
   functions above is not bounded (partial, see DESIGN C06); the implementation's outputs are checked against these
   laws with an explicit tolerance by the correspondence harness. ---- *)
From Coq Require Import Reals Lra.
From Syz Require Import DistReal.

(* Euclidean distance is a metric: non-negative, symmetric, zero on the diagonal, triangle inequality (Minkowski) *)
Theorem C06_real_euclid_metric : forall a b c : list R, length a = length b -> length b = length c ->
  (0 <= euclidR a b /\ euclidR a b = euclidR b a /\ euclidR a a = 0 /\ euclidR a c <= euclidR a b + euclidR b c)%R.
Proof.
  intros a b c Hab Hbc. split; [apply euclidR_nonneg|]. split; [apply euclidR_sym|]. split; [apply euclidR_self|].
  exact (euclidR_triangle a b c Hab Hbc).
Qed.
Print Assumptions C06_real_euclid_metric.

(* cosine distance of non-zero vectors: in [0,1], 0 against itself, 1 against the opposite vector (Cauchy-Schwarz) *)
Theorem C06_real_cosine_range : forall a b : list R, (0 < dotR a a -> 0 < dotR b b ->
  -1 <= cosineR a b <= 1 /\ 0 <= angularR a b <= 1)%R.
Proof. intros a b Ha Hb. split; [exact (cosineR_range a b Ha Hb)|exact (angularR_range a b Ha Hb)]. Qed.
Print Assumptions C06_real_cosine_range.

Theorem C06_real_cosine_self_opposite : forall a : list R, (0 < dotR a a ->
  angularR a a = 0 /\ angularR a (scaleR (-1) a) = 1)%R.
Proof. intros a Ha. split; [exact (angularR_self a Ha)|exact (angularR_opposite a Ha)]. Qed.
Print Assumptions C06_real_cosine_self_opposite.

(* ... symmetric, and unchanged by positive scaling of either argument *)
Theorem C06_real_cosine_scaling : forall (k : R) (a b : list R), (0 < k -> 0 < dotR a a -> 0 < dotR b b ->
  cosineR (scaleR k a) b = cosineR a b /\ cosineR a (scaleR k b) = cosineR a b /\ cosineR a b = cosineR b a)%R.
Proof.
  intros k a b Hk Ha Hb. split; [exact (cosineR_scale_l k a b Hk Ha Hb)|]. split; [exact (cosineR_scale_r k a b Hk Ha Hb)|apply cosineR_sym].
Qed.
Print Assumptions C06_real_cosine_scaling.

(* the premises are satisfiable: a concrete triple *)
Example C06_real_nonvacuous : (0 < dotR [1; 2] [1; 2] /\ length [1; 2] = length [3; 4])%R.
Proof. split; [cbn [dotR]; lra|reflexivity]. Qed.
