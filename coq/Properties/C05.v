(* C05 — the ANN index always refers to exactly the live documents. *)
From Coq Require Import ZArith Floats List.
From Syz Require Import Quant Dist Search Lsh LshProofs ApproxNonEmpty ApproxCovering.
(* the tables of the model are the ones regenerated from the Go sources on this run *)
From Syz Require GenTablesOk.
Open Scope Z_scope.

(* inv t D: the tree t indexes exactly the documents D — every id exactly once, none missing,
   none dead — and every document sits in the leaf that routing its stored vector leads to,
   so that removal finds it again.  The side function is a black box: all geometries, all
   rounding behaviours. *)

Theorem C05_ids : forall cosine t D, inv cosine t D -> forall i, In i (leaf_ids t) <-> In i (map fst D).
Proof. exact inv_ids. Qed.
Print Assumptions C05_ids.

(* insertion keeps the invariant and cannot fail, whether or not the leaf splits and whatever plane
   the random source proposes (oracle) — including a proposal that separates nothing *)
Theorem C05_insert : forall cosine t oracle D docs id v,
  ids_unique docs -> In (id, v) docs -> (forall d, In d D -> In d docs) -> ~ In id (map fst D) ->
  inv cosine t D ->
  exists t', insert cosine docs t oracle id v = Some t' /\ inv cosine t' ((id, v) :: D).
Proof. exact insert_inv. Qed.
Print Assumptions C05_insert.

(* removal under the vector the document was indexed with finds it, keeps the invariant, cannot fail;
   an emptied leaf stays a leaf *)
Theorem C05_remove : forall cosine t D id v, ids_unique D -> In (id, v) D -> inv cosine t D ->
  exists t', remove cosine t id v = Some t' /\ inv cosine t' (without id D).
Proof. exact remove_inv. Qed.
Print Assumptions C05_remove.

(* the trees of a new or emptied collection *)
Theorem C05_empty : forall cosine, inv cosine (Leaf nil) nil.
Proof. exact inv_empty_leaf. Qed.
Print Assumptions C05_empty.

(* the observable consequence: a default-precision radius search whose radius covers the accepted documents
   returns every live accepted document the index holds — for every forest whose leaves hold only live ids
   (C05_insert / C05_remove maintain that), without nil children, for every query and every order of the node
   queue, PROVIDED no hyperplane lies farther from the query than the radius (geometry: a plane that separates
   the query from a document is at most as far as that document; under binary64 rounding this is a hypothesis,
   not a theorem): nothing is pruned, nothing is merely "checked", the early-stop counter never runs. *)
Theorem C05_covering : forall cosine q K R docs forest id, PrimFloat.ltb 0 R = true ->
  (forall d, In d docs -> sd_ok d = true -> PrimFloat.leb (distance cosine q (sd_vec d)) R = true) ->
  Forall (tree_okr cosine q (vector_length q) R docs) forest ->
  wanted docs id -> (exists t, In t forest /\ In id (leaf_ids t)) ->
  In id (map fst (fst (fst (search_approx cosine q K R docs forest)))).
Proof. exact approx_covering. Qed.
Print Assumptions C05_covering.
