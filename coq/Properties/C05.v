(* C05 — the ANN index always refers to exactly the live documents. *)
From Coq Require Import ZArith Floats List.
From Syz Require Import Quant Dist Search Lsh LshProofs.
Open Scope Z_scope.

(* inv t D: the tree t indexes exactly the documents D — every id exactly once, none missing,
   none dead — and every document sits in the leaf that routing its stored vector leads to,
   so that removal finds it again.  The side function is a black box: all geometries, all
   rounding behaviours. *)

Theorem C05_ids : forall cosine t D, inv cosine t D -> forall i, In i (leaf_ids t) <-> In i (map fst D).
Proof. exact inv_ids. Qed.
Print Assumptions C05_ids.

(* insertion keeps the invariant and cannot fail, whether or not the leaf splits and whatever plane
   the random source proposes (oracle) — including a proposal that separates nothing *)
Theorem C05_insert : forall cosine t oracle D docs id v,
  ids_unique docs -> In (id, v) docs -> (forall d, In d D -> In d docs) -> ~ In id (map fst D) ->
  inv cosine t D ->
  exists t', insert cosine docs t oracle id v = Some t' /\ inv cosine t' ((id, v) :: D).
Proof. exact insert_inv. Qed.
Print Assumptions C05_insert.

(* removal under the vector the document was indexed with finds it, keeps the invariant, cannot fail;
   an emptied leaf stays a leaf *)
Theorem C05_remove : forall cosine t D id v, ids_unique D -> In (id, v) D -> inv cosine t D ->
  exists t', remove cosine t id v = Some t' /\ inv cosine t' (without id D).
Proof. exact remove_inv. Qed.
Print Assumptions C05_remove.

(* the trees of a new or emptied collection *)
Theorem C05_empty : forall cosine, inv cosine (Leaf nil) nil.
Proof. exact inv_empty_leaf. Qed.
Print Assumptions C05_empty.
