(* C09 — the data file stays a well-formed span chain and reuses freed space. *)
From Coq Require Import ZArith Lia.
From Syz Require Import Coll Wire ScanProofs StoreProofs ReopenProofs GrowthProofs DecimalProofs CollProofs HistoryProofs.
Open Scope N_scope.

(* the format grammar, as a predicate on the tile list whose concatenated images are the file:
   every tile is an active span whose image is the serialisation of its record (with < 15 bytes of
   zero padding and a valid checksum) or a FREE span whose length field covers it; no record id
   is active twice; the chain can be walked: scanning the image yields exactly these tiles *)
Theorem C09_chain : forall ops s m s' outs, CollInv s -> agree s m -> Run s ops s' outs ->
  Forall wf_tile (tiles s') /\ NoDup (active_rids (tiles s'))
  /\ scan (flatten (tiles s')) = Ok (tiles s')
  /\ (forall id, id < two64 -> doc_of s' id <> None -> In (doc_rid id) (active_rids (tiles s'))).
Proof.
  intros ops s m s' outs HC Ha HR.
  destruct (histories_refine ops s m s' outs HC Ha HR) as (_ & HC' & _).
  pose proof (ci_inv s' HC') as HI. repeat split.
  - apply HI.
  - apply HI.
  - apply scan_flatten. apply HI.
  - intros id Hid Hd. apply in_rids_lookup; [exact HI|]. unfold doc_of in Hd.
    destruct (slookup (abs (tiles s')) (doc_rid id)); [discriminate|congruence].
Qed.
Print Assumptions C09_chain.

(* a write either reuses a free run (file length unchanged) or, when allocation found no run,
   grows the file by the chosen amount *)
Theorem C09_growth : forall s rid ss exp steps s', Inv s -> fits s rid ss exp ->
  write_record s rid ss exp = Some (steps, s') ->
  (tiles_len (tiles s') = tiles_len (tiles s)
   /\ exists pre run post, tiles s = pre ++ run ++ post /\ all_free run /\ span_size (nseq s) rid ss <= tiles_len run)
  \/ (tiles_len (tiles s') = tiles_len (tiles s) + exp
      /\ find_run (tiles s) [] [] 0 (span_size (nseq s) rid ss) = None).
Proof. exact write_growth. Qed.
Print Assumptions C09_growth.

(* ... and allocation finds no run only if no contiguous free region can hold the record *)
Theorem C09_grows_only_when_nothing_fits : forall ts size, 0 < size -> find_run ts [] [] 0 size = None ->
  forall a run b, ts = a ++ run ++ b -> all_free run -> tiles_len run < size.
Proof. exact no_free_region_fits. Qed.
Print Assumptions C09_grows_only_when_nothing_fits.

(* removal never changes the file length; it turns the active span into a FREE span in place *)
Theorem C09_remove_in_place : forall s rid, Inv s ->
  match remove_record s rid with
  | Ok (_, s') => tiles_len (tiles s') = tiles_len (tiles s) /\ Inv s'
  | Err => True
  | Panic => False
  end.
Proof.
  intros s rid HI. pose proof (remove_refines s rid HI) as R.
  destruct (remove_record s rid) as [[st s']| |]; [|exact I|exact R].
  destruct R as (_ & HI' & _ & Hl & _). split; assumption.
Qed.
Print Assumptions C09_remove_in_place.
