(* C02 — durability: close and reopen reproduces the collection exactly. *)
From Coq Require Import ZArith Lia.
From Syz Require Import Coll Wire ScanProofs StoreProofs ReopenProofs DecimalProofs CollProofs HistoryProofs.
Open Scope N_scope.

(* scanFile on the image of a cleanly operated file finds exactly its tiles *)
Theorem C02_scan : forall ts, Forall wf_tile ts -> scan (flatten ts) = Ok ts.
Proof. exact scan_flatten. Qed.
Print Assumptions C02_scan.

(* opening the file again, in a writable or the read-only mode (rw = false), succeeds and yields the
   same tiles — hence the same index, free map and every record — with a sequence number that still
   exceeds every stored one, and the invariant holds again *)
Theorem C02_reopen : forall rw s, Inv s ->
  exists s', open_image rw (flatten (tiles s)) = Ok s'
             /\ tiles s' = tiles s /\ nseq s' <= nseq s /\ Inv s'.
Proof. exact reopen_clean. Qed.
Print Assumptions C02_reopen.

Theorem C02_contents : forall rw s, Inv s ->
  exists s', open_image rw (flatten (tiles s)) = Ok s'
             /\ (forall rid, read_record s' rid = read_record s rid)
             /\ index_of (tiles s') = index_of (tiles s) /\ fm_of (tiles s') = fm_of (tiles s).
Proof. exact reopen_same_contents. Qed.
Print Assumptions C02_contents.

(* histories with reopen (any mode) inserted at any position, any number of times: the outputs are
   those of the specification, in which a reopen changes nothing (sstep (DReopen _) = identity).
   The options record is the record with the empty id; it is preserved like every other record. *)
Theorem C02_histories : forall ops s m s' outs, CollInv s -> agree s m -> Run s ops s' outs ->
  outs = snd (spec_run m ops) /\ CollInv s' /\ agree s' (fst (spec_run m ops)).
Proof. exact histories_refine. Qed.
Print Assumptions C02_histories.

Theorem C02_reopen_is_identity_in_spec : forall m rw, sstep m (DReopen rw) = (m, DOk).
Proof. reflexivity. Qed.
Print Assumptions C02_reopen_is_identity_in_spec.
