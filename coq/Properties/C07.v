(* C07 — a crash between storage steps leaves the old or the new state, and no zombies. *)
From Coq Require Import ZArith Lia.
From Syz Require Import Coll Wire ScanProofs StoreProofs ReopenProofs CrashProofs DecimalProofs CollProofs HistoryProofs CrashDocProofs.
Open Scope N_scope.

(* WriteRecord is defined as a sequence of storage steps (file growth, span write, free-marking);
   [write_stages] lists the tile lists after each step, so the crash images are exactly
   [flatten stage] for the stages of the list.  Every such image opens, the recovered state
   satisfies the full storage invariant — in particular no record id is active twice, so no older
   version can come back — and its contents are those before or those after the operation. *)
Theorem C07_write : forall s rid ss exp st, Inv s -> fits s rid ss exp ->
  write_stages (tiles s) (nseq s) rid ss exp = Some st ->
  forall stage, In stage (map snd st) ->
  exists s_r, open_image true (flatten stage) = Ok s_r /\ Inv s_r
              /\ (same_as s_r s \/ written s_r s rid ss).
Proof. exact crash_write. Qed.
Print Assumptions C07_write.

Theorem C07_remove : forall s rid steps s', Inv s -> remove_record s rid = Ok (steps, s') ->
  (exists s_r, open_image true (flatten (tiles s)) = Ok s_r /\ Inv s_r /\ same_as s_r s)
  /\ (exists s_r, open_image true (flatten (tiles s')) = Ok s_r /\ Inv s_r /\ same_as s_r s').
Proof. exact crash_remove. Qed.
Print Assumptions C07_remove.

(* document level: insert, overwrite and (through UpdateDocument = read + AddDocument) metadata update *)
Theorem C07_add : forall s id vec meta exp st, CollInv s -> fits_doc s id vec meta exp ->
  write_stages (tiles s) (nseq s) (doc_rid id) (doc_streams meta vec) exp = Some st ->
  forall stage, In stage (map snd st) ->
  exists s_r, open_image true (flatten stage) = Ok s_r /\ CollInv s_r
     /\ ((forall id', id' < two64 -> doc_of s_r id' = doc_of s id')
         \/ (forall id', id' < two64 -> doc_of s_r id' = if id =? id' then Some (meta, vec) else doc_of s id')).
Proof. exact crash_add. Qed.
Print Assumptions C07_add.

Theorem C07_remove_doc : forall s id steps s', CollInv s -> id < two64 ->
  remove_document s id = Ok (steps, s') ->
  (exists s_r, open_image true (flatten (tiles s)) = Ok s_r /\ CollInv s_r
               /\ forall id', id' < two64 -> doc_of s_r id' = doc_of s id')
  /\ (exists s_r, open_image true (flatten (tiles s')) = Ok s_r /\ CollInv s_r
               /\ forall id', id' < two64 -> doc_of s_r id' = if id =? id' then None else doc_of s id').
Proof. exact crash_remove_doc. Qed.
Print Assumptions C07_remove_doc.

(* every continuation on the recovered collection — including removing the affected document and
   reopening any number of times — behaves like the finite-map specification started from the
   recovered contents: nothing older can reappear *)
Theorem C07_continuation : forall ops s_r m s' outs, CollInv s_r -> agree s_r m -> Run s_r ops s' outs ->
  outs = snd (spec_run m ops) /\ CollInv s' /\ agree s' (fst (spec_run m ops)).
Proof. exact histories_refine. Qed.
Print Assumptions C07_continuation.

(* the recovery steps themselves, for reference *)
Theorem C07_recover_after_growth : forall s exp, Inv s -> 15 <= exp -> tiles_len (tiles s) + exp < 4294967296 ->
  exists s', open_image true (flatten (tiles s ++ [TZ (nzeros exp)])) = Ok s'
             /\ tiles s' = tiles s ++ [TF exp (skipn 8 (nzeros exp))]
             /\ Inv s' /\ abs (tiles s') = abs (tiles s).
Proof. exact recover_after_growth. Qed.
Print Assumptions C07_recover_after_growth.
