package main

import (
	"sync/atomic"
	"sync"
	"time"
	"encoding/hex"
	"fmt"
	"math"
	"os"
	"strings"

	syz "github.com/smhanov/syzgydb"
	"github.com/smhanov/syzgydb/query"
)

// Filter engine. Input (text, one case per line):  <filter hex> <doc hex>*   ("-" = empty)
// Output per case:
//   T <type> <literal hex> ...            token stream up to and including EOF (or PANIC)
//   A <canonical AST>                      or  A ERR / A PANIC
//   V <verdict per doc: T F E P>           through query.FilterFunctionFromQuery; B = build error, P = panic
//   S <verdict per doc: T F>               through syzgydb.BuildFilter (errors reject); B = build error
//   R same | R <verdicts>                  the text submitted once more through query.FilterFunctionFromQuery

func hexOf(b []byte) string {
	if len(b) == 0 {
		return "-"
	}
	return hex.EncodeToString(b)
}

func unhex(s string) []byte {
	if s == "-" {
		return nil
	}
	b, err := hex.DecodeString(s)
	if err != nil {
		panic(err)
	}
	return b
}

func astString(n query.Node) string {
	switch v := n.(type) {
	case nil:
		return "nil"
	case *query.ExpressionNode:
		l := "nil"
		if v.Left != nil {
			l = astString(v.Left)
		}
		return fmt.Sprintf("E(%s,%s,%s)", hexOf([]byte(v.Operator)), l, astString(v.Right))
	case *query.IdentifierNode:
		return "I(" + hexOf([]byte(v.Name)) + ")"
	case *query.ValueNode:
		switch x := v.Value.(type) {
		case nil:
			return "V(null)"
		case bool:
			if x {
				return "V(true)"
			}
			return "V(false)"
		case float64:
			return fmt.Sprintf("V(n%d)", math.Float64bits(x))
		case string:
			return "V(s" + hexOf([]byte(x)) + ")"
		default:
			return fmt.Sprintf("V(?%T)", x)
		}
	case *query.FunctionNode:
		args := make([]string, len(v.Arguments))
		for i, a := range v.Arguments {
			args[i] = astString(a)
		}
		return "F(" + hexOf([]byte(v.Name)) + ";" + strings.Join(args, ",") + ")"
	case *query.ParameterNode:
		return "P(" + hexOf([]byte(v.Name)) + ")"
	case *query.ArrayNode:
		el := make([]string, len(v.Elements))
		for i, a := range v.Elements {
			el[i] = astString(a)
		}
		return "L(" + strings.Join(el, ",") + ")"
	default:
		return fmt.Sprintf("?%T", n)
	}
}

func tokensLine(text string) (s string) {
	defer func() {
		if e := recover(); e != nil {
			s = "T PANIC"
		}
	}()
	lx := query.NewLexer(text)
	var b strings.Builder
	b.WriteString("T")
	for i := 0; i < len(text)+3; i++ {
		t := lx.NextToken()
		fmt.Fprintf(&b, " %d %s", int(t.Type), hexOf([]byte(t.Literal)))
		if t.Type == query.TokenEOF {
			break
		}
	}
	return b.String()
}

func astLine(text string) (s string) {
	defer func() {
		if e := recover(); e != nil {
			s = "A PANIC"
		}
	}()
	p := query.NewParser(query.NewLexer(text))
	n, err := p.Parse()
	if err != nil {
		return "A ERR"
	}
	return "A " + astString(n)
}

func verdictLine(text string, docs [][]byte) (s string) {
	var b strings.Builder
	b.WriteString("V")
	var fn query.FilterFunction
	built := func() (ok bool) {
		defer func() {
			if e := recover(); e != nil {
				ok = false
				b.WriteString(" P")
			}
		}()
		f, err := query.FilterFunctionFromQuery(text)
		if err != nil {
			b.WriteString(" B")
			return false
		}
		fn = f
		return true
	}()
	if !built {
		return b.String()
	}
	for _, d := range docs {
		func() {
			defer func() {
				if e := recover(); e != nil {
					b.WriteString(" P")
				}
			}()
			r, err := fn(d)
			if err != nil {
				b.WriteString(" E")
			} else if r {
				b.WriteString(" T")
			} else {
				b.WriteString(" F")
			}
		}()
	}
	return b.String()
}

func searchLine(text string, docs [][]byte) string {
	var b strings.Builder
	b.WriteString("S")
	var fn syz.FilterFn
	ok := func() (ok bool) {
		defer func() {
			if e := recover(); e != nil {
				ok = false
				b.WriteString(" P")
			}
		}()
		f, err := syz.BuildFilter(text)
		if err != nil {
			b.WriteString(" B")
			return false
		}
		fn = f
		return true
	}()
	if !ok {
		return b.String()
	}
	for i, d := range docs {
		func() {
			defer func() {
				if e := recover(); e != nil {
					b.WriteString(" P")
				}
			}()
			if fn(uint64(i), d) {
				b.WriteString(" T")
			} else {
				b.WriteString(" F")
			}
		}()
	}
	return b.String()
}

// one built filter applied to the documents, then to a run of documents it cannot evaluate (not JSON, not an object,
// fields missing), then to the documents again: the answer for a document depends on the filter and that document only
func historyLine(text string, docs [][]byte) (s string) {
	defer func() {
		if e := recover(); e != nil {
			s = "H P"
		}
	}()
	f, err := syz.BuildFilter(text)
	if err != nil {
		return "H same"
	}
	pass := func() string {
		var b strings.Builder
		for i, d := range docs {
			if f(uint64(i), d) {
				b.WriteString("T")
			} else {
				b.WriteString("F")
			}
		}
		return b.String()
	}
	first := pass()
	junk := [][]byte{[]byte("{"), nil, []byte("[1]"), []byte("\"x\""), []byte("{}"), []byte("{\"zz\":null}"), []byte("nul"), []byte("{\"a\":}")}
	for k := 0; k < 40; k++ {
		f(uint64(1000+k), junk[k%len(junk)])
	}
	second := pass()
	if first == second {
		return "H same"
	}
	return "H " + first + " " + second
}

// one built filter applied from four goroutines at once, while another filter (other patterns, other fields) is being
// evaluated too: every answer must be the one the filter gives when used alone
func concurrentLine(text string, docs [][]byte) string {
	f, err := syz.BuildFilter(text)
	if err != nil || len(docs) == 0 {
		return "P same"
	}
	seq := make([]bool, len(docs))
	panicked := false
	func() {
		defer func() {
			if e := recover(); e != nil {
				panicked = true
			}
		}()
		for i, d := range docs {
			seq[i] = f(uint64(i), d)
		}
	}()
	if panicked {
		return "P same" // reported by the other lines
	}
	bg, _ := syz.BuildFilter("name MATCHES '^zz' OR email MATCHES 'q$' OR status MATCHES 'a.*b'")
	var wg sync.WaitGroup
	var bad, stop int32
	for g := 0; g < 4; g++ {
		wg.Add(1)
		go func(g int) {
			defer wg.Done()
			defer func() {
				if e := recover(); e != nil {
					atomic.StoreInt32(&bad, 2)
				}
			}()
			for r := 0; r < 30; r++ {
				for k := range docs {
					i := (k + g) % len(docs)
					if f(uint64(i), docs[i]) != seq[i] {
						atomic.CompareAndSwapInt32(&bad, 0, 1)
					}
				}
			}
		}(g)
	}
	go func() {
		defer func() { recover() }()
		for atomic.LoadInt32(&stop) == 0 && bg != nil {
			for i, d := range docs {
				bg(uint64(i), d)
			}
		}
	}()
	wg.Wait()
	atomic.StoreInt32(&stop, 1)
	switch atomic.LoadInt32(&bad) {
	case 1:
		return "P diff"
	case 2:
		return "P panic"
	}
	return "P same"
}

func runFilter() {
	data, err := os.ReadFile("/dev/stdin")
	if err != nil {
		panic(err)
	}
	for _, ln := range strings.Split(string(data), "\n") {
		f := strings.Fields(ln)
		if len(f) == 0 {
			continue
		}
		text := string(unhex(f[0]))
		docs := make([][]byte, 0, len(f)-1)
		for _, d := range f[1:] {
			docs = append(docs, unhex(d))
		}
		// bounded time: a case that does not finish within 10 s is reported and ends the run
		done := make(chan []string, 1)
		go func() {
			var ls []string
			ls = append(ls, tokensLine(text), astLine(text))
			v1 := verdictLine(text, docs)
			ls = append(ls, v1, searchLine(text, docs))
			// the same text submitted again, after other entry points have compiled it: the outcome is a function of the text
			if v2 := verdictLine(text, docs); v2 == v1 {
				ls = append(ls, "R same")
			} else {
				ls = append(ls, "R"+v2[1:])
			}
			ls = append(ls, historyLine(text, docs))
			ls = append(ls, concurrentLine(text, docs))
			done <- ls
		}()
		select {
		case ls := <-done:
			for _, l := range ls {
				fmt.Fprintln(out, l)
			}
		case <-time.After(10 * time.Second):
			fmt.Fprintf(out, "HANG %s\n", hexOf([]byte(text)))
			out.Flush()
			os.Exit(3)
		}
	}
	out.Flush()
}
