package main

import (
	"fmt"
	"io"
	"log"
	"os"
)

func main() {
	log.SetOutput(io.Discard)
	if len(os.Args) < 2 {
		fmt.Fprintln(os.Stderr, "usage: vharness <engine> [args]")
		os.Exit(2)
	}
	switch os.Args[1] {
	case "store":
		runStore(os.Args[2])
	case "filter":
		runFilter()
	case "quant":
		runQuant()
	case "dist":
		runDist()
	case "path":
		runPath()
	case "search":
		runSearch(os.Args[2])
	case "alias":
		runAlias(os.Args[2])
	case "dump":
		runDump(os.Args[2])
	case "conc":
		runConc(os.Args[2:])
	default:
		fmt.Fprintln(os.Stderr, "unknown engine")
		os.Exit(2)
	}
	out.Flush()
}
