package main

import (
	"bufio"
	"runtime"
	"encoding/hex"
	"fmt"
	"math"
	"os"
	"strconv"
	"strings"

	syz "github.com/smhanov/syzgydb"
)

// Search engine. One command per line:
//   new <dim> <quant> <metric> <seed>
//   add <id> <meta hex|-> <x bits>...        rm <id>        upd <id> <meta hex|->        reopen
//   search <K> <R bits> <exact 0|1> <fkind> <fa> <fb> <off> <lim> <q bits>...
//   docs
func runSearch(path string) {
	sc := bufio.NewScanner(os.Stdin)
	sc.Buffer(make([]byte, 1<<20), 1<<26)
	var c *syz.Collection
	var dim, quant, metric int
	nsearch := 0
	u := func(s string) uint64 { v, _ := strconv.ParseUint(s, 10, 64); return v }
	mh := func(s string) []byte {
		if s == "-" {
			return []byte{}
		}
		b, _ := hex.DecodeString(s)
		return b
	}
	for sc.Scan() {
		f := strings.Fields(sc.Text())
		if len(f) == 0 {
			continue
		}
		func() {
			defer func() {
				if e := recover(); e != nil {
					fmt.Fprintf(out, "PANIC %v\n", e)
				}
			}()
			switch f[0] {
			case "new":
				dim, quant, metric = int(u(f[1])), int(u(f[2])), int(u(f[3]))
				syz.Configure(syz.Config{RandomSeed: int64(u(f[4]))})
				os.Remove(path)
				var err error
				c, err = syz.NewCollection(syz.CollectionOptions{Name: path, DistanceMethod: metric, DimensionCount: dim, Quantization: quant, FileMode: syz.CreateAndOverwrite})
				if err != nil {
					fmt.Fprintln(out, "ERR", err)
					return
				}
				fmt.Fprintln(out, "ok")
			case "add":
				v := make([]float64, 0, dim)
				for _, s := range f[3:] {
					v = append(v, math.Float64frombits(u(s)))
				}
				c.AddDocument(u(f[1]), v, mh(f[2]))
				fmt.Fprintln(out, "ok")
			case "badadd":
				// AddDocument with a vector of the wrong length: the library refuses by panicking; the caller recovers
				// and goes on using the collection, which must be as it was
				func() {
					defer func() {
						if e := recover(); e != nil {
							fmt.Fprintln(out, "rejected")
						}
					}()
					c.AddDocument(u(f[1]), make([]float64, dim+int(u(f[2]))), mh("-"))
					fmt.Fprintln(out, "accepted")
				}()
			case "rm":
				if err := c.VerifRemoveDocument(u(f[1])); err != nil {
					fmt.Fprintln(out, "err")
				} else {
					fmt.Fprintln(out, "ok")
				}
			case "upd":
				if err := c.UpdateDocument(u(f[1]), mh(f[2])); err != nil {
					fmt.Fprintln(out, "err")
				} else {
					fmt.Fprintln(out, "ok")
				}
			case "reopen":
				c.Close()
				var err error
				opts := syz.CollectionOptions{Name: path, FileMode: syz.ReadWrite}
				if len(f) == 4 {
					// reopen <metric> <dim> <quantization>: options that conflict with the stored ones must be ignored
					opts.DistanceMethod, opts.DimensionCount, opts.Quantization = int(u(f[1])), int(u(f[2])), int(u(f[3]))
				}
				c, err = syz.NewCollection(opts)
				if err != nil {
					fmt.Fprintln(out, "ERR", err)
					return
				}
				fmt.Fprintln(out, "ok")
			case "search":
				// the query slice of every search is a fresh allocation; collect now and then so that addresses get reused
				if nsearch++; nsearch%5 == 0 {
					runtime.GC()
				}
				args := syz.SearchArgs{K: int(u(f[1])), Radius: math.Float64frombits(u(f[2])), Offset: int(u(f[7])), Limit: int(u(f[8]))}
				if f[3] == "1" {
					args.Precision = "exact"
				}
				args.Filter = filterOf(u(f[4]), u(f[5]), u(f[6]))
				for _, s := range f[9:] {
					args.Vector = append(args.Vector, math.Float64frombits(u(s)))
				}
				considered = considered[:0]
				syz.VerifConsiderHook = func(id uint64) { considered = append(considered, id) }
				res := c.Search(args)
				syz.VerifConsiderHook = nil
				var b strings.Builder
				fmt.Fprintf(&b, "res %d %d", math.Float64bits(res.PercentSearched), len(res.Results))
				for _, r := range res.Results {
					fmt.Fprintf(&b, " %d %d %d", r.ID, math.Float64bits(r.Distance), hashBytes(r.Metadata))
				}
				fmt.Fprintln(out, b.String())
				var cb strings.Builder
				fmt.Fprintf(&cb, "considered %d", len(considered))
				for _, id := range considered {
					fmt.Fprintf(&cb, " %d", id)
				}
				fmt.Fprintln(out, cb.String())
			case "forest":
				for i, r := range c.VerifForest() {
					var b strings.Builder
					fmt.Fprintf(&b, "tree %d", i)
					writeNode(&b, r)
					fmt.Fprintln(out, b.String())
				}
			case "docs":
				for _, id := range c.GetAllIDs() {
					d, err := c.GetDocument(id)
					if err != nil {
						fmt.Fprintln(out, "docerr", id)
						continue
					}
					var b strings.Builder
					fmt.Fprintf(&b, "doc %d %d", id, hashBytes(d.Metadata))
					for _, x := range d.Vector {
						fmt.Fprintf(&b, " %d", math.Float64bits(x))
					}
					fmt.Fprintln(out, b.String())
				}
				fmt.Fprintln(out, "enddocs")
			}
		}()
	}
	out.Flush()
	if c != nil {
		c.Close()
	}
	os.Remove(path)
}

var considered []uint64

// preorder: "L n ids..." | "X" (nil) | "N bbits dim normalbits... <left> <right>"
func writeNode(b *strings.Builder, n *syz.VerifNode) {
	if n == nil {
		b.WriteString(" X")
		return
	}
	if n.Leaf {
		fmt.Fprintf(b, " L %d", len(n.IDs))
		for _, id := range n.IDs {
			fmt.Fprintf(b, " %d", id)
		}
		return
	}
	fmt.Fprintf(b, " N %d %d", math.Float64bits(n.B), len(n.Normal))
	for _, x := range n.Normal {
		fmt.Fprintf(b, " %d", math.Float64bits(x))
	}
	writeNode(b, n.Left)
	writeNode(b, n.Right)
}
