package main

import (
	"fmt"
	"strings"
	"log"
	"math/rand"
	"os"
	"runtime"
	"runtime/pprof"
	"sort"
	"strconv"
	"sync"
	"sync/atomic"
	"time"

	"github.com/anishathalye/porcupine"
	syz "github.com/smhanov/syzgydb"
)

// Concurrency engine (C10):
//   vharness conc <path> <seed> <threads> <ops> <seeded 0|1> <quant> <stats 0|1> <procs> <timeout s> <mix>
// mix: 0 = all operations; 1 = readers with ComputeStats + writers (nested read lock); 2 = inserts only, many documents (index splits)
// Output: "done <calls>", "lin ok|violation <key>|unknown", "sanity ok|<what>"; "HANG ..." and exit 3 when a call does not return.

type kvIn struct {
	op   int // 0 add, 1 update, 2 remove, 3 get
	id   uint64
	meta uint64
	vec  uint64
}
type kvOut struct {
	ok   bool
	meta uint64
	vec  uint64
}
type kvState struct {
	present bool
	meta    uint64
	vec     uint64
}

var kvModel = porcupine.Model{
	Partition: func(history []porcupine.Operation) [][]porcupine.Operation {
		m := map[uint64][]porcupine.Operation{}
		for _, o := range history {
			k := o.Input.(kvIn).id
			m[k] = append(m[k], o)
		}
		keys := make([]uint64, 0, len(m))
		for k := range m {
			keys = append(keys, k)
		}
		sort.Slice(keys, func(i, j int) bool { return keys[i] < keys[j] })
		out := make([][]porcupine.Operation, 0, len(m))
		for _, k := range keys {
			out = append(out, m[k])
		}
		return out
	},
	Init: func() interface{} { return kvState{} },
	Step: func(state, input, output interface{}) (bool, interface{}) {
		s, in, o := state.(kvState), input.(kvIn), output.(kvOut)
		switch in.op {
		case 0:
			return o.ok, kvState{true, in.meta, in.vec}
		case 1:
			if s.present {
				return o.ok, kvState{true, in.meta, s.vec}
			}
			return !o.ok, s
		case 2:
			if s.present {
				return o.ok, kvState{}
			}
			return !o.ok, s
		default:
			if s.present {
				return o.ok && o.meta == s.meta && o.vec == s.vec, s
			}
			return !o.ok, s
		}
	},
	Equal: func(a, b interface{}) bool { return a.(kvState) == b.(kvState) },
}

func vecHashF(v []float64, q int) uint64 { return hashBytes(syz.VerifEncodeVector(v, q)) }

// the library logs inside its critical sections; a log writer that yields (and now and then sleeps) turns every
// log line into a scheduling point, which widens the windows between an acquisition and whatever follows it
type yieldWriter struct{ n int64 }

func (w *yieldWriter) Write(p []byte) (int, error) {
	if atomic.AddInt64(&w.n, 1)%3 == 0 {
		time.Sleep(30 * time.Microsecond)
	} else {
		runtime.Gosched()
	}
	return len(p), nil
}

func runConc(args []string) {
	path := args[0]
	log.SetOutput(&yieldWriter{})
	n := func(i int) int { v, _ := strconv.Atoi(args[i]); return v }
	seed, threads, nops, seeded, quant, stats, procs, timeout, mix := int64(n(1)), n(2), n(3), n(4), n(5), n(6), n(7), n(8), n(9)
	runtime.GOMAXPROCS(procs)
	if seeded == 1 {
		syz.Configure(syz.Config{RandomSeed: seed})
	} else {
		syz.Configure(syz.Config{RandomSeed: 0})
	}
	os.Remove(path)
	dim := 3
	c, err := syz.NewCollection(syz.CollectionOptions{Name: path, DistanceMethod: int(seed % 2), DimensionCount: dim, Quantization: quant, FileMode: syz.CreateAndOverwrite})
	if err != nil {
		fmt.Println("ERR", err)
		os.Exit(2)
	}
	if mix == 3 {
		runTwoCollections(path, seed, threads, nops, quant, timeout)
		return
	}
	nids := uint64(6)
	if mix == 2 {
		nids = 100000
	}
	var mu sync.Mutex
	var history []porcupine.Operation
	var everAdded sync.Map
	var calls int64
	var sanity atomic.Value
	start := time.Now()
	now := func() int64 { return int64(time.Since(start)) }
	record := func(cl int, in kvIn, call int64, out kvOut) {
		ret := now()
		mu.Lock()
		history = append(history, porcupine.Operation{ClientId: cl, Input: in, Call: call, Output: out, Return: ret})
		mu.Unlock()
	}
	var wg sync.WaitGroup
	done := make(chan struct{})
	// inserts of fresh ids only (mix 2): the number of documents never decreases, so a count read by a call lies between
	// the inserts completed before the call started and the inserts started before it returned (real-time order)
	var addsStarted, addsCompleted int64
	var writersDone int32
	if mix == 2 {
		go func() {
			for k := 0; atomic.LoadInt32(&writersDone) == 0; k++ {
				lo := atomic.LoadInt64(&addsCompleted)
				var got int64
				what := "GetDocumentCount"
				if k%2 == 0 && stats == 1 {
					got, what = int64(c.ComputeStats().DocumentCount), "ComputeStats.DocumentCount"
				} else {
					got = int64(c.GetDocumentCount())
				}
				hi := atomic.LoadInt64(&addsStarted)
				if got < lo || got > hi {
					sanity.Store(fmt.Sprintf("%s returned %d although %d inserts had completed before the call and %d had started when it returned", what, got, lo, hi))
				}
				atomic.AddInt64(&calls, 1)
			}
		}()
	}
	for t := 0; t < threads; t++ {
		wg.Add(1)
		go func(t int) {
			defer wg.Done()
			rng := rand.New(rand.NewSource(seed*1000 + int64(t)))
			for i := 0; i < nops; i++ {
				id := uint64(rng.Intn(int(nids))) + 1
				if mix == 2 {
					id = uint64(t*nops+i) + 1
				}
				r := rng.Float64()
				writer := mix != 1 || t%2 == 0
				atomic.AddInt64(&calls, 1)
				switch {
				case mix == 2 || (writer && r < 0.30):
					v := []float64{rng.Float64()*2 - 1, rng.Float64()*2 - 1, rng.Float64()*2 - 1}
					md := []byte(fmt.Sprintf("{\"t\":%d,\"i\":%d}", t, i))
					in := kvIn{0, id, hashBytes(md), vecHashF(v, quant)}
					call := now()
					atomic.AddInt64(&addsStarted, 1)
					c.AddDocument(id, v, md)
					atomic.AddInt64(&addsCompleted, 1)
					everAdded.Store(id, true)
					record(t, in, call, kvOut{ok: true})
				case writer && r < 0.42:
					md := []byte(fmt.Sprintf("{\"u\":%d,\"i\":%d}", t, i))
					in := kvIn{op: 1, id: id, meta: hashBytes(md)}
					call := now()
					err := c.UpdateDocument(id, md)
					record(t, in, call, kvOut{ok: err == nil})
				case writer && r < 0.54:
					in := kvIn{op: 2, id: id}
					call := now()
					err := c.VerifRemoveDocument(id)
					record(t, in, call, kvOut{ok: err == nil})
				case r < 0.70:
					in := kvIn{op: 3, id: id}
					call := now()
					d, err := c.GetDocument(id)
					o := kvOut{ok: err == nil}
					if err == nil {
						o.meta, o.vec = hashBytes(d.Metadata), vecHashF(d.Vector, quant)
					}
					record(t, in, call, o)
				case r < 0.76:
					ids := c.GetAllIDs()
					for k := 1; k < len(ids); k++ {
						if ids[k-1] >= ids[k] {
							sanity.Store("GetAllIDs not strictly ascending")
						}
					}
					for _, x := range ids {
						if _, ok := everAdded.Load(x); !ok && mix != 2 {
							// the id may be in flight: AddDocument stores before everAdded.Store; tolerate ids within range
							if x < 1 || x > nids {
								sanity.Store(fmt.Sprintf("GetAllIDs returned id %d that was never added", x))
							}
						}
					}
				case r < 0.80:
					if c.GetDocumentCount() < 0 {
						sanity.Store("negative count")
					}
				case r < 0.92:
					args := syz.SearchArgs{Vector: []float64{rng.Float64(), rng.Float64(), rng.Float64()}}
					switch rng.Intn(4) {
					case 0:
						args.K = 3
						args.Precision = "exact"
					case 1:
						args.K = 3
					case 2:
						args.Radius = 0.8
					default:
						// listing page: offsets inside and beyond the collection
					args.Limit = 4
					args.Offset = rng.Intn(12)
					}
					res := c.Search(args)
					for k := 1; k < len(res.Results); k++ {
						if (args.K > 0 || args.Radius > 0) && res.Results[k-1].Distance > res.Results[k].Distance {
							sanity.Store("search results not in distance order")
						}
					}
				default:
					if stats == 1 {
						c.ComputeStats()
					} else {
						c.GetDocumentCount()
					}
				}
			}
		}(t)
	}
	go func() { wg.Wait(); atomic.StoreInt32(&writersDone, 1); close(done) }()
	select {
	case <-done:
	case <-time.After(time.Duration(timeout) * time.Second):
		fmt.Printf("HANG after %ds: %d calls started, goroutines still blocked\n", timeout, atomic.LoadInt64(&calls))
		pprof.Lookup("goroutine").WriteTo(os.Stderr, 1)
		out.Flush()
		os.Exit(3)
	}
	fmt.Printf("done %d\n", atomic.LoadInt64(&calls))
	res := porcupine.CheckOperationsTimeout(kvModel, history, 20*time.Second)
	fmt.Printf("lin %s %d\n", res, len(history))
	if s := sanity.Load(); s != nil {
		fmt.Printf("sanity %s\n", s.(string))
	} else {
		fmt.Println("sanity ok")
	}
	// quiescent state: the index must refer to exactly the live documents, once per tree (C05's invariant)
	live := map[uint64]bool{}
	for _, id := range c.GetAllIDs() {
		live[id] = true
	}
	idx := "ok"
	for ti, root := range c.VerifForest() {
		seen := map[uint64]int{}
		var walk func(n *syz.VerifNode)
		walk = func(n *syz.VerifNode) {
			if n == nil {
				return
			}
			if n.Leaf {
				for _, id := range n.IDs {
					seen[id]++
				}
				return
			}
			walk(n.Left)
			walk(n.Right)
		}
		walk(root)
		for id, k := range seen {
			if !live[id] {
				idx = fmt.Sprintf("tree %d refers to document %d, which is not live", ti, id)
			} else if k != 1 {
				idx = fmt.Sprintf("tree %d holds document %d %d times", ti, id, k)
			}
		}
		for id := range live {
			if seen[id] == 0 {
				idx = fmt.Sprintf("tree %d misses live document %d", ti, id)
			}
		}
	}
	fmt.Printf("index %s\n", idx)
	c.Close()
	os.Remove(path)
}

// mix 3: two collections of one process, each written by its own goroutines (collections share nothing a caller can see).
// Every goroutine writes ids of its own, so the final contents are known; both files are checked open and after a reopen.
func runTwoCollections(path string, seed int64, threads, nops, quant, timeout int) {
	paths := []string{path, path + ".b"}
	var cols []*syz.Collection
	for _, p := range paths {
		os.Remove(p)
		c, err := syz.NewCollection(syz.CollectionOptions{Name: p, DistanceMethod: 0, DimensionCount: 3, Quantization: quant, FileMode: syz.CreateAndOverwrite})
		if err != nil {
			fmt.Println("ERR", err)
			os.Exit(2)
		}
		cols = append(cols, c)
	}
	if threads < 2 {
		threads = 2
	}
	metaOf := func(t, i, round int) []byte {
		return []byte(fmt.Sprintf("{\"t\":%d,\"i\":%d,\"r\":%d,\"pad\":\"%s\"}", t, i, round, strings.Repeat("x", (t*31+i*7+round)%90)))
	}
	var wg sync.WaitGroup
	var calls int64
	done := make(chan struct{})
	for t := 0; t < threads; t++ {
		wg.Add(1)
		go func(t int) {
			defer wg.Done()
			c := cols[t%2]
			for i := 0; i < nops; i++ {
				id := uint64(t*100000 + i%40 + 1)
				atomic.AddInt64(&calls, 1)
				if i < 40 {
					c.AddDocument(id, []float64{float64(t), float64(i), 0.5}, metaOf(t, i%40, i/40))
				} else {
					c.UpdateDocument(id, metaOf(t, i%40, i/40))
				}
			}
		}(t)
	}
	go func() { wg.Wait(); close(done) }()
	select {
	case <-done:
	case <-time.After(time.Duration(timeout) * time.Second):
		fmt.Printf("HANG after %ds: %d calls started, goroutines still blocked\n", timeout, atomic.LoadInt64(&calls))
		out.Flush()
		os.Exit(3)
	}
	fmt.Printf("done %d\n", atomic.LoadInt64(&calls))
	fmt.Println("lin Ok 0")
	why := ""
	verify := func(stage string) {
		for k, c := range cols {
			want := 0
			for t := k; t < threads; t += 2 {
				for j := 0; j < 40 && j < nops; j++ {
					want++
					last := j + ((nops-1-j)/40)*40
					d, err := c.GetDocument(uint64(t*100000 + j + 1))
					if err != nil {
						why = fmt.Sprintf("%s: collection %d: document of goroutine %d (slot %d) cannot be read: %v", stage, k, t, j, err)
						return
					}
					if string(d.Metadata) != string(metaOf(t, j, last/40)) {
						why = fmt.Sprintf("%s: collection %d: document of goroutine %d (slot %d) holds %.60q, the last write was %.60q", stage, k, t, j, d.Metadata, metaOf(t, j, last/40))
						return
					}
				}
			}
			if got := c.GetDocumentCount(); got != want {
				why = fmt.Sprintf("%s: collection %d holds %d documents, %d were written", stage, k, got, want)
				return
			}
		}
	}
	func() {
		defer func() {
			if e := recover(); e != nil {
				why = fmt.Sprintf("verification panicked: %v", e)
			}
		}()
		verify("open")
		if why == "" {
			for k := range cols {
				cols[k].Close()
				c, err := syz.NewCollection(syz.CollectionOptions{Name: paths[k], FileMode: syz.ReadWrite})
				if err != nil {
					why = fmt.Sprintf("collection %d cannot be opened again: %v", k, err)
					return
				}
				cols[k] = c
			}
			verify("after reopen")
		}
	}()
	if why != "" {
		fmt.Printf("sanity %s\n", why)
	} else {
		fmt.Println("sanity ok")
	}
	fmt.Println("index ok")
	for k := range cols {
		cols[k].Close()
		os.Remove(paths[k])
	}
}
