package main

import (
	"bufio"
	"fmt"
	"math"
	"os"
	"strconv"
	"strings"

	syz "github.com/smhanov/syzgydb"
)

// Quantization engine. Input lines:
//   q <bits> <x as uint64 bits>          -> q <code> <bits of dequantize(code)>
//   v <bits> <dim> <x bits>...           -> v <n> <encoded bytes...> | <decoded value bits...>
func runQuant() {
	sc := bufio.NewScanner(os.Stdin)
	sc.Buffer(make([]byte, 1<<20), 1<<26)
	for sc.Scan() {
		f := strings.Fields(sc.Text())
		if len(f) == 0 {
			continue
		}
		func() {
			defer func() {
				if e := recover(); e != nil {
					fmt.Fprintln(out, "PANIC")
				}
			}()
			switch f[0] {
			case "q":
				bits, _ := strconv.Atoi(f[1])
				xb, _ := strconv.ParseUint(f[2], 10, 64)
				code := syz.VerifQuantize(math.Float64frombits(xb), bits)
				fmt.Fprintf(out, "q %d %d\n", code, math.Float64bits(syz.VerifDequantize(code, bits)))
			case "v":
				bits, _ := strconv.Atoi(f[1])
				dim, _ := strconv.Atoi(f[2])
				v := make([]float64, dim)
				for i := range v {
					xb, _ := strconv.ParseUint(f[3+i], 10, 64)
					v[i] = math.Float64frombits(xb)
				}
				enc := syz.VerifEncodeVector(v, bits)
				dec := syz.VerifDecodeVector(enc, dim, bits)
				var b strings.Builder
				fmt.Fprintf(&b, "v %d", len(enc))
				for _, x := range enc {
					fmt.Fprintf(&b, " %d", x)
				}
				b.WriteString(" |")
				for _, x := range dec {
					fmt.Fprintf(&b, " %d", math.Float64bits(x))
				}
				fmt.Fprintln(out, b.String())
			}
		}()
	}
	out.Flush()
}
