module vharness

go 1.21

require (
	github.com/anishathalye/porcupine v1.3.0
	github.com/smhanov/syzgydb v0.0.0
)

require (
	github.com/NYTimes/gziphandler v1.1.1 // indirect
	github.com/edsrzf/mmap-go v1.1.0 // indirect
	golang.org/x/sys v0.18.0 // indirect
	golang.org/x/text v0.14.0 // indirect
)

replace github.com/smhanov/syzgydb => /repo
