package main

import (
	"sync"
	"bufio"
	"encoding/hex"
	"fmt"
	"math"
	"os"
	"strconv"
	"strings"
	"unsafe"

	syz "github.com/smhanov/syzgydb"
)

// Alias engine (C11). One command per line:
//   new <dim> <quant> <metric> <seed>
//   add <id> <meta hex|-> <x bits>...      rm <id>      upd <id> <meta hex|->      reopen      close
//   get <id>                       hold the returned document
//   search <K> <R bits> <exact 0|1> <q bits>...     hold the results
//   list <off> <lim>               hold the listing page
//   verify                         re-read every held value and compare with the private copy taken when it was returned
//   callers                        re-hash every slice that was passed in (the collection must not have touched it)
//
// Every value handed out by the collection is recorded twice: the slice itself
// (as returned) and a private copy taken at once. "prov" reports whether the
// returned slice points into the current file mapping (address comparison).
// A fault while re-reading kills the process: the driver sees the missing line.

type held struct {
	site  string
	id    uint64
	meta  []byte // as returned
	metaC []byte // private copy
	vec   []float64
	vecC  []float64
}

type passed struct {
	id   uint64
	meta []byte
	vec  []float64
	hm   uint64
	hv   uint64
}

func hashVec(v []float64) uint64 {
	var h uint64
	for _, x := range v {
		h = (h*1000003 + math.Float64bits(x)%4294967291 + 1) % 4294967291
	}
	return h
}

func inMapping(c *syz.Collection, b []byte) uint64 {
	if len(b) == 0 || c == nil {
		return 0
	}
	base, n := c.VerifSpanFile().VerifMapRange()
	p := uintptr(unsafe.Pointer(&b[0]))
	if n > 0 && p >= base && p < base+uintptr(n) {
		return 1
	}
	return 0
}

func sameBacking(a, b []byte) bool {
	if len(a) == 0 || len(b) == 0 {
		return false
	}
	pa, pb := uintptr(unsafe.Pointer(&a[0])), uintptr(unsafe.Pointer(&b[0]))
	return pa < pb+uintptr(len(b)) && pb < pa+uintptr(len(a))
}

func runAlias(path string) {
	sc := bufio.NewScanner(os.Stdin)
	sc.Buffer(make([]byte, 1<<20), 1<<26)
	var c *syz.Collection
	var dim, quant, metric int
	var holds []*held
	var callers []*passed
	u := func(s string) uint64 { v, _ := strconv.ParseUint(s, 10, 64); return v }
	mh := func(s string) []byte {
		if s == "-" {
			return []byte{}
		}
		b, _ := hex.DecodeString(s)
		return b
	}
	hold := func(site string, id uint64, meta []byte, vec []float64) {
		h := &held{site: site, id: id, meta: meta, vec: vec}
		h.metaC = append([]byte{}, meta...)
		h.vecC = append([]float64{}, vec...)
		holds = append(holds, h)
		// does it share memory with something a caller passed in?
		shared := uint64(0)
		for _, p := range callers {
			if sameBacking(meta, p.meta) {
				shared = 1
			}
			if len(vec) > 0 && len(p.vec) > 0 && unsafe.Pointer(&vec[0]) == unsafe.Pointer(&p.vec[0]) {
				shared = 1
			}
		}
		fmt.Fprintf(out, "held %d %s %d prov %d shared %d len %d\n", len(holds)-1, site, id, inMapping(c, meta), shared, len(meta))
	}
	for sc.Scan() {
		f := strings.Fields(sc.Text())
		if len(f) == 0 {
			continue
		}
		func() {
			defer func() {
				if e := recover(); e != nil {
					fmt.Fprintf(out, "PANIC %v\n", e)
				}
			}()
			switch f[0] {
			case "new":
				dim, quant, metric = int(u(f[1])), int(u(f[2])), int(u(f[3]))
				syz.Configure(syz.Config{RandomSeed: int64(u(f[4]))})
				os.Remove(path)
				var err error
				c, err = syz.NewCollection(syz.CollectionOptions{Name: path, DistanceMethod: metric, DimensionCount: dim, Quantization: quant, FileMode: syz.CreateAndOverwrite})
				if err != nil {
					fmt.Fprintln(out, "ERR", err)
					return
				}
				fmt.Fprintln(out, "ok")
			case "add":
				v := make([]float64, 0, dim)
				for _, s := range f[3:] {
					v = append(v, math.Float64frombits(u(s)))
				}
				m := mh(f[2])
				p := &passed{id: u(f[1]), meta: m, vec: v, hm: hashBytes(m), hv: hashVec(v)}
				c.AddDocument(p.id, v, m)
				touched := uint64(0)
				if hashBytes(m) != p.hm || hashVec(v) != p.hv {
					touched = 1
				}
				// now the caller re-uses its buffers
				for i := range m {
					m[i] ^= 0xA5
				}
				for i := range v {
					v[i] = v[i]*0.5 + 0.125
				}
				p.hm, p.hv = hashBytes(m), hashVec(v)
				callers = append(callers, p)
				fmt.Fprintf(out, "added %d touched %d\n", p.id, touched)
			case "upd":
				m := mh(f[2])
				p := &passed{id: u(f[1]), meta: m, hm: hashBytes(m)}
				err := c.UpdateDocument(p.id, m)
				touched := uint64(0)
				if hashBytes(m) != p.hm {
					touched = 1
				}
				for i := range m {
					m[i] ^= 0x5A
				}
				p.hm = hashBytes(m)
				callers = append(callers, p)
				e := 0
				if err != nil {
					e = 1
				}
				fmt.Fprintf(out, "updated %d err %d touched %d\n", p.id, e, touched)
			case "rm":
				if err := c.VerifRemoveDocument(u(f[1])); err != nil {
					fmt.Fprintln(out, "err")
				} else {
					fmt.Fprintln(out, "ok")
				}
			case "reopen":
				c.Close()
				var err error
				mode := syz.ReadWrite
				if len(f) > 1 && f[1] == "ro" {
					mode = syz.ReadOnly
				}
				c, err = syz.NewCollection(syz.CollectionOptions{Name: path, FileMode: mode})
				if err != nil {
					fmt.Fprintln(out, "ERR", err)
					return
				}
				fmt.Fprintln(out, "ok")
			case "close":
				c.Close()
				c = nil
				fmt.Fprintln(out, "ok")
			case "maplen":
				_, n := c.VerifSpanFile().VerifMapRange()
				fmt.Fprintf(out, "maplen %d\n", n)
			case "get":
				d, err := c.GetDocument(u(f[1]))
				if err != nil {
					fmt.Fprintln(out, "geterr")
					return
				}
				hold("get", d.ID, d.Metadata, d.Vector)
			case "search":
				args := syz.SearchArgs{K: int(u(f[1])), Radius: math.Float64frombits(u(f[2]))}
				site := "approx"
				if f[3] == "1" {
					args.Precision = "exact"
					site = "exact"
				}
				for _, s := range f[4:] {
					args.Vector = append(args.Vector, math.Float64frombits(u(s)))
				}
				q := append([]float64{}, args.Vector...)
				res := c.Search(args)
				if hashVec(q) != hashVec(args.Vector) {
					fmt.Fprintln(out, "querytouched")
				}
				fmt.Fprintf(out, "results %d\n", len(res.Results))
				for _, r := range res.Results {
					hold(site, r.ID, r.Metadata, nil)
				}
			case "psearch":
				// psearch <K> <R bits> <exact 0|1> <q bits>...: the same search issued by two callers at the same moment,
				// many times; what one caller is handed must not share memory with what the other is handed
				args := syz.SearchArgs{K: int(u(f[1])), Radius: math.Float64frombits(u(f[2]))}
				if f[3] == "1" {
					args.Precision = "exact"
				}
				for _, s := range f[4:] {
					args.Vector = append(args.Vector, math.Float64frombits(u(s)))
				}
				shared, changed := 0, 0
				var keep []syz.SearchResult
				for trial := 0; trial < 40 && shared == 0; trial++ {
					var r [2]syz.SearchResults
					var wg sync.WaitGroup
					gate := make(chan struct{})
					for g := 0; g < 2; g++ {
						wg.Add(1)
						go func(g int) {
							defer wg.Done()
							a := args
							a.Vector = append([]float64{}, args.Vector...)
							<-gate
							r[g] = c.Search(a)
						}(g)
					}
					close(gate)
					wg.Wait()
					for _, x := range r[0].Results {
						for _, y := range r[1].Results {
							if sameBacking(x.Metadata, y.Metadata) {
								shared = 1
							}
						}
					}
					// the second caller overwrites what it was handed (its own copies, as far as it knows); the first caller's
					// results must still read as they did
					var copies [][]byte
					for _, x := range r[0].Results {
						copies = append(copies, append([]byte{}, x.Metadata...))
					}
					for _, y := range r[1].Results {
						for k := range y.Metadata {
							y.Metadata[k] ^= 0xFF
						}
					}
					for i, x := range r[0].Results {
						if string(x.Metadata) != string(copies[i]) {
							changed = 1
						}
					}
					// put the bytes back, so that a shared buffer does not disturb the rest of the run
					for _, y := range r[1].Results {
						for k := range y.Metadata {
							y.Metadata[k] ^= 0xFF
						}
					}
					keep = r[0].Results
				}
				fmt.Fprintf(out, "pshared %d\n", shared)
				fmt.Fprintf(out, "pchanged %d\n", changed)
				fmt.Fprintf(out, "results %d\n", len(keep))
				for _, x := range keep {
					hold("psearch", x.ID, x.Metadata, nil)
				}
			case "list":
				res := c.Search(syz.SearchArgs{Offset: int(u(f[1])), Limit: int(u(f[2]))})
				fmt.Fprintf(out, "results %d\n", len(res.Results))
				for _, r := range res.Results {
					hold("list", r.ID, r.Metadata, nil)
				}
			case "verify":
				// announce first: if re-reading faults, the driver knows which value was being read
				for i, h := range holds {
					fmt.Fprintf(out, "reading %d\n", i)
					out.Flush()
					st := "same"
					if hashBytes(h.meta) != hashBytes(h.metaC) || len(h.meta) != len(h.metaC) {
						st = "changed"
					}
					if hashVec(h.vec) != hashVec(h.vecC) {
						st = "changed"
					}
					fmt.Fprintf(out, "value %d %s %d %s\n", i, h.site, h.id, st)
				}
				fmt.Fprintln(out, "verified")
			case "callers":
				bad := 0
				for _, p := range callers {
					if hashBytes(p.meta) != p.hm || hashVec(p.vec) != p.hv {
						bad++
						fmt.Fprintf(out, "callerchanged %d\n", p.id)
					}
				}
				fmt.Fprintf(out, "callers %d bad %d\n", len(callers), bad)
			case "docs":
				// current contents, to compare with what was passed in (before the caller re-used its buffers)
				for _, id := range c.GetAllIDs() {
					d, err := c.GetDocument(id)
					if err != nil {
						fmt.Fprintln(out, "docerr", id)
						continue
					}
					var b strings.Builder
					hx := hex.EncodeToString(d.Metadata)
					if hx == "" {
						hx = "-"
					}
					fmt.Fprintf(&b, "doc %d %s", id, hx)
					for _, x := range d.Vector {
						fmt.Fprintf(&b, " %d", math.Float64bits(x))
					}
					fmt.Fprintln(out, b.String())
				}
				fmt.Fprintln(out, "enddocs")
			}
		}()
		out.Flush()
	}
	out.Flush()
	if c != nil {
		c.Close()
	}
	os.Remove(path)
}
