package main

import (
	"bufio"
	"runtime/debug"
	"fmt"
	"io"
	"os"
	"sort"

	syz "github.com/smhanov/syzgydb"
)

type stepRec struct{ kind, a, b uint64 }

var steps []stepRec

func stepHook(db *syz.SpanFile, name string, off, n uint64) {
	switch name {
	case "grow":
		steps = append(steps, stepRec{1, n, 0})
	case "write":
		steps = append(steps, stepRec{2, off, n})
	case "freed":
		steps = append(steps, stepRec{3, off, 0})
	}
	if snapHook != nil {
		snapHook(db, name)
	}
}

var snapHook func(db *syz.SpanFile, name string)

type storeRun struct {
	path   string
	sf     *syz.SpanFile   // span-file mode, or the collection's file
	c      *syz.Collection // collection mode
	dim    int
	q      int
	metric int
}

func (r *storeRun) file() *syz.SpanFile {
	if r.c != nil {
		return r.c.VerifSpanFile()
	}
	return r.sf
}

func mutLine(code uint64, err error) {
	if err != nil {
		line(code, 1)
		return
	}
	v := []uint64{code, 0, uint64(len(steps))}
	for _, s := range steps {
		v = append(v, s.kind, s.a, s.b)
	}
	line(v...)
}

func (r *storeRun) stateLine() {
	db := r.file()
	idx := db.VerifIndex()
	keys := make([]string, 0, len(idx))
	for k := range idx {
		keys = append(keys, k)
	}
	sort.Strings(keys)
	img := db.VerifImage()
	v := []uint64{31, uint64(len(img)), uint64(db.VerifSeq()), uint64(len(keys))}
	for _, k := range keys {
		v = append(v, uint64(len(k)))
		for i := 0; i < len(k); i++ {
			v = append(v, uint64(k[i]))
		}
		v = append(v, idx[k])
	}
	fm := db.VerifFreeMap()
	v = append(v, uint64(len(fm)))
	for _, s := range fm {
		v = append(v, uint64(s.Start), uint64(s.Length))
	}
	line(v...)
}

func filterOf(kind, a, b uint64) syz.FilterFn {
	switch kind {
	case 1:
		return func(id uint64, md []byte) bool { return id%a == b }
	case 2:
		return func(id uint64, md []byte) bool { return uint64(len(md))%a == b }
	case 3:
		return func(id uint64, md []byte) bool {
			var x uint64
			if len(md) > 0 {
				x = uint64(md[0])
			}
			return x%a == b
		}
	}
	return nil
}

// one operation; a Go panic is reported as result class 2
func (r *storeRun) op(t *toks) {
	code := t.next()
	steps = steps[:0]
	defer func() {
		if e := recover(); e != nil {
			line(code, 2)
		}
	}()
	switch code {
	case 40: // NewCollection on a fresh file: dim q metric <bytes json>
		dim, q, metric := int(t.next()), int(t.next()), int(t.next())
		_ = t.next() // growth amount: an oracle argument of the model only
		_ = t.bytesN()
		os.Remove(r.path)
		c, err := syz.NewCollection(syz.CollectionOptions{Name: r.path, DistanceMethod: metric, DimensionCount: dim, Quantization: q, FileMode: syz.CreateAndOverwrite})
		if err == nil {
			r.c, r.dim, r.q, r.metric = c, dim, q, metric
		}
		mutLine(40, err)
	case 41: // OpenFile on a fresh file
		os.Remove(r.path)
		sf, err := syz.OpenFile(r.path, syz.CreateAndOverwrite)
		if err != nil {
			line(41, 1)
			return
		}
		r.sf = sf
		line(41, 0)
	case 10:
		rid := string(t.bytesN())
		n := int(t.next())
		ss := make([]syz.DataStream, 0, n)
		for i := 0; i < n; i++ {
			sid := uint8(t.next())
			ss = append(ss, syz.DataStream{StreamID: sid, Data: t.payload()})
		}
		_ = t.next() // exp: chosen by the implementation
		mutLine(10, r.file().WriteRecord(rid, ss))
	case 11:
		rid := string(t.bytesN())
		mutLine(11, r.file().RemoveRecord(rid))
	case 12:
		rid := string(t.bytesN())
		sp, err := r.file().ReadRecord(rid)
		if err != nil {
			line(12, 1)
			return
		}
		v := []uint64{12, 0, uint64(sp.SequenceNumber), uint64(len(sp.RecordID)), uint64(len(sp.DataStreams))}
		for _, s := range sp.DataStreams {
			v = append(v, uint64(s.StreamID), uint64(len(s.Data)), hashBytes(s.Data))
		}
		line(v...)
	case 20:
		id := t.next()
		vec := t.payload()
		meta := t.payload()
		_ = t.next()
		r.c.AddDocument(id, syz.VerifDecodeVector(vec, r.dim, r.q), meta)
		mutLine(20, nil)
	case 21:
		id := t.next()
		meta := t.payload()
		_ = t.next()
		mutLine(21, r.c.UpdateDocument(id, meta))
	case 22:
		id := t.next()
		mutLine(22, r.c.VerifRemoveDocument(id))
	case 23:
		id := t.next()
		doc, err := r.c.GetDocument(id)
		if err != nil {
			line(23, 1)
			return
		}
		vb := syz.VerifEncodeVector(doc.Vector, r.q)
		line(23, 0, uint64(len(doc.Metadata)), hashBytes(doc.Metadata), uint64(len(vb)), hashBytes(vb))
	case 24:
		ids := r.c.GetAllIDs()
		v := []uint64{24, uint64(len(ids))}
		v = append(v, ids...)
		line(v...)
	case 25:
		line(25, uint64(r.c.GetDocumentCount()))
	case 26:
		kind, a, b, off, lim := t.next(), t.next(), t.next(), t.next(), t.next()
		args := syz.SearchArgs{Filter: filterOf(kind%16, a, b), Offset: int(off), Limit: int(lim)}
		if kind >= 16 {
			// neither K nor radius, but a query vector is present: still a listing
			args.Vector = make([]float64, r.dim)
			for i := range args.Vector {
				args.Vector[i] = 0.5
			}
		}
		res := r.c.Search(args)
		v := []uint64{26, 0, uint64(len(res.Results))}
		for _, x := range res.Results {
			v = append(v, x.ID, uint64(len(x.Metadata)), hashBytes(x.Metadata))
		}
		line(v...)
	case 30:
		mode, dim, q, metric := syz.FileMode(t.next()), int(t.next()), int(t.next()), int(t.next())
		if r.c != nil {
			if err := r.c.Close(); err != nil {
				line(30, 1)
				return
			}
			c, err := syz.NewCollection(syz.CollectionOptions{Name: r.path, FileMode: mode, DimensionCount: dim, Quantization: q, DistanceMethod: metric})
			if err != nil {
				line(30, 1)
				return
			}
			r.c = c
			o2 := c.GetOptions()
			if o2.DimensionCount != r.dim || o2.Quantization != r.q || o2.DistanceMethod != r.metric {
				line(30, 4)
				return
			}
			line(30, 0)
		} else {
			if err := r.sf.Close(); err != nil {
				line(30, 1)
				return
			}
			sf, err := syz.OpenFile(r.path, mode)
			if err != nil {
				line(30, 1)
				return
			}
			r.sf = sf
			line(30, 0)
		}
	case 50:
		// the next operation is cut after j storage steps: the image at that point replaces the
		// file, which is then opened again read-write
		j := int(t.next())
		var snap []byte
		count := 0
		if j == 0 {
			snap = r.file().VerifImage()
		}
		snapHook = func(db *syz.SpanFile, name string) {
			count++
			if count == j {
				snap = db.VerifImage()
			}
		}
		saved := out
		out = bufio.NewWriter(io.Discard)
		func() {
			defer func() { recover() }()
			r.op(t)
		}()
		out = saved
		snapHook = nil
		code = 50
		// the amount by which the inner operation grew the file (an oracle argument of the model), on a line of its own
		grown := uint64(0)
		for _, st := range steps {
			if st.kind == 1 {
				grown = st.a
			}
		}
		line(52, grown)
		if snap == nil {
			snap = r.file().VerifImage()
		}
		if r.c != nil {
			r.c.Close()
		} else {
			r.sf.Close()
		}
		if err := os.WriteFile(r.path, snap, 0644); err != nil {
			panic(err)
		}
		if r.c != nil {
			c, err := syz.NewCollection(syz.CollectionOptions{Name: r.path, FileMode: syz.ReadWrite})
			if err != nil {
				line(50, 1)
				return
			}
			r.c = c
		} else {
			sf, err := syz.OpenFile(r.path, syz.ReadWrite)
			if err != nil {
				line(50, 1)
				return
			}
			r.sf = sf
		}
		line(50, 0)
	case 60:
		// damage: patches (offset, xor mask) applied to the closed file, which is then opened again
		mode, _ := syz.FileMode(t.next()), t.next()
		n := int(t.next())
		type patch struct{ off, mask uint64 }
		ps := make([]patch, n)
		for i := range ps {
			ps[i] = patch{t.next(), t.next()}
		}
		if r.c != nil {
			r.c.Close()
		} else {
			r.sf.Close()
		}
		img, err := os.ReadFile(r.path)
		if err != nil {
			panic(err)
		}
		for _, p := range ps {
			if int(p.off) < len(img) {
				img[p.off] ^= byte(p.mask)
			}
		}
		if err := os.WriteFile(r.path, img, 0644); err != nil {
			panic(err)
		}
		if r.c != nil {
			r.c = nil
			// conflicting but valid options: the stored options record must win (or the open must fail)
			oq := 8
			if r.q == 8 {
				oq = 64
			}
			c, err := syz.NewCollection(syz.CollectionOptions{Name: r.path, FileMode: mode, DimensionCount: r.dim + 1, Quantization: oq, DistanceMethod: 1 - r.metric})
			if err != nil {
				line(60, 1)
				return
			}
			r.c = c
			if o2 := c.GetOptions(); o2.DimensionCount != r.dim || o2.Quantization != r.q || o2.DistanceMethod != r.metric {
				line(60, 4)
				return
			}
		} else {
			r.sf = nil
			sf, err := syz.OpenFile(r.path, mode)
			if err != nil {
				line(60, 1)
				return
			}
			r.sf = sf
		}
		line(60, 0)
	case 31:
		r.stateLine()
	case 32:
		img := r.file().VerifImage()
		line(32, uint64(len(img)), hashBytes(img))
	default:
		panic("unknown op")
	}
}

func runStore(path string) {
	syz.VerifStepHook = stepHook
	// a write through a read-only mapping faults: make that a panic the per-operation recover can report
	debug.SetPanicOnFault(true)
	t := readToks(os.Stdin)
	if t.next() != 1 {
		panic("engine")
	}
	r := &storeRun{path: path}
	snapDir := os.Getenv("VERIF_SNAPDIR")
	k := 0
	for t.more() {
		r.op(t)
		if snapDir != "" && r.file() != nil {
			// image after every operation, for the chain oracle
			os.WriteFile(fmt.Sprintf("%s/%06d.img", snapDir, k), r.file().VerifImage(), 0644)
		}
		k++
	}
	out.Flush()
	os.Remove(path)
}
