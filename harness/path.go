package main

import (
	"bufio"
	"fmt"
	"os"
	"strings"

	syz "github.com/smhanov/syzgydb"
)

// Path engine. Input lines: <data folder hex|-> <name hex|->   ->   <valid 0|1> <resulting path hex|->
func runPath() {
	sc := bufio.NewScanner(os.Stdin)
	sc.Buffer(make([]byte, 1<<20), 1<<26)
	for sc.Scan() {
		f := strings.Fields(sc.Text())
		if len(f) != 2 {
			continue
		}
		df, name := string(unhex(f[0])), string(unhex(f[1]))
		v := 0
		if syz.VerifValidCollectionName(name) {
			v = 1
		}
		fmt.Fprintf(out, "%d %s\n", v, hexOf([]byte(syz.VerifCollectionFileName(df, name))))
	}
	out.Flush()
}
