package main

import (
	"runtime"
	"bufio"
	"fmt"
	"math"
	"os"
	"strconv"
	"strings"

	syz "github.com/smhanov/syzgydb"
)

// Distance engine. Input lines:  d <dim> <a bits>... <b bits>...   -> d <euclid bits> <angular bits>
//                                a <x bits>                        -> a <acos(x) bits>
func runDist() {
	sc := bufio.NewScanner(os.Stdin)
	sc.Buffer(make([]byte, 1<<20), 1<<26)
	n := 0
	for sc.Scan() {
		f := strings.Fields(sc.Text())
		if len(f) == 0 {
			continue
		}
		// a collection every few pairs: the argument slices are fresh allocations, so their addresses get reused;
		// a distance may depend on the numbers in its arguments only
		if n++; n%17 == 0 {
			runtime.GC()
		}
		func() {
			defer func() {
				if e := recover(); e != nil {
					fmt.Fprintln(out, "PANIC")
				}
			}()
			switch f[0] {
			case "d":
				dim, _ := strconv.Atoi(f[1])
				a := make([]float64, dim)
				b := make([]float64, dim)
				for i := 0; i < dim; i++ {
					x, _ := strconv.ParseUint(f[2+i], 10, 64)
					y, _ := strconv.ParseUint(f[2+dim+i], 10, 64)
					a[i], b[i] = math.Float64frombits(x), math.Float64frombits(y)
				}
				fmt.Fprintf(out, "d %d %d\n", math.Float64bits(syz.VerifEuclidean(a, b)), math.Float64bits(syz.VerifAngular(a, b)))
			case "a":
				x, _ := strconv.ParseUint(f[1], 10, 64)
				fmt.Fprintf(out, "a %d\n", math.Float64bits(math.Acos(math.Float64frombits(x))))
			}
		}()
	}
	out.Flush()
}
