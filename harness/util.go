package main

import (
	"bufio"
	"fmt"
	"io"
	"os"
	"strconv"
	"strings"
)

// token stream of unsigned decimal numbers
type toks struct {
	t []uint64
	i int
}

func readToks(r io.Reader) *toks {
	data, err := io.ReadAll(r)
	if err != nil {
		panic(err)
	}
	fs := strings.Fields(string(data))
	out := make([]uint64, 0, len(fs))
	for _, f := range fs {
		n, err := strconv.ParseUint(f, 10, 64)
		if err != nil {
			panic("bad token " + f)
		}
		out = append(out, n)
	}
	return &toks{t: out}
}

func (t *toks) more() bool { return t.i < len(t.t) }
func (t *toks) next() uint64 {
	if t.i >= len(t.t) {
		panic("token stream exhausted")
	}
	v := t.t[t.i]
	t.i++
	return v
}

func (t *toks) bytesN() []byte {
	n := int(t.next())
	b := make([]byte, n)
	for i := range b {
		b[i] = byte(t.next())
	}
	return b
}

// payload: 0 len b1..bn | 1 seed len
func (t *toks) payload() []byte {
	k := t.next()
	if k == 0 {
		return t.bytesN()
	}
	seed := t.next()
	n := int(t.next())
	b := make([]byte, n)
	for i := 0; i < n; i++ {
		u := uint64(i)
		b[i] = byte((seed*31 + u*7 + u/251) % 256)
	}
	return b
}

func hashBytes(b []byte) uint64 {
	var h uint64
	for _, x := range b {
		h = (h*257 + uint64(x) + 1) % 4294967291
	}
	return h
}

var out = bufio.NewWriterSize(os.Stdout, 1<<20)

func line(v ...uint64) {
	defer out.Flush()
	for _, x := range v {
		fmt.Fprintf(out, "%d ", x)
	}
	fmt.Fprintln(out)
}
