package main

import (
	"bufio"
	"bytes"
	"encoding/hex"
	"encoding/json"
	"fmt"
	"math"
	"os"
	"strconv"
	"strings"

	syz "github.com/smhanov/syzgydb"
)

// Dump engine (C20). Commands:
//   new <dim> <quant> <metric> <seed>     add <id> <meta hex|-> <x bits>...   rm <id>   upd <id> <meta hex|->   reopen
//   docs            options + documents of the collection
//   export          ExportJSON -> "export <err|ok> <hex>"
//   import          ImportJSON of the last export into a fresh file -> "import ok|err ..." then options + documents of the imported file
//   indent <prefix hex> <need 0|1> <data hex>     one Write call of the indenter
func dumpDocs(c *syz.Collection, tag string) {
	o := c.GetOptions()
	fmt.Fprintf(out, "%sopts %d %d %d\n", tag, o.DistanceMethod, o.DimensionCount, o.Quantization)
	for _, id := range c.GetAllIDs() {
		d, err := c.GetDocument(id)
		if err != nil {
			fmt.Fprintf(out, "%sdocerr %d\n", tag, id)
			continue
		}
		hx := hex.EncodeToString(d.Metadata)
		if hx == "" {
			hx = "-"
		}
		var b strings.Builder
		fmt.Fprintf(&b, "%sdoc %d %s", tag, id, hx)
		for _, x := range d.Vector {
			fmt.Fprintf(&b, " %d", math.Float64bits(x))
		}
		fmt.Fprintln(out, b.String())
	}
	fmt.Fprintf(out, "%senddocs\n", tag)
}

func runDump(path string) {
	sc := bufio.NewScanner(os.Stdin)
	sc.Buffer(make([]byte, 1<<20), 1<<26)
	var c *syz.Collection
	var dim int
	var exported []byte
	base := path
	var extra []string
	path2 := path + ".imp"
	u := func(s string) uint64 { v, _ := strconv.ParseUint(s, 10, 64); return v }
	mh := func(s string) []byte {
		if s == "-" {
			return []byte{}
		}
		b, _ := hex.DecodeString(s)
		return b
	}
	for sc.Scan() {
		f := strings.Fields(sc.Text())
		if len(f) == 0 {
			continue
		}
		func() {
			defer func() {
				if e := recover(); e != nil {
					fmt.Fprintf(out, "PANIC %v\n", e)
				}
			}()
			switch f[0] {
			case "new":
				dim = int(u(f[1]))
				syz.Configure(syz.Config{RandomSeed: int64(u(f[4]))})
				if len(f) > 5 {
					// the collection lives in a file whose name ends in these bytes (the name is part of the exported options)
					path = base + string(mh(f[5]))
					path2 = path + ".imp"
					extra = append(extra, path, path2)
				}
				os.Remove(path)
				var err error
				c, err = syz.NewCollection(syz.CollectionOptions{Name: path, DistanceMethod: int(u(f[3])), DimensionCount: dim, Quantization: int(u(f[2])), FileMode: syz.CreateAndOverwrite})
				if err != nil {
					fmt.Fprintln(out, "ERR", err)
					return
				}
				fmt.Fprintln(out, "ok")
			case "add":
				v := make([]float64, 0, dim)
				for _, s := range f[3:] {
					v = append(v, math.Float64frombits(u(s)))
				}
				c.AddDocument(u(f[1]), v, mh(f[2]))
				fmt.Fprintln(out, "ok")
			case "rm":
				if err := c.VerifRemoveDocument(u(f[1])); err != nil {
					fmt.Fprintln(out, "err")
				} else {
					fmt.Fprintln(out, "ok")
				}
			case "upd":
				if err := c.UpdateDocument(u(f[1]), mh(f[2])); err != nil {
					fmt.Fprintln(out, "err")
				} else {
					fmt.Fprintln(out, "ok")
				}
			case "reopen":
				c.Close()
				var err error
				c, err = syz.NewCollection(syz.CollectionOptions{Name: path, FileMode: syz.ReadWrite})
				if err != nil {
					fmt.Fprintln(out, "ERR", err)
					return
				}
				fmt.Fprintln(out, "ok")
			case "docs":
				dumpDocs(c, "")
			case "export":
				var buf bytes.Buffer
				err := syz.ExportJSON(c, &buf)
				exported = buf.Bytes()
				st := "ok"
				if err != nil {
					st = "err"
				}
				fmt.Fprintf(out, "export %s %s\n", st, hex.EncodeToString(exported))
			case "failexport":
				// an export that fails (a document whose metadata is not JSON) before the export under test, in the same
				// process: a failed call may not leave anything behind for the next one
				path3 := path + ".bad"
				os.Remove(path3)
				bc, err := syz.NewCollection(syz.CollectionOptions{Name: path3, DistanceMethod: 0, DimensionCount: 1, Quantization: 64, FileMode: syz.CreateAndOverwrite})
				if err != nil {
					fmt.Fprintln(out, "failexport nocoll")
					return
				}
				bc.AddDocument(1, []float64{0.5}, []byte(`{"fine": true}`))
				bc.AddDocument(2, []float64{0.25}, []byte("free text, not JSON"))
				bc.AddDocument(3, []float64{0.75}, nil)
				var sink bytes.Buffer
				err = syz.ExportJSON(bc, &sink)
				bc.Close()
				os.Remove(path3)
				if err != nil {
					fmt.Fprintln(out, "failexport err")
				} else {
					fmt.Fprintln(out, "failexport ok")
				}
			case "import":
				os.Remove(path2)
				err := syz.ImportJSON(path2, bytes.NewReader(exported))
				if err != nil {
					fmt.Fprintf(out, "import err %q\n", err.Error())
					return
				}
				fmt.Fprintln(out, "import ok")
				c2, err := syz.NewCollection(syz.CollectionOptions{Name: path2, FileMode: syz.ReadOnly})
				if err != nil {
					fmt.Fprintf(out, "import reopenerr %q\n", err.Error())
					return
				}
				dumpDocs(c2, "i")
				c2.Close()
			case "ctor":
				// embedded constructor with arbitrary options: created? and can it store one document of its dimension?
				d, q, m := int(int64(u(f[1]))), int(int64(u(f[2]))), int(u(f[3]))
				if strings.HasPrefix(f[1], "-") {
					v, _ := strconv.Atoi(f[1])
					d = v
				}
				if strings.HasPrefix(f[2], "-") {
					v, _ := strconv.Atoi(f[2])
					q = v
				}
				pc := path + ".c"
				os.Remove(pc)
				created, usable := 0, 0
				func() {
					defer func() {
						if e := recover(); e != nil {
							usable = 2
						}
					}()
					cc, err := syz.NewCollection(syz.CollectionOptions{Name: pc, DistanceMethod: m, DimensionCount: d, Quantization: q, FileMode: syz.CreateAndOverwrite})
					if err != nil {
						return
					}
					created = 1
					n := d
					if n < 0 {
						n = 0
					}
					cc.AddDocument(1, make([]float64, n), []byte("{}"))
					if doc, err := cc.GetDocument(1); err == nil && len(doc.Vector) == d && d >= 1 {
						usable = 1
					}
					cc.Close()
				}()
				os.Remove(pc)
				fmt.Fprintf(out, "ctor %d %d\n", created, usable)
			case "encmeta":
				md := mh(f[1])
				// what ExportJSON feeds its indenter: the standard encoder's output for the decoded value
				var v interface{}
				if err := json.Unmarshal(md, &v); err != nil {
					fmt.Fprintln(out, "encmeta err")
					return
				}
				var eb bytes.Buffer
				enc := json.NewEncoder(&eb)
				enc.SetEscapeHTML(false)
				enc.SetIndent("", "  ")
				enc.Encode(v)
				// what ExportJSON writes for it: a one-document collection, the block cut out of the text
				pm := path + ".m"
				os.Remove(pm)
				cm, err := syz.NewCollection(syz.CollectionOptions{Name: pm, DistanceMethod: 0, DimensionCount: 1, Quantization: 64, FileMode: syz.CreateAndOverwrite})
				if err != nil {
					fmt.Fprintln(out, "encmeta err")
					return
				}
				cm.AddDocument(1, []float64{0}, md)
				var xb bytes.Buffer
				syz.ExportJSON(cm, &xb)
				cm.Close()
				os.Remove(pm)
				t := xb.Bytes()
				mark := []byte("],\n    \"metadata\": ")
				i := bytes.Index(t, mark)
				tail := []byte("  }]\n}\n")
				if i < 0 || !bytes.HasSuffix(t, tail) {
					fmt.Fprintln(out, "encmeta err")
					return
				}
				block := t[i+len(mark) : len(t)-len(tail)]
				fmt.Fprintf(out, "encmeta %s %s\n", hex.EncodeToString(eb.Bytes()), hex.EncodeToString(block))
			case "indent":
				p, _ := hex.DecodeString(f[1])
				d := mh(f[3])
				o := syz.VerifIndentWrite(string(p), f[2] == "1", d)
				hx := hex.EncodeToString(o)
				if hx == "" {
					hx = "-"
				}
				fmt.Fprintf(out, "indented %s\n", hx)
			}
		}()
		out.Flush()
	}
	out.Flush()
	if c != nil {
		c.Close()
	}
	os.Remove(path)
	os.Remove(path2)
	for _, x := range extra {
		os.Remove(x)
	}
}
