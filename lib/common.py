"""Shared driver code: builds, runners, evidence, verdicts. Python 3 stdlib only."""
import fcntl, hashlib, json, os, random, re, shutil, subprocess, sys, time

VERIF = '/verif'
REPO = '/repo'
WORK = os.path.join(VERIF, 'work')
COQ = os.path.join(VERIF, 'coq')
ORACLE = os.path.join(COQ, 'Extract', 'oracle')
HARNESS = os.path.join(VERIF, 'harness', 'vharness')
TRANSLATOR = os.path.join(VERIF, 'translator', 'vtranslate')

GOENV = dict(os.environ, GOFLAGS='-mod=mod', GOPROXY='off', GOSUMDB='off', GOTOOLCHAIN='local')

TRUSTED_BASE = [
    'Coq 8.16.1 kernel incl. vm_compute (no native_compute)',
    'translator/ (go/ast -> coq/Gen/*.v)',
    'extraction with ExtrOcamlBasic directives only (bool, option, unit, list, prod, sumbool); N/Z stay Coq binary numbers',
    'coq/Extract/driver.ml (bytes <-> list N glue), OCaml 4.13.1',
    'harness/ (Go, built with -tags verif against /repo working tree) and lib/*.py (generation, diff, oracles)',
    'Go runtime and libraries the model does not cover: mmap-go, encoding/json, sort, container/heap, net/http, sync',
]


def sh(cmd, timeout=1200, cwd=None, env=None, inp=None):
    p = subprocess.run(cmd, shell=isinstance(cmd, str), cwd=cwd, env=env, input=inp,
                       stdout=subprocess.PIPE, stderr=subprocess.PIPE, timeout=timeout)
    return p.returncode, p.stdout, p.stderr


class Lock:
    def __init__(self, name):
        os.makedirs(WORK, exist_ok=True)
        self.path = os.path.join(WORK, name + '.lock')

    def __enter__(self):
        self.f = open(self.path, 'w')
        fcntl.flock(self.f, fcntl.LOCK_EX)

    def __exit__(self, *a):
        fcntl.flock(self.f, fcntl.LOCK_UN)
        self.f.close()


def write_if_changed(path, text):
    try:
        if open(path).read() == text:
            return False
    except FileNotFoundError:
        pass
    os.makedirs(os.path.dirname(path), exist_ok=True)
    with open(path, 'w') as f:
        f.write(text)
    return True


# ---------------------------------------------------------------- builds

def build_go():
    """(re)build translator and harness from /repo's working tree."""
    os.makedirs(WORK, exist_ok=True)
    for d, outp, tags in ((os.path.join(VERIF, 'translator'), TRANSLATOR, ''),
                          (os.path.join(VERIF, 'harness'), HARNESS, '-tags verif')):
        if not os.path.exists(os.path.join(d, 'go.mod')):
            continue
        if os.path.exists(os.path.join(REPO, 'go.sum')) and 'harness' in d:
            shutil.copy(os.path.join(REPO, 'go.sum'), os.path.join(d, 'go.sum'))
        rc, o, e = sh('go build %s -o %s .' % (tags, outp), cwd=d, env=GOENV, timeout=600)
        if rc != 0:
            return False, (o + e).decode(errors='replace')
    return True, ''


def run_translator():
    """regenerate coq/Gen/*.v from /repo; returns (ok, message)."""
    if not os.path.exists(TRANSLATOR):
        return True, 'no translator'
    tmp = os.path.join(WORK, 'gen')
    shutil.rmtree(tmp, ignore_errors=True)
    os.makedirs(tmp)
    rc, o, e = sh([TRANSLATOR, REPO, tmp], timeout=120)
    if rc != 0:
        return False, (o + e).decode(errors='replace')
    for fn in sorted(os.listdir(tmp)):
        if fn.endswith('.v'):
            write_if_changed(os.path.join(COQ, 'Gen', fn), open(os.path.join(tmp, fn)).read())
        elif fn.endswith('.json'):
            shutil.copy(os.path.join(tmp, fn), os.path.join(WORK, fn))
    return True, ''


def build_coq():
    """full .vo build (make -k so that the model still builds when a proof breaks).
    Returns dict: ok, log, missing (list of .v files whose .vo is absent)."""
    if not os.path.exists(os.path.join(COQ, 'Makefile')):
        sh('coq_makefile -f _CoqProject -o Makefile', cwd=COQ)
    rc, o, e = sh('timeout 3000 make -k -j16', cwd=COQ, timeout=3100)
    log = (o + e).decode(errors='replace')
    with open(os.path.join(WORK, 'coq-build.log'), 'w') as f:
        f.write(log)
    missing = []
    for ln in open(os.path.join(COQ, '_CoqProject')):
        ln = ln.strip()
        if ln.endswith('.v') and not os.path.exists(os.path.join(COQ, ln[:-2] + '.vo')):
            missing.append(ln)
    return {'ok': rc == 0 and not missing, 'log': log, 'missing': missing}


def build_oracle():
    ex = os.path.join(COQ, 'Extract')
    newest = 0
    for root, _, files in os.walk(os.path.join(COQ, 'Model')):
        for fn in files:
            if fn.endswith('.vo'):
                newest = max(newest, os.path.getmtime(os.path.join(root, fn)))
    for fn in os.listdir(os.path.join(COQ, 'Gen')):
        if fn.endswith('.vo'):
            newest = max(newest, os.path.getmtime(os.path.join(COQ, 'Gen', fn)))
    for fn in ('Extract.v', 'driver.ml'):
        newest = max(newest, os.path.getmtime(os.path.join(ex, fn)))
    if os.path.exists(ORACLE) and os.path.getmtime(ORACLE) >= newest:
        return True, ''
    rc, o, e = sh('timeout 900 coqc -R .. Syz Extract.v', cwd=ex, timeout=1000)
    if rc != 0:
        return False, (o + e).decode(errors='replace')
    rc, o, e = sh('ocamlfind ocamlopt -O3 -w -a oracle_model.mli oracle_model.ml driver.ml -o oracle', cwd=ex, timeout=600)
    if rc != 0:
        return False, (o + e).decode(errors='replace')
    return True, ''


_built = None


def build_all():
    """translator -> Gen -> coq -> oracle -> harness; cached per process; serialised across processes."""
    global _built
    if _built is not None:
        return _built
    with Lock('build'):
        t0 = time.time()
        res = {'problems': []}
        ok, msg = build_go()
        res['go_ok'] = ok
        if not ok:
            res['problems'].append('go build failed: ' + msg[-2000:])
        ok, msg = run_translator() if res['go_ok'] else (False, 'skipped')
        res['translator_ok'] = ok
        if not ok:
            res['problems'].append('translator cannot map the source: ' + msg[-2000:])
        c = build_coq()
        res['coq'] = c
        ok, msg = build_oracle()
        res['oracle_ok'] = ok
        if not ok:
            res['problems'].append('oracle build failed: ' + msg[-2000:])
        res['build_s'] = time.time() - t0
    _built = res
    return res


# ---------------------------------------------------------------- proofs

def gate_grep():
    """forbidden constructs anywhere in coq/ (except comments are not parsed: keep the words out of comments too)."""
    bad = []
    pat = re.compile(r'\b(Admitted|admit|Axiom|Axioms|Parameter|Parameters|Conjecture|Hypothesis|Variable|bypass_check)\b|Unset Guard|Unset Positivity|Unset Universe|type-in-type|Admit Obligations')
    for root, _, files in os.walk(COQ):
        for fn in files:
            if not fn.endswith('.v'):
                continue
            p = os.path.join(root, fn)
            depth = 0
            for i, ln in enumerate(open(p), 1):
                st = ln.strip()
                if re.match(r'Section\s+\w+\s*\.', st):
                    depth += 1
                elif re.match(r'End\s+\w+\s*\.', st) and depth > 0:
                    depth -= 1
                m = pat.search(ln)
                if not m:
                    continue
                if m.group(1) in ('Hypothesis', 'Variable'):
                    # a Variable or Hypothesis outside a section declares an axiom
                    if depth == 0:
                        bad.append('%s:%d: %s (outside a section)' % (os.path.relpath(p, VERIF), i, st))
                    continue
                bad.append('%s:%d: %s' % (os.path.relpath(p, VERIF), i, ln.strip()))
    return bad


def proof_status(prop):
    """compile Properties/<prop>.v on its own and collect theorem names + Print Assumptions output."""
    f = os.path.join(COQ, 'Properties', prop + '.v')
    if not os.path.exists(f):
        return {'exists': False, 'theorems': [], 'ok': False, 'assumptions': {}, 'log': ''}
    src = open(f).read()
    theorems = re.findall(r'^(?:Theorem|Corollary)\s+([A-Za-z0-9_\']+)', src, re.M)
    with Lock('build'):      # never while another check of the same tree rebuilds the generated tables and their dependents
        rc, o, e = sh('timeout 900 coqc -R . Syz Properties/%s.v' % prop, cwd=COQ, timeout=1000)
    log = (o + e).decode(errors='replace')
    assumptions = {}
    # Print Assumptions output: either "Closed under the global context" or "Axioms:" followed by lines
    chunks = re.split(r'(?=^Closed under the global context|^Axioms:)', log, flags=re.M)
    outs = [c for c in chunks if c.startswith('Closed under') or c.startswith('Axioms:')]
    printed = re.findall(r'^Print Assumptions\s+([A-Za-z0-9_\']+)', src, re.M)
    for name, c in zip(printed, outs):
        if c.startswith('Closed'):
            assumptions[name] = []
        else:
            ax = re.findall(r'^([A-Za-z0-9_.\']+)\s*:', c, re.M)
            assumptions[name] = [a for a in ax if a not in ('Axioms', 'Warning', 'File')]   # coqc warnings of later commands land in the same chunk
    return {'exists': True, 'theorems': theorems, 'ok': rc == 0, 'assumptions': assumptions,
            'log': log[-3000:], 'printed': printed}


# ---------------------------------------------------------------- runners

def _big_stack():
    # the extracted model recurses over byte lists (a 2 MB payload is a 2-million-element list)
    import resource
    try:
        resource.setrlimit(resource.RLIMIT_STACK, (4 << 30, resource.getrlimit(resource.RLIMIT_STACK)[1]))
    except (ValueError, OSError):
        pass


def run_oracle(text, timeout=600):
    try:
        p = subprocess.run([ORACLE], input=text.encode(), stdout=subprocess.PIPE, stderr=subprocess.PIPE, timeout=timeout, preexec_fn=_big_stack)
    except subprocess.TimeoutExpired:
        return [], -9, 'the extracted model did not finish within %d s' % timeout
    rc, o, e = p.returncode, p.stdout, p.stderr
    return [ln.strip() for ln in o.decode().splitlines()], rc, e.decode(errors='replace')


def run_harness(args, text, timeout=600, env=None):
    try:
        rc, o, e = sh([HARNESS] + list(args), inp=text.encode() if text is not None else None, timeout=timeout, env=env)
    except subprocess.TimeoutExpired as ex:
        return [ln.strip() for ln in (ex.stdout or b'').decode().splitlines()], -9, 'timeout'
    return [ln.strip() for ln in o.decode(errors='replace').splitlines()], rc, e.decode(errors='replace')


# ---------------------------------------------------------------- findings, evidence, verdict

def known_findings():
    p = os.path.join(VERIF, 'KNOWN_FINDINGS.json')
    if not os.path.exists(p):
        return []
    return json.load(open(p)).get('findings', [])


class Check:
    def __init__(self, prop, tier, seed, level='proof'):
        self.prop, self.tier, self.seed, self.level = prop, tier, seed, level
        self.t0 = time.time()
        self.cov = {}
        self.assumptions = []
        self.violations = []       # (replay_path, suffix)
        self.known_printed = []
        self.notes = []
        self.rdir = os.path.join(WORK, prop)
        os.makedirs(self.rdir, exist_ok=True)
        self.nreplay = 0

    def replay_path(self, tag):
        self.nreplay += 1
        return os.path.join(self.rdir, 'replay-%s-%d-%d.json' % (tag, self.seed, self.nreplay))

    def violation(self, obj, tag='oracle', no_input=False):
        """record a violation; obj is the replay content."""
        obj = dict(obj)
        obj.setdefault('property', self.prop)
        obj.setdefault('seed', self.seed)
        # known finding?
        for k in known_findings():
            if k.get('property') == self.prop and k.get('status', 'open') == 'open' and k.get('signature') and k['signature'] == obj.get('signature'):
                if k['signature'] not in self.known_printed:
                    self.known_printed.append(k['signature'])
                    print('KNOWN-FINDING: property=%s %s' % (self.prop, k.get('what', k['signature'])))
                return False
        p = self.replay_path(tag)
        with open(p, 'w') as f:
            json.dump(obj, f, indent=1, default=str)
        self.violations.append((p, no_input))
        return True

    def finish(self):
        wall = time.time() - self.t0
        ev = {
            'property_id': self.prop, 'tier': self.tier, 'seed': self.seed, 'level': self.level,
            'coverage': self.cov, 'assumptions': self.assumptions, 'wall_s': round(wall, 2),
            'violations': len(self.violations),
        }
        if self.notes:
            ev['coverage']['notes'] = self.notes
        os.makedirs(os.path.join(VERIF, 'evidence'), exist_ok=True)
        with open(os.path.join(VERIF, 'evidence', self.prop + '.json'), 'w') as f:
            json.dump(ev, f, indent=1, default=str)
        for p, no_input in self.violations:
            print('VIOLATION property=%s replay=%s%s' % (self.prop, p, ' no-failing-input-found' if no_input else ''))
        sys.stdout.flush()
        return 1 if self.violations else 0


def proof_coverage(chk, prop, build, extra_files=()):
    """fill the proof-level coverage keys; returns list of broken obligations (strings)."""
    broken = []
    ps = proof_status(prop)
    n = len(ps['theorems'])
    missing = build['coq']['missing']
    if not ps['exists']:
        broken.append('coq/Properties/%s.v missing' % prop)
    elif not ps['ok']:
        broken.append('coq/Properties/%s.v does not compile: %s' % (prop, ps['log'][-1500:]))
    for m in missing:
        broken.append('coq/%s did not compile' % m)
    gate = gate_grep()
    for g in gate:
        broken.append('forbidden construct: ' + g)
    if not build['translator_ok']:
        broken.append('translator cannot map the current source')
    axioms = sorted({a for l in ps['assumptions'].values() for a in l})
    chk.cov.update({
        'obligations': max(n, 1),
        'discharged': n if (ps['ok'] and not missing and not gate) else 0,
        'checker_cmd': 'cd /verif/coq && make -j16 (coqc 8.16.1, full .vo build) ; coqc Properties/%s.v' % prop,
        'trusted_base': TRUSTED_BASE + (['standard-library axioms used: ' + ', '.join(axioms)] if axioms else ['no axioms: every theorem of Properties/%s.v is closed under the global context' % prop]),
        'theorems': ps['theorems'],
        'print_assumptions': ps['assumptions'],
    })
    return broken


def seed_from_env():
    try:
        return int(os.environ.get('VERIF_SEED', '1'))
    except ValueError:
        return 1
