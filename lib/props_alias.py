"""C11 — returned documents and results are private, stable snapshots."""
import os, random, time
from common import *
from searchlib import rand_vec, stored, bits, unbits

NOTE = ('theorems are about coq/Model/Alias.v (values are Copy or View of a numbered mapping); the table ret_current (every return '
        'site copies) is tied to the code by comparing the address of every returned slice with the address range of the file mapping '
        '(verif accessor VerifMapRange) and with the caller-supplied slices; the property itself is observed by holding returned values '
        'across continuation histories (overwrite reusing the span, removal, growth = remap, reopen, Close) and re-reading them')

SITES = ['get', 'exact', 'approx', 'list']


def meta_of(rng, size):
    return bytes(rng.randrange(256) for _ in range(size))


def gen_case(rng, tier):
    dim = rng.choice([1, 2, 3, 5])
    q = rng.choice([4, 8, 16, 32, 64])
    metric = rng.randint(0, 1)
    cmds = ['new %d %d %d %d' % (dim, q, metric, rng.choice([0, 7]))]
    spec = {}
    size = rng.choice([1, 3, 8, 20, 60, 200, 1000])

    def add(id_, md=None, sz=None):
        v = rand_vec(rng, dim, q)
        if rng.random() < 0.3:
            v = [x * rng.choice([3.0, 12.0, -5.0]) for x in v]       # components outside [-1, 1] (clamped by the fixed-point encodings)
        md = meta_of(rng, sz if sz is not None else size) if md is None else md
        cmds.append('add %d %s %s' % (id_, md.hex() or '-', ' '.join(str(bits(x)) for x in v)))
        spec[id_] = (md, [stored(q, x) for x in v])

    n = rng.choice([1, 2, 3, 5, 9, 20, 120])
    ids = rng.sample(range(1, 400), n)
    for id_ in ids:
        add(id_)
    qv = rand_vec(rng, dim, 64)
    qtext = ' '.join(str(bits(x)) for x in qv)
    # hand out values at every return site
    held_ids = rng.sample(ids, min(len(ids), 3))
    for id_ in held_ids:
        cmds.append('get %d' % id_)
    cmds.append('search %d 0 1 %s' % (rng.choice([1, 3, n]), qtext))
    cmds.append('search %d 0 0 %s' % (rng.choice([1, 3, n]), qtext))
    cmds.append('search 0 %d 0 %s' % (bits(rng.choice([0.5, 1.0, 10.0])), qtext))
    cmds.append('search 0 %d 1 %s' % (bits(rng.choice([0.5, 1.0, 10.0])), qtext))
    cmds.append('list %d %d' % (rng.choice([0, 0, 1]), rng.choice([0, 2, 5])))
    # the same search from two callers at once (listing, K-nearest, radius)
    cmds.append('psearch %s' % rng.choice(['0 0 0 ' + qtext, '%d 0 1 %s' % (rng.choice([1, 3]), qtext), '0 %d 1 %s' % (bits(10.0), qtext)]))
    cmds += ['verify', 'callers', 'maplen']
    # continuation: things that write into, move or drop the mapping
    conts = []
    for _ in range(rng.randint(2, 6)):
        r = rng.random()
        tgt = rng.choice(ids)
        if r < 0.3:
            conts.append(('overwrite2', tgt))
        elif r < 0.45:
            conts.append(('rm_refill', tgt))
        elif r < 0.6:
            conts.append(('upd2', tgt))
        elif r < 0.75:
            conts.append(('grow', None))
        elif r < 0.82:
            conts.append(('reopen', None))
        elif r < 0.9:
            conts.append(('reopen_ro', None))
        else:
            conts.append(('overwrite_big', tgt))
    if rng.random() < 0.3:
        conts.insert(rng.randrange(len(conts) + 1), ('reopen_ro', None))
    fresh = iter(range(1000, 3000))
    for kind, tgt in conts:
        if kind == 'overwrite2':
            # twice with same-size metadata: the second write lands in the span the first one freed
            sz = len(spec[tgt][0]) if tgt in spec else size
            add(tgt, sz=sz)
            add(tgt, sz=sz)
        elif kind == 'overwrite_big':
            add(tgt, sz=rng.choice([300, 5000]))
        elif kind == 'rm_refill':
            if tgt in spec:
                sz = len(spec[tgt][0])
                cmds.append('rm %d' % tgt)
                del spec[tgt]
                add(next(fresh), sz=sz)
        elif kind == 'upd2':
            if tgt in spec:
                for _ in range(2):
                    md = meta_of(rng, len(spec[tgt][0]))
                    cmds.append('upd %d %s' % (tgt, md.hex() or '-'))
                    spec[tgt] = (md, spec[tgt][1])
        elif kind == 'grow':
            for _ in range(rng.choice([3, 8])):
                add(next(fresh), sz=rng.choice([2000, 5000]))
            cmds.append('maplen')
        elif kind == 'reopen':
            cmds.append('reopen')
        elif kind == 'reopen_ro':
            # values handed out by a collection opened read-only, held across its Close (the next reopen unmaps that mapping)
            cmds.append('reopen ro')
            live_now = sorted(spec)
            for id_ in rng.sample(live_now, min(len(live_now), 3)):
                cmds.append('get %d' % id_)
            cmds.append('search %d 0 1 %s' % (rng.choice([1, 3]), qtext))
            cmds.append('search %d 0 0 %s' % (rng.choice([1, 3]), qtext))
            cmds.append('search 0 %d 0 %s' % (bits(10.0), qtext))
            cmds.append('list 0 %d' % rng.choice([0, 2]))
            cmds += ['verify', 'reopen']
        cmds += ['verify', 'callers']
    cmds.append('docs')
    final = dict(spec)
    cmds += ['close', 'verify', 'callers']
    return cmds, final, {'dim': dim, 'q': q, 'metric': metric, 'documents': n, 'meta_size': size, 'continuation': [c[0] for c in conts]}


def judge(cmds, lines, rc, err, final):
    """returns (violation description or None, provenance problems, stats)"""
    st = {'held': 0, 'sites': {}, 'verifies': 0, 'values_reread': 0, 'maplens': []}
    prov = []
    why = None
    reading = None
    for l in lines:
        f = l.split()
        if not f:
            continue
        if f[0] == 'PANIC':
            why = why or 'an operation panicked: ' + l[:200]
        elif f[0] == 'held':
            st['held'] += 1
            st['sites'][f[2]] = st['sites'].get(f[2], 0) + 1
            if int(f[9]) > 0 and f[5] == '1':
                prov.append('value %s returned by site %s for document %s points into the file mapping' % (f[1], f[2], f[3]))
            if f[7] == '1':
                prov.append('value %s returned by site %s for document %s shares memory with a slice passed in by a caller' % (f[1], f[2], f[3]))
        elif f[0] == 'pshared':
            if f[1] == '1':
                prov.append('two callers that issued the same search at the same moment were handed metadata in the same memory')
        elif f[0] == 'pchanged':
            if f[1] == '1':
                why = why or 'results handed to one caller changed when another caller, who had issued the same search at the same moment, overwrote the results it had been handed'
        elif f[0] == 'reading':
            reading = f[1]
        elif f[0] == 'value':
            st['values_reread'] += 1
            reading = None
            if f[4] != 'same':
                why = why or 'value %s handed out by site %s for document %s reads differently after later operations' % (f[1], f[2], f[3])
        elif f[0] == 'verified':
            st['verifies'] += 1
        elif f[0] == 'added' and f[3] == '1':
            why = why or 'AddDocument modified a slice of its caller (document %s)' % f[1]
        elif f[0] == 'updated' and f[5] == '1':
            why = why or 'UpdateDocument modified a slice of its caller (document %s)' % f[1]
        elif f[0] == 'callerchanged':
            why = why or 'a slice passed in for document %s was modified after the call returned' % f[1]
        elif f[0] == 'querytouched':
            why = why or 'Search modified the query vector of its caller'
        elif f[0] == 'maplen':
            st['maplens'].append(int(f[1]))
    nver = sum(1 for c in cmds if c == 'verify')
    if why is None and (rc != 0 or st['verifies'] < nver):
        if reading is not None:
            why = 'the process died while re-reading value %s after later operations (fault): %s' % (reading, err[-200:].replace('\n', ' '))
        else:
            why = 'the harness died: rc=%s %s' % (rc, err[-200:].replace('\n', ' '))
    # the collection must hold what was passed in, not what the caller's buffers hold now
    if why is None and 'enddocs' in lines:
        got = {}
        for l in lines[:lines.index('enddocs')]:
            f = l.split()
            if f and f[0] == 'doc':
                got[int(f[1])] = (b'' if f[2] == '-' else bytes.fromhex(f[2]), [unbits(int(x)) for x in f[3:]])
        if set(got) != set(final):
            why = 'documents differ from what was written: ids %s vs %s' % (sorted(got)[:8], sorted(final)[:8])
        else:
            for id_ in final:
                if got[id_][0] != final[id_][0]:
                    why = 'document %d does not hold the metadata passed to the call (the caller re-used its buffer afterwards)' % id_
                    break
                if [bits(x) for x in got[id_][1]] != [bits(x) for x in final[id_][1]]:
                    why = 'document %d does not hold the vector passed to the call (the caller re-used its buffer afterwards)' % id_
                    break
    return why, prov, st


def check(tier, seed, replay=None):
    chk = Check('C11', tier, seed)
    build = build_all()
    broken = proof_coverage(chk, 'C11', build) + list(build['problems'])
    rng = random.Random(seed * 1000003 + 211)
    ncases = 250 if tier == 'quick' else 4000
    path = os.path.join(WORK, 'data', 'alias_%05d.dat' % (os.getpid() % 100000))
    os.makedirs(os.path.dirname(path), exist_ok=True)
    nviol = 0
    corr = None
    stats = {'histories': 0, 'values_held': 0, 'values_reread': 0, 'sites': {}, 'remaps_seen': 0, 'continuations': {}, 'closes': 0}
    samples = []
    distinct = set()
    t_end = time.time() + (2400 if tier == 'thorough' else 400)
    if replay is not None:
        lines, rc, err = run_harness(['alias', path], '\n'.join(replay['commands']) + '\n', timeout=300)
        why, prov, st = judge(replay['commands'], lines, rc, err, replay.get('final') and {int(k): (bytes.fromhex(v[0]), [unbits(x) for x in v[1]]) for k, v in replay['final'].items()} or {})
        print('replay: oracle=%s provenance=%s' % (why, prov[:2]))
        return 1 if (why or prov) else 0
    import glob, json
    corpus = []
    for fn in sorted(glob.glob(os.path.join(VERIF, 'corpus', 'C11', '*.json'))):
        r = json.load(open(fn))
        corpus.append((r['commands'], {int(k): (bytes.fromhex(v[0]), [unbits(x) for x in v[1]]) for k, v in r['final'].items()}, dict(r.get('collection', {}), origin='corpus:' + os.path.basename(fn))))
    stats['corpus_cases'] = len(corpus)
    for i in range(ncases + len(corpus)):
        if time.time() > t_end or nviol >= 3:
            break
        cmds, final, info = corpus[i] if i < len(corpus) else gen_case(rng, tier)
        info.setdefault('continuation', [])
        lines, rc, err = run_harness(['alias', path], '\n'.join(cmds) + '\n', timeout=300)
        why, prov, st = judge(cmds, lines, rc, err, final)
        stats['histories'] += 1
        stats['values_held'] += st['held']
        stats['values_reread'] += st['values_reread']
        stats['closes'] += 1
        for k, v in st['sites'].items():
            stats['sites'][k] = stats['sites'].get(k, 0) + v
        for k in info['continuation']:
            stats['continuations'][k] = stats['continuations'].get(k, 0) + 1
        if len(set(st['maplens'])) > 1:
            stats['remaps_seen'] += 1
        if st['held'] > 0 and st['values_reread'] > st['held']:
            distinct.add(hash('\n'.join(cmds)))
        if len(samples) < 2:
            samples.append({'collection': info, 'commands': [c[:120] for c in cmds[:6]] + ['...'] + [c[:120] for c in cmds[-8:]], 'output_tail': lines[-6:]})
        fj = {str(k): (v[0].hex(), [bits(x) for x in v[1]]) for k, v in final.items()}
        if why:
            if chk.violation({'engine': 'alias', 'what': why, 'provenance': prov[:5], 'commands': cmds, 'final': fj, 'collection': info,
                              'signature': 'alias:' + why[:50]}):
                nviol += 1
        elif prov and corr is None:
            corr = {'engine': 'alias', 'channel': 'X.alias.provenance', 'what': prov[:5], 'commands': cmds, 'final': fj, 'collection': info}
    if nviol == 0:
        if corr:
            corr['unproved'] = ('the return-site table ret_current of coq/Model/Alias.v (every site copies) no longer describes the code: theorem C11_stable '
                                'is about a model the implementation has left; no continuation in this run made the value read differently')
            chk.violation(corr, tag='correspondence', no_input=True)
        elif broken:
            chk.violation({'engine': 'proof', 'unproved': broken, 'what': 'a proof obligation no longer checks; no failing input found'}, tag='proof', no_input=True)
    chk.cov.update({'programs': stats['histories'], 'evaluations': stats['values_reread'], 'distinct_nontrivial': len(distinct),
                    'rule': 'histories: build a collection (1..120 documents, all quantisations, metadata 1..1000 bytes), take values at every return site '
                            '(GetDocument, exact K/radius, default-precision K/radius, listing page), then 2..6 continuation blocks (overwrite twice with same-size data so that '
                            'the freed span is reused, remove + refill, update twice, growth by large records = remap, reopen, reopen read-only with values taken there and held across its Close, large overwrite), then Close; after every block '
                            'all held values are re-read and all caller-supplied slices re-hashed. Non-trivial = at least one value held and re-read after a continuation',
                    'disagreements_checked': stats['values_held'], 'samples': samples, 'distribution': stats,
                    'correspondence': 'every returned slice lies outside the file mapping and outside caller memory' if corr is None else 'DIVERGED', 'proof_obligations_broken': broken})
    chk.assumptions = [NOTE, 'a fault on unmapped memory is observed as the death of the harness process while it announces which value it is reading',
                       'partial: "safely readable" after unmapping is an operating-system fact the model only names (obs = Fault)']
    try:
        os.remove(path)
    except OSError:
        pass
    return chk.finish()
