"""C06 — distances are well-defined numbers obeying the metric laws."""
import math, os, random, struct, time
from common import *
import floatvm
from props_quant import bits, unbits, nxt, deq

NOTE = ('theorems are about coq/Float/Dist.v (primitive binary64; math.Acos transcribed from Go\'s pure-Go asin.go/atan.go); tied to '
        'collection.go by bit-exact comparison under vm_compute; the metric laws are additionally checked on the implementation\'s outputs')


def gen_pairs(rng, tier):
    out = []
    n = 250 if tier == 'quick' else 20000
    for i in range(n):
        dim = rng.choice([1, 2, 3, 3, 4, 8, 16, 33, 64])
        kind = i % 10
        scale = 2.0 ** rng.choice([-500, -200, -30, -1, 0, 0, 0, 1, 30, 200, 500])

        def grid():
            b = rng.choice([4, 8, 16])
            return deq(rng.randrange(1 << b), b)
        base = [rng.choice([grid(), rng.uniform(-1, 1), rng.choice([0.5, 0.25, 0.1, 1.0, -1.0, 0.0])]) * scale for _ in range(dim)]
        if kind == 0:
            a, b = base, list(base)                                  # identical
        elif kind == 1:
            k = rng.choice([2.0, 3.0, 0.5, 1e10, 1e-10, 7.25])
            a, b = base, [x * k for x in base]                        # parallel
        elif kind == 2:
            k = rng.choice([1.0, 2.0, 0.5, 1e5])
            a, b = base, [-x * k for x in base]                       # anti-parallel
        elif kind == 3:
            a, b = base, [nxt(x, rng.random() < 0.5) if rng.random() < 0.3 else x for x in base]   # nearly parallel
        elif kind == 4:
            a, b = base, [0.0] * dim                                  # zero vector
        elif kind == 5:
            a = [grid() for _ in range(dim)]
            b = [grid() for _ in range(dim)]
        else:
            a = base
            b = [rng.uniform(-1, 1) * scale for _ in range(dim)]
        out.append((a, b))
    out.append(([0.5, 0.25, 0.1], [0.5, 0.25, 0.1]))
    return out


def ulps(x, y):
    if x == y:
        return 0
    return abs(bits(abs(x)) - bits(abs(y))) if (x >= 0) == (y >= 0) else 10 ** 9


def oracle(pairs, outs, rng):
    for (a, b), (e, c) in zip(pairs, outs):
        ev, cv = unbits(e), unbits(c)
        case = {'a_bits': [bits(x) for x in a], 'b_bits': [bits(x) for x in b]}
        sq = sum(x * x for x in a) + sum(x * x for x in b)
        if math.isinf(sq) or any(math.isinf((x - y) ** 2) for x, y in zip(a, b)):
            continue                              # squared norms overflow: outside the property
        if math.isnan(ev) or ev < 0 or math.isinf(ev):
            return dict(case, what='Euclidean distance is not a finite non-negative number', got=ev)
        if math.isnan(cv) or cv < 0 or cv > 1:
            return dict(case, what='cosine distance is NaN or outside [0, 1]', got=repr(cv))
        if a == b:
            if ev != 0:
                return dict(case, what='Euclidean distance of a vector to itself is not 0', got=ev)
            if any(x != 0 for x in a) and not (cv <= 2.0 ** -25) and sum(x * x for x in a) > 0:
                return dict(case, what='cosine distance of a non-zero vector to itself is not ~0', got=cv)
    return None


def search_leg(chk, rng, tier):
    """the distances reported by Collection.Search (every mode) are those of the distance functions compared above:
    small collections of exactly stored vectors (quantisation 64), queries = zero vector, stored vectors, their opposites and random ones"""
    from searchlib import SearchCase, parse_res, rand_vec
    import props_lsh
    path = os.path.join(WORK, 'data', 'c06_search_%05d.dat' % (os.getpid() % 100000))
    os.makedirs(os.path.dirname(path), exist_ok=True)
    n_checked = 0
    for ci in range(6 if tier == 'quick' else 120):
        dim = rng.choice([1, 2, 3, 7])
        metric = ci % 2
        c = SearchCase(dim, 64, metric, 0)
        vecs = {}
        for id_ in range(1, rng.choice([2, 9, 30]) + 1):
            v = [0.0] * dim if rng.random() < 0.15 else rand_vec(rng, dim, 64)
            vecs[id_] = v
            c.add(id_, v, b'm')
        if ci % 3 != 2:
            # the metric is a property of the stored collection: reopened with the name only, or with the other metric
            c.reopen(None if ci % 3 == 0 else (1 - metric, dim, 64))
        queries = [[0.0] * dim, list(vecs[1]), [-x for x in vecs[1]], [x * 4 for x in vecs[1]]] + [rand_vec(rng, dim, 64) for _ in range(3)]
        plan = []
        for qv in queries:
            for K, R, exact in ((1000, 0.0, True), (1000, 0.0, False), (0, 1.0 if metric == 1 else 1e6, False), (1, 0.0, True)):
                c.search(K, R, exact, 0, 1, 0, qv)
                plan.append((qv, K, R, exact))
        lines, rc, err = run_harness(['search', path], c.text(), timeout=300)
        if rc != 0 or any(l.startswith('PANIC') for l in lines):
            return {'what': 'Search died or panicked: %s %s' % ([l for l in lines if l.startswith('PANIC')][:1], err[-300:]), 'commands': c.cmds, 'signature': 'dist:search:died'}, n_checked
        res = [it for it in props_lsh.split_outputs(lines) if it[0] == 'res']
        if len(res) != len(plan):
            return {'what': 'Search produced %d answers for %d searches' % (len(res), len(plan)), 'commands': c.cmds, 'signature': 'dist:search:count'}, n_checked
        want_in = []
        for (qv, K, R, exact), it in zip(plan, res):
            for id_, db, mh in parse_res(it[1])[1]:
                want_in.append((qv, vecs.get(id_), db, id_, K, R, exact))
        text = ''.join('d %d %s %s\n' % (len(a), ' '.join(str(bits(x)) for x in a), ' '.join(str(bits(x)) for x in b)) for a, b, _, _, _, _, _ in want_in if b is not None)
        dl, rc2, _ = run_harness(['dist'], text, timeout=300)
        k = 0
        for qv, v, db, id_, K, R, exact in want_in:
            if v is None:
                continue
            e_bits, c_bits = [int(x) for x in dl[k].split()[1:3]]
            k += 1
            n_checked += 1
            ref = c_bits if metric == 1 else e_bits
            d = unbits(db)
            why = None
            if math.isnan(d) or math.isinf(d) or d < 0:
                why = 'Search reported the distance %r (not a finite non-negative number)' % d
            elif db != ref:
                why = 'Search reported distance bits %d for document %d, the distance function gives %d' % (db, id_, ref)
            if why:
                return {'what': why, 'commands': c.cmds[:1 + len(vecs)] + ['search %d %d %d 0 1 0 0 0 %s' % (K, bits(R), 1 if exact else 0, ' '.join(str(bits(x)) for x in qv))],
                        'signature': 'dist:search:' + why[:30]}, n_checked
        # an exact search for a stored non-degenerate vector returns that document first with distance ~0
        (qv, K, R, exact), it = plan[4], res[4]
        rows = parse_res(it[1])[1]
        if (metric == 0 or any(x != 0 for x in qv)) and (not rows or unbits(rows[0][1]) > 1e-7):
            return {'what': 'an exact search for the stored vector of document 1 does not return a document at distance ~0 first: %s' % (rows[:2],), 'commands': c.cmds[:1 + len(vecs)],
                    'signature': 'dist:search:self'}, n_checked
    try:
        os.remove(path)
    except OSError:
        pass
    return None, n_checked


def check(tier, seed, replay=None):
    chk = Check('C06', tier, seed)
    build = build_all()
    broken = proof_coverage(chk, 'C06', build) + list(build['problems'])
    rng = random.Random(seed * 1000003 + 53)
    if replay is not None:
        pairs = [([unbits(x) for x in c['a_bits']], [unbits(x) for x in c['b_bits']]) for c in replay['cases']]
    else:
        pairs = gen_pairs(rng, tier)
    # every pair is also run swapped (symmetry) and scaled (scale invariance of the cosine distance)
    runs = []
    for a, b in pairs:
        runs.append((a, b))
        runs.append((b, a))
    text = ''.join('d %d %s %s\n' % (len(a), ' '.join(str(bits(x)) for x in a), ' '.join(str(bits(x)) for x in b)) for a, b in runs)
    acos_args = [1.0, -1.0, 0.0, -0.0, 0.5, 0.7, nxt(0.7), 0.66, nxt(1.0, False), nxt(-1.0), 1e-300, 5e-324] + [rng.uniform(-1, 1) for _ in range(300 if tier == 'quick' else 50000)]
    for base in (1.0, -1.0, 0.0, 0.7, 0.66, 0.5):
        x = base
        for _ in range(64):
            x = nxt(x, base <= 0 or base < 1 and rng.random() < 0.5) if abs(nxt(x)) <= 1 else nxt(x, False)
            if abs(x) <= 1:
                acos_args.append(x)
    text += ''.join('a %d\n' % bits(x) for x in acos_args)
    lines, rc, err = run_harness(['dist'], text, timeout=900)
    nviol = 0
    corr = None
    outs = []
    if rc != 0 or len(lines) != len(runs) + len(acos_args) or any(l == 'PANIC' for l in lines):
        chk.violation({'engine': 'dist', 'what': 'harness failed or panicked rc=%s %s' % (rc, err[-300:]), 'signature': 'dist:died'})
        nviol += 1
    else:
        def canon(v):
            # NaN sign and payload are not compared: one canonical pattern on both sides
            return 9221120237041090561 if math.isnan(unbits(v)) else v
        outs = [tuple(canon(int(x)) for x in l.split()[1:3]) for l in lines[:len(runs)]]
        acos_out = [canon(int(l.split()[1])) for l in lines[len(runs):]]
        o = oracle(runs, outs, rng)
        if o is None:
            for i in range(0, len(runs), 2):
                if outs[i] != outs[i + 1]:
                    o = {'what': 'distance is not symmetric (bit patterns differ when the arguments are swapped)',
                         'a_bits': [bits(x) for x in runs[i][0]], 'b_bits': [bits(x) for x in runs[i][1]], 'got': [outs[i], outs[i + 1]]}
                    break
        if o is None:
            for x, r in zip(acos_args, acos_out):
                v = unbits(r)
                if math.isnan(v) or v < 0 or v > math.pi:
                    o = {'what': 'math.Acos contract violated on [-1,1]', 'x_bits': bits(x), 'a_bits': [], 'b_bits': []}
                    break
        if o:
            o.update({'engine': 'dist', 'cases': [{'a_bits': o.get('a_bits', []), 'b_bits': o.get('b_bits', [])}], 'signature': 'dist:' + o['what'][:40]})
            if chk.violation(o):
                nviol += 1
        # metric laws with tolerance on the implementation's outputs: triangle inequality, scaling, opposite
        if nviol == 0 and replay is None:
            tri = []
            for _ in range(150 if tier == 'quick' else 5000):
                dim = rng.choice([1, 2, 3, 8])
                if rng.random() < 0.5:
                    tri.append([[rng.uniform(-1, 1) for _ in range(dim)] for _ in range(3)])
                else:
                    # three points close to each other and far from the origin: cancellation-prone formulas fail here
                    off = rng.choice([1.0, 1e4, 1e8, 1e12]) * rng.choice([1, -1])
                    eps = rng.choice([1.0, 1e-3, 1e-6])
                    basep = [off * rng.uniform(0.5, 1) for _ in range(dim)]
                    tri.append([[x + eps * rng.choice([0, 1, 2, -1, rng.uniform(-2, 2)]) for x in basep] for _ in range(3)])
            t2 = ''.join('d %d %s %s\n' % (len(p), ' '.join(str(bits(x)) for x in p), ' '.join(str(bits(x)) for x in q))
                         for a, b, c in tri for p, q in ((a, b), (b, c), (a, c), (a, [-x for x in a]), ([x * 8 for x in a], b)))
            l2, rc2, _ = run_harness(['dist'], t2)
            for i, (a, b, c) in enumerate(tri):
                ab, bc, ac, opp, sc = [tuple(map(int, l.split()[1:3])) for l in l2[5 * i:5 * i + 5]]
                # accuracy against the exact value (rational arithmetic): a few ulps for the textbook formula
                from fractions import Fraction
                bad_acc = None
                for (p, q2), got in (((a, b), ab), ((b, c), bc), ((a, c), ac)):
                    exact = math.sqrt(float(sum((Fraction(x) - Fraction(y)) ** 2 for x, y in zip(p, q2))))
                    if exact > 1e-150 and abs(unbits(got[0]) - exact) > 1e-9 * exact:
                        bad_acc = (p, q2, unbits(got[0]), exact)
                if bad_acc:
                    chk.violation({'engine': 'dist', 'what': 'Euclidean distance %r differs from the exact distance %r by more than 1e-9 relative' % (bad_acc[2], bad_acc[3]),
                                   'cases': [{'a_bits': [bits(x) for x in bad_acc[0]], 'b_bits': [bits(x) for x in bad_acc[1]]}], 'signature': 'dist:accuracy'})
                    nviol += 1
                    break
                if unbits(ac[0]) > (unbits(ab[0]) + unbits(bc[0])) * (1 + 1e-12):
                    chk.violation({'engine': 'dist', 'what': 'triangle inequality violated', 'cases': [{'a_bits': [bits(x) for x in a], 'b_bits': [bits(x) for x in c]}], 'signature': 'dist:triangle'})
                    nviol += 1
                    break
                if any(x != 0 for x in a) and abs(unbits(opp[1]) - 1.0) > 1e-7:
                    chk.violation({'engine': 'dist', 'what': 'cosine distance of opposite vectors is not 1', 'cases': [{'a_bits': [bits(x) for x in a], 'b_bits': [bits(-x) for x in a]}], 'signature': 'dist:opposite'})
                    nviol += 1
                    break
                if abs(unbits(sc[1]) - unbits(ab[1])) > 1e-7:
                    chk.violation({'engine': 'dist', 'what': 'cosine distance changes under positive scaling', 'cases': [{'a_bits': [bits(x) for x in a], 'b_bits': [bits(x) for x in b]}], 'signature': 'dist:scale'})
                    nviol += 1
                    break
        if nviol == 0 and replay is None:
            sv, nsearch = search_leg(chk, rng, tier)
            chk.cov['search_distances_compared'] = nsearch
            if sv:
                sv['engine'] = 'dist-search'
                if chk.violation(sv):
                    nviol += 1
        # ---- correspondence (vm_compute): distances and acos bit for bit
        t0 = time.time()
        shard = 4000
        for s0 in range(0, len(runs), shard):
            part = list(zip(runs[s0:s0 + shard], outs[s0:s0 + shard]))
            rows = ';\n'.join('(%s, %s, %d, %d)' % (floatvm.zlist([bits(x) for x in a]), floatvm.zlist([bits(x) for x in b]), e, c) for (a, b), (e, c) in part)
            body = ('From Coq Require Import ZArith Floats List Bool.\nFrom Syz Require Import Quant Dist.\nImport ListNotations.\nOpen Scope Z_scope.\nOpen Scope bool_scope.\n'
                    'Definition rows : list (list Z * list Z * Z * Z) := [\n' + rows + '].\n'
                    'Definition bad (r : list Z * list Z * Z * Z) : bool := let \'(a, b, e, c) := r in\n'
                    '  let fa := map of_bits64 a in let fb := map of_bits64 b in\n'
                    '  negb (Z.eqb (bits64 (euclid fa fb)) e && Z.eqb (bits64 (angular fa fb)) c).\n'
                    'Definition mismatches := Eval vm_compute in map (fun r => Z.of_nat (length (fst (fst (fst r))))) (filter bad rows).\nPrint mismatches.\n'
                    'Definition nbad := Eval vm_compute in Z.of_nat (length (filter bad rows)).\nPrint nbad.\n')
            rc2, o2, e2 = floatvm.coq_eval('c06_%d' % s0, body)
            ml = floatvm.parse_z_list(o2, 'mismatches')
            if rc2 != 0 or ml is None:
                corr = {'engine': 'dist', 'channel': 'X.dist.vm', 'what': 'model evaluation failed: ' + (e2 or o2)[-400:]}
                break
            if ml:
                corr = {'engine': 'dist', 'channel': 'X.dist.bits', 'what': '%d pairs differ bit-wise between model and implementation' % len(ml)}
                break
        if corr is None:
            pairs_ = list(zip(acos_args, acos_out))
            for s0 in range(0, len(pairs_), 4000):          # sharded: one list literal of 50000 pairs overflows the parser's stack
                rows = '; '.join('(%d, %d)' % (bits(x), r) for x, r in pairs_[s0:s0 + 4000])
                body = ('From Coq Require Import ZArith Floats List Bool.\nFrom Syz Require Import Quant Dist.\nImport ListNotations.\nOpen Scope Z_scope.\n'
                        'Definition rows : list (Z * Z) := [' + rows + '].\n'
                        'Definition mismatches := Eval vm_compute in map fst (filter (fun r => negb (Z.eqb (bits64 (acos (of_bits64 (fst r)))) (snd r))) rows).\nPrint mismatches.\n')
                rc2, o2, e2 = floatvm.coq_eval('c06_acos_%d' % s0, body)
                ml = floatvm.parse_z_list(o2, 'mismatches')
                if rc2 != 0 or ml is None or ml:
                    corr = {'engine': 'dist', 'channel': 'X.dist.acos', 'what': 'acos transcription differs from math.Acos on %s %s' % (ml[:3] if ml else ml, (e2 or '')[-200:])}
                    break
        chk.notes.append('model evaluation (vm_compute) took %.1fs' % (time.time() - t0))
    if nviol == 0:
        if corr:
            corr['unproved'] = 'correspondence between coq/Float/Dist.v and collection.go no longer holds'
            chk.violation(corr, tag='correspondence', no_input=True)
        elif broken:
            chk.violation({'engine': 'proof', 'unproved': broken, 'what': 'a proof obligation no longer checks; no failing input found'}, tag='proof', no_input=True)
    chk.cov.update({'programs': len(runs), 'evaluations': len(runs) + len(acos_args), 'distinct_nontrivial': len(pairs),
                    'rule': 'pairs of vectors of dimension 1..64: identical, parallel, anti-parallel, nearly parallel (one-ulp perturbations), zero vectors, vectors on the 4/8/16-bit grids, magnitudes 2^-500..2^500, each also swapped; triples for the triangle inequality; acos arguments incl. every float within 64 ulps of the branch points; every distance reported by Collection.Search (exact, default, radius; zero, stored, opposite, scaled and random queries) is compared bit for bit with the distance function',
                    'disagreements_checked': len(runs), 'samples': [{'a': a, 'b': b, 'implementation_bits': list(o)} for (a, b), o in list(zip(runs, outs))[:3]],
                    'correspondence': 'model and implementation agree bit for bit' if corr is None else 'DIVERGED', 'proof_obligations_broken': broken})
    chk.assumptions = [NOTE]
    return chk.finish()
