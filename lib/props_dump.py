"""C20 — export followed by import reproduces the collection."""
import glob, json, math, os, random, re, struct, time
from common import *
import floatvm
from searchlib import rand_vec, stored, bits, unbits, f32

NOTE = ('theorems are about coq/Model/Dump.v (indenter, metadata block, record-level import = fold of AddDocument) and coq/Float/Quant.v; tied to dump.go by '
        'evaluating the model with vm_compute on the same inputs (indenter and metadata block byte for byte; record-level import on the ids and stored vectors of the '
        'exported collection) and by an oracle: the exported bytes are parsed by an independent strict JSON parser and compared with the collection, the imported file is '
        'opened and compared with the original on options, ids, stored vector bit patterns and metadata as JSON values')


def strict_loads(b):
    def bad(x):
        raise ValueError('non-JSON constant ' + x)
    return json.loads(b.decode('utf-8'), parse_constant=bad, parse_int=float)


def gen_json(rng, depth=0):
    r = rng.random()
    if depth > 3 or r < 0.35:
        k = rng.random()
        if k < 0.2:
            return rng.choice([0, 1, -1, 42, 2 ** 31, 2 ** 53, 2 ** 53 + 1, 10 ** 21, 123456789012345678])
        if k < 0.4:
            return rng.choice([0.5, -0.25, 1e-7, 1e21, 1.5e300, 3.141592653589793, 1e-320, 0.1, 100.0, 1e20])
        if k < 0.5:
            return rng.choice([True, False, None])
        if rng.random() < 0.04:
            return 'L' * rng.choice([65535, 65536, 70000, 200000])        # one line longer than common scanner buffers
        return rng.choice(['', 'plain', 'with "quotes"', 'back\\slash', 'line\nbreak', 'tab\there', '<b>&amp;</b>', 'é…☃', ' ', 'a' * 40, '  lead', '\r\n', '}{][,:'])
    if r < 0.65:
        return [gen_json(rng, depth + 1) for _ in range(rng.randint(0, 4))]
    return {rng.choice(['a', 'b', 'name', 'k e y', '', 'né', 'x"y', 'nested', 'id', 'vector', 'metadata']): gen_json(rng, depth + 1) for _ in range(rng.randint(0, 4))}


def render_json(rng, v):
    r = rng.random()
    if r < 0.4:
        return json.dumps(v, ensure_ascii=rng.random() < 0.5).encode()
    if r < 0.7:
        return json.dumps(v, indent=rng.choice([1, 2, 4, '\t']), ensure_ascii=False).encode()
    if r < 0.85:
        return (' \n\t' + json.dumps(v, separators=(' ,\n', ' : ')) + '\n\n ').encode()
    return json.dumps(v, indent=2).replace('\n', '\r\n').encode()


def comp(rng, q):
    r = rng.random()
    if r < 0.15:
        return rng.choice([1e-9, -1e-9, 1e-7, 5e-324, 1e-300, 0.0, -0.0, 1.0, -1.0, 0.1, 1 / 3])
    if r < 0.25:
        return rng.choice([1e30, -1e30, 123456.789, 1e10, 3.4028234663852886e38, 16777217.0, 1e22, 1e21, 1e20, 123456789.125])
    if r < 0.4:
        return f32(rng.uniform(-1, 1) * 10.0 ** rng.randint(-30, 30))
    if r < 0.5:
        return rng.uniform(-1, 1) * 10.0 ** rng.randint(-200, 200)
    return rand_vec(rng, 1, q)[0]


def gen_case(rng, tier):
    dim = rng.choice([1, 2, 3, 7])
    q = rng.choice([4, 8, 16, 32, 64])
    metric = rng.randint(0, 1)
    cmds = ['new %d %d %d 0' % (dim, q, metric)]
    if rng.random() < 0.25:
        # a file name with characters that need escaping in JSON (the name is one of the exported options)
        cmds[0] += ' ' + rng.choice([b'\x01', b'\x7f', b'a\x1fb', '\u00e9\u4e2d'.encode(), b'q"uote', b'back\\slash', b'\x0b\x07']).hex()
    spec = {}
    n = rng.choice([0, 1, 2, 3, 6, 12])
    for id_ in rng.sample([1, 2, 3, 9, 10, 11, 99, 100, 2 ** 32, 2 ** 53 + 1, 2 ** 64 - 1, 12345678901234567890] + list(range(1000, 1100)), n):
        v = [comp(rng, q) for _ in range(dim)]
        # a component whose STORED value is not finite (float32 overflow) cannot be written as JSON at all: that is the
        # recorded finding probed by corpus/C20/nonfinite-f32-overflow.json, kept out of the generated stream
        v = [x if math.isfinite(stored(q, x)) else 1.0 for x in v]
        md = render_json(rng, gen_json(rng))
        cmds.append('add %d %s %s' % (id_, md.hex() or '-', ' '.join(str(bits(x)) for x in v)))
        spec[id_] = (md, [stored(q, x) for x in v])
    for _ in range(rng.randint(0, 3)):
        r = rng.random()
        if r < 0.3 and spec:
            id_ = rng.choice(sorted(spec))
            cmds.append('rm %d' % id_)
            del spec[id_]
        elif r < 0.6 and spec:
            id_ = rng.choice(sorted(spec))
            md = render_json(rng, gen_json(rng))
            cmds.append('upd %d %s' % (id_, md.hex()))
            spec[id_] = (md, spec[id_][1])
        else:
            cmds.append('reopen')
    if rng.random() < 0.4:
        cmds.append('failexport')          # an export of another collection fails first, in the same process
    if rng.random() < 0.25:
        # a few large documents, then a small one with the largest id; the unchanged collection is exported several times
        big = 60000
        for k in range(3):
            id_ = big + k
            v = [1.0 if not math.isfinite(stored(q, x)) else x for x in (comp(rng, q) for _ in range(dim))]
            md = json.dumps({'blob': 'm%d-' % k + 'x' * rng.choice([33000, 40000, 70000]), 'k': k}).encode()
            cmds.append('add %d %s %s' % (id_, md.hex(), ' '.join(str(bits(x)) for x in v)))
            spec[id_] = (md, [stored(q, x) for x in v])
        v = [1.0 if not math.isfinite(stored(q, x)) else x for x in (comp(rng, q) for _ in range(dim))]
        cmds.append('add %d %s %s' % (big + 9, b'{"last":true}'.hex(), ' '.join(str(bits(x)) for x in v)))
        spec[big + 9] = (b'{"last":true}', [stored(q, x) for x in v])
        cmds += ['docs'] + ['export'] * 5 + ['import']
        return cmds, spec, {'dim': dim, 'q': q, 'metric': metric}
    cmds += ['docs', 'export', 'import']
    return cmds, spec, {'dim': dim, 'q': q, 'metric': metric}


def parse_docs(lines, tag=''):
    opts, docs = None, {}
    for l in lines:
        f = l.split()
        if not f:
            continue
        if f[0] == tag + 'opts':
            opts = tuple(int(x) for x in f[1:4])
        elif f[0] == tag + 'doc':
            docs[int(f[1])] = (b'' if f[2] == '-' else bytes.fromhex(f[2]), [int(x) for x in f[3:]])
    return opts, docs


def judge(cmds, lines, rc, err, spec, info):
    """the property, on the implementation's outputs; returns description or None"""
    if rc != 0:
        return 'the harness died: rc=%s %s' % (rc, err[-300:].replace('\n', ' '))
    for l in lines:
        if l.startswith('PANIC'):
            return 'an operation panicked: ' + l[:200]
    opts, docs = parse_docs(lines)
    if opts != (info['metric'], info['dim'], info['q']):
        return 'options of the source collection are %s' % (opts,)
    ex = [l for l in lines if l.startswith('export ')]
    if not ex:
        return 'no export output'
    f = ex[0].split()
    if f[1] != 'ok':
        return 'ExportJSON failed on a collection whose metadata are JSON values'
    for k, other in enumerate(ex[1:], 2):
        if other != ex[0]:
            return 'export number %d of the unchanged collection differs from the first one (%d and %d bytes): an export is a function of the collection' % (k, len(ex[0]) // 2, len(other) // 2)
    text = bytes.fromhex(f[2]) if len(f) > 2 else b''
    try:
        tree = strict_loads(text)
    except ValueError as e:
        return 'ExportJSON did not emit valid JSON: %s' % str(e)[:120]
    if not isinstance(tree, dict) or set(tree) != {'collection', 'records'}:
        return 'exported object does not consist of "collection" and "records"'
    co = tree['collection']
    if (co.get('distance_method'), co.get('dimension_count'), co.get('quantization')) != tuple(float(x) for x in opts):
        return 'exported options differ from the collection options'
    recs = tree['records']
    if [int(r['id']) if float(r['id']) < 2 ** 53 else None for r in recs] != [i if i < 2 ** 53 else None for i in sorted(docs)]:
        return 'exported ids are not the ids of the collection in ascending order'
    # ids above 2^53 are compared textually (a float cannot hold them)
    ids_text = [int(x) for x in re.findall(rb'\n    "id": (\d+),\n', text)]
    if ids_text != sorted(docs):
        return 'exported ids (textual) are not the ids of the collection in ascending order'
    for r, id_ in zip(recs, sorted(docs)):
        want_bits = docs[id_][1]
        got = [bits(stored(info['q'], float(x))) for x in r['vector']]
        if got != want_bits:
            k = next(i for i in range(len(want_bits)) if i >= len(got) or got[i] != want_bits[i])
            return ('exported vector of document %d does not store back to the stored vector: component %d is %r in the text, stored value %r'
                    % (id_, k, r['vector'][k] if k < len(r['vector']) else None, unbits(want_bits[k])))
        try:
            if strict_loads(docs[id_][0]) != r['metadata']:
                return 'exported metadata of document %d is not JSON-equal to the stored metadata' % id_
        except ValueError:
            return 'stored metadata of document %d is not JSON (generator error)' % id_
    imp = [l for l in lines if l.startswith('import ')]
    if not imp or imp[0].split()[1] != 'ok':
        return 'ImportJSON of the exported text failed: %s' % (imp[0][:160] if imp else 'no output')
    iopts, idocs = parse_docs(lines, 'i')
    if iopts != opts:
        return 'imported collection has options %s, exported one %s' % (iopts, opts)
    if sorted(idocs) != sorted(docs):
        return 'imported ids differ from the exported ids'
    for id_ in docs:
        if idocs[id_][1] != docs[id_][1]:
            k = next(i for i in range(len(docs[id_][1])) if idocs[id_][1][i] != docs[id_][1][i])
            return 'imported vector of document %d differs from the stored vector: component %d is %r, was %r' % (id_, k, unbits(idocs[id_][1][k]), unbits(docs[id_][1][k]))
        try:
            if strict_loads(idocs[id_][0]) != strict_loads(docs[id_][0]):
                return 'imported metadata of document %d is not JSON-equal to the original' % id_
        except ValueError as e:
            return 'imported metadata of document %d is not JSON: %s' % (id_, str(e)[:80])
    return None


def nlist(b):
    return '[' + '; '.join(str(x) for x in b) + ']%N'


def check(tier, seed, replay=None):
    chk = Check('C20', tier, seed)
    build = build_all()
    broken = proof_coverage(chk, 'C20', build) + list(build['problems'])
    rng = random.Random(seed * 1000003 + 307)
    ncases = 150 if tier == 'quick' else 4000
    path = os.path.join(WORK, 'data', 'dump_%05d.dat' % (os.getpid() % 100000))
    os.makedirs(os.path.dirname(path), exist_ok=True)
    nviol = 0
    corr = None
    stats = {'collections': 0, 'documents': 0, 'by_quantization': {}, 'empty_collections': 0, 'indenter_cases': 0, 'metadata_blocks': 0, 'export_bytes': 0, 'corpus_cases': 0}
    samples = []
    distinct = set()
    t_end = time.time() + (2400 if tier == 'thorough' else 400)
    if replay is not None:
        lines, rc, err = run_harness(['dump', path], '\n'.join(replay['commands']) + '\n', timeout=300)
        why = judge(replay['commands'], lines, rc, err, {}, replay['collection'])
        print('replay: oracle=%s' % why)
        return 1 if why else 0
    corpus = []
    for fn in sorted(glob.glob(os.path.join(VERIF, 'corpus', 'C20', '*.json'))):
        r = json.load(open(fn))
        corpus.append((r['commands'], {}, dict(r['collection'], origin='corpus:' + os.path.basename(fn)), (r.get('known_signature'), r.get('known_prefix'))))
    stats['corpus_cases'] = len(corpus)
    rec_rows = []
    for i in range(ncases + len(corpus)):
        if time.time() > t_end or nviol >= 3:
            break
        if i < len(corpus):
            cmds, spec, info, sig = corpus[i]
        else:
            cmds, spec, info = gen_case(rng, tier)
            sig = (None, None)
        lines, rc, err = run_harness(['dump', path], '\n'.join(cmds) + '\n', timeout=300)
        why = judge(cmds, lines, rc, err, spec, info)
        opts, docs = parse_docs(lines)
        iopts, idocs = parse_docs(lines, 'i')
        stats['collections'] += 1
        stats['documents'] += len(docs)
        stats['by_quantization'][str(info['q'])] = stats['by_quantization'].get(str(info['q']), 0) + 1
        if not docs:
            stats['empty_collections'] += 1
        else:
            distinct.add(hash('\n'.join(cmds)))
        ex = [l for l in lines if l.startswith('export ok')]
        if ex and len(ex[0].split()) > 2:
            stats['export_bytes'] += len(ex[0].split()[2]) // 2
        if len(samples) < 2 and docs:
            samples.append({'collection': info, 'commands': [c[:160] for c in cmds[:4]] + ['...'], 'exported_text_head': bytes.fromhex(ex[0].split()[2])[:300].decode('utf-8', 'replace') if ex else None})
        if why:
            if chk.violation({'engine': 'dump', 'what': why, 'commands': cmds, 'collection': info, 'signature': sig[0] if (sig[0] and why.startswith(sig[1])) else ('dump:' + why[:40])}):
                nviol += 1
            continue
        # the record-level model on this collection: import (rv = rm = identity: the text round trip is exact) must predict ids and vectors
        if docs and len(rec_rows) < 400:
            rec_rows.append('([%s], [%s])' % ('; '.join('(%d%%N, (%s%%Z, %d%%N))' % (id_, floatvm.zlist(docs[id_][1]), 0) for id_ in sorted(docs)),
                                             '; '.join('(%d%%N, (%s%%Z, %d%%N))' % (id_, floatvm.zlist(idocs[id_][1]), 0) for id_ in sorted(idocs))))
    # ---- correspondence of the text-level model: the indenter and the metadata block, byte for byte
    ind_cases = []
    alphabet = [10, 10, 10, 32, 32, 123, 125, 34, 97, 44, 13]
    for _ in range(300 if tier == 'quick' else 5000):
        p = bytes(rng.choice(alphabet) for _ in range(rng.randint(0, 14)))
        pre = rng.choice([b'    ', b'  ', b'', b'\t', b'xy'])
        need = rng.randint(0, 1)
        ind_cases.append((pre, need, p))
    meta_cases = []
    while len(meta_cases) < (120 if tier == 'quick' else 2000):
        mc = render_json(rng, gen_json(rng))
        if len(mc) <= 4000:          # very long lines are exercised through export/import above; Coq list literals stay small
            meta_cases.append(mc)
    if nviol == 0:
        text = ''.join('indent %s %d %s\n' % (pre.hex() or '-', need, p.hex() or '-') for pre, need, p in ind_cases)
        # metadata blocks: a one-document collection per metadata value, the block is cut out of the exported text;
        # the encoder output it was made from is the compact re-encoding Go prints with indent "  " — obtained from the same export by un-indenting is circular,
        # so the model is fed what ExportJSON fed the indenter: Go's own Encoder output (harness command encmeta)
        text2 = ''.join('encmeta %s\n' % m.hex() for m in meta_cases)
        lines, rc, err = run_harness(['dump', path], text + text2, timeout=600)
        outs = [l.split()[1] for l in lines if l.startswith('indented ')]
        encs = [l.split()[1:] for l in lines if l.startswith('encmeta ')]
        if len(outs) != len(ind_cases) or len(encs) != len(meta_cases):
            corr = {'engine': 'dump', 'channel': 'X.dump.indenter', 'what': 'harness produced %d/%d indenter and %d/%d metadata lines: %s' % (len(outs), len(ind_cases), len(encs), len(meta_cases), err[-300:])}
        else:
            rows = []
            for (pre, need, p), o in zip(ind_cases, outs):
                ob = b'' if o == '-' else bytes.fromhex(o)
                rows.append('(%s, %s, %s, %s)' % (nlist(pre), 'true' if need else 'false', nlist(p), nlist(ob)))
            mrows = []
            for e in encs:
                enc, block = bytes.fromhex(e[0]), bytes.fromhex(e[1])
                mrows.append('(%s, %s)' % (nlist(enc), nlist(block)))
            stats['indenter_cases'] = len(rows)
            stats['metadata_blocks'] = len(mrows)
            body = ('From Coq Require Import List NArith ZArith Bool.\nFrom Syz Require Import Bytes Dump.\nImport ListNotations.\n'
                    'Definition rows : list (list N * bool * list N * list N) := [\n' + ';\n'.join(rows) + '].\n'
                    'Definition bad1 (r : list N * bool * list N * list N) : bool := let \'(pre, need, p, o) := r in negb (bytes_eqb (indent_write pre need p) o).\n'
                    'Definition pos1 := Eval vm_compute in (fix go (i : Z) (l : list _) := match l with [] => [] | r :: t => if bad1 r then i :: go (i + 1)%Z t else go (i + 1)%Z t end) 0%Z rows.\nPrint pos1.\n'
                    'Definition mrows : list (list N * list N) := [\n' + ';\n'.join(mrows) + '].\n'
                    'Definition bad2 (r : list N * list N) : bool := negb (bytes_eqb (export_meta (fst r)) (snd r)).\n'
                    'Definition pos2 := Eval vm_compute in (fix go (i : Z) (l : list _) := match l with [] => [] | r :: t => if bad2 r then i :: go (i + 1)%Z t else go (i + 1)%Z t end) 0%Z mrows.\nPrint pos2.\n'
                    'Definition recs : list (list (N * (list Z * N)) * list (N * (list Z * N))) := [\n' + ';\n'.join(rec_rows) + '].\n'
                    'Definition zl_eqb (a b : list Z) : bool := (Nat.eqb (length a) (length b)) && forallb (fun p => Z.eqb (fst p) (snd p)) (combine a b).\n'
                    'Definition coll_eqb (a b : list (N * (list Z * N))) : bool := (Nat.eqb (length a) (length b)) && forallb (fun p => N.eqb (fst (fst p)) (fst (snd p)) && zl_eqb (fst (snd (fst p))) (fst (snd (snd p)))) (combine a b).\n'
                    'Definition bad3 (r : list (N * (list Z * N)) * list (N * (list Z * N))) : bool := negb (coll_eqb (import_records (fun v => v) (fun m => m) (fst r)) (snd r)).\n'
                    'Definition pos3 := Eval vm_compute in (fix go (i : Z) (l : list _) := match l with [] => [] | r :: t => if bad3 r then i :: go (i + 1)%Z t else go (i + 1)%Z t end) 0%Z recs.\nPrint pos3.\n')
            rc2, o2, e2 = floatvm.coq_eval('c20_%d' % os.getpid(), body)
            p1, p2, p3 = floatvm.parse_z_list(o2, 'pos1'), floatvm.parse_z_list(o2, 'pos2'), floatvm.parse_z_list(o2, 'pos3')
            if rc2 != 0 or p1 is None or p2 is None or p3 is None:
                corr = {'engine': 'dump', 'channel': 'X.dump.vm', 'what': 'model evaluation failed: ' + (e2 or o2)[-600:]}
            elif p1:
                pre, need, p = ind_cases[p1[0]]
                corr = {'engine': 'dump', 'channel': 'X.dump.indenter', 'what': 'indentWriter.Write and the model indent_write differ', 'prefix': pre.hex(), 'need': need, 'input': p.hex(), 'implementation': outs[p1[0]]}
            elif p2:
                corr = {'engine': 'dump', 'channel': 'X.dump.metadata_block', 'what': 'the metadata block written by ExportJSON and the model export_meta differ', 'metadata': meta_cases[p2[0]].hex(), 'implementation': encs[p2[0]]}
            elif p3:
                corr = {'engine': 'dump', 'channel': 'X.dump.records', 'what': 'the imported collection is not the fold of AddDocument over the exported records', 'row': rec_rows[p3[0]][:800]}
    if nviol == 0:
        if corr:
            corr['unproved'] = 'correspondence between coq/Model/Dump.v and dump.go no longer holds on channel ' + corr['channel']
            chk.violation(corr, tag='correspondence', no_input=True)
        elif broken:
            chk.violation({'engine': 'proof', 'unproved': broken, 'what': 'a proof obligation no longer checks; no failing input found'}, tag='proof', no_input=True)
    chk.cov.update({'programs': stats['collections'], 'evaluations': stats['documents'] + stats['indenter_cases'] + stats['metadata_blocks'], 'distinct_nontrivial': len(distinct),
                    'rule': 'collections of 0..12 documents over all five quantisations and both metrics, ids up to 2^64-1, components: grid levels, 1e-9, 5e-324, 1e30, float32 grid, '
                            'random magnitudes 1e-200..1e200; metadata: generated JSON values (objects, arrays, scalars, null, nesting, escapes, non-ASCII, <>&, 2^53+1, 1e21, 1e-320) '
                            'rendered compactly, indented, with CRLF and stray whitespace; histories with remove, update and reopen before the export. Non-trivial = non-empty collection',
                    'disagreements_checked': stats['indenter_cases'] + stats['metadata_blocks'] + len(rec_rows), 'samples': samples, 'distribution': stats,
                    'correspondence': 'model and implementation agree' if corr is None else 'DIVERGED', 'proof_obligations_broken': broken})
    chk.assumptions = [NOTE, 'strconv (FormatFloat/ParseFloat) and encoding/json are exercised through the oracle, not modelled: theorem C20_component_exact is relative to the text round trip returning the printed binary64 exactly',
                       'python json module as the independent JSON parser (strict: NaN/Infinity rejected)']
    for p in (path, path + '.imp'):
        try:
            os.remove(p)
        except OSError:
            pass
    return chk.finish()
