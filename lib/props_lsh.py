"""C04 (approximate search is sound) and C05 (the index refers to exactly the live documents)."""
import math, os, random, time
from common import *
import floatvm
from searchlib import *
from lshlib import *
from props_search import brute

NOTE = ('theorems are about coq/Float/Lsh.v (trees with an oracle for the random split plane; the node queue is a transcription of '
        'container/heap) and coq/Float/Search.v; tied to lshtree.go/collection.go by dumping the real forest after operations and '
        'comparing every index update and every approximate search (results, PercentSearched, order of considered ids) with the model '
        'under vm_compute')


def build_collection(rng, n, dim, q, metric, seed, churn, scenario=None):
    """returns (SearchCase, list of op records). Each op is followed by 'forest' (and the first by nothing else)."""
    c = SearchCase(dim, q, metric, seed)
    ops = []
    base_id = rng.choice([0, 0, 0, 2 ** 63 - 3, 2 ** 64 - 1000])     # ids are unsigned 64-bit: some collections live beyond the signed range
    ids = [base_id + i for i in range(1, n + 1)]
    rng.shuffle(ids)
    base = rand_vec(rng, dim, 64)
    for id_ in ids:
        r = rng.random()
        if r < 0.1:
            v = list(base)                                   # many equal vectors: splits that cannot separate
        elif r < 0.2:
            v = [0.0] * dim
        else:
            v = rand_vec(rng, dim, q)
        c.add(id_, v, b'm%d' % (id_ % 7))
        ops.append(('add', id_, v))
        c.cmds.append('forest')
    for _ in range(churn):
        r = rng.random()
        live = sorted(c.docs)
        if r < 0.35 and live:
            id_ = rng.choice(live)
            c.rm(id_)
            ops.append(('rm', id_, None))
        elif r < 0.6 and live:
            id_ = rng.choice(live)
            v = rand_vec(rng, dim, q)
            c.add(id_, v, b'ow')
            ops.append(('add', id_, v))
        elif r < 0.7 and live:
            id_ = rng.choice(live)
            c.upd(id_, b'u')
            ops.append(('upd', id_, None))
        elif r < 0.73:
            c.reopen()
            ops.append(('reopen', None, None))
        elif r < 0.75 and live:
            # a refused write (vector of the wrong length) on an existing or a new id: nothing may change
            id_ = rng.choice(live + [base_id + n + 500])
            c.badadd(id_, rng.choice([1, 2]))
            ops.append(('bad', id_, None))
        elif r < 0.765 and live:
            for id_ in live:                                  # remove every document, then refill
                c.rm(id_)
                ops.append(('rm', id_, None))
                c.cmds.append('forest')
            continue
        else:
            id_ = base_id + rng.randrange(n + 1, n + 200)
            v = rand_vec(rng, dim, q)
            c.add(id_, v, b'new')
            ops.append(('add', id_, v))
        c.cmds.append('forest')
    if scenario == 'refill':
        # remove every document of the open collection, then fill it again without reopening
        for id_ in sorted(c.docs):
            c.rm(id_)
            ops.append(('rm', id_, None))
            c.cmds.append('forest')
        for k in range(rng.choice([3, 8, 20])):
            id_ = 1000 + k
            v = rand_vec(rng, dim, q)
            c.add(id_, v, b'refill')
            ops.append(('add', id_, v))
            c.cmds.append('forest')
    elif scenario == 'same_vector':
        # a refused write on an existing document first: it must stay indexed
        if c.docs:
            id_ = rng.choice(sorted(c.docs))
            c.badadd(id_, 1)
            ops.append(('bad', id_, None))
            c.cmds.append('forest')
        # write an existing document again with the very same vector, remove it, keep adding
        for id_ in rng.sample(sorted(c.docs), min(3, len(c.docs))):
            v = list(c.docs[id_][0])
            c.add(id_, v, b'again')
            ops.append(('add', id_, v))
            c.cmds.append('forest')
            c.rm(id_)
            ops.append(('rm', id_, None))
            c.cmds.append('forest')
        for k in range(5):
            id_ = 2000 + k
            v = rand_vec(rng, dim, q)
            c.add(id_, v, b'later')
            ops.append(('add', id_, v))
            c.cmds.append('forest')
    return c, ops


def run_case(c, path):
    lines, rc, err = run_harness(['search', path], c.text(), timeout=900)
    return lines, rc, err


def split_outputs(lines):
    """group harness output: list of items ('status', text) | ('forest', [5 trees]) | ('docs', {...}) | ('res', line, considered)"""
    out = []
    i = 0
    while i < len(lines):
        l = lines[i]
        if l.startswith('tree 0'):
            k = i
            while k < len(lines) and lines[k].startswith('tree '):
                k += 1
            out.append(('forest', parse_forest(lines[i:k])))
            i = k
        elif l.startswith('doc ') or l == 'enddocs':
            k = i
            d = {}
            while lines[k] != 'enddocs':
                f = lines[k].split()
                d[int(f[1])] = ([unbits(int(x)) for x in f[3:]], int(f[2]))
                k += 1
            out.append(('docs', d))
            i = k + 1
        elif l.startswith('res '):
            cons = [int(x) for x in lines[i + 1].split()[2:]] if i + 1 < len(lines) and lines[i + 1].startswith('considered') else []
            out.append(('res', l, cons))
            i += 2
        else:
            out.append(('status', l))
            i += 1
    return out


def big_forest_leg(rng, path, stats):
    """C04 on a forest with hundreds of leaves per tree: a default-precision K-nearest search returns a result whenever a
    live document passes the filter — with a filter that accepts one document out of thousands, and after all but a
    few documents were removed (most leaves empty). Judged without the model (the implementation's own exact search
    and the known documents are the reference)."""
    n, dim = 5000, 8
    c = SearchCase(dim, 64, 0, 0)
    P = 5003
    for i in range(1, n + 1):
        c.add(i, [rng.uniform(-1, 1) for _ in range(dim)], b'b')
    probes = []
    for _ in range(40):
        id_ = rng.randrange(1, n + 1)
        qv = [rng.uniform(-1, 1) for _ in range(dim)]
        c.search(1, 0.0, False, 1, P, id_, qv)
        probes.append(('a filter that accepts only document %d of %d' % (id_, n), {id_}))
    keep = set(rng.sample(range(1, n + 1), 2))
    for i in range(1, n + 1):
        if i not in keep:
            c.rm(i)
    for _ in range(30):
        qv = [rng.uniform(-1, 1) for _ in range(dim)]
        c.search(1, 0.0, False, 0, 1, 0, qv)
        probes.append(('%d of %d documents left after removals' % (len(keep), n), keep))
    lines, rc, err = run_harness(['search', path], c.text(), timeout=600)
    if rc != 0 or any(l.startswith('PANIC') for l in lines):
        return {'engine': 'lsh', 'what': 'the process died or an operation panicked on a %d-document collection: %s' % (n, err[-300:]), 'signature': 'lsh:big:died'}
    res = [l for l in lines if l.startswith('res ')]
    stats['big_forest_searches'] = len(res)
    if len(res) != len(probes):
        return {'engine': 'lsh', 'what': 'the big-forest run answered %d of %d searches' % (len(res), len(probes)), 'signature': 'lsh:big:count'}
    for (what, allowed), l in zip(probes, res):
        rows = parse_res(l)[1]
        if not rows:
            return {'engine': 'lsh', 'what': 'a default-precision K=1 search returned nothing although a live document passes the filter (%s)' % what,
                    'signature': 'lsh:C04:no result although a live document'}
        if rows[0][0] not in allowed:
            return {'engine': 'lsh', 'what': 'a K=1 search returned document %d, which is not live or not accepted (%s)' % (rows[0][0], what), 'signature': 'lsh:C04:big-unsound'}
    return None


def check(prop, tier, seed, replay=None):
    chk = Check(prop, tier, seed)
    build = build_all()
    broken = proof_coverage(chk, prop, build) + list(build['problems'])
    rng = random.Random(seed * 1000003 + (71 if prop == 'C04' else 73))
    path = os.path.join(WORK, 'data', 'lsh_%s_%d.dat' % (prop, os.getpid()))
    os.makedirs(os.path.dirname(path), exist_ok=True)
    ncoll = (8 if tier == 'quick' else 120)
    nviol = 0
    corr = None
    stats = {'collections': 0, 'operations': 0, 'splits_seen': 0, 'max_tree_depth': 0, 'searches': 0, 'emptied': 0, 'steps_checked_in_model': 0,
             'results': 0, 'single_leaf_searches': 0}
    samples = []
    t_end = time.time() + (3000 if tier == 'thorough' else 420)
    for ci in range(ncoll):
        if time.time() > t_end or nviol >= 3 or corr:
            break
        dim = rng.choice([2, 3, 5])
        q = rng.choice([4, 8, 16, 32, 64])
        metric = rng.randint(0, 1)
        n = rng.choice(([5, 40, 95, 104, 130, 230, 330] + ([520] if tier == 'thorough' else [])) if prop == 'C05' else [0, 3, 60, 100, 101, 140, 260, 420])
        scenario = None
        if ci < 2 or rng.random() < 0.1:
            # the first two collections of every run are the dedicated scenarios
            scenario = ('refill', 'same_vector')[ci % 2] if ci < 2 else rng.choice(['refill', 'same_vector'])
            n = rng.choice([6, 12, 30])
        stats['scenarios'] = stats.get('scenarios', 0) + (1 if scenario else 0)
        if ci == 3:
            n = rng.choice([140, 260])          # every run has a collection with several leaves per tree
        if ci == 2:
            # the third collection of every run: 4-bit packing with an odd dimension, reopened right before the searches
            q, dim, n = 4, rng.choice([1, 3, 5]), rng.choice([5, 40, 130])
        c, ops = build_collection(rng, n, dim, q, metric, rng.choice([0, 0, 11]), churn=((40 if prop == 'C05' else 10) if n else 0) if not scenario and ci != 2 else 0, scenario=scenario)
        if ci == 2 or rng.random() < 0.3:
            # the index of a reopened collection is rebuilt from the file: searches right after a reopen
            c.reopen()
            ops.append(('reopen', None, None))
            c.cmds.append('forest')
            stats['reopened_before_search'] = stats.get('reopened_before_search', 0) + 1
        c.cmds.append('docs')
        c.cmds.append('forest')
        searches = []
        if prop == 'C04' or True:
            live = sorted(c.docs)
            for _ in range(10 if prop == 'C04' else 3):
                r = rng.random()
                qv = list(c.docs[rng.choice(live)][0]) if live and r < 0.4 else rand_vec(rng, dim, 64)
                fk = rng.choice([0, 0, 1, 3])
                fa = rng.randint(1, 3)
                fb = rng.randrange(fa)
                if len(live) >= 200 and rng.random() < 0.5:
                    # a selective filter: long runs of rejected documents between two accepted ones (the rejected
                    # ones must not count towards the early-stop budget of the forest walk)
                    fk, fa = 1, rng.choice([60, 97, 150, 211])
                    fb = rng.choice(live) % fa
                    stats['selective_filter_searches'] = stats.get('selective_filter_searches', 0) + 1
                if prop == 'C05' or rng.random() < 0.25:
                    # a radius that covers the whole collection
                    R = 1.0 if metric == 1 else 1e6
                    searches.append((0, R, fk, fa, fb, qv))
                elif rng.random() < 0.6:
                    searches.append((rng.choice([1, 2, 5, 20, 1000]), 0.0, fk, fa, fb, qv))
                else:
                    searches.append((0, rng.choice([0.05, 0.2, 0.5, 1.5]), fk, fa, fb, qv))
            for K, R, fk, fa, fb, qv in searches:
                c.search(K, R, False, fk, fa, fb, qv)
                c.search(K, R, True, fk, fa, fb, qv)
        lines, rc, err = run_case(c, path)
        if os.environ.get('LSHDBG'): print('DBG', ci, dim, q, metric, n, scenario, [l for l in lines if l.startswith('res')][:3], c.cmds[-3:])
        stats['collections'] += 1
        if rc != 0 or any(l.startswith('PANIC') for l in lines):
            pl = [l for l in lines if l.startswith('PANIC')][:1]
            k = len([l for l in lines if not l.startswith('tree') and not l.startswith('considered')])
            if chk.violation({'engine': 'lsh', 'what': 'the process died or an operation panicked: %s %s' % (pl, err[-400:]),
                              'commands': c.cmds, 'signature': 'lsh:died'}):
                nviol += 1
            continue
        items = split_outputs(lines)
        # walk: statuses interleaved with forests
        forests = [it[1] for it in items if it[0] == 'forest']
        docs_final = [it[1] for it in items if it[0] == 'docs'][-1] if any(it[0] == 'docs' for it in items) else {}
        res_items = [it for it in items if it[0] == 'res']
        # ---- C05 oracle on the dumps after every operation (the harness dumps after each op in build order)
        stored = {}
        fidx = 0
        prev_forest = [('L', [])] * 5
        vm_steps = []
        for op in ops:
            kind, id_, v = op
            stats['operations'] += 1
            if kind == 'add':
                old = stored.get(id_)
                stored[id_] = [stored_value(q, x) for x in v]
            elif kind == 'rm':
                old = stored.pop(id_, None)
                if not stored:
                    stats['emptied'] += 1
            if fidx >= len(forests):
                break
            forest = forests[fidx]
            fidx += 1
            if kind == 'reopen':
                prev_forest = forest
                why = index_inv(metric, forest, stored)
            else:
                why = index_inv(metric, forest, stored)
            if why and prop == 'C05':
                if chk.violation({'engine': 'lsh', 'what': 'index invariant broken after operation %s %s: %s' % (kind, id_, why),
                                  'commands': c.cmds[:c.cmds.index('docs')], 'signature': 'lsh:C05:' + why.split(':')[-1][:40]}):
                    nviol += 1
                break
            for t in forest:
                lv, dp = tree_stats(t)
                stats['max_tree_depth'] = max(stats['max_tree_depth'], dp)
            # model step (insert / remove) on every tree, sampled
            if prop == 'C05' and kind in ('add', 'rm') and (rng.random() < 0.25 or any(tree_stats(a) != tree_stats(b) for a, b in zip(prev_forest, forest))):
                if any(tree_stats(a)[0] < tree_stats(b)[0] for a, b in zip(prev_forest, forest)):
                    stats['splits_seen'] += 1
                if kind == 'add' and old is not None:
                    pass      # overwrite = remove + insert: the intermediate forest is not observed; skipped in the model run
                else:
                    docs_term = '[' + '; '.join('(%d, %s)' % (i, floatvm.zlist([bits(x) for x in sv])) for i, sv in sorted(stored.items())) + ']'
                    vec = stored[id_] if kind == 'add' else old
                    if vec is not None:
                        for a, b in zip(prev_forest, forest):
                            vm_steps.append('(%s, %s, %s, %s, %d, %d, %s)' % ('true' if metric == 1 else 'false', docs_term, coq_tree(a), coq_tree(b),
                                                                             0 if kind == 'add' else 1, id_, floatvm.zlist([bits(x) for x in vec])))
            prev_forest = forest
        if nviol:
            continue
        final_forest = forests[-1] if forests else []
        # ---- searches: soundness oracle (C04), covering-radius oracle (C05), exact comparison on a single leaf
        docs_stored = {i: (v, mh, c.docs[i][1] if i in c.docs else b'') for i, (v, mh) in docs_final.items()}
        vm_search = []
        for si, (K, R, fk, fa, fb, qv) in enumerate(searches):
            if 2 * si + 1 >= len(res_items):
                break
            pct, rows = parse_res(res_items[2 * si][1])
            cons = res_items[2 * si][2]
            pct_e, rows_e = parse_res(res_items[2 * si + 1][1])
            stats['searches'] += 1
            stats['results'] += len(rows)
            acc = flt(fk, fa, fb)
            cand = {i: dist(metric, qv, v) for i, (v, mh, md) in docs_stored.items() if acc(i, md)}
            why = None
            ds = [unbits(r[1]) for r in rows]
            if any(ds[i] > ds[i + 1] for i in range(len(ds) - 1)):
                why = 'results are not in non-decreasing distance order'
            elif len({r[0] for r in rows}) != len(rows):
                why = 'a document is returned twice'
            else:
                for id_, db, mh in rows:
                    if id_ not in cand:
                        why = 'result %d is not a live document accepted by the filter' % id_
                    elif bits(cand[id_]) != db:
                        why = 'distance of result %d is not the distance to its stored vector' % id_
                    elif mh != docs_stored[id_][1]:
                        why = 'metadata of result %d is not current' % id_
                    elif R > 0 and unbits(db) > R:
                        why = 'result %d lies outside the radius' % id_
                if not why and R == 0 and len(rows) > K:
                    why = 'more than K results'
                if not why and R == 0 and K > 0 and cand and not rows:
                    why = 'no result although a live document passes the filter'
                single = all(t is not None and t[0] == 'L' for t in final_forest)
                if not why and single and final_forest:
                    stats['single_leaf_searches'] += 1
                    if [r[1] for r in rows] != [r[1] for r in rows_e]:
                        why = 'single-leaf collection: the default search differs from the exact search'
                if not why and prop == 'C05' and R > 0 and (metric == 1 and R >= 1.0 or metric == 0 and R >= 1e6):
                    if {r[0] for r in rows} != set(cand):
                        why = 'a radius search covering the whole collection returned %d of %d accepted live documents' % (len(rows), len(cand))
            if len(samples) < 3:
                samples.append({'collection': {'dim': dim, 'quantization': q, 'metric': metric, 'documents': len(docs_stored), 'trees': [tree_stats(t) for t in final_forest]},
                                'search': {'K': K, 'radius': R, 'filter': [fk, fa, fb]}, 'results': rows[:4], 'considered': len(cons)})
            if why:
                if chk.violation({'engine': 'lsh', 'what': why, 'commands': c.cmds[:c.cmds.index('docs') + 1] + ['search %d %d 0 %d %d %d 0 0 %s' % (K, bits(R), fk, fa, fb, ' '.join(str(bits(x)) for x in qv))],
                                  'results': rows[:20], 'signature': 'lsh:%s:%s' % (prop, why[:40])}):
                    nviol += 1
                break
            drows = '; '.join('(%d, %s, %s)' % (i, floatvm.zlist([bits(x) for x in v]), 'true' if acc(i, md) else 'false') for i, (v, mh, md) in sorted(docs_stored.items()))
            vm_search.append('(%s, %s, %d, %d, [%s], [%s], %s, %d, %s)' % (
                'true' if metric == 1 else 'false', floatvm.zlist([bits(x) for x in qv]), K, bits(R), drows,
                '; '.join(coq_tree(t) for t in final_forest), '[' + '; '.join('(%d, %d)' % (r[1], r[0]) for r in rows) + ']', pct, floatvm.zlist(cons)))
        # ---- correspondence under vm_compute
        if nviol == 0 and vm_search and corr is None:
            body = ('From Coq Require Import ZArith Floats List Bool.\nFrom Syz Require Import Quant Dist Search Lsh.\nImport ListNotations.\nOpen Scope Z_scope.\nOpen Scope bool_scope.\n'
                    'Definition rows : list (bool * list Z * Z * Z * list (Z * list Z * bool) * list ztree * list (Z * Z) * Z * list Z) := [\n' + ';\n'.join(vm_search) + '].\n'
                    'Definition bad (r : bool * list Z * Z * Z * list (Z * list Z * bool) * list ztree * list (Z * Z) * Z * list Z) : bool :=\n'
                    '  let \'(cosine, q, K, R, docs, forest, observed, pct, seen) := r in\n'
                    '  let qv := map of_bits64 q in\n'
                    '  let ds := map (fun d => let \'(i, v, ok) := d in {| sd_id := i; sd_vec := map of_bits64 v; sd_ok := ok |}) docs in\n'
                    '  let \'(res, pts, visited) := search_approx cosine qv (Z.to_nat K) (of_bits64 R) ds (map of_ztree forest) in\n'
                    '  negb (same_answer res observed (candidates cosine qv ds) && (bits64 (percent pts (Z.of_nat (length docs))) =? pct) && zlist_eqb visited seen).\n'
                    'Definition positions := Eval vm_compute in (fix go (i : Z) (l : list _) := match l with [] => [] | r :: t => if bad r then i :: go (i + 1) t else go (i + 1) t end) 0 rows.\nPrint positions.\n')
            rc2, o2, e2 = floatvm.coq_eval('lsh_search_%s_%d' % (prop, ci), body)
            ml = floatvm.parse_z_list(o2, 'positions')
            if rc2 != 0 or ml is None:
                corr = {'engine': 'lsh', 'channel': 'X.lsh.vm', 'what': 'model evaluation failed: ' + (e2 or o2)[-500:]}
            elif ml:
                corr = {'engine': 'lsh', 'channel': 'X.lsh.search', 'what': 'approximate search: results, PercentSearched or visiting order differ from the model',
                        'commands': c.cmds[:c.cmds.index('docs') + 1], 'search': searches[ml[0]][:5] + (list(searches[ml[0]][5]),)}
        if nviol == 0 and vm_steps and corr is None and prop == 'C05':
            vm_steps = vm_steps[:60]
            stats['steps_checked_in_model'] += len(vm_steps)
            body = ('From Coq Require Import ZArith Floats List Bool.\nFrom Syz Require Import Quant Dist Search Lsh.\nImport ListNotations.\nOpen Scope Z_scope.\n'
                    'Definition steps : list (bool * list (Z * list Z) * ztree * ztree * Z * Z * list Z) := [\n' + ';\n'.join(vm_steps) + '].\n'
                    'Definition positions := Eval vm_compute in (fix go (i : Z) (l : list _) := match l with [] => [] | r :: t => '
                    'let \'(cosine, docs, a, b, kind, id, v) := r in if step_ok cosine docs a b kind id v then go (i + 1) t else i :: go (i + 1) t end) 0 steps.\nPrint positions.\n')
            rc2, o2, e2 = floatvm.coq_eval('lsh_steps_%d' % ci, body)
            ml = floatvm.parse_z_list(o2, 'positions')
            if rc2 != 0 or ml is None:
                corr = {'engine': 'lsh', 'channel': 'X.lsh.vm', 'what': 'model evaluation failed: ' + (e2 or o2)[-500:]}
            elif ml:
                corr = {'engine': 'lsh', 'channel': 'X.lsh.update', 'what': 'an index update (insert/split/remove) differs from the model', 'commands': c.cmds[:c.cmds.index('docs')], 'step': vm_steps[ml[0]][:800]}
    if nviol == 0 and replay is None and prop == 'C04' and corr is None:
        v = big_forest_leg(rng, path, stats)
        if v:
            chk.violation(v)
            nviol += 1
    if nviol == 0 and replay is None:
        if corr:
            corr['unproved'] = 'correspondence between coq/Float/Lsh.v and lshtree.go / Collection.Search no longer holds'
            chk.violation(corr, tag='correspondence', no_input=True)
        elif broken:
            chk.violation({'engine': 'proof', 'unproved': broken, 'what': 'a proof obligation no longer checks; no failing input found'}, tag='proof', no_input=True)
    chk.cov.update({'programs': stats['collections'], 'evaluations': stats['operations'] + stats['searches'], 'distinct_nontrivial': stats['operations'] + stats['searches'],
                    'rule': 'collections of 0..420 documents (below and above the leaf threshold of 100; equal vectors and zero vectors that defeat splits), all quantisations, both metrics, seeded and unseeded random source, followed by churn (remove, overwrite with another vector, update, reopen, a refused write of a wrong-length vector, remove everything then refill; two dedicated scenarios in every run: empty-then-refill without reopening, and rewrite-with-the-same-vector then remove); the forest is dumped after every operation; searches with K, radius, covering radius, filters (including selective ones that reject runs of more than 200 documents), queries equal to stored vectors',
                    'disagreements_checked': stats['searches'] + stats['steps_checked_in_model'], 'samples': samples, 'distribution': stats,
                    'correspondence': 'model and implementation agree' if corr is None else 'DIVERGED', 'proof_obligations_broken': broken})
    chk.assumptions = [NOTE]
    try:
        os.remove(path)
    except OSError:
        pass
    return chk.finish()


def stored_value(q, x):
    return stored(q, x)
