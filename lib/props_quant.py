"""C12 — quantisation contract."""
import math, os, random, struct, time
from fractions import Fraction
from common import *
import floatvm

NOTE = ('theorems are about coq/Float/Quant.v (Coq primitive binary64 = the arithmetic of the Go code); the model is tied to '
        'quantization.go/encodeDocument/decodeVector by evaluating it with vm_compute on the same inputs as the implementation '
        'and comparing codes, bit patterns and packed bytes exactly')


def bits(x):
    return struct.unpack('>Q', struct.pack('>d', x))[0]


def unbits(b):
    return struct.unpack('>d', struct.pack('>Q', b))[0]


def nxt(x, up=True):
    return math.nextafter(x, math.inf if up else -math.inf)


def deq(k, b):
    return (float(k) / float((1 << b) - 1)) * 2 - 1


def gen_inputs(rng, tier):
    """list of (bits, x)"""
    out = []
    for b in (4, 8, 16):
        mx = (1 << b) - 1
        codes = range(mx + 1) if (b < 16 or tier == 'thorough') else sorted(set([0, 1, 2, mx - 1, mx] + [rng.randrange(mx + 1) for _ in range(1500)]))
        for k in codes:
            lv = deq(k, b)
            out += [(b, lv), (b, nxt(lv)), (b, nxt(lv, False))]
            if k < mx:
                mid = (lv + deq(k + 1, b)) / 2
                out += [(b, mid), (b, nxt(mid)), (b, nxt(mid, False)), (b, mid - 2.0 ** -50), (b, mid + 2.0 ** -50)]
        for x in (-1.0, 1.0, nxt(1.0), nxt(-1.0, False), -0.0, 0.0, 5e-324, -5e-324, 1e300, -1e300, math.inf, -math.inf, 2.0, -2.0, 0.5333333333333333, 0.03137254901960784):
            out.append((b, x))
        for _ in range(300 if tier == 'quick' else 20000):
            out.append((b, rng.uniform(-1.2, 1.2)))
    # 32 bits: halfway cases, overflow threshold, subnormal range
    f32 = []
    for _ in range(800 if tier == 'quick' else 100000):
        r = rng.random()
        if r < 0.3:
            x = rng.uniform(-2, 2)
        elif r < 0.5:
            x = rng.uniform(-1, 1) * 10.0 ** rng.randint(-50, 40)
        elif r < 0.8:
            # exactly between two adjacent float32 values, or next to that point
            u = f32_ref(rng.uniform(-1e3, 1e3) * 10.0 ** rng.randint(-44, 35) if rng.random() < 0.7 else rng.uniform(-4, 4))
            a = struct.unpack('>f', struct.pack('>I', u))[0]
            if math.isinf(a) or math.isnan(a):
                continue
            u2 = u + 1 if (u & 0x7fffffff) < 0x7f7fffff else u
            bb = struct.unpack('>f', struct.pack('>I', u2))[0]
            if math.isinf(bb) or math.isnan(bb):
                continue
            h = (a + bb) / 2
            x = rng.choice([h, nxt(h), nxt(h, False)])
        else:
            x = rng.choice([3.4028234663852886e38, 3.4028235677973366e38, nxt(3.4028235677973366e38), nxt(3.4028235677973366e38, False), 1e39, -1e39,
                            1.401298464324817e-45, 7.006492321624085e-46, nxt(7.006492321624085e-46), nxt(7.006492321624085e-46, False), 1e-46, 0.0, -0.0,
                            1.1754943508222875e-38, 1.1754942106924411e-38, math.inf, -math.inf, 5e-324])
        f32.append((32, x))
    out += f32
    for _ in range(300 if tier == 'quick' else 20000):
        out.append((64, unbits(rng.randrange(0, 0x7ff0000000000000) | (rng.randrange(2) << 63))))
    return out


def f32_ref(x):
    try:
        return struct.unpack('>I', struct.pack('>f', x))[0]
    except OverflowError:
        return 0x7f800000 | (0x80000000 if x < 0 else 0)


def oracle(inputs, outs):
    """independent statement of the contract on the implementation's outputs"""
    by_b = {}
    for (b, x), (code, dq) in zip(inputs, outs):
        by_b.setdefault(b, []).append((x, code, dq))
        if b in (4, 8, 16):
            mx = (1 << b) - 1
            if not (0 <= code <= mx):
                return {'what': 'code out of range', 'bits': b, 'x_bits': bits(x), 'code': code}
            if x <= -1 and code != 0:
                return {'what': 'value at or below -1 not clamped to the lowest level', 'bits': b, 'x_bits': bits(x), 'code': code}
            if x >= 1 and code != mx:
                return {'what': 'value at or above 1 not clamped to the highest level', 'bits': b, 'x_bits': bits(x), 'code': code}
            if -1 <= x <= 1:
                err = abs(Fraction(unbits(dq)) - Fraction(x))
                if err > Fraction(1, mx) + Fraction(1, 2 ** 51):
                    return {'what': 'stored level is farther than 1/(2^b-1) (+2^-51) from the value', 'bits': b, 'x_bits': bits(x), 'code': code, 'error': float(err)}
                # nearest level: no other level closer by more than 2^-50
                for k2 in (code - 1, code + 1):
                    if 0 <= k2 <= mx:
                        e2 = abs(Fraction(deq(k2, b)) - Fraction(x))
                        if e2 + Fraction(1, 2 ** 50) < err:
                            return {'what': 'a neighbouring level is closer than the stored one', 'bits': b, 'x_bits': bits(x), 'code': code}
            if dq != bits(deq(code, b)):
                return {'what': 'dequantize differs from (k/max)*2-1', 'bits': b, 'code': code}
        elif b == 32:
            if not (math.isnan(x)):
                want = f32_ref(x)
                if code != want:
                    return {'what': 'stored value is not the nearest float32', 'bits': 32, 'x_bits': bits(x), 'code': code, 'want': want}
                back = struct.unpack('>f', struct.pack('>I', code))[0]
                if dq != bits(back):
                    return {'what': 'float32 read back differs', 'bits': 32, 'code': code}
        else:
            if code != bits(x) or dq != bits(x):
                return {'what': '64-bit storage is not exact', 'bits': 64, 'x_bits': bits(x), 'code': code}
    for b, rows in by_b.items():
        if b == 64:
            continue
        rows = sorted((r for r in rows if not math.isnan(r[0])), key=lambda r: r[0])
        prev = None
        for x, code, dq in rows:
            v = unbits(dq)
            if prev is not None and v < prev[1] and x > prev[0]:
                return {'what': 'storing is not monotone', 'bits': b, 'x_bits': bits(x), 'prev_x_bits': bits(prev[0])}
            prev = (x, v)
    return None


def check(tier, seed, replay=None):
    chk = Check('C12', tier, seed)
    build = build_all()
    broken = proof_coverage(chk, 'C12', build) + list(build['problems'])
    rng = random.Random(seed * 1000003 + 41)
    if replay is not None:
        inputs = [(c['bits'], unbits(c['x_bits'])) for c in replay['cases']]
        vecs = []
    else:
        inputs = gen_inputs(rng, tier)
        vecs = []
        for b in (4, 8, 16, 32, 64):
            for dim in list(range(1, 12)) + [16, 17, 32, 33]:
                vecs.append((b, [rng.choice([-1.0, 1.0, 0.0, rng.uniform(-1, 1), rng.uniform(-3, 3)]) for _ in range(dim)]))
    text = ''.join('q %d %d\n' % (b, bits(x)) for b, x in inputs)
    text += ''.join('v %d %d %s\n' % (b, len(v), ' '.join(str(bits(x)) for x in v)) for b, v in vecs)
    lines, rc, err = run_harness(['quant'], text, timeout=900)
    nviol = 0
    corr = None
    if rc != 0 or len(lines) != len(inputs) + len(vecs) or any(l == 'PANIC' for l in lines):
        chk.violation({'engine': 'quant', 'what': 'harness failed or panicked: rc=%s %s' % (rc, err[-300:]), 'signature': 'quant:died'})
        nviol += 1
        outs = []
    else:
        outs = [tuple(map(int, l.split()[1:3])) for l in lines[:len(inputs)]]
        o = oracle(inputs, outs)
        if o:
            o.update({'engine': 'quant', 'cases': [{'bits': o.get('bits'), 'x_bits': o.get('x_bits', 0)}], 'signature': 'quant:' + o['what'][:40]})
            if chk.violation(o):
                nviol += 1
        # packing oracle: decode(encode(v)) = per-component store/load, independent of dimension and position
        for (b, v), l in zip(vecs, lines[len(inputs):]):
            enc, dec = l[2:].split('|')
            encb = list(map(int, enc.split()))[1:]
            decv = list(map(int, dec.split()))
            per = run_harness(['quant'], ''.join('q %d %d\n' % (b, bits(x)) for x in v))[0]
            want = [int(p.split()[2]) for p in per]
            if decv != want:
                if chk.violation({'engine': 'quant', 'what': 'decoded vector differs from component-wise store/load (dimension %d, %d bits)' % (len(v), b),
                                  'cases': [{'bits': b, 'x_bits': bits(x)} for x in v], 'signature': 'quant:pack'}):
                    nviol += 1
                break
        # ---- correspondence with the Coq model (vm_compute)
        if outs:
            t0 = time.time()
            shard = 20000
            mism = []
            for s0 in range(0, len(inputs), shard):
                part = list(zip(inputs[s0:s0 + shard], outs[s0:s0 + shard]))
                body = ('From Coq Require Import ZArith Floats List Bool.\nFrom Syz Require Import Quant.\nImport ListNotations.\nOpen Scope Z_scope.\nOpen Scope bool_scope.\n'
                        'Definition cases : list (Z * Z * Z * Z) := [\n' + ';\n'.join('(%d, %d, %d, %d)' % (b, bits(x), c, d) for (b, x), (c, d) in part) + '].\n'
                        'Definition bad (c : Z * Z * Z * Z) : bool := let \'(b, x, code, dq) := c in\n'
                        '  negb (Z.eqb (store_code b (of_bits64 x)) code && Z.eqb (bits64 (load_code b code)) dq).\n'
                        'Definition mismatches := Eval vm_compute in map (fun c => snd (fst (fst c))) (filter bad cases).\nPrint mismatches.\n')
                rc2, o2, e2 = floatvm.coq_eval('c12_%d' % s0, body)
                ml = floatvm.parse_z_list(o2, 'mismatches')
                if rc2 != 0 or ml is None:
                    corr = {'engine': 'quant', 'channel': 'X.quant.vm', 'what': 'model evaluation failed: ' + (e2 or o2)[-400:]}
                    break
                if ml:
                    xb = ml[0]
                    i = next(i for i, ((b, x), _) in enumerate(part) if bits(x) == xb)
                    corr = {'engine': 'quant', 'channel': 'X.quant.code', 'cases': [{'bits': part[i][0][0], 'x_bits': xb}],
                            'implementation': part[i][1], 'mismatching_inputs': len(ml)}
                    break
            # packing
            if corr is None and vecs:
                rows = []
                for (b, v), l in zip(vecs, lines[len(inputs):]):
                    enc, dec = l[2:].split('|')
                    encb = list(map(int, enc.split()))[1:]
                    codes = [int(p.split()[1]) for p in run_harness(['quant'], ''.join('q %d %d\n' % (b, bits(x)) for x in v))[0]]
                    rows.append('(%d, %s, %s)' % (b, floatvm.zlist(codes), floatvm.zlist(encb)))
                body = ('From Coq Require Import ZArith Floats List Bool.\nFrom Syz Require Import Quant.\nImport ListNotations.\nOpen Scope Z_scope.\nOpen Scope bool_scope.\n'
                        'Definition rows : list (Z * list Z * list Z) := [\n' + ';\n'.join(rows) + '].\n'
                        'Definition zl_eqb (a b : list Z) := Nat.eqb (length a) (length b) && forallb (fun p => Z.eqb (fst p) (snd p)) (combine a b).\n'
                        'Definition badrow (r : Z * list Z * list Z) := let \'(b, codes, enc) := r in negb (zl_eqb (encode_codes b codes) enc && zl_eqb (decode_codes b (length codes) enc) codes).\n'
                        'Definition mismatches := Eval vm_compute in map (fun r => fst (fst r)) (filter badrow rows).\nPrint mismatches.\n')
                rc2, o2, e2 = floatvm.coq_eval('c12_pack', body)
                ml = floatvm.parse_z_list(o2, 'mismatches')
                if rc2 != 0 or ml is None or ml:
                    corr = {'engine': 'quant', 'channel': 'X.quant.pack', 'what': 'packed bytes differ from the model for bit widths %s %s' % (ml, (e2 or '')[-300:])}
            chk.notes.append('model evaluation (vm_compute) took %.1fs' % (time.time() - t0))
    # ---- the property's own observation point: Document.Vector returned by GetDocument versus the vector passed to
    # AddDocument, on one collection used for many documents (the pure functions above start from fresh buffers)
    coll_docs = 0
    if nviol == 0 and replay is None:
        from searchlib import stored as stored_ref, rand_vec
        cpath = os.path.join(WORK, 'data', 'quantcoll_%05d.dat' % (os.getpid() % 100000))
        os.makedirs(os.path.dirname(cpath), exist_ok=True)
        for b in (4, 8, 16, 32, 64):
            # 4 bits also with about a thousand components (two codes share a byte: whatever an encoder does per block or in parallel meets inside a byte)
            for dim in ([1, 2, 3, 5, 8] if tier == 'quick' else list(range(1, 13))) + ([999, 1000, 1001] if b == 4 else []):
                if nviol:
                    break
                cmds = ['new %d %d 0 0' % (dim, b)]
                want = {}
                for i in range(1, 9):
                    r = rng.random()
                    v = [1.0] * dim if i == 1 else ([-1.0] * dim if i == 2 else [rng.choice([0.0, 0.25, -0.5, 1.0, -1.0, 3.0, -7.5]) if r < 0.3 else rng.uniform(-1.2, 1.2) for _ in range(dim)])
                    id_ = i if i < 7 else i - 5          # the last two overwrite documents 2 and 3
                    cmds.append('add %d - %s' % (id_, ' '.join(str(bits(x)) for x in v)))
                    want[id_] = [bits(stored_ref(b, x)) for x in v]
                    last = v
                # a replacement that differs from the stored vector by very little must still be stored as given:
                # one ulp, 1e-12 and 3e-10 per component, and a small-magnitude vector moved by a few float32 steps
                tiny = [(k + 1) * 1.25e-5 for k in range(dim)]
                for id_, v in ((4, [nxt(x) for x in last]), (5, [x + 1e-12 for x in last]), (6, [x - 3e-10 for x in last]), (9, tiny), (9, [x + 2e-11 for x in tiny])):
                    if id_ != 9:
                        cmds.append('add %d - %s' % (id_, ' '.join(str(bits(x)) for x in last)))
                    cmds.append('add %d - %s' % (id_, ' '.join(str(bits(x)) for x in v)))
                    want[id_] = [bits(stored_ref(b, x)) for x in v]
                cmds.append('docs')
                lines2, rc2, err2 = run_harness(['search', cpath], '\n'.join(cmds) + '\n', timeout=120)
                got = {int(l.split()[1]): [int(x) for x in l.split()[3:]] for l in lines2 if l.startswith('doc ')}
                coll_docs += len(got)
                bad = next((i for i in sorted(want) if got.get(i) != want[i]), None)
                if rc2 != 0 or any(l.startswith('PANIC') for l in lines2) or bad is not None:
                    what = ('document %s of a %d-bit, %d-dimensional collection reads back %s, the contract stores %s' % (bad, b, dim, [unbits(x) for x in got.get(bad, [])], [unbits(x) for x in want.get(bad, [])])
                            if bad is not None else 'the harness died or panicked: %s' % err2[-200:])
                    if chk.violation({'engine': 'quant', 'what': what, 'commands': cmds, 'signature': 'quant:collection:%d' % b}):
                        nviol += 1
    if nviol == 0:
        if corr:
            corr['unproved'] = 'correspondence between coq/Float/Quant.v and quantization.go no longer holds'
            chk.violation(corr, tag='correspondence', no_input=True)
        elif broken:
            chk.violation({'engine': 'proof', 'unproved': broken, 'what': 'a proof obligation no longer checks; no failing input found'}, tag='proof', no_input=True)
    dist = {}
    for b, x in inputs:
        dist[b] = dist.get(b, 0) + 1
    chk.cov.update({'documents_read_back_from_collections': coll_docs, 'programs': len(inputs) + len(vecs), 'evaluations': len(inputs) + len(vecs), 'distinct_nontrivial': len(set((b, bits(x)) for b, x in inputs)),
                    'rule': 'for b in {4,8,16}: every level, both float neighbours of every level and of every midpoint between adjacent levels (all codes for 4/8 bits; all 65536 for 16 bits in the thorough tier), range ends, infinities, random values; b=32: random values, exact halfway points between adjacent float32 values and their neighbours, overflow and subnormal thresholds; b=64 random bit patterns; vectors of dimension 1..33',
                    'disagreements_checked': len(inputs), 'samples': [{'bits': b, 'x': x, 'x_bits': bits(x), 'implementation': list(o)} for (b, x), o in list(zip(inputs, outs))[:3]],
                    'distribution': {'inputs_per_bit_width': dist, 'vectors': len(vecs)},
                    'correspondence': 'model and implementation agree' if corr is None else 'DIVERGED', 'proof_obligations_broken': broken})
    chk.assumptions = [NOTE]
    return chk.finish()
