"""Independent walker over a real data-file image: the format grammar of spanfile.go's header comment."""
import struct, zlib

SPAN, FREE = 0x5350414E, 0x46524545


def r7(b, off, end):
    res = 0
    while off < end:
        d = b[off]
        res = (res << 7) | (d & 0x7f)
        off += 1
        if d & 0x80 == 0:
            return res, off
    return None


def l7(n):
    for k, t in enumerate([0x7f, 0x3fff, 0x1fffff, 0xfffffff, 0x7ffffffff, 0x3ffffffffff, 0x1ffffffffffff, 0xffffffffffffff], 1):
        if n < t:
            return k
    return 9


def record_size(seq, rid_len, stream_lens):
    return 8 + l7(seq) + l7(rid_len) + rid_len + 1 + sum(1 + l7(n) + n for n in stream_lens) + 4


def walk(img):
    """returns (spans, problems). spans: list of dicts {kind:'A'|'F'|'T', off, len, ...}; 'T' = unused tail."""
    off, n = 0, len(img)
    spans, problems = [], []
    while off < n:
        if off + 8 > n:
            spans.append({'kind': 'T', 'off': off, 'len': n - off})
            if any(img[off:]):
                problems.append('non-zero bytes in a tail too short for a header at %d' % off)
            off = n
            break
        magic, L = struct.unpack('>II', img[off:off + 8])
        if magic == 0:
            spans.append({'kind': 'T', 'off': off, 'len': n - off})
            if any(img[off:]):
                problems.append('zero magic at %d but the rest of the file is not all zero' % off)
            off = n
            break
        if magic not in (SPAN, FREE):
            problems.append('bad magic %08x at %d' % (magic, off))
            break
        if L < 8 or off + L > n:
            problems.append('span at %d has length %d beyond the file or too small' % (off, L))
            break
        if magic == FREE:
            spans.append({'kind': 'F', 'off': off, 'len': L})
        else:
            body = img[off:off + L]
            if L < 15:
                problems.append('active span at %d shorter than the minimum' % off)
                break
            crc = struct.unpack('>I', body[-4:])[0]
            if zlib.crc32(body[:-4]) != crc:
                problems.append('active span at %d fails its checksum' % off)
            at = 8
            a = r7(body, at, L - 4)
            if a is None:
                problems.append('active span at %d: bad sequence number' % off)
                break
            seq, at = a
            a = r7(body, at, L - 4)
            if a is None or a[1] + a[0] + 1 > L - 4:
                problems.append('active span at %d: bad id' % off)
                break
            idl, at = a
            rid = bytes(body[at:at + idl])
            at += idl
            ns = body[at]
            at += 1
            streams = []
            ok = True
            for _ in range(ns):
                if at >= L - 4:
                    ok = False
                    break
                sid = body[at]
                at += 1
                a = r7(body, at, L - 4)
                if a is None or a[1] + a[0] > L - 4:
                    ok = False
                    break
                sl, at = a
                streams.append((sid, bytes(body[at:at + sl])))
                at += sl
            if not ok:
                problems.append('active span at %d: streams run past the checksum' % off)
                break
            pad = L - 4 - at
            if pad >= 15:
                problems.append('active span at %d carries %d bytes of padding (a FREE span would fit)' % (off, pad))
            if any(body[at:L - 4]):
                problems.append('active span at %d: padding not zero' % off)
            spans.append({'kind': 'A', 'off': off, 'len': L, 'seq': seq, 'rid': rid, 'streams': streams, 'pad': pad})
        off += L
    return spans, problems


def free_regions(spans):
    """maximal runs of FREE spans / tail as (start, len)"""
    out = []
    for s in spans:
        if s['kind'] in 'FT' and s['len'] > 0:
            if out and out[-1][0] + out[-1][1] == s['off']:
                out[-1] = (out[-1][0], out[-1][1] + s['len'])
            else:
                out.append((s['off'], s['len']))
    return out
