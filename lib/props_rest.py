"""C17 / C18 — the REST server against the handler model (coq/Model/Rest.v) and the documented behaviour."""
import glob, json, math, os, random, time
from urllib.parse import quote
from common import *
import floatvm
from restlib import *
from searchlib import stored, dist

NOTE = ('theorems are about coq/Model/Rest.v (handlers over the C01 specification; panics of AddDocument kept as values); the model is tied to rest.go/main.go by '
        'sending generated request histories to a real server process built from /repo/cmd (loopback, temporary data folder, kill/restart inside the history) and comparing '
        'every status and every decoded body (ids, info, collection list, listing pages) with the model evaluated by vm_compute on the same history; an independent Python '
        'specification (dictionary of collections + documented status classes) judges the implementation')

NAMES = ['alpha', 'beta', 'g.dat', 'Z_9', '.hid']  # tokens 1..5 (the last two are used less often; '.hid': a name that starts with a dot)
GHOST = 'nosuch'                                   # token 9: never created
TOK = {n: i + 1 for i, n in enumerate(NAMES)}
TOK[GHOST] = 9
BADNAMES = ['', 'a/b', '../x', 'a\\b']            # rejected by validCollectionName (C19); token 20+


class Gen:
    """builds one history: HTTP requests, their model terms, and the expectations of the independent specification"""

    def __init__(self, rng, hostile, focus=None):
        self.rng = rng
        self.hostile = hostile        # C18 stream: mostly rejected requests
        self.focus = focus            # extended search after a divergence: the kind of request to concentrate on
        self.template = None          # ... and, for searches, the k/radius of the diverging request
        self.spec = {}                # name -> {'dim','q','metric','docs': {id: (vec, meta)}}
        self.steps = []
        self.vtok = {}
        self.mtok = {}

    # ---- tokens
    def vt(self, v):
        return self.vtok.setdefault(tuple(v), len(self.vtok) + 1)

    def mt(self, m):
        key = json.dumps(m, sort_keys=True)
        return self.mtok.setdefault(key, len(self.mtok) + 1)

    def step(self, method, path, body, model, kind, **kw):
        if isinstance(body, str) and kind in ('create', 'insert', 'update', 'search') and body[:1] in '[{' and body[-1:] in ']}' and self.rng.random() < 0.12:
            # more data behind the JSON value: the decoder reads one value, so the request means what that value says
            body += self.rng.choice([' x', '\n{}', ' []', ' 1', '  '])
        self.steps.append(dict(method=method, path=path, body=body, model=model, kind=kind, **kw))

    def pick_name(self):
        r = self.rng.random()
        if r < 0.1:
            return GHOST
        return self.rng.choice(NAMES[:3] if r < 0.9 else NAMES)

    def vec(self, dim):
        return [self.rng.choice([0.0, 0.5, -0.5, 1.0, -1.0, 0.25]) if self.rng.random() < 0.4 else round(self.rng.uniform(-1, 1), 3) for _ in range(dim)]

    def meta(self):
        r = self.rng.random()
        if r < 0.1:
            return None
        return {self.rng.choice(['k', 'name', 'x y', 'é']): self.rng.choice(['v', '', 'a"b', 'ü', '42', 'long' * 5]) for _ in range(self.rng.randint(0, 3))}

    # ---- requests
    def create(self):
        rng = self.rng
        name = rng.choice(NAMES[:3] if rng.random() < 0.9 else NAMES) if rng.random() < 0.9 else rng.choice(BADNAMES)
        name_ok = name not in BADNAMES
        ntok = TOK.get(name, 20 + BADNAMES.index(name) if name in BADNAMES else 0)
        metric = rng.choice(['euclidean', 'cosine']) if rng.random() < (0.92 if not self.hostile else 0.7) else rng.choice(['manhattan', '', None])
        dim = rng.choice([1, 2, 3, 5]) if rng.random() < (0.92 if not self.hostile else 0.6) else rng.choice([0, -1, -5])
        q = rng.choice([0, 4, 8, 16, 32, 64]) if rng.random() < (0.92 if not self.hostile else 0.6) else rng.choice([7, 128, -8, 1, 63])
        body_ok = rng.random() < (0.95 if not self.hostile else 0.8)
        obj = {'name': name, 'vector_size': dim, 'quantization': q}
        if metric is not None:
            obj['distance_function'] = metric
        if body_ok:
            body = json.dumps(obj)
        else:
            body = rng.choice([json.dumps(obj)[:-3], '{"name": 5}', '[]', json.dumps(dict(obj, vector_size='3')), 'not json', ''])
        mtok = {'euclidean': 'Some 0%N', 'cosine': 'Some 1%N'}.get(metric, 'None')
        model = 'Create %s %d%%N %s (%s) (%d)%%Z (%d)%%Z' % (b(body_ok), ntok, b(name_ok), mtok, dim, q)
        qq = 64 if q == 0 else q
        malformed = (not body_ok) or (not name_ok) or metric not in ('euclidean', 'cosine') or dim < 1 or qq not in (4, 8, 16, 32, 64) or (name in self.spec)
        self.step('POST', '/api/v1/collections', body, model, 'create', malformed=malformed, unknown=False, name=name)
        if not malformed:
            self.spec[name] = {'dim': dim, 'q': qq, 'metric': 0 if metric == 'euclidean' else 1, 'docs': {}}

    def insert(self):
        rng = self.rng
        name = self.pick_name()
        c = self.spec.get(name)
        dim = c['dim'] if c else 2
        recs, mrecs = [], []
        n = rng.choice([1, 1, 2, 3, 6])
        bad_at = rng.randrange(n) if rng.random() < (0.15 if not self.hostile else 0.7) else None
        flags = {'no_vector': False, 'wrong': False, 'embed': False}
        for i in range(n):
            id_ = rng.choice([1, 2, 3, 10, 11, 100, 2 ** 32, 2 ** 64 - 1, rng.randrange(1, 50)])
            m = self.meta()
            r = {'id': id_}
            if m is not None:
                r['metadata'] = m
            if i == bad_at:
                k = rng.choice(['novec', 'null', 'short', 'long', 'empty', 'text'])
                if k == 'novec':
                    mrecs.append(mrec(id_, None, False, self.mt(m)))
                    flags['no_vector'] = True
                elif k == 'null':
                    r['vector'] = None
                    mrecs.append(mrec(id_, None, False, self.mt(m)))
                    flags['no_vector'] = True
                elif k == 'text':
                    r['text'] = 'hello'
                    mrecs.append(mrec(id_, None, True, self.mt(m)))
                    flags['embed'] = True
                else:
                    v = self.vec({'short': max(dim - 1, 0), 'long': dim + 1, 'empty': 0}[k])
                    r['vector'] = v
                    mrecs.append(mrec(id_, (self.vt(v), len(v)), False, self.mt(m)))
                    flags['wrong'] = flags['wrong'] or len(v) != dim
            else:
                v = self.vec(dim)
                r['vector'] = v
                if rng.random() < 0.05:
                    r['text'] = 'ignored when a vector is given'
                mrecs.append(mrec(id_, (self.vt(v), len(v)), 'text' in r, self.mt(m)))
            recs.append(r)
        body_ok = rng.random() < (0.95 if not self.hostile else 0.8)
        if body_ok:
            body = json.dumps(recs)
            model = 'Insert %d%%N (Some [%s])' % (TOK[name], '; '.join(mrecs))
        else:
            body = rng.choice([json.dumps(recs)[:-2], '{}', json.dumps([{'id': -1, 'vector': [0.0] * dim}]), json.dumps([{'id': 1, 'vector': [0.0] * dim, 'metadata': {'k': 1}}]),
                               json.dumps([{'id': '7', 'vector': [0.0] * dim}]), json.dumps([{'id': 2 ** 64, 'vector': [0.0] * dim}]), '[1, 2]'])
            model = 'Insert %d%%N None' % TOK[name]
        unknown = c is None
        malformed = (not body_ok) or flags['no_vector'] or (c is not None and flags['wrong'])
        embed = body_ok and flags['embed']
        self.step('POST', '/api/v1/collections/%s/records' % quote(name), body, model, 'insert', malformed=malformed, unknown=unknown, embed=embed, name=name)
        if c is not None and not malformed and not embed:
            for r in recs:
                c['docs'][r['id']] = (r['vector'], r.get('metadata'))

    def update(self):
        rng = self.rng
        name = self.pick_name()
        c = self.spec.get(name)
        live = sorted(c['docs']) if c else []
        id_ = rng.choice(live) if live and rng.random() < 0.75 else rng.choice([1, 2, 3, 77, 2 ** 64 - 1])
        ids = str(id_)
        id_ok = True
        if rng.random() < (0.06 if not self.hostile else 0.3):
            ids = rng.choice(['abc', '-1', str(2 ** 64), '1.5', '0x10'])
            id_ok = False
        m = self.meta() or {}
        body_ok = rng.random() < (0.95 if not self.hostile else 0.7)
        body = json.dumps({'metadata': m}) if body_ok else rng.choice(['{"metadata": ', '{"metadata": {"k": 5}}', '{"metadata": []}', 'x'])
        model = 'Update %d%%N %s %s' % (TOK[name], '(Some %d%%N)' % id_ if id_ok else 'None', '(Some %d%%N)' % self.mt(m) if body_ok else 'None')
        unknown = c is None or (id_ok and id_ not in c['docs'])
        malformed = (not id_ok) or (not body_ok)
        self.step('PUT', '/api/v1/collections/%s/records/%s/metadata' % (quote(name), ids), body, model, 'update', malformed=malformed, unknown=unknown, name=name)
        if c is not None and not malformed and not unknown:
            c['docs'][id_] = (c['docs'][id_][0], m)

    def delete(self):
        rng = self.rng
        name = self.pick_name()
        c = self.spec.get(name)
        live = sorted(c['docs']) if c else []
        id_ = rng.choice(live) if live and rng.random() < 0.75 else rng.choice([1, 2, 3, 77])
        ids, id_ok = str(id_), True
        if rng.random() < (0.06 if not self.hostile else 0.3):
            ids, id_ok = rng.choice(['abc', '-1', str(2 ** 64), '1e3']), False
        model = 'DeleteRec %d%%N %s' % (TOK[name], '(Some %d%%N)' % id_ if id_ok else 'None')
        unknown = c is None or (id_ok and id_ not in c['docs'])
        self.step('DELETE', '/api/v1/collections/%s/records/%s' % (quote(name), ids), None, model, 'delete', malformed=not id_ok, unknown=unknown, name=name)
        if c is not None and id_ok and not unknown:
            del c['docs'][id_]

    def drop(self, name=None):
        name = name or self.pick_name()
        self.step('DELETE', '/api/v1/collections/%s' % quote(name), None, 'Drop %d%%N' % TOK[name], 'drop', malformed=False, unknown=name not in self.spec, name=name)
        self.spec.pop(name, None)

    def search(self):
        rng = self.rng
        name = self.pick_name()
        c = self.spec.get(name)
        dim = c['dim'] if c else 2
        k = rng.choice([0, 0, 0, 1, 3, 50, -1])
        radius = rng.choice([0, 0, 0, 0, 0.5, 10.0, -1.0])
        if self.template and rng.random() < 0.7:
            k, radius = self.template['k'], self.template['radius']
        off, lim = rng.choice([0, 0, 1, 3]), rng.choice([0, 0, 2, 5])
        flt = rng.choice([None, None, 'k == "v"', 'name EXISTS'])
        filter_ok = True
        if rng.random() < (0.05 if not self.hostile else 0.3):
            flt, filter_ok = rng.choice(['k ==', '((', 'a == 1 b == 2', 'x DOES NOT', 'k == "v" zzz', 'k == "v" and name EXISTS', "name EXISTS 17", 'k == "v" )']), False
            if rng.random() < 0.5:
                k, radius = 0, 0          # a listing: nothing but the filter can make the request malformed
        listing = (k == 0 and radius == 0)
        vlen = dim
        if rng.random() < (0.1 if not self.hostile else (0.5 if not self.template else 0.9)):
            vlen = rng.choice([0, dim + 1, dim + 3, max(dim - 1, 0), None])
        v = self.vec(vlen) if vlen is not None else None
        text = rng.random() < 0.03
        get = rng.random() < (0.25 if filter_ok else 0.5) and not text
        body_ok = True
        if get:
            qs = ['k=%d' % k, 'radius=%s' % radius, 'offset=%d' % off, 'limit=%d' % lim]
            if flt is not None:
                qs.append('filter=' + quote(flt))
            path = '/api/v1/collections/%s/search?%s' % (quote(name), '&'.join(qs))
            body, method, v = None, 'GET', None
        else:
            obj = {'k': k, 'radius': radius, 'offset': off, 'limit': lim}
            if v is not None:
                obj['vector'] = v
            if flt is not None:
                obj['filter'] = flt
            if text:
                obj['text'] = 'query'
            if rng.random() < 0.3:
                obj['precision'] = 'exact'
            body_ok = rng.random() < (0.96 if not self.hostile else 0.8)
            body = json.dumps(obj) if body_ok else rng.choice([json.dumps(obj)[:-1], json.dumps(dict(obj, k='one')), json.dumps(dict(obj, vector='v')), '[]'])
            path, method = '/api/v1/collections/%s/search' % quote(name), 'POST'
        vl = len(v) if v is not None else 0
        model = 'Search %d%%N %s %s %s %s %s (%d)%%Z %s %d%%N %d%%N' % (TOK[name], b(body_ok), b(filter_ok or not body_ok), b(text and body_ok), b(k == 0), b(radius == 0), vl, b(flt is not None and filter_ok), off, lim)
        malformed = (not body_ok) or (not filter_ok) or (c is not None and not listing and vl != c['dim'])
        extra = {}
        if c is not None and listing and body_ok and filter_ok and not text:
            # the page a listing must return: documents in string order of their ids, filtered, sliced (C16 through REST)
            def acc(md):
                if flt is None:
                    return True
                if flt == 'k == "v"':
                    return isinstance(md, dict) and md.get('k') == 'v'
                if flt == 'name EXISTS':
                    return isinstance(md, dict) and 'name' in md
                return None
            rows = [(i, c['docs'][i][1]) for i in sorted(c['docs'], key=str) if acc(c['docs'][i][1])]
            rows = rows[off:] if lim == 0 else rows[off:off + lim]
            extra['expect_page'] = rows
        self.step(method, path, body, model, 'search', malformed=malformed, unknown=c is None, embed=text and body_ok and filter_ok, name=name,
                  search=dict(k=k, radius=radius, off=off, lim=lim, flt=flt if filter_ok else None, v=v, listing=listing), **extra)

    def probes(self):
        self.step('GET', '/api/v1/collections', None, 'ListC', 'list', malformed=False, unknown=False)
        for name in NAMES[:3] + [GHOST]:
            c = self.spec.get(name)
            self.step('GET', '/api/v1/collections/%s/ids' % quote(name), None, 'Ids %d%%N' % TOK[name], 'ids', malformed=False, unknown=name not in self.spec, name=name,
                      expect=sorted(c['docs']) if c else None)
            if c is not None:
                self.step('POST', '/api/v1/collections/%s/search' % quote(name), '{}', 'Search %d%%N true true false true true 0%%Z false 0%%N 0%%N' % TOK[name], 'search',
                          malformed=False, unknown=False, name=name, search=dict(k=0, radius=0, off=0, lim=0, flt=None, v=None, listing=True), probe=True,
                          expect=[(i, c['docs'][i][1]) for i in sorted(c['docs'], key=str)])
                if c['docs'] and self.rng.random() < 0.5:
                    # a filtered page with an offset: the offset counts accepted documents only (C16 through REST)
                    flt = self.rng.choice(['k == "v"', 'name EXISTS'])
                    off, lim = self.rng.choice([1, 2]), self.rng.choice([0, 1, 3])
                    ok_ = (lambda md: isinstance(md, dict) and md.get('k') == 'v') if flt.startswith('k') else (lambda md: isinstance(md, dict) and 'name' in md)
                    rows = [(i, c['docs'][i][1]) for i in sorted(c['docs'], key=str) if ok_(c['docs'][i][1])]
                    rows = rows[off:] if lim == 0 else rows[off:off + lim]
                    self.step('POST', '/api/v1/collections/%s/search' % quote(name), json.dumps({'filter': flt, 'offset': off, 'limit': lim}),
                              'Search %d%%N true true false true true 0%%Z true %d%%N %d%%N' % (TOK[name], off, lim), 'search', malformed=False, unknown=False, name=name,
                              search=dict(k=0, radius=0, off=off, lim=lim, flt=flt, v=None, listing=True), vecprobe=True, expect_page=rows)
                if c['docs'] and self.rng.random() < 0.5:
                    # every stored vector, through the distances of an exact search from one of them
                    qid = self.rng.choice(sorted(c['docs']))
                    qv = c['docs'][qid][0]
                    want = sorted((dist(c['metric'], qv, [stored(c['q'], x) for x in v]), i) for i, (v, _) in c['docs'].items())
                    self.step('POST', '/api/v1/collections/%s/search' % quote(name), json.dumps({'vector': qv, 'k': len(c['docs']) + 3, 'precision': 'exact'}),
                              'Search %d%%N true true false false true (%d)%%Z false 0%%N 0%%N' % (TOK[name], len(qv)), 'search', malformed=False, unknown=False, name=name,
                              search=dict(k=len(c['docs']) + 3, radius=0, off=0, lim=0, flt=None, v=qv, listing=False), vecprobe=True, expect=want)
        name = self.rng.choice(NAMES[:3])
        self.step('GET', '/api/v1/collections/%s' % quote(name), None, 'Info %d%%N' % TOK[name], 'info', malformed=False, unknown=name not in self.spec, name=name)

    def garbage(self):
        rng = self.rng
        name = self.pick_name()
        method, path, body = rng.choice([
            ('PATCH', '/api/v1/collections/%s' % name, '{}'), ('PUT', '/api/v1/collections', '{}'), ('GET', '/api/v1/collections/%s/records' % name, None),
            ('POST', '/api/v1/collections/%s/search' % name, 'x' * 70000), ('GET', '/api/v1/collections/%s/records/5' % name, None),
            ('DELETE', '/api/v1/collections/%s/records/' % name, None), ('PUT', '/api/v1/collections/%s/records/5' % name, '{}'),
            ('POST', '/api/v1/collections/%s/records/' % name, '[]'), ('GET', '/api/v1/nothing', None), ('GET', '/api/v1/collections/%s/ids/extra' % name, None),
            ('POST', '/api/v1/collections/%s' % name, '{}'), ('DELETE', '/api/v1/collections', None), ('OPTIONS', '/api/v1/collections', None),
            ('POST', '/api/v1/collections/%s/search' % name, '{"vector": [1e999]}'), ('POST', '/api/v1/collections/%s/records' % name, '[{"id":1,"vector":[1e999]}]'),
            ('GET', '/api/v1/collections/%s/search?k=abc&radius=zzz&offset=-5&limit=-1' % name, None)])
        if rng.random() < 0.5:
            # a route of the API with one path segment deleted, doubled or emptied, under every method; the collection and
            # record named do not exist, so whatever the server makes of it, nothing may change
            tmpl = rng.choice(['/api/v1/collections/%s/records/999999', '/api/v1/collections/%s/records/999999/metadata', '/api/v1/collections/%s/records',
                               '/api/v1/collections/%s/ids', '/api/v1/collections/%s/search', '/api/v1/collections/%s']) % GHOST
            segs = tmpl.split('/')[1:]
            i = rng.randrange(len(segs))
            kind = rng.choice(['del', 'dup', 'empty', 'slash'])
            if kind == 'del':
                segs = segs[:i] + segs[i + 1:]
            elif kind == 'dup':
                segs = segs[:i] + [segs[i]] + segs[i:]
            elif kind == 'empty':
                segs = segs[:i] + [''] + segs[i + 1:]
            else:
                segs = segs + ['']
            path = '/' + '/'.join(segs)
            method = rng.choice(['GET', 'DELETE', 'PUT', 'POST', 'PATCH'])
            body = {'GET': None, 'DELETE': None, 'PUT': '{"metadata": {"k": "v"}}', 'POST': '[]', 'PATCH': '{}'}[method]
            name = GHOST
        self.step(method, path, body, None, 'garbage', name=name)

    def restart(self):
        self.step('RESTART', '', None, 'Restart', 'restart', malformed=False, unknown=False)

    def build(self, nops):
        rng = self.rng
        self.create()
        self.create()
        self.probes()
        if self.focus:
            # populated collections first: most defects need documents to show
            hostile, self.hostile = self.hostile, False
            for _ in range(4):
                self.insert()
            self.hostile = hostile
        for _ in range(nops):
            r = rng.random()
            if self.focus and rng.random() < 0.5:
                getattr(self, self.focus)()
            elif r < 0.14:
                self.create()
            elif r < 0.42:
                self.insert()
            elif r < 0.54:
                self.update()
            elif r < 0.66:
                self.delete()
            elif r < 0.72:
                self.drop()
            elif r < 0.88:
                self.search()
            elif r < 0.93 and self.hostile:
                self.garbage()
            elif r < 0.96:
                self.restart()
            else:
                self.insert()
            self.probes()
        self.drop(GHOST)           # the recorded finding (200 instead of 404) is probed in every history
        self.probes()
        self.restart()
        self.probes()
        return self


def b(x):
    return 'true' if x else 'false'


def mrec(id_, vec, text, meta):
    return '{| r_id := %d%%N; r_vec := %s; r_text := %s; r_meta := %d%%N |}' % (id_, 'Some (%d%%N, (%d)%%Z)' % vec if vec else 'None', b(text), meta)


def observe(srv, st):
    """send one step; returns (status or 'dropped', decoded body)"""
    if st['method'] == 'RESTART':
        ok = srv.restart()
        return (200 if ok else 'dropped'), None
    return srv.request(st['method'], st['path'], st['body'])


def enc_observed(st, status, body, mtok={}):
    """flat encoding matching coq/Model/RestWire.v"""
    if status == 'dropped':
        return [-2, -7]
    out = [status]
    k = st['kind']
    if status == 200 and k == 'ids' and body is None:
        body = []          # GetAllIDs of an empty collection is a nil slice: JSON null
    if status == 200 and k == 'ids' and isinstance(body, list):
        out += [1, len(body)] + [int(x) for x in body]
    elif status == 200 and k == 'info' and isinstance(body, dict):
        out += [2, body.get('document_count'), body.get('dimension_count'), body.get('quantization'), {'euclidean': 0, 'cosine': 1}.get(body.get('distance_method'), 9)]
    elif status == 200 and k == 'list' and isinstance(body, list):
        rows = sorted((TOK.get(x.get('name'), 99), x.get('document_count')) for x in body)
        out += [3, len(rows)] + [y for r in rows for y in r]
    elif status == 200 and k == 'search' and isinstance(body, dict):
        s = st['search']
        if s['listing'] and s['flt'] is None:
            rows = [(int(r['id']), mtok.get(json.dumps(r.get('metadata'), sort_keys=True), 0)) for r in body.get('results') or []]
            out += [5, len(rows)] + [y for r in rows for y in r]
        else:
            out += [4]
    else:
        out += [0]
    return out + [-7]


def split_enc(flat):
    out, cur = [], []
    for x in flat:
        cur.append(x)
        if x == -7:
            out.append(cur)
            cur = []
    return out


def spec_judge(g, obs, prop):
    """independent oracle: documented status classes and the dictionary specification, on the implementation's answers.
    Replays the history on a fresh dictionary, in step order. Returns (index, description, signature) or None."""
    spec = {}
    for i, (st, (status, body)) in enumerate(zip(g.steps, obs)):
        if status == 'dropped':
            yield i, 'the request received no response (connection dropped or server gone): %s' % str(body)[:120], 'rest:%s:dropped' % prop
            return
        k = st['kind']
        if k == 'garbage' or k == 'restart':
            continue
        if k == 'list' and status == 200 and isinstance(body, list) and prop == 'C17':
            odd = [x.get('name') for x in body if x.get('name') not in NAMES]
            if odd:
                yield i, 'the collection list names %r, which was never created (created names: %s)' % (odd[0], NAMES), 'rest:C17:list-name'
        if prop == 'C17' and 'expect_page' in st and status == 200 and isinstance(body, dict):
            got = [(int(r['id']), r.get('metadata')) for r in (body.get('results') or [])]
            if got != st['expect_page']:
                yield i, ('listing page of %s (filter %r, offset %d, limit %d) is %s, the specification gives %s'
                          % (st['name'], st['search']['flt'], st['search']['off'], st['search']['lim'], str([g_[0] for g_ in got])[:100], str([w_[0] for w_ in st['expect_page']])[:100])), 'rest:C17:page'
        if prop == 'C17' and 'expect' in st and status == 200:
            if k == 'ids' and st['expect'] is not None and [int(x) for x in (body or [])] != st['expect']:
                yield i, 'ids of %s are %s, the specification has %s' % (st['name'], str(body)[:80], st['expect'][:20]), 'rest:C17:ids'
            if st.get('probe') and isinstance(body, dict):
                got = [(int(r['id']), r.get('metadata')) for r in (body.get('results') or [])]
                if got != st['expect']:
                    bad = next((a for a, b2 in zip(got, st['expect']) if a != b2), None)
                    yield i, ('listing of %s differs from the specification (ids in string order, each with the metadata of its last accepted write): got %s, want %s'
                              % (st['name'], str(bad or got)[:120], str(next((b2 for a, b2 in zip(got, st['expect']) if a != b2), st['expect']))[:120])), 'rest:C17:listing'
            if st.get('vecprobe') and 'expect_page' not in st and isinstance(body, dict):
                got = sorted((float(r['distance']), int(r['id'])) for r in (body.get('results') or []))
                want = st['expect']
                if [g_[1] for g_ in sorted(got, key=lambda t: t[1])] != [w_[1] for w_ in sorted(want, key=lambda t: t[1])] or \
                        any(abs(dict((i2, d2) for d2, i2 in got)[i2] - d2) > 1e-9 * max(1.0, abs(d2)) for d2, i2 in want if d2 == d2):
                    yield i, 'exact search over %s: distances %s do not match the vectors of the last accepted writes %s' % (st['name'], str(got)[:100], str(want)[:100]), 'rest:C17:vectors'
        if st.get('embed') and ((not st['malformed'] and not st['unknown']) or (isinstance(status, int) and status >= 500)):
            continue            # needs the (absent) embedding service: a 5xx is acceptable whatever else is wrong with the request
        allowed = set()
        if st['malformed']:
            allowed.add(400)
        if st['unknown']:
            allowed.add(404)
        if not allowed:
            allowed = {200, 201}
        if status not in allowed:
            if k == 'drop' and st['unknown'] and status == 200:
                sig = 'rest:C17:drop-unknown-200'
            else:
                sig = 'rest:%s:status:%s' % (prop, k)
            if prop == 'C17':
                yield i, '%s %s answered %s, documented class is %s (malformed=%s unknown=%s)' % (st['method'], st['path'][:80], status, sorted(allowed), st['malformed'], st['unknown']), sig


def state_of(obs_steps):
    """the last probe block of a list of (step, obs): {name: (ids, listing)}"""
    out = {}
    for st, (status, body) in obs_steps:
        if st['kind'] == 'ids':
            out.setdefault(st['name'], {})['ids'] = (status, body if status == 200 else None)
        elif st['kind'] == 'search' and st.get('probe'):
            out.setdefault(st['name'], {})['listing'] = (status, [(r['id'], r.get('metadata')) for r in (body.get('results') or [])] if status == 200 and isinstance(body, dict) else None)
        elif st['kind'] == 'list':
            out['*'] = (status, sorted((x.get('name'), x.get('document_count')) for x in body) if isinstance(body, list) else None)
    return out


def dict_judge(g, obs, prop):
    """the dictionary specification, replayed independently of the generator's bookkeeping: probe answers must equal it;
    for C18: a request answered >= 400 must leave every probe answer as before"""
    # group steps into blocks: one non-probe step followed by its probes
    blocks, cur = [], None
    for st, ob in zip(g.steps, obs):
        if st['kind'] in ('list', 'ids', 'info') or st.get('probe') or st.get('vecprobe'):
            if cur is not None:
                cur['probes'].append((st, ob))
        else:
            cur = {'step': st, 'obs': ob, 'probes': []}
            blocks.append(cur)
    prev = None
    for bi, blk in enumerate(blocks):
        cur_state = state_of(blk['probes'])
        status = blk['obs'][0]
        if prev is not None and blk['probes'] and blk['step']['kind'] != 'restart' and isinstance(status, int) and status >= 400 and cur_state != prev:
            diff = [k for k in set(cur_state) | set(prev) if cur_state.get(k) != prev.get(k)]
            return g.steps.index(blk['step']), '%s %s was answered %d but changed the state of %s' % (blk['step']['method'], blk['step']['path'][:80], status, diff), 'rest:%s:rejected-but-applied' % prop
        if blk['step']['kind'] == 'restart' and prev is not None and blk['probes'] and cur_state != prev:
            diff = [k for k in set(cur_state) | set(prev) if cur_state.get(k) != prev.get(k)]
            return g.steps.index(blk['step']), 'after a restart of the server the state of %s differs' % diff, 'rest:%s:restart' % prop
        prev = cur_state if blk['probes'] else None
    return None


def content_judge(g, obs):
    """probe answers against the generator's dictionary at that point (replayed): ids ascending, listing = ids in string order with current metadata"""
    # replay the generator's spec evolution by re-running its bookkeeping is not possible after the fact; instead the final
    # state is compared: the last probe block against g.spec
    last = {}
    for st, ob in zip(g.steps, obs):
        if st['kind'] == 'ids':
            last[('ids', st['name'])] = ob
        elif st['kind'] == 'search' and st.get('probe'):
            last[('listing', st['name'])] = ob
    for name in NAMES[:3]:
        c = g.spec.get(name)
        ob = last.get(('ids', name))
        if ob is None:
            continue
        if c is None:
            if ob[0] != 404:
                return 'collection %s should not exist at the end of the history, ids answered %s' % (name, ob[0])
            continue
        if ob[0] != 200 or [int(x) for x in (ob[1] or [])] != sorted(c['docs']):
            return 'final ids of %s are %s, the specification has %s' % (name, str(ob[1])[:80], sorted(c['docs'])[:20])
        lo = last.get(('listing', name))
        if lo is not None and lo[0] == 200:
            got = [(int(r['id']), r.get('metadata')) for r in (lo[1].get('results') or [])]
            want = [(i, c['docs'][i][1]) for i in sorted(c['docs'], key=str)]
            if got != want:
                return 'final listing of %s differs from the specification (ids in string order with current metadata)' % name
    return None


def run_history(srv, g):
    obs = []
    for st in g.steps:
        o = observe(srv, st)
        obs.append(o)
        if o[0] == 'dropped' and not srv.alive():
            srv.start()
    return obs


def ctor_probe(chk):
    """C18, embedded constructor: unsupported options must be rejected, never accepted and unusable"""
    cases = [(0, 64, 0), (-1, 64, 0), (3, 7, 0), (3, 128, 1), (3, -8, 0), (2, 0, 0), (2, 4, 1), (1, 64, 0), (5, 16, 1), (2, 64, 7)]
    text = ''.join('ctor %d %d %d\n' % c for c in cases)
    lines, rc, err = run_harness(['dump', os.path.join(WORK, 'data', 'ctor_%05d.dat' % (os.getpid() % 100000))], text, timeout=120)
    res = [l for l in lines if l.startswith('ctor ')]
    bad = []
    for c, l in zip(cases, res):
        f = l.split()
        # ctor <created 0|1> <usable 0|1|2=panic>
        if f[1] == '1' and f[2] != '1':
            bad.append((c, l))
    return cases, res, bad, (rc, err)


def slow_backend_leg(delay=12.0):
    """C18 when a request takes long (a slow embedding backend): whatever the server answers, an answer of the 4xx/5xx class
    means the collection is unchanged — also a few seconds later — and a 2xx answer means the record is there"""
    import threading
    from http.server import BaseHTTPRequestHandler, ThreadingHTTPServer

    class Stub(BaseHTTPRequestHandler):
        def do_POST(self):
            n = int(self.headers.get('Content-Length') or 0)
            body = self.rfile.read(n)
            try:
                texts = json.loads(body).get('input') or ['x']
            except ValueError:
                texts = ['x']
            time.sleep(delay)
            out = json.dumps({'embeddings': [[0.25, 0.5] for _ in (texts if isinstance(texts, list) else [texts])]}).encode()
            self.send_response(200)
            self.send_header('Content-Type', 'application/json')
            self.send_header('Content-Length', str(len(out)))
            self.end_headers()
            try:
                self.wfile.write(out)
            except OSError:
                pass

        def log_message(self, *a):
            pass
    stub = ThreadingHTTPServer(('127.0.0.1', 0), Stub)
    threading.Thread(target=stub.serve_forever, daemon=True).start()
    srv = Server(ollama='127.0.0.1:%d' % stub.server_address[1])
    try:
        if not srv.start():
            return 'server does not start'
        srv.request('POST', '/api/v1/collections', {'name': 'slow', 'distance_function': 'euclidean', 'vector_size': 2, 'quantization': 64})
        srv.request('POST', '/api/v1/collections/slow/records', [{'id': 1, 'vector': [1.0, 2.0], 'metadata': {'k': 'v'}}])
        before = srv.request('GET', '/api/v1/collections/slow/ids')
        st, body = srv.request('POST', '/api/v1/collections/slow/records', [{'id': 77, 'text': 'a text that takes the backend %d seconds' % int(delay), 'metadata': {'k': 'w'}}], timeout=delay + 30)
        time.sleep(4.0)
        after = srv.request('GET', '/api/v1/collections/slow/ids')
        if st == 'dropped':
            return 'an insert that waits %.0f s for the embedding backend received no response: %s' % (delay, str(body)[:100])
        if isinstance(st, int) and st >= 400 and after != before:
            return 'an insert answered %s after waiting for a slow embedding backend changed the collection afterwards: ids %s -> %s' % (st, before[1], after[1])
        if isinstance(st, int) and st < 300 and (not isinstance(after[1], list) or 77 not in after[1]):
            return 'an insert answered %s but the record is not in the collection: ids %s' % (st, after[1])
    finally:
        srv.cleanup()
        stub.shutdown()
    return None


def path_sweep():
    """C18, arbitrary paths and methods: every route of the API with one path segment deleted, doubled, emptied or a slash
    appended, under every method, for an existing and for an unknown collection; every request must get a complete
    response and (none of them being a well-formed mutation of an existing record) nothing may change"""
    srv = Server()
    n = 0
    try:
        if not srv.start():
            return n, 'server does not start'
        srv.request('POST', '/api/v1/collections', {'name': 'alpha', 'distance_function': 'euclidean', 'vector_size': 2, 'quantization': 64})
        srv.request('POST', '/api/v1/collections/alpha/records', [{'id': 1, 'vector': [1.0, 2.0], 'metadata': {'k': 'v'}}])
        before = (srv.request('GET', '/api/v1/collections/alpha/ids'), srv.request('GET', '/api/v1/collections/alpha/records/1'), srv.request('GET', '/api/v1/collections'))
        bodies = {'GET': None, 'DELETE': None, 'PUT': '{"metadata": {"k": "w"}}', 'POST': '[]', 'PATCH': '{}'}
        for nm, rid in (('alpha', '999999'), (GHOST, '1')):
            for tmpl in ('/api/v1/collections/%s/records/%s', '/api/v1/collections/%s/records/%s/metadata', '/api/v1/collections/%s/records', '/api/v1/collections/%s/ids',
                         '/api/v1/collections/%s/search', '/api/v1/collections/%s'):
                segs0 = (tmpl % ((nm, rid) if tmpl.count('%s') == 2 else (nm,))).split('/')[1:]
                variants = []
                for i in range(len(segs0)):
                    if segs0[i] != nm or nm == GHOST:
                        variants.append(segs0[:i] + segs0[i + 1:])
                    variants.append(segs0[:i] + [segs0[i]] + segs0[i:])
                    variants.append(segs0[:i] + [''] + segs0[i + 1:])
                variants.append(segs0 + [''])
                for segs in variants:
                    path = '/' + '/'.join(segs)
                    # mutating methods only where no existing collection is named: a shortened path may be a well-formed drop
                    for method in (('GET', 'PATCH') if nm == 'alpha' else ('GET', 'DELETE', 'PUT', 'POST', 'PATCH')):
                        st, body = srv.request(method, path, bodies[method])
                        n += 1
                        if st == 'dropped':
                            return n, 'the request %s %s received no response (connection dropped): %s' % (method, path, str(body)[:100])
                        if not srv.alive():
                            return n, 'the server is gone after %s %s' % (method, path)
        after = (srv.request('GET', '/api/v1/collections/alpha/ids'), srv.request('GET', '/api/v1/collections/alpha/records/1'), srv.request('GET', '/api/v1/collections'))
        if after != before:
            return n, 'the sweep of malformed paths changed the collection: %s -> %s' % (str(before)[:200], str(after)[:200])
    finally:
        srv.cleanup()
    return n, None


def check(prop, tier, seed, replay=None):
    chk = Check(prop, tier, seed)
    build = build_all()
    broken = proof_coverage(chk, prop, build) + list(build['problems'])
    rng = random.Random(seed * 1000003 + (401 if prop == 'C17' else 419))
    nh = (60 if tier == 'quick' else 1200)
    nviol = 0
    corr = None
    stats = {'histories': 0, 'requests': 0, 'by_kind': {}, 'by_status': {}, 'restarts': 0, 'rejected': 0, 'accepted_mutations': 0, 'model_steps': 0}
    samples = []
    ok, msg = build_server()
    if ok and replay is not None and 'steps' in replay:
        # re-execute the recorded requests against a fresh server and show what it answers now
        srv = Server()
        rc = 0
        try:
            srv.start()
            for i, st in enumerate(replay['steps']):
                o = observe(srv, st)
                mark = ''
                if i < len(replay.get('observed_status', [])) and replay['observed_status'][i] != o[0]:
                    mark = '   (recorded: %s)' % replay['observed_status'][i]
                if i == replay.get('step_index'):
                    mark += '   <== reported step: ' + replay.get('what', '')[:160]
                    if o[0] == 'dropped':
                        rc = 1
                print('%3d %-7s %-60s -> %s%s' % (i, st['method'], (st['path'] + ' ' + (st['body'] or ''))[:60], o[0], mark))
                if o[0] == 'dropped' and not srv.alive():
                    srv.start()
        finally:
            srv.cleanup()
        return rc
    if not ok:
        chk.violation({'engine': 'rest', 'what': 'server does not build: ' + msg[-300:], 'signature': 'rest:nobuild'})
        return chk.finish()
    t_end = time.time() + (2700 if tier == 'thorough' else 420)
    hists = []
    for i in range(nh):
        if time.time() > t_end or nviol >= 3:
            break
        hostile = (prop == 'C18') if i % 4 else (prop != 'C18')
        g = Gen(random.Random(rng.randrange(2 ** 62)), hostile).build(rng.choice([6, 10, 16, 24]) if tier == 'quick' else rng.choice([6, 12, 25, 40, 60]))
        srv = Server()
        try:
            if not srv.start():
                chk.violation({'engine': 'rest', 'what': 'server does not start', 'signature': 'rest:nostart'})
                nviol += 1
                break
            obs = run_history(srv, g)
        finally:
            srv.cleanup()
        stats['histories'] += 1
        stats['requests'] += len(g.steps)
        for st, (status, body) in zip(g.steps, obs):
            stats['by_kind'][st['kind']] = stats['by_kind'].get(st['kind'], 0) + 1
            stats['by_status'][str(status)] = stats['by_status'].get(str(status), 0) + 1
            if st['kind'] == 'restart':
                stats['restarts'] += 1
            if st['kind'] in ('create', 'insert', 'update', 'delete', 'drop'):
                if isinstance(status, int) and status >= 400:
                    stats['rejected'] += 1
                else:
                    stats['accepted_mutations'] += 1
        if len(samples) < 2:
            samples.append([{'request': '%s %s %s' % (st['method'], st['path'][:60], (st['body'] or '')[:80]), 'model': st['model'], 'status': o[0]} for st, o in list(zip(g.steps, obs))[:14:2]])
        whys = list(spec_judge(g, obs, prop))
        dj = dict_judge(g, obs, prop)
        if dj:
            whys.append(dj)
        if not whys:
            cj = content_judge(g, obs)
            if cj and prop == 'C17':
                whys.append((len(g.steps) - 1, cj, 'rest:C17:content'))
        real = False
        for idx, what, sig in whys:
            rep = {'engine': 'rest', 'what': what, 'signature': sig, 'step_index': idx,
                   'steps': [{'method': st['method'], 'path': st['path'], 'body': st['body'], 'kind': st['kind']} for st in g.steps[:idx + 12]],
                   'observed_status': [o[0] for o in obs[:idx + 12]]}
            if chk.violation(rep):          # False for a listed known finding (printed once)
                nviol += 1
                real = True
                break
        if real:
            continue
        hists.append((g, obs))
    # ---- correspondence with the Coq handler model (vm_compute)
    if nviol == 0 and hists:
        rows = []
        for g, obs in hists:
            ms = [st['model'] for st in g.steps if st['model'] is not None]
            rows.append('[' + ';\n   '.join(ms) + ']')
        body = ('From Coq Require Import List NArith ZArith Bool.\nFrom Syz Require Import Coll Rest RestWire.\nImport ListNotations.\n'
                + ''.join('Definition h%d : list request :=\n  %s.\nDefinition o%d := Eval vm_compute in enc_run h%d.\nPrint o%d.\n' % (i, r, i, i, i) for i, r in enumerate(rows)))
        rc2, o2, e2 = floatvm.coq_eval('rest_%s_%d' % (prop, os.getpid()), body)
        flat = []
        for i in range(len(rows)):
            part = floatvm.parse_z_list(o2, 'o%d' % i)
            if part is None:
                flat = None
                break
            flat += part
        if rc2 != 0 or flat is None:
            corr = {'engine': 'rest', 'channel': 'X.rest.vm', 'what': 'model evaluation failed: ' + (e2 or o2)[-600:]}
        else:
            per_hist, cur = [], []
            for x in flat:
                if x == -9:
                    per_hist.append(cur)
                    cur = []
                else:
                    cur.append(x)
            for (g, obs), mflat in zip(hists, per_hist):
                mresp = split_enc(mflat)
                steps = [(st, o) for st, o in zip(g.steps, obs) if st['model'] is not None]
                stats['model_steps'] += len(steps)
                for j, ((st, (status, bodyv)), mr) in enumerate(zip(steps, mresp)):
                    if st['kind'] == 'drop' and st['unknown']:
                        pass        # model mirrors the code here (200); the specification's verdict is the known finding
                    if st.get('embed') and isinstance(status, int) and status >= 500 and mr[0] >= 500:
                        continue
                    er = enc_observed(st, status, bodyv, g.mtok)
                    if er != mr and corr is None:
                        corr = {'engine': 'rest', 'channel': 'X.rest.response', 'what': 'response of the implementation differs from the handler model',
                                'request': '%s %s %s' % (st['method'], st['path'], (st['body'] or '')[:300]), 'model_term': st['model'], 'kind': st['kind'], 'search': st.get('search'),
                                'implementation': er[:40], 'model': mr[:40], 'history_prefix': [s['model'] for s, _ in steps[:j + 1]][-25:]}
                if len(mresp) != len(steps) and corr is None:
                    corr = {'engine': 'rest', 'channel': 'X.rest.response', 'what': 'model produced %d responses for %d requests' % (len(mresp), len(steps))}
    # ---- a divergence without a failing input so far: concentrate on the kind of request that diverged
    if nviol == 0 and corr and corr.get('kind') in ('create', 'insert', 'update', 'delete', 'drop', 'search'):
        ext = 0
        while ext < (40 if tier == 'quick' else 400) and nviol == 0 and time.time() < t_end + 120:
            ext += 1
            g = Gen(random.Random(rng.randrange(2 ** 62)), True, focus=corr['kind'])
            g.template = corr.get('search')
            g.build(20)
            srv = Server()
            try:
                if not srv.start():
                    break
                obs = run_history(srv, g)
            finally:
                srv.cleanup()
            whys = list(spec_judge(g, obs, prop))
            dj = dict_judge(g, obs, prop)
            if dj:
                whys.append(dj)
            for idx, what, sig in whys:
                rep = {'engine': 'rest', 'what': what, 'signature': sig, 'step_index': idx, 'found_by': 'extended search after the model/implementation divergence on a %s request' % corr['kind'],
                       'steps': [{'method': st['method'], 'path': st['path'], 'body': st['body'], 'kind': st['kind']} for st in g.steps[:idx + 12]],
                       'observed_status': [o[0] for o in obs[:idx + 12]]}
                if chk.violation(rep):
                    nviol += 1
                    break
        chk.notes.append('extended search ran %d further histories concentrated on %s requests' % (ext, corr['kind']))
    # ---- C18: arbitrary paths and methods
    if prop == 'C18' and nviol == 0 and ok:
        nreq, why = path_sweep()
        stats['path_sweep_requests'] = nreq
        if why:
            chk.violation({'engine': 'rest', 'what': why, 'signature': 'rest:C18:path-sweep'})
            nviol += 1
    # ---- C18: a request that takes long
    if prop == 'C18' and nviol == 0 and ok:
        why = slow_backend_leg()
        stats['slow_backend_leg'] = 1
        if why:
            chk.violation({'engine': 'rest', 'what': why, 'signature': 'rest:C18:slow-backend'})
            nviol += 1
    # ---- C18: embedded constructor
    if prop == 'C18' and nviol == 0:
        cases, res, bad, (rc, err) = ctor_probe(chk)
        stats['ctor_cases'] = len(res)
        if len(res) != len(cases):
            chk.violation({'engine': 'ctor', 'what': 'constructor probe died: rc=%s %s' % (rc, err[-300:]), 'signature': 'rest:C18:ctor-died'})
            nviol += 1
        elif bad:
            chk.violation({'engine': 'ctor', 'what': 'NewCollection accepted options (dim, quantization, metric) = %s but the collection cannot store a document of its dimension: %s' % bad[0],
                           'signature': 'rest:C18:ctor-accepts-unusable'})
            nviol += 1
    if nviol == 0:
        if corr:
            corr['unproved'] = 'correspondence between coq/Model/Rest.v and rest.go no longer holds on channel ' + corr['channel']
            chk.violation(corr, tag='correspondence', no_input=True)
        elif broken:
            chk.violation({'engine': 'proof', 'unproved': broken, 'what': 'a proof obligation no longer checks; no failing input found'}, tag='proof', no_input=True)
    chk.cov.update({'programs': stats['histories'], 'evaluations': stats['requests'], 'distinct_nontrivial': stats['accepted_mutations'] + stats['rejected'],
                    'rule': 'request histories against a real server process (loopback): create (all quantisations, both metrics, bad names/metrics/dimensions/quantisations/bodies), batch inserts '
                            '(missing, null, short, long, empty vectors, text-only records, ids up to 2^64-1, wrong types), metadata updates and record deletes (bad and unknown ids), drops, searches '
                            '(GET and POST, listing pages, K, radius, filters valid and invalid, wrong-size vectors), garbage methods/paths, kill + restart inside the history; after every request the '
                            'collection list, the ids of every name and the full listing of every collection are requested. Non-trivial = state-changing requests (accepted or rejected)',
                    'disagreements_checked': stats['model_steps'], 'samples': samples, 'distribution': stats,
                    'correspondence': 'model and implementation agree on every response' if corr is None else 'DIVERGED', 'proof_obligations_broken': broken})
    chk.assumptions = [NOTE, 'net/http, encoding/json and the gzip middleware are exercised, not modelled; text-embedding requests need an external service and are only required to be answered']
    return chk.finish()
