"""C08 — no silent corruption: damaged bytes lose data, never alter it."""
import glob, json, os, random, shutil, struct, time, zlib
from common import *
from store import *
import chain

NOTE = ('theorems are about coq/Model/{Crc,Store}.v: the bit-serial CRC-32 and the scan/parse of arbitrary images; tied to spanfile.go by running the extracted model and the '
        'implementation on the same history followed by the same damage (XOR patches on the closed file, reopen) and comparing the open result, the state line (file length, '
        'sequence number, index, free map), ids and every document read afterwards; the property itself is judged by an independent oracle that knows every version ever written')


def base_history(rng, path, tier):
    q = rng.choice(QS)
    dim = rng.randint(1, 6)
    metric = rng.randint(0, 1)
    ops = [{'op': 40, 'dim': dim, 'q': q, 'metric': metric, 'json': options_json(path, metric, dim, q)}]
    pool = [rng.choice([1, 2, 7, 10, 99, 12345, 2 ** 32, 2 ** 64 - 1]) for _ in range(rng.randint(2, 6))]
    versions = {}
    live = {}
    seed = rng.randrange(1, 10 ** 6)
    for _ in range(rng.choice([4, 8, 14])):
        r = rng.random()
        id_ = rng.choice(pool)
        seed += 1
        n = rng.choice([0, 1, 5, 17, 40, 100, 126, 127, 128, 300, 1000])
        meta = P(seed=seed, n=n)
        if r < 0.6 or not live:
            vec = P(data=random_vec_bytes(rng, q, dim))
            ops.append({'op': 20, 'id': id_, 'vec': vec, 'meta': meta})
            live[id_] = (meta.bytes(), vec.bytes())
            versions.setdefault(id_, set()).add(live[id_])
        elif r < 0.8 and id_ in live:
            ops.append({'op': 21, 'id': id_, 'meta': meta})
            live[id_] = (meta.bytes(), live[id_][1])
            versions.setdefault(id_, set()).add(live[id_])
        elif id_ in live:
            ops.append({'op': 22, 'id': id_})
            del live[id_]
    if rng.random() < 0.35:
        # a last record larger than the growth quantum: the file grows by exactly its size, so the span ends flush with
        # the end of the file (no FREE span and no tail behind the damaged span)
        id_ = rng.choice(pool)
        meta, vec = P(seed=seed + 1, n=rng.choice([4200, 5000, 6100, 9000])), P(data=random_vec_bytes(rng, q, dim))
        ops.append({'op': 20, 'id': id_, 'vec': vec, 'meta': meta})
        live[id_] = (meta.bytes(), vec.bytes())
        versions.setdefault(id_, set()).add(live[id_])
    # the file is used before it is damaged: reopened (every span verified by the scan) and/or every document read,
    # all in the process that later opens the damaged file
    if rng.random() < 0.5:
        ops.append({'op': 30, 'mode': 1})
    for id_ in sorted(set(pool)):
        ops.append({'op': 23, 'id': id_})
    return ops, versions, live, {'dim': dim, 'q': q, 'metric': metric}


def layout(img):
    """byte classes of the image: list of (class, span index, start, end)"""
    spans, problems = chain.walk(img)
    out = []
    for si, s in enumerate(spans):
        o, L = s['off'], s['len']
        if s['kind'] == 'A':
            out.append(('magic', si, o, o + 4))
            out.append(('length', si, o + 4, o + 8))
            at = o + 8
            # seq, idlen, id, nstreams, streams (header/varint/data), padding, crc
            end_body = o + L - 4 - s['pad']
            data_total = sum(len(d) for _, d in s['streams'])
            out.append(('fields', si, at, max(at, end_body - data_total)))          # varints, id, stream headers (approximate split: headers first)
            out.append(('payload', si, max(at, end_body - data_total), end_body))
            if s['pad']:
                out.append(('padding', si, end_body, o + L - 4))
            out.append(('crc', si, o + L - 4, o + L))
        elif s['kind'] == 'F':
            out.append(('free_header', si, o, o + 8))
            if L > 8:
                out.append(('free_body', si, o + 8, o + L))
        else:
            out.append(('tail', si, o, o + L))
    return spans, out


def burst_patches(rng, start_bit, nbits, total_bits):
    """a random non-zero pattern inside the window [start_bit, start_bit + nbits) in register order (bit i of byte j = 8 j + i)"""
    nbits = min(nbits, total_bits - start_bit)
    pat = rng.getrandbits(nbits) | 1 | (1 << (nbits - 1))
    masks = {}
    for k in range(nbits):
        if pat >> k & 1:
            b = start_bit + k
            masks[b // 8] = masks.get(b // 8, 0) | (1 << (b % 8))
    return sorted(masks.items())


def gen_damage(rng, img, spans, classes, tier):
    """yields (description, patches, judged) — judged: 'body' (burst inside checksummed bytes of one active span, header words untouched),
       'crc' (inside the checksum field), 'header' (touches magic/length or FREE header or tail), 'any'"""
    out = []
    act = [(c, si, a, b) for c, si, a, b in classes if spans[si]['kind'] == 'A']
    # every single-bit flip of every header/field/crc byte and of a sample of payload bytes
    for c, si, a, b in classes:
        rng_bytes = range(a, b)
        if c in ('payload', 'free_body', 'tail', 'padding') and (b - a) > 12:
            rng_bytes = sorted(set([a, a + 1, b - 1, b - 2] + [rng.randrange(a, b) for _ in range(6 if tier == 'quick' else 60)]))
        for off in rng_bytes:
            bits = range(8) if c not in ('payload', 'free_body', 'tail') else [rng.randrange(8)]
            for bit in bits:
                kind = 'body' if c in ('fields', 'payload', 'padding') else ('crc' if c == 'crc' else 'header')
                out.append(('flip %s span %d byte %d bit %d' % (c, si, off, bit), [(off, 1 << bit)], kind, si))
    # bursts of up to 32 bits inside the checksummed bytes of one active span (beyond its 8 header bytes) and inside its checksum field
    for s_i, s in enumerate(spans):
        if s['kind'] != 'A':
            continue
        lo, hi = (s['off'] + 8) * 8, (s['off'] + s['len'] - 4) * 8
        for _ in range(6 if tier == 'quick' else 40):
            nb = rng.choice([2, 3, 8, 9, 16, 17, 24, 31, 32])
            if hi - lo < nb:
                continue
            st = rng.choice([lo, hi - nb, rng.randrange(lo, hi - nb + 1)])
            out.append(('burst %d bits at bit %d of span %d (checksummed bytes)' % (nb, st - s['off'] * 8, s_i), burst_patches(rng, st, nb, hi), 'body', s_i))
        clo = hi
        for _ in range(3 if tier == 'quick' else 12):
            nb = rng.choice([2, 8, 17, 32])
            st = clo + rng.randrange(0, 32 - nb + 1)
            out.append(('burst %d bits inside the checksum field of span %d' % (nb, s_i), burst_patches(rng, st, nb, clo + 32), 'crc', s_i))
        # bursts over magic/length words and byte-aligned ones anywhere
        for _ in range(3 if tier == 'quick' else 12):
            nb = rng.choice([8, 16, 32])
            st = s['off'] * 8 + rng.randrange(0, 64 - nb + 1)
            out.append(('burst %d bits over the header words of span %d' % (nb, s_i), burst_patches(rng, st, nb, s['off'] * 8 + 64), 'header', s_i))
    # damage confined to the checksum field that equals the syndrome of a single flipped bit elsewhere in the span:
    # indistinguishable, for the checksum, from that one-bit error; the document may be lost, never "corrected" into other contents
    import zlib
    for s_i, s in enumerate(spans):
        if s['kind'] != 'A' or s['len'] < 24:
            continue
        o, L = s['off'], s['len']
        body = bytes(img[o:o + L - 4])
        c0 = zlib.crc32(body)
        if c0 != int.from_bytes(bytes(img[o + L - 4:o + L]), 'big'):
            continue
        for _ in range(2 if tier == 'quick' else 10):
            b = rng.randrange(8 * 8, 8 * (L - 4))
            flipped = bytearray(body)
            flipped[b // 8] ^= 1 << (b % 8)
            delta = c0 ^ zlib.crc32(bytes(flipped))
            out.append(('checksum field XOR syndrome of bit %d of span %d' % (b, s_i), [(o + L - 4 + k, (delta >> (24 - 8 * k)) & 0xff) for k in range(4) if (delta >> (24 - 8 * k)) & 0xff], 'crc', s_i))
    # two bursts in two different active spans
    acts = [i for i, s in enumerate(spans) if s['kind'] == 'A' and s['len'] >= 20]
    for _ in range(4 if tier == 'quick' else 30):
        if len(acts) < 2:
            break
        i, j = rng.sample(acts, 2)
        ps = []
        for k in (i, j):
            s = spans[k]
            lo, hi = (s['off'] + 8) * 8, (s['off'] + s['len'] - 4) * 8
            nb = min(rng.choice([1, 8, 32]), hi - lo)
            ps += burst_patches(rng, rng.randrange(lo, hi - nb + 1), nb, hi)
        out.append(('bursts in spans %d and %d' % (i, j), ps, 'body2', (i, j)))
    rng.shuffle(out)
    out.sort(key=lambda c: not c[0].startswith('checksum field XOR syndrome'))      # these few always run
    return out


def run_case(ops, patches, mode, ids, path):
    text_ops = ops + [{'op': 60, 'mode': mode, 'coll': 1, 'patches': patches}, {'op': 24}, {'op': 26, 'fk': 0, 'fa': 1, 'fb': 0, 'off': 0, 'lim': 0}] + [{'op': 23, 'id': i} for i in ids]
    text = render(text_ops)
    g, grc, gerr = run_harness(['store', path], text, timeout=120)
    return text, text_ops, g, grc, gerr


def parse_after(lines, nbase_lines):
    """lines after the base history: '60 st', state line, '24 ...', '23 ...' per id"""
    rest = lines[nbase_lines:]
    return rest


def check(tier, seed, replay=None):
    chk = Check('C08', tier, seed)
    build = build_all()
    broken = proof_coverage(chk, 'C08', build) + list(build['problems'])
    rng = random.Random(seed * 1000003 + 503)
    path = data_path('C08')
    nfiles = 3 if tier == 'quick' else 20
    per_file = 260 if tier == 'quick' else 3000
    stats = {'files': 0, 'damage_cases': 0, 'by_kind': {}, 'open_failed': 0, 'documents_lost': 0, 'documents_intact': 0, 'detected_body_or_crc': 0, 'read_only_opens': 0, 'known_probes': 0}
    samples = []
    nviol = 0
    corr = None
    t_end = time.time() + (2700 if tier == 'thorough' else 420)
    snapdir = os.path.join(WORK, 'snap_c08_%d' % os.getpid())

    def final_image(ops):
        shutil.rmtree(snapdir, ignore_errors=True)
        os.makedirs(snapdir)
        g, rc, err = run_harness(['store', path], render(ops), env=dict(os.environ, VERIF_SNAPDIR=snapdir))
        files = sorted(glob.glob(os.path.join(snapdir, '*')), key=lambda p: int(''.join(ch for ch in os.path.basename(p) if ch.isdigit()) or 0))
        img = open(files[-1], 'rb').read() if files else b''
        shutil.rmtree(snapdir, ignore_errors=True)
        return img, g

    def judge(desc, kind, where, spans, live, versions, ids, g_after, m_after):
        """returns (violation text or None, correspondence text or None)"""
        if not g_after:
            return 'the harness produced no output for the damaged open (process died)', None
        f60 = g_after[0].split()
        m60 = m_after[0].split() if m_after else ['60', '?']
        if f60[:1] != ['60']:
            return 'unexpected harness output ' + g_after[0][:60], None
        if f60[1] == '2':
            return 'opening the damaged file panicked', None
        if f60[1] == '4':
            return 'the damaged file was opened with dimension, quantisation or metric other than those it was created with (the options passed to the open replaced the stored ones)', None
        co = None
        if f60[1] != m60[1]:
            co = 'open result differs: implementation %s, model %s' % (f60[1], m60[1])
        if f60[1] == '1':
            stats['open_failed'] += 1
            return None, co
        # opened: compare everything after with the model
        if co is None and g_after != m_after:
            k = next(i for i in range(max(len(g_after), len(m_after))) if i >= len(g_after) or i >= len(m_after) or g_after[i] != m_after[i])
            co = 'after the damaged open line %d differs: implementation %r, model %r' % (k, (g_after[k] if k < len(g_after) else None)[:120] if k < len(g_after) else None, (m_after[k] if k < len(m_after) else None)[:120] if k < len(m_after) else None)
        # oracle: ids and documents
        idl = next((l.split() for l in g_after if l.startswith('24 ')), None)
        if idl is None:
            return 'no id list after the damaged open', co
        if len(idl) == 2 and idl[1] == '2':
            return 'GetAllIDs panicked after the damaged open', co
        got_ids = [int(x) for x in idl[2:]]
        docs = {}
        gl = [l.split() for l in g_after if l.startswith('23 ')]
        for id_, f in zip(ids, gl):
            if len(f) == 2 and f[1] == '2':
                return 'GetDocument(%d) panicked after the damaged open' % id_, co
            if f[1] == '0' and len(f) == 6:
                docs[id_] = (int(f[2]), int(f[3]), int(f[4]), int(f[5]))     # meta len, meta hash, vec len, vec hash
        for id_ in got_ids:
            if id_ not in versions:
                return 'id %d is listed although it was never written (fabricated)' % id_, co
        # the listing search reads metadata through another path (SpanReader.getStream)
        ll = next((l.split() for l in g_after if l.startswith('26 ')), None)
        if ll is not None:
            if len(ll) == 2 and ll[1] == '2':
                return 'the listing search panicked after the damaged open', co
            rows = [(int(ll[3 + 3 * i]), int(ll[4 + 3 * i]), int(ll[5 + 3 * i])) for i in range(int(ll[2]))] if len(ll) > 2 else []
            for id_, ml, mh in rows:
                if id_ not in versions:
                    return 'the listing returns id %d, which was never written (fabricated)' % id_, co
                if not any((len(m), hash_bytes(m)) == (ml, mh) for m, v in versions[id_]):
                    return 'the listing returns metadata for document %d that was never written for that id (altered)' % id_, co
        for id_, d in docs.items():
            ok = any((len(m), hash_bytes(m), len(v), hash_bytes(v)) == d for m, v in versions.get(id_, ()))
            if not ok:
                return 'document %d reads as something that was never written for that id (altered)' % id_, co
        # loss only: damage confined to one record's checksummed bytes / checksum loses at most that document
        if kind in ('body', 'crc', 'body2'):
            hit = {where} if not isinstance(where, tuple) else set(where)
            hit_rids = {spans[i]['rid'] for i in hit}
            if b'' in hit_rids:
                return None, co          # the options record itself: the collection cannot be opened or is unusable
            for id_, (m, v) in live.items():
                if str(id_).encode() in hit_rids:
                    if id_ in docs:
                        # an undetected change would have been caught above as "altered" unless the damaged bytes were padding
                        pass
                    else:
                        stats['documents_lost'] += 1
                    continue
                if docs.get(id_) != (len(m), hash_bytes(m), len(v), hash_bytes(v)):
                    return 'document %d, whose span was not touched, is no longer readable with its last written content' % id_, co
                stats['documents_intact'] += 1
            if kind in ('body', 'crc'):
                lost = [i for i in live if str(i).encode() in hit_rids and i not in docs]
                if lost or all(str(i).encode() not in hit_rids for i in live):
                    stats['detected_body_or_crc'] += 1
        return None, co

    if replay is not None and 'ops' in replay:
        ops = rebase_ops(ops_from_js(replay['ops']), path)
        ids = replay.get('ids') or sorted({o['id'] for o in ops if o.get('op') in (20, 21)})
        text, text_ops, g, grc, gerr = run_case(ops, [tuple(p) for p in replay['patches']], replay.get('mode', 1), ids, path)
        m, mrc, merr = run_oracle(text)
        k = next((i for i, l in enumerate(g) if l.startswith('60 ')), len(g))
        print('damage: %s' % replay.get('damage'))
        print('implementation after the damaged open:', g[k:k + 4 + len(ids)])
        print('model after the damaged open:         ', m[k:k + 4 + len(ids)])
        print('reported: %s' % replay.get('what'))
        return 0
    corpus = sorted(glob.glob(os.path.join(VERIF, 'corpus', 'C08', '*.json')))
    for fi in range(nfiles):
        if time.time() > t_end or nviol >= 3:
            break
        ops, versions, live, info = base_history(rng, path, tier)
        img, gbase = final_image(ops)
        if not img:
            chk.violation({'engine': 'corrupt', 'what': 'no image of the base file', 'signature': 'corrupt:noimage'})
            nviol += 1
            break
        nbase = len(gbase)
        spans, classes = layout(img)
        ids = sorted(versions)
        stats['files'] += 1
        cases = gen_damage(rng, img, spans, classes, tier)[:per_file]
        # the two recorded format-level findings, probed on the first active document span of every file
        probes = []
        for si, s in enumerate(spans):
            if s['kind'] == 'A' and s['rid'] != b'' and s['len'] - s['pad'] >= 30 and str(s['rid'].decode()) .isdigit() and int(s['rid']) in live:
                end = s['off'] + s['len'] - 4
                last = end - 1
                probes.append(('straddle: top bit of the last checksummed byte and checksum field XOR ED B8 83 20 (span %d)' % si,
                               [(last, 0x80), (end, 0xED), (end + 1, 0xB8), (end + 2, 0x83), (end + 3, 0x20)], 'known:straddle', si))
                p0 = s['off'] + s['len'] - 4 - s['pad'] - 6
                probes.append(('MSB-first numbered 31-bit pattern 0A 1E E9 D5 E0 over five payload bytes (span %d)' % si,
                               [(p0 + k, m) for k, m in enumerate(bytes.fromhex('0A1EE9D5E0'))], 'known:msbfirst', si))
                break
        for ci, (desc, patches, kind, where) in enumerate(probes + cases):
            if time.time() > t_end or nviol >= 3:
                break
            mode = 2 if rng.random() < 0.3 else 1
            text, text_ops, g, grc, gerr = run_case(ops, patches, mode, ids, path)
            m, mrc, merr = run_oracle(render(with_observed_growth(text_ops, g)))
            stats['damage_cases'] += 1
            stats['by_kind'][kind] = stats['by_kind'].get(kind, 0) + 1
            stats['read_only_opens'] += 1 if mode == 2 else 0
            g_after, m_after = g[nbase:], m[nbase:]
            if g[:nbase] != gbase:
                why, co = 'the base history did not replay identically', None
            else:
                why, co = judge(desc, 'any' if kind.startswith('known') else kind, where, spans, live, versions, ids, g_after, m_after)
            if kind.startswith('known'):
                stats['known_probes'] += 1
                if why:
                    sig = 'corrupt:' + kind
                    if chk.violation({'engine': 'corrupt', 'what': why, 'damage': desc, 'patches': patches, 'mode': mode, 'ops': ops_to_js(ops), 'signature': sig}):
                        nviol += 1
                continue
            if len(samples) < 3:
                samples.append({'collection': info, 'damage': desc, 'patches': patches, 'implementation_after': g_after[:3], 'model_after': m_after[:3]})
            if why:
                if chk.violation({'engine': 'corrupt', 'what': why, 'damage': desc, 'patches': patches, 'mode': mode, 'ops': ops_to_js(ops), 'ids': ids,
                                  'signature': 'corrupt:' + why[:40]}):
                    nviol += 1
            elif co and corr is None:
                corr = {'engine': 'corrupt', 'channel': 'X.store.damaged', 'what': co, 'damage': desc, 'patches': patches, 'mode': mode, 'ops': ops_to_js(ops), 'ids': ids}
    if replay is not None:
        pass
    if nviol == 0:
        if corr:
            corr['unproved'] = 'correspondence between the scan/recovery model (coq/Model/Store.v, extracted) and spanfile.go on damaged images no longer holds'
            chk.violation(corr, tag='correspondence', no_input=True)
        elif broken:
            chk.violation({'engine': 'proof', 'unproved': broken, 'what': 'a proof obligation no longer checks; no failing input found'}, tag='proof', no_input=True)
    chk.cov.update({'programs': stats['files'], 'evaluations': stats['damage_cases'], 'distinct_nontrivial': stats['damage_cases'] - stats['known_probes'],
                    'rule': 'files left by collection histories (all quantisations, payloads 0..1000 bytes around the 7-bit length boundary, overwrites, updates, removals); damage: every single-bit flip of every '
                            'magic, length, field and checksum byte and of sampled payload/padding/free/tail bytes; bursts of 2..32 bits in register order inside the checksummed bytes, inside the checksum field, '
                            'over the header words; pairs of bursts in two spans; each damaged file opened read-write or read-only by the implementation and by the extracted model. Non-trivial = every case (all distinct offsets/patterns)',
                    'disagreements_checked': stats['damage_cases'], 'samples': samples, 'distribution': stats,
                    'correspondence': 'model and implementation agree on every damaged image' if corr is None else 'DIVERGED', 'proof_obligations_broken': broken})
    chk.assumptions = [NOTE, 'partial: damage to magic/length words and desynchronised walks are covered by C08_scan_sound (nothing fabricated unless a checksum-valid window is hit) and by enumeration, not by the loss-only theorem',
                       'known format-level findings (KNOWN_FINDINGS.json): a <=32-bit window straddling the last checksummed byte and the big-endian checksum field, and 31/32-bit patterns when bits are numbered most-significant-first, can go undetected']
    try:
        os.remove(path)
    except OSError:
        pass
    return chk.finish()
